//go:build verif

package load

// C09 — adaptive shedder monitor (DESIGN.md §3 C09, shedder half).
//
// The real adaptiveShedder runs under the virtual clock with the package variable
// systemOverloadChecker replaced by a scripted CPU reading. A reference keeps the
// list of outstanding promises, the time of the last overload reading and its own
// copy of the pass/latency windows (bucket index -> passes, latency sum). Asserted
// (and nothing else):
//   (1) CPU below threshold now and no overload reading within the last virtual
//       second (strictly more than 1 s ago, or never)  =>  Allow admits;
//   (2) Allow rejects => overload now or an overload reading <= 1 s ago, AND the
//       number of outstanding admitted requests > capacity AND the shedder's own
//       smoothed in-flight value > capacity, capacity = maxPass x buckets-per-second
//       x min(1000, min per-bucket mean latency ms) / 1000 over the complete
//       (non-current) buckets of the reference windows, 0 when they are empty; the
//       per-bucket mean is the EXACT mean of the true latencies (nanoseconds), relaxed
//       to the millisecond-granular value round(mean(ceil(latency ms))) when that is
//       smaller (whole-ms bookkeeping that never under-states a sample is accepted);
//   (3) whenever every admitted request has reported Pass or Fail, flying == 0;
//       flying is never negative; the smoothed value stays within [0, max outstanding].
// The reference capacity is never larger than what the statement allows (no lower
// bound of 1, no defaults for empty windows), so a shedder that rejects less is never
// reported; a shedder that under-states latencies (e.g. truncates them) is.

import (
	"fmt"
	"math"
	"math/rand"
	"runtime"
	"sync"
	"sync/atomic"
	"testing"
	"time"

	"github.com/gotid/god/lib/collection"
	"github.com/gotid/god/lib/logx"
	"github.com/gotid/god/lib/stat"
	"github.com/gotid/god/lib/timex"
	"verif.local/vk"
)

// ---- adapter: every access to unexported state of the package is here ----

var (
	c09CPU          int64 // scripted CPU reading (atomic)
	c09CheckerCalls int64 // calls of the scripted checker (atomic)
)

func c09InstallChecker() (restore func()) {
	old := systemOverloadChecker
	systemOverloadChecker = func(threshold int64) bool {
		atomic.AddInt64(&c09CheckerCalls, 1)
		return atomic.LoadInt64(&c09CPU) >= threshold
	}
	return func() { systemOverloadChecker = old }
}

func c09Flying(s Shedder) int64 { return atomic.LoadInt64(&s.(*adaptiveShedder).flying) }

func c09AvgFlying(s Shedder) float64 {
	as := s.(*adaptiveShedder)
	as.avgFlyingLock.Lock()
	defer as.avgFlyingLock.Unlock()
	return as.avgFlying
}

func c09PassWindowTotal(s Shedder) (sum float64, count int64) {
	s.(*adaptiveShedder).passCounter.Reduce(func(b *collection.Bucket) {
		sum += b.Sum
		count += b.Count
	})
	return
}

func c09NewNop() Shedder {
	enabled.Set(false)
	defer enabled.Set(true)
	return NewAdaptiveShedder()
}

// ---- scenario ----

type c09Op struct {
	Op string `json:"op"`          // arr | pass | fail | adv (ms) | advu (microseconds) | cpu
	I  int    `json:"i,omitempty"` // pass/fail: index into the outstanding list (mod len)
	S  int    `json:"s,omitempty"` // arr/pass/fail: which shedder of the trace (mod number of shedders)
	D  int64  `json:"d,omitempty"` // adv: milliseconds; advu: microseconds; cpu: reading
}

type c09Trace struct {
	BucketMs  int64      `json:"bucket_ms"`
	Buckets   int        `json:"buckets"`
	Threshold int64      `json:"cpu_threshold"`
	CPU0      int64      `json:"cpu0"`
	More      []c09ShCfg `json:"more_shedders,omitempty"` // further shedders living in the same process
	Ops       []c09Op    `json:"ops"`
}

type c09ShCfg struct {
	BucketMs  int64 `json:"bucket_ms"`
	Buckets   int   `json:"buckets"`
	Threshold int64 `json:"cpu_threshold"`
	// the shedder is built WITHOUT the corresponding option(s); BucketMs/Buckets/Threshold
	// then hold the package defaults it must behave by
	OmitThreshold bool `json:"omit_threshold_option,omitempty"`
	OmitWindow    bool `json:"omit_window_options,omitempty"`
}

// c09Defaults returns the effective configuration of a shedder built without options.
func c09Defaults() c09ShCfg {
	return c09ShCfg{BucketMs: int64(defaultWindow/time.Duration(defaultBuckets)) / c09Ms, Buckets: defaultBuckets, Threshold: defaultCpuThreshold}
}

type c09RB struct{ passes, rtSumNs, rtSumCeilMs, n int64 }

type c09Out struct {
	p     Promise
	start int64 // virtual ns
}

type c09ShObs struct {
	admitted, rejected            int64
	clause1Checked                int64 // Allow calls with the precondition of (1) true
	clause1AfterCoolOff           int64 // ... of which an overload reading existed, > 1 s ago
	clause1OtherShedderHot        int64 // ... of which another shedder of the trace took an overload reading < 1 s ago
	clause2Checked                int64 // rejections (each checked against (2))
	rejectedOverloadedNow         int64
	rejectedStillHot              int64
	boundaryExactly1s             int64 // Allow exactly 1000 ms after the last overload reading (not asserted either way)
	capacityFromWindow            int64 // rejections at which the reference windows were non-empty (capacity > 0)
	passes, fails                 int64
	passesFractional, passesSubMs int64 // Pass calls whose latency is not a whole ms / is below 1 ms
	quiescenceChecks              int64
	maxOutstanding, checkerCalls  int64
	lastRejectDetail, lastAdmitAt string
}

const c09Ms = int64(time.Millisecond)

// c09Cap returns the reference capacity (real number of requests) at bucket cur.
func c09Cap(win map[int64]*c09RB, cur int64, buckets int, bps int64) (capacity float64, maxPass int64, minRt float64) {
	minRt = -1
	for i := cur - int64(buckets) + 1; i <= cur-1; i++ {
		b := win[i]
		if b == nil || b.n == 0 {
			continue
		}
		if b.passes > maxPass {
			maxPass = b.passes
		}
		mean := float64(b.rtSumNs) / float64(b.n) / float64(c09Ms) // exact mean latency, ms
		if g := math.Round(float64(b.rtSumCeilMs) / float64(b.n)); g < mean {
			mean = g // millisecond-granular bookkeeping (samples rounded up, mean rounded) is accepted
		}
		if mean > 1000 {
			mean = 1000
		}
		if minRt < 0 || mean < minRt {
			minRt = mean
		}
	}
	if minRt < 0 {
		return 0, 0, 0
	}
	return float64(maxPass*bps) * minRt / 1000, maxPass, minRt
}

// c09Side is the reference state kept for one shedder of a trace.
type c09Side struct {
	sh        Shedder
	threshold int64
	buckets   int
	bucketNs  int64
	bps       int64
	outst     []c09Out
	win       map[int64]*c09RB
	hasOver   bool
	tOver     int64
	maxOut    int64
	tag       string // "" for single-shedder traces, ":shedder-N-of-M" otherwise (signature suffix)
}

// c09RunTrace runs one sequential trace against fresh shedder(s): the primary one
// (BucketMs/Buckets/Threshold) plus tr.More; op.S selects the shedder. All shedders
// share the virtual clock and the scripted CPU reading, and each Allow is judged
// against the readings its own shedder took (its own threshold, its own Allow calls).
func c09RunTrace(m *vk.M, idx int, tr c09Trace, obs *c09ShObs) {
	desc := func() string { return fmt.Sprintf("case=%d;%s", idx, vk.JSON(tr)) }
	startNs := (1_000_000 + int64(idx%1000)) * tr.BucketMs * c09Ms // on the bucket grid
	if len(tr.More) > 0 {
		startNs = (1_000_000 + int64(idx%1000)) * 1000 * c09Ms // whole seconds: on every bucket grid used
	}
	timex.VerifFakeClock(time.Duration(startNs))
	atomic.StoreInt64(&c09CPU, tr.CPU0)
	cfgs := append([]c09ShCfg{{BucketMs: tr.BucketMs, Buckets: tr.Buckets, Threshold: tr.Threshold}}, tr.More...)
	sides := make([]*c09Side, len(cfgs))
	for k, c := range cfgs {
		var opts []ShedderOption
		if c.OmitWindow {
			c.BucketMs, c.Buckets = c09Defaults().BucketMs, c09Defaults().Buckets
		} else {
			// round 13: a window that is not a multiple of the bucket count. The remainder is smaller than the
			// number of buckets, so window/buckets is the same bucket duration as without it (integer division);
			// a constructor that rounds the bucket duration up gets fewer buckets per second and a lower capacity.
			rem := time.Duration(0)
			if idx%2 == 1 {
				rem = time.Duration(int64(idx/2) % int64(c.Buckets))
			}
			opts = append(opts, WithWindow(time.Duration(c.BucketMs*c09Ms)*time.Duration(c.Buckets)+rem), WithBuckets(c.Buckets))
		}
		if c.OmitThreshold {
			c.Threshold = c09Defaults().Threshold
		} else {
			opts = append(opts, WithCpuThreshold(c.Threshold))
		}
		bns := c.BucketMs * c09Ms
		sd := &c09Side{threshold: c.Threshold, buckets: c.Buckets, bucketNs: bns, bps: 1000 / c.BucketMs, win: map[int64]*c09RB{}}
		sd.sh = NewAdaptiveShedder(opts...)
		if len(cfgs) > 1 {
			sd.tag = fmt.Sprintf(":shedder-%d-of-%d", k+1, len(cfgs))
		}
		sides[k] = sd
	}
	now := startNs // virtual ns
	cpu := tr.CPU0
	calls0 := atomic.LoadInt64(&c09CheckerCalls)
	defer func() { obs.checkerCalls += atomic.LoadInt64(&c09CheckerCalls) - calls0 }()

	invariants := func(step int, sd *c09Side) bool {
		f := c09Flying(sd.sh)
		if f < 0 {
			m.Violate("C09:shedder:flying-negative"+sd.tag, desc(), "step %d: flying=%d with %d admitted requests outstanding", step, f, len(sd.outst))
			return false
		}
		if len(sd.outst) == 0 {
			obs.quiescenceChecks++
			if f != 0 {
				m.Violate("C09:shedder:flying-nonzero-at-quiescence"+sd.tag, desc(), "step %d: every admitted request has reported Pass/Fail but flying=%d", step, f)
				return false
			}
		}
		if a := c09AvgFlying(sd.sh); a < -1e-9 || a > float64(sd.maxOut)+1e-9 {
			m.Violate("C09:shedder:avg-flying-out-of-range"+sd.tag, desc(), "step %d: smoothed in-flight value %.6f outside [0, max outstanding %d]", step, a, sd.maxOut)
			return false
		}
		return true
	}

	for step, op := range tr.Ops {
		sd := sides[op.S%len(sides)]
		switch op.Op {
		case "adv", "advu":
			d := op.D * c09Ms
			if op.Op == "advu" {
				d = op.D * int64(time.Microsecond)
			}
			timex.VerifAdvance(time.Duration(d))
			now += d
			for _, x := range sides {
				cur := (now - startNs) / x.bucketNs
				for i := range x.win {
					if i < cur-int64(x.buckets) {
						delete(x.win, i)
					}
				}
			}
		case "cpu":
			cpu = op.D
			atomic.StoreInt64(&c09CPU, cpu)
		case "pass", "fail":
			if len(sd.outst) == 0 {
				continue
			}
			j := op.I % len(sd.outst)
			o := sd.outst[j]
			sd.outst = append(sd.outst[:j], sd.outst[j+1:]...)
			if op.Op == "pass" {
				o.p.Pass()
				obs.passes++
				cur := (now - startNs) / sd.bucketNs
				b := sd.win[cur]
				if b == nil {
					b = &c09RB{}
					sd.win[cur] = b
				}
				b.passes++
				lat := now - o.start
				b.rtSumNs += lat
				b.rtSumCeilMs += (lat + c09Ms - 1) / c09Ms
				if lat%c09Ms != 0 {
					obs.passesFractional++
				}
				if lat < c09Ms {
					obs.passesSubMs++
				}
				b.n++
			} else {
				o.p.Fail()
				obs.fails++
			}
			if !invariants(step, sd) {
				return
			}
		case "arr":
			overNow := cpu >= sd.threshold
			since := now - sd.tOver
			cool := !overNow && (!sd.hasOver || since > 1000*c09Ms)
			hotWindow := sd.hasOver && since <= 1000*c09Ms
			cur := (now - startNs) / sd.bucketNs
			capacity, maxPass, minRt := c09Cap(sd.win, cur, sd.buckets, sd.bps)
			out := int64(len(sd.outst))
			avg := c09AvgFlying(sd.sh)
			if cool {
				obs.clause1Checked++
				if sd.hasOver {
					obs.clause1AfterCoolOff++
				}
				if len(sides) > 1 {
					for _, x := range sides {
						if x != sd && x.hasOver && now-x.tOver <= 1000*c09Ms {
							obs.clause1OtherShedderHot++ // cool for this shedder while a sibling saw overload < 1 s ago
							break
						}
					}
				}
			}
			if !overNow && sd.hasOver && since == 1000*c09Ms {
				obs.boundaryExactly1s++
			}
			ago := c09Ago(sd.hasOver, since)
			p, err := sd.sh.Allow()
			if overNow {
				sd.hasOver, sd.tOver = true, now
			}
			if err == nil {
				obs.admitted++
				sd.outst = append(sd.outst, c09Out{p: p, start: now})
				if int64(len(sd.outst)) > sd.maxOut {
					sd.maxOut = int64(len(sd.outst))
					if sd.maxOut > obs.maxOutstanding {
						obs.maxOutstanding = sd.maxOut
					}
				}
				if !invariants(step, sd) {
					return
				}
				continue
			}
			obs.rejected++
			obs.clause2Checked++
			state := fmt.Sprintf("virtual t=+%.3fms cpu=%d threshold=%d lastOverloadReading=%s outstanding=%d avgFlying=%.3f; reference window: maxPass/bucket=%d bucketsPerSecond=%d minMeanLatency=%.4fms capacity=%.3f",
				float64(now-startNs)/1e6, cpu, sd.threshold, ago, out, avg, maxPass, sd.bps, minRt, capacity)
			obs.lastRejectDetail = state
			if cool {
				sub := "never-overloaded"
				if sd.hasOver {
					sub = "after-cool-off"
				}
				m.Violate("C09:shedder:rejected-while-cool:"+sub+sd.tag, desc(), "step %d: Allow rejected although CPU is below this shedder's threshold and it took no overload reading within the last second (%s)", step, state)
				return
			}
			if overNow {
				obs.rejectedOverloadedNow++
			} else if hotWindow {
				obs.rejectedStillHot++
			}
			capReal := capacity * (1 - 1e-9)
			if capacity > 0 {
				obs.capacityFromWindow++
			}
			if !(float64(out) > capReal) {
				m.Violate("C09:shedder:rejected-below-capacity:flying"+sd.tag, desc(), "step %d: Allow rejected with in-flight requests not above the capacity estimated from the window (%s)", step, state)
				return
			}
			if !(avg > capReal) {
				m.Violate("C09:shedder:rejected-below-capacity:avg-flying"+sd.tag, desc(), "step %d: Allow rejected with the smoothed in-flight value not above the capacity estimated from the window (%s)", step, state)
				return
			}
			if !invariants(step, sd) {
				return
			}
		}
	}
	// quiescence: report every outstanding promise
	for _, sd := range sides {
		for i, o := range sd.outst {
			if i%5 == 0 {
				o.p.Fail()
				obs.fails++
			} else {
				o.p.Pass()
				obs.passes++
			}
		}
		sd.outst = nil
		invariants(len(tr.Ops), sd)
	}
}

func c09Ago(has bool, since int64) string {
	if !has {
		return "never"
	}
	return fmt.Sprintf("%.3fms ago", float64(since)/1e6)
}

func c09GenTrace(r *rand.Rand, nops int) c09Trace {
	tr := c09Trace{
		BucketMs:  []int64{50, 100, 200, 250, 500, 1000}[r.Intn(6)],
		Buckets:   []int{2, 3, 5, 10, 20, 50}[r.Intn(6)],
		Threshold: []int64{900, 500, 100, 950}[r.Intn(4)],
	}
	th := tr.Threshold
	low := func() int64 { return []int64{0, th - 1, th / 2, th - 1 - int64(r.Intn(int(th/2)))}[r.Intn(4)] }
	high := func() int64 { return []int64{th, th + 1, th + int64(r.Intn(500)), 1000}[r.Intn(4)] }
	tr.CPU0 = low()
	if r.Intn(4) == 0 {
		tr.CPU0 = high()
	}
	B := tr.BucketMs
	small := func() int64 {
		switch r.Intn(4) {
		case 0:
			return 1
		case 1:
			return 1 + int64(r.Intn(5))
		case 2:
			return 1 + r.Int63n(B/5)
		default:
			return B / int64([]int{2, 4, 5, 10}[r.Intn(4)])
		}
	}
	emit := func(op c09Op) { tr.Ops = append(tr.Ops, op) }
	complete := func() {
		if r.Intn(100) < 88 {
			emit(c09Op{Op: "pass", I: r.Intn(1 << 16)})
		} else {
			emit(c09Op{Op: "fail", I: r.Intn(1 << 16)})
		}
	}
	churn := func(rounds int) {
		for i := 0; i < rounds; i++ {
			switch r.Intn(4) {
			case 0:
			case 1: // fractional-millisecond step
				emit(c09Op{Op: "advu", D: 50 + int64(r.Intn(5000))})
			default:
				emit(c09Op{Op: "adv", D: small()})
			}
			complete()
			emit(c09Op{Op: "arr"})
		}
	}
	W := B * int64(tr.Buckets)
	for len(tr.Ops) < nops {
		switch r.Intn(12) {
		case 0, 1: // steady low concurrency: fills the windows with a small capacity
			lvl := 1 + r.Intn(8)
			for i := 0; i < lvl; i++ {
				emit(c09Op{Op: "arr"})
			}
			churn(20 + r.Intn(60))
		case 2: // burst
			for i, n := 0, 10+r.Intn(50); i < n; i++ {
				emit(c09Op{Op: "arr"})
			}
		case 3, 4:
			churn(10 + r.Intn(70))
		case 5: // drain
			for i, n := 0, 1+r.Intn(80); i < n; i++ {
				complete()
				if r.Intn(8) == 0 {
					emit(c09Op{Op: "adv", D: small()})
				}
			}
		case 6:
			d := []int64{1, 5, B / 2, B, 2 * B, 999, 1000, 1001, W - B, W, W + B, 3 * W}[r.Intn(12)]
			emit(c09Op{Op: "adv", D: d})
		case 7:
			if r.Intn(2) == 0 {
				emit(c09Op{Op: "cpu", D: high()})
			} else {
				emit(c09Op{Op: "cpu", D: low()})
			}
		case 8, 9, 10: // overload episode on top of a high in-flight level
			if r.Intn(2) == 0 {
				for i, n := 0, 15+r.Intn(50); i < n; i++ {
					emit(c09Op{Op: "arr"})
				}
				churn(25 + r.Intn(40))
			}
			emit(c09Op{Op: "cpu", D: high()})
			for i, n := 0, 2+r.Intn(8); i < n; i++ {
				emit(c09Op{Op: "arr"})
				if r.Intn(3) == 0 {
					emit(c09Op{Op: "adv", D: small()})
				}
				if r.Intn(4) == 0 {
					complete()
				}
			}
			emit(c09Op{Op: "cpu", D: low()})
			for i, n := 0, 1+r.Intn(4); i < n; i++ {
				d := []int64{0, 1, small(), 250, 500, 998, 999, 1000, 1001, 1002, 1500}[r.Intn(11)]
				if d > 0 {
					emit(c09Op{Op: "adv", D: d})
				}
				emit(c09Op{Op: "arr"})
				if r.Intn(2) == 0 {
					emit(c09Op{Op: "arr"})
				}
			}
		case 11: // micro ops
			for i, n := 0, 5+r.Intn(30); i < n; i++ {
				switch r.Intn(4) {
				case 0:
					emit(c09Op{Op: "arr"})
				case 1:
					complete()
				case 2:
					emit(c09Op{Op: "adv", D: small()})
				default:
					emit(c09Op{Op: "arr"})
				}
			}
		}
	}
	return tr
}

// c09GenPipeline builds a steady pipeline of c concurrent requests that each take
// exactly L = c*s (a fractional or sub-millisecond latency; by Little's law the
// capacity the statement defines is then ~c), followed by an overload phase that
// probes in-flight levels just below and far above that capacity.
func c09GenPipeline(r *rand.Rand) c09Trace {
	tr := c09Trace{
		BucketMs:  []int64{50, 100}[r.Intn(2)],
		Buckets:   []int{3, 5, 10}[r.Intn(3)],
		Threshold: 900,
		CPU0:      int64(r.Intn(900)),
	}
	emit := func(op c09Op) { tr.Ops = append(tr.Ops, op) }
	c := 4 + r.Intn(28)
	var lus int64 // target latency, microseconds
	switch r.Intn(4) {
	case 0:
		lus = 300 + int64(r.Intn(650)) // sub-millisecond
	case 1:
		lus = 1000*int64(1+r.Intn(6)) + 100 + int64(r.Intn(800)) // k.x ms
	case 2:
		lus = 1000*int64(1+r.Intn(4)) + 1 + int64(r.Intn(20)) // just above a whole ms
	default:
		lus = 1000*int64(1+r.Intn(4)) + 979 + int64(r.Intn(20)) // just below a whole ms
	}
	s := lus / int64(c)
	if s < 1 {
		s = 1
	}
	jitter := int64(0)
	if r.Intn(3) == 0 && s > 4 {
		jitter = 1 + r.Int63n(s/4)
	}
	step := func() {
		d := s
		if jitter > 0 {
			d += r.Int63n(2*jitter+1) - jitter
		}
		emit(c09Op{Op: "advu", D: d})
	}
	finish := func() { // FIFO: the oldest outstanding request completes
		if r.Intn(50) == 0 {
			emit(c09Op{Op: "fail", I: 0})
		} else {
			emit(c09Op{Op: "pass", I: 0})
		}
	}
	for i := 0; i < c; i++ {
		emit(c09Op{Op: "arr"})
		step()
	}
	perBucket := tr.BucketMs * 1000 / s
	steps := perBucket*int64(1+r.Intn(2)) + r.Int63n(perBucket+1)
	if r.Intn(5) == 0 {
		steps = perBucket/2 + r.Int63n(perBucket) // sometimes less than a complete bucket of data
	}
	if steps > 7000 {
		steps = 7000
	}
	for i := int64(0); i < steps; i++ {
		finish()
		emit(c09Op{Op: "arr"})
		step()
	}
	emit(c09Op{Op: "cpu", D: 900 + int64(r.Intn(200))})
	// probe levels at and just below the steady level
	for i, k := 0, r.Intn(c/2+1); i < k; i++ {
		finish()
		step()
	}
	for i, n := 0, c/2+r.Intn(c+1); i < n; i++ {
		emit(c09Op{Op: "arr"})
		if r.Intn(3) == 0 {
			finish()
			step()
		}
	}
	// far above: burst, then churn so that the smoothed value follows
	for i := 0; i < 2*c; i++ {
		emit(c09Op{Op: "arr"})
	}
	for i, n := 0, 30+r.Intn(40); i < n; i++ {
		finish()
		emit(c09Op{Op: "arr"})
		step()
	}
	emit(c09Op{Op: "cpu", D: int64(r.Intn(900))})
	emit(c09Op{Op: "arr"})
	emit(c09Op{Op: "adv", D: 1001})
	emit(c09Op{Op: "arr"})
	return tr
}

func c09Quiet() {
	logx.Disable()
	DisableLog()
	stat.SetReporter(nil)
}

// TestVerifC09ShedderTraces: seeded sequential traces under the virtual clock.
func TestVerifC09ShedderTraces(t *testing.T) {
	m := vk.New(t, "C09", "seeded traces (arrivals, Pass/Fail of a random outstanding request, whole-ms virtual-time advances incl. 999/1000/1001 ms after the last overload reading and gaps up to 3 windows, scripted CPU readings around the threshold) over bucket in {50ms..1s} x buckets in {2..50} x threshold; every Allow is checked against implications (1) and (2) with a reference copy of the windows, flying against the outstanding list at every quiescent point; non-trivial = the trace contained a rejection and an admission forced by (1)")
	defer m.Done()
	c09Quiet()
	restore := c09InstallChecker()
	defer restore()
	defer timex.VerifRealClock()
	n := vk.N(500, 15000)
	r := m.Rand("traces")
	obs := &c09ShObs{}
	for idx := 1; idx <= n; idx++ {
		tr := c09GenTrace(r, 400+r.Intn(600))
		if !m.Only(idx) {
			continue
		}
		before := *obs
		m.Current(fmt.Sprintf("case=%d", idx))
		c09RunTrace(m, idx, tr, obs)
		nontrivial := obs.rejected > before.rejected && obs.clause1Checked > before.clause1Checked
		m.Case(vk.Digest(vk.JSON(tr)), nontrivial)
		if m.WantSample() && obs.rejected > before.rejected && idx%61 == 1 {
			short := tr
			if len(short.Ops) > 10 {
				short.Ops = short.Ops[:10]
			}
			m.Sample(map[string]any{"trace_first_10_ops": short, "ops": len(tr.Ops),
				"admitted": obs.admitted - before.admitted, "rejected": obs.rejected - before.rejected,
				"passes": obs.passes - before.passes, "fails": obs.fails - before.fails,
				"forced_admissions_checked": obs.clause1Checked - before.clause1Checked,
				"last_rejection_state":      obs.lastRejectDetail})
		}
		if idx%100 == 0 {
			m.Progress()
		}
	}
	m.Count("allow_admitted", obs.admitted)
	m.Count("allow_rejected", obs.rejected)
	m.Count("clause1_forced_admissions_checked", obs.clause1Checked)
	m.Count("clause1_after_cool_off_expired", obs.clause1AfterCoolOff)
	m.Count("clause2_rejections_checked", obs.clause2Checked)
	m.Count("rejected_while_overloaded_now", obs.rejectedOverloadedNow)
	m.Count("rejected_within_cool_off_second", obs.rejectedStillHot)
	m.Count("rejections_with_window_derived_capacity", obs.capacityFromWindow)
	m.Count("allow_exactly_1000ms_after_overload_unasserted", obs.boundaryExactly1s)
	c09CountObs(m, obs)
}

func c09CountObs(m *vk.M, obs *c09ShObs) {
	m.Count("pass", obs.passes)
	m.Count("pass_with_fractional_ms_latency", obs.passesFractional)
	m.Count("pass_with_sub_ms_latency", obs.passesSubMs)
	m.Count("fail", obs.fails)
	m.Count("quiescence_checks_flying_zero", obs.quiescenceChecks)
	m.Count("scripted_cpu_checker_calls", obs.checkerCalls)
	m.Max("max_outstanding", obs.maxOutstanding)
}

// TestVerifC09ShedderFractional: steady pipelines with fractional / sub-millisecond
// latencies (microsecond virtual-time steps), then overload at in-flight levels just
// below and far above the capacity the statement defines from the exact latencies.
func TestVerifC09ShedderFractional(t *testing.T) {
	m := vk.New(t, "C09", "seeded pipelines: c in 4..31 concurrent requests each taking c*s microseconds (sub-ms, k.x ms, just above / just below a whole ms; optional jitter) for 0.5-3 buckets, then CPU above threshold with arrivals at levels from c/2 to 3c, completions in between; every Allow checked against (1) and (2) with the capacity computed from the exact latencies; non-trivial = a rejection occurred and fractional latencies were recorded")
	defer m.Done()
	c09Quiet()
	restore := c09InstallChecker()
	defer restore()
	defer timex.VerifRealClock()
	n := vk.N(240, 5000)
	r := m.Rand("pipeline")
	obs := &c09ShObs{}
	for idx := 1; idx <= n; idx++ {
		tr := c09GenPipeline(r)
		if !m.Only(idx) {
			continue
		}
		before := *obs
		m.Current(fmt.Sprintf("case=%d", idx))
		c09RunTrace(m, idx, tr, obs)
		m.Case(vk.Digest(vk.JSON(tr)), obs.rejected > before.rejected && obs.passesFractional > before.passesFractional)
		if m.WantSample() && obs.rejected > before.rejected && idx%37 == 1 {
			short := tr
			if len(short.Ops) > 8 {
				short.Ops = short.Ops[:8]
			}
			m.Sample(map[string]any{"trace_first_8_ops": short, "ops": len(tr.Ops),
				"admitted": obs.admitted - before.admitted, "rejected": obs.rejected - before.rejected,
				"passes_fractional_latency": obs.passesFractional - before.passesFractional,
				"passes_sub_ms_latency":     obs.passesSubMs - before.passesSubMs,
				"last_rejection_state":      obs.lastRejectDetail})
		}
		if idx%50 == 0 {
			m.Progress()
		}
	}
	m.Count("allow_admitted", obs.admitted)
	m.Count("allow_rejected", obs.rejected)
	m.Count("clause1_forced_admissions_checked", obs.clause1Checked)
	m.Count("clause2_rejections_checked", obs.clause2Checked)
	m.Count("rejections_with_window_derived_capacity", obs.capacityFromWindow)
	c09CountObs(m, obs)
}

// c09GenPair builds a trace for two shedders with different CPU thresholds living in
// one process (api/engine.go builds exactly that for normal and priority routes): a
// random single-shedder trace whose request ops are dealt to the two shedders in runs,
// with "cross-talk" episodes spliced in: the high-threshold shedder is driven into
// shedding, then the CPU reading settles between the two thresholds while the
// low-threshold shedder keeps taking (for it) overloaded readings, and the
// high-threshold shedder is asked again before and after its own cool-off second.
func c09GenPair(r *rand.Rand) c09Trace {
	tr := c09GenTrace(r, 300+r.Intn(300))
	ths := [][2]int64{{100, 900}, {500, 900}, {900, 100}, {950, 500}, {300, 600}}[r.Intn(5)]
	tr.Threshold = ths[0]
	tr.More = []c09ShCfg{{BucketMs: []int64{50, 100, 250}[r.Intn(3)], Buckets: []int{4, 10, 20}[r.Intn(3)], Threshold: ths[1]}}
	if r.Intn(2) == 0 {
		tr.More[0].BucketMs, tr.More[0].Buckets = tr.BucketMs, tr.Buckets
	}
	// the second shedder is often built with options omitted, after a first one with
	// non-default options: it must behave by the package defaults, not by its sibling's settings
	if d := c09Defaults(); 1000%d.BucketMs == 0 {
		switch r.Intn(4) {
		case 0:
			tr.More[0].OmitWindow, tr.More[0].BucketMs, tr.More[0].Buckets = true, d.BucketMs, d.Buckets
		case 1, 2:
			tr.More[0].OmitWindow, tr.More[0].BucketMs, tr.More[0].Buckets = true, d.BucketMs, d.Buckets
			fallthrough
		case 3:
			tr.More[0].OmitThreshold = true
			ths[1] = d.Threshold
			ths[0] = []int64{100, 300, 500, 700, d.Threshold + 50}[r.Intn(5)]
			tr.Threshold, tr.More[0].Threshold = ths[0], ths[1]
		}
	}
	hi, lo := 0, 1
	if ths[1] > ths[0] {
		hi, lo = 1, 0
	}
	hiTh, loTh := ths[hi], ths[lo]
	episode := func() []c09Op {
		var e []c09Op
		emit := func(op c09Op) { e = append(e, op) }
		churn := func(n int) {
			for i := 0; i < n; i++ {
				if r.Intn(3) > 0 {
					emit(c09Op{Op: "adv", D: 1 + int64(r.Intn(20))})
				}
				emit(c09Op{Op: "pass", I: r.Intn(1 << 16), S: hi})
				emit(c09Op{Op: "arr", S: hi})
			}
		}
		emit(c09Op{Op: "cpu", D: int64(r.Intn(int(loTh)))})
		for i, n := 0, 2+r.Intn(5); i < n; i++ {
			emit(c09Op{Op: "arr", S: hi})
		}
		churn(30 + r.Intn(40))
		for i, n := 0, 30+r.Intn(40); i < n; i++ {
			emit(c09Op{Op: "arr", S: hi})
		}
		churn(25 + r.Intn(30))
		emit(c09Op{Op: "cpu", D: hiTh + int64(r.Intn(100))})
		for i, n := 0, 3+r.Intn(5); i < n; i++ {
			emit(c09Op{Op: "arr", S: hi})
		}
		emit(c09Op{Op: "cpu", D: loTh + r.Int63n(hiTh-loTh)}) // overloaded for lo only
		for i, n := 0, 4+r.Intn(6); i < n; i++ {
			emit(c09Op{Op: "arr", S: lo})
			emit(c09Op{Op: "adv", D: []int64{150, 250, 334, 400, 600}[r.Intn(5)]})
			if r.Intn(2) == 0 {
				emit(c09Op{Op: "arr", S: hi})
			}
		}
		emit(c09Op{Op: "arr", S: lo})
		emit(c09Op{Op: "arr", S: hi})
		emit(c09Op{Op: "arr", S: hi})
		return e
	}
	var ops []c09Op
	cur := r.Intn(2)
	nEp := 1 + r.Intn(2)
	cut := map[int]bool{}
	for i := 0; i < nEp; i++ {
		cut[r.Intn(len(tr.Ops)+1)] = true
	}
	for i, op := range tr.Ops {
		if cut[i] {
			ops = append(ops, episode()...)
		}
		if r.Intn(15) == 0 {
			cur = 1 - cur
		}
		if op.Op == "cpu" { // spread readings over both thresholds' neighbourhoods
			op.D = []int64{0, loTh - 1, loTh, (loTh + hiTh) / 2, hiTh - 1, hiTh, hiTh + 50}[r.Intn(7)]
		}
		op.S = cur
		ops = append(ops, op)
	}
	if cut[len(tr.Ops)] {
		ops = append(ops, episode()...)
	}
	tr.Ops = ops
	return tr
}

// TestVerifC09ShedderPair: two shedders with different thresholds in one process.
func TestVerifC09ShedderPair(t *testing.T) {
	m := vk.New(t, "C09", "seeded traces over TWO shedders (different CPU thresholds, same or different windows) sharing the process, the virtual clock and the scripted CPU reading; request ops dealt to the shedders in runs plus cross-talk episodes (reading between the thresholds while the low-threshold shedder keeps being asked); every Allow judged against implications (1)/(2) using only the readings its own shedder took; non-trivial = a rejection occurred and a shedder had to admit while its sibling had an overload reading < 1 s old")
	defer m.Done()
	c09Quiet()
	restore := c09InstallChecker()
	defer restore()
	defer timex.VerifRealClock()
	n := vk.N(300, 8000)
	r := m.Rand("pair")
	obs := &c09ShObs{}
	for idx := 1; idx <= n; idx++ {
		tr := c09GenPair(r)
		if !m.Only(idx) {
			continue
		}
		before := *obs
		m.Current(fmt.Sprintf("case=%d", idx))
		c09RunTrace(m, idx, tr, obs)
		m.Case(vk.Digest(vk.JSON(tr)), obs.rejected > before.rejected && obs.clause1OtherShedderHot > before.clause1OtherShedderHot)
		if m.WantSample() && obs.rejected > before.rejected && idx%41 == 1 {
			short := tr
			if len(short.Ops) > 8 {
				short.Ops = short.Ops[:8]
			}
			m.Sample(map[string]any{"trace_first_8_ops": short, "ops": len(tr.Ops),
				"admitted": obs.admitted - before.admitted, "rejected": obs.rejected - before.rejected,
				"forced_admissions_while_sibling_hot": obs.clause1OtherShedderHot - before.clause1OtherShedderHot,
				"last_rejection_state":                obs.lastRejectDetail})
		}
		if idx%50 == 0 {
			m.Progress()
		}
	}
	m.Count("allow_admitted", obs.admitted)
	m.Count("allow_rejected", obs.rejected)
	m.Count("clause1_forced_admissions_checked", obs.clause1Checked)
	m.Count("clause1_after_cool_off_expired", obs.clause1AfterCoolOff)
	m.Count("clause1_forced_admission_while_sibling_shedder_hot", obs.clause1OtherShedderHot)
	m.Count("clause2_rejections_checked", obs.clause2Checked)
	m.Count("rejected_while_overloaded_now", obs.rejectedOverloadedNow)
	m.Count("rejected_within_cool_off_second", obs.rejectedStillHot)
	c09CountObs(m, obs)
}

// c09GenHalfMs builds a trace whose only complete bucket holds whole-millisecond
// latencies with a per-bucket mean of exactly x.5 ms (x even or odd): nb blocks of
// {m arrivals, +a ms, m/2 passes, +k ms, m/2 passes} with k odd, on top of B long-lived
// requests that keep the smoothed in-flight value high. The exact capacity is then
// m*nb x buckets-per-second x (a+k/2)/1000; B sits at / one below floor(capacity), and
// arrivals under overload walk the in-flight level up through and beyond it.
func c09GenHalfMs(r *rand.Rand) c09Trace {
	tr := c09Trace{
		BucketMs:  []int64{50, 100}[r.Intn(2)],
		Buckets:   []int{3, 5, 10}[r.Intn(3)],
		Threshold: 900,
		CPU0:      int64(r.Intn(900)),
	}
	emit := func(op c09Op) { tr.Ops = append(tr.Ops, op) }
	D := tr.BucketMs
	bps := 1000 / D
	a := int64(1 + r.Intn(9))        // low latency, ms (mean a + k/2: x.5 for even and odd x)
	k := []int64{1, 1, 3}[r.Intn(3)] // high latency = a + k
	nb := (D - 1) / (a + k)          // blocks that fit strictly inside one bucket
	m := int64(2 * (8 + r.Intn(25)))
	for m*nb*bps < 6000 { // exact and 1-ms-too-low capacities differ by >= 3 requests
		m += 2
	}
	capMilli2 := m * nb * bps * (2*a + k) // = 2000 x capacity
	B := capMilli2/2000 - int64(r.Intn(2))
	if B < 1 {
		B = 1
	}
	for i := int64(0); i < B; i++ {
		emit(c09Op{Op: "arr"})
	}
	for j := int64(0); j < nb; j++ {
		for i := int64(0); i < m; i++ {
			emit(c09Op{Op: "arr"})
		}
		emit(c09Op{Op: "adv", D: a})
		for i := int64(0); i < m/2; i++ {
			emit(c09Op{Op: "pass", I: int(B)}) // the oldest request of the block (the B long-lived ones stay)
		}
		emit(c09Op{Op: "adv", D: k})
		for i := int64(0); i < m/2; i++ {
			emit(c09Op{Op: "pass", I: int(B)})
		}
	}
	// into the next bucket (the data bucket becomes a complete, visible one)
	emit(c09Op{Op: "adv", D: D - nb*(a+k) + int64(r.Intn(int(D/2)))})
	emit(c09Op{Op: "cpu", D: 900 + int64(r.Intn(200))})
	for i, n := 0, 4+int(m/4)+r.Intn(8); i < n; i++ {
		emit(c09Op{Op: "arr"})
	}
	emit(c09Op{Op: "cpu", D: int64(r.Intn(900))})
	emit(c09Op{Op: "adv", D: 1001})
	emit(c09Op{Op: "arr"})
	return tr
}

// TestVerifC09ShedderHalfMs: per-bucket mean latencies falling exactly on x.5 ms, loads
// exactly at / just below / above the capacity the statement defines.
func TestVerifC09ShedderHalfMs(t *testing.T) {
	m := vk.New(t, "C09", "seeded traces whose only complete bucket holds equal numbers of a-ms and (a+k)-ms passes (a in 1..9, k in {1,3}: mean exactly x.5 ms for even and odd x) on top of B long-lived requests, B = floor(exact capacity) or one less; then CPU above threshold and arrivals walking the in-flight level from B past the capacity; every Allow checked against (1) and (2) with the capacity from the exact mean; non-trivial = a rejection occurred with a window-derived capacity")
	defer m.Done()
	c09Quiet()
	restore := c09InstallChecker()
	defer restore()
	defer timex.VerifRealClock()
	n := vk.N(150, 4000)
	r := m.Rand("half-ms")
	obs := &c09ShObs{}
	for idx := 1; idx <= n; idx++ {
		tr := c09GenHalfMs(r)
		if !m.Only(idx) {
			continue
		}
		before := *obs
		m.Current(fmt.Sprintf("case=%d", idx))
		c09RunTrace(m, idx, tr, obs)
		m.Case(vk.Digest(vk.JSON(tr)), obs.capacityFromWindow > before.capacityFromWindow)
		if m.WantSample() && obs.rejected > before.rejected && idx%23 == 1 {
			short := tr
			short.Ops = nil
			m.Sample(map[string]any{"trace_config": short, "ops": len(tr.Ops),
				"admitted": obs.admitted - before.admitted, "rejected": obs.rejected - before.rejected,
				"passes": obs.passes - before.passes, "last_rejection_state": obs.lastRejectDetail})
		}
	}
	m.Count("allow_admitted", obs.admitted)
	m.Count("allow_rejected", obs.rejected)
	m.Count("clause1_forced_admissions_checked", obs.clause1Checked)
	m.Count("clause2_rejections_checked", obs.clause2Checked)
	m.Count("rejections_with_window_derived_capacity", obs.capacityFromWindow)
	c09CountObs(m, obs)
}

// TestVerifC09ShedderDefaultChecker: the production systemOverloadChecker (real
// stat.CpuUsage reading, not scripted) with a threshold far above any possible reading:
// CPU usage is below the threshold during the whole trace, so clause (1) forbids every
// rejection, whatever the in-flight level.
func TestVerifC09ShedderDefaultChecker(t *testing.T) {
	m := vk.New(t, "C09", "production systemOverloadChecker, threshold 2^40 (CPU usage always below it): bursts up to 300 in flight with churn, gaps and drains under the virtual clock; no Allow may reject; flying == 0 at quiescence")
	defer m.Done()
	c09Quiet()
	defer timex.VerifRealClock()
	r := m.Rand("default-checker")
	var admitted, rejected, passes, fails int64
	for idx := 1; idx <= vk.N(20, 400); idx++ {
		if !m.Only(idx) {
			continue
		}
		bucketMs := []int64{50, 100, 250}[r.Intn(3)]
		buckets := []int{4, 10, 50}[r.Intn(3)]
		desc := fmt.Sprintf("case=%d;{\"bucket_ms\":%d,\"buckets\":%d,\"cpu_threshold\":\"2^40\",\"cpu_reading_now\":%d}", idx, bucketMs, buckets, stat.CpuUsage())
		timex.VerifFakeClock(time.Duration((4_000_000+int64(idx))*bucketMs) * time.Millisecond)
		sh := NewAdaptiveShedder(WithWindow(time.Duration(bucketMs)*time.Duration(buckets)*time.Millisecond), WithBuckets(buckets), WithCpuThreshold(1<<40))
		var outst []Promise
		bad := false
		arrive := func() {
			p, err := sh.Allow()
			if err != nil {
				rejected++
				if !bad {
					m.Violate("C09:shedder:rejected-while-cool:production-checker", desc, "Allow rejected with %d in flight although stat.CpuUsage()=%d is below the configured threshold 2^40", len(outst), stat.CpuUsage())
					bad = true
				}
				return
			}
			admitted++
			outst = append(outst, p)
		}
		finish := func() {
			if len(outst) == 0 {
				return
			}
			j := r.Intn(len(outst))
			p := outst[j]
			outst = append(outst[:j], outst[j+1:]...)
			if r.Intn(10) == 0 {
				p.Fail()
				fails++
			} else {
				p.Pass()
				passes++
			}
		}
		for step := 0; step < 1500 && !bad; step++ {
			switch r.Intn(6) {
			case 0:
				for i, n := 0, 1+r.Intn(60); i < n && len(outst) < 300; i++ {
					arrive()
				}
			case 1, 2:
				finish()
				arrive()
			case 3:
				for i, n := 0, r.Intn(40); i < n; i++ {
					finish()
				}
			default:
				timex.VerifAdvance(time.Duration(1+r.Intn(int(bucketMs))) * time.Millisecond)
			}
		}
		for len(outst) > 0 {
			finish()
		}
		if f := c09Flying(sh); f != 0 && !bad {
			m.Violate("C09:shedder:flying-nonzero-at-quiescence", desc, "all admitted requests reported but flying=%d", f)
		}
		m.Case(vk.Digest(desc, idx), admitted > 0)
		if m.WantSample() && idx%7 == 1 {
			m.Sample(map[string]any{"scenario": desc, "admitted_so_far": admitted, "rejected_so_far": rejected})
		}
	}
	m.Count("allow_admitted", admitted)
	m.Count("allow_rejected", rejected)
	m.Count("pass", passes)
	m.Count("fail", fails)
}

// TestVerifC09ShedderNop: the disabled shedder (nopshedder.go) never rejects.
func TestVerifC09ShedderNop(t *testing.T) {
	m := vk.New(t, "C09", "shedder created while shedding is disabled: Allow admits under any scripted CPU reading; Pass/Fail are accepted")
	defer m.Done()
	c09Quiet()
	restore := c09InstallChecker()
	defer restore()
	for _, cpu := range []int64{0, 899, 900, 1000, 5000} {
		atomic.StoreInt64(&c09CPU, cpu)
		sh := c09NewNop()
		rej := 0
		for i := 0; i < 200; i++ {
			p, err := sh.Allow()
			if err != nil {
				rej++
				continue
			}
			if i%2 == 0 {
				p.Pass()
			} else {
				p.Fail()
			}
		}
		if rej > 0 {
			m.Violate("C09:nop-shedder:rejected", fmt.Sprintf("case=%d;cpu=%d", cpu, cpu), "disabled shedder rejected %d of 200 requests at cpu=%d", rej, cpu)
		}
		m.Count("nop_allow", 200)
		m.Case(fmt.Sprint("nop", cpu), true)
	}
}

// TestVerifC09RaceFlying (-race run): 64 goroutines Allow / Pass / Fail on one
// shedder. Variant "frozen": virtual clock frozen; variant "advancing": one more
// goroutine advances the virtual clock. Asserted: flying >= the caller's own
// outstanding promises (hence never negative) at every sample, flying == 0 at
// quiescence; frozen variant: the pass window holds exactly the number of Pass calls.
func TestVerifC09RaceFlying(t *testing.T) {
	m := vk.New(t, "C09", "64 goroutines x N iterations of Allow then Pass/Fail (up to 3 promises held per goroutine) with a scripted CPU reading toggled concurrently; clock frozen or advanced by a 65th goroutine; flying sampled after every operation (>= own outstanding), == 0 at quiescence; frozen: pass window total == Pass calls; non-trivial = admissions and rejections both occurred")
	defer m.Done()
	c09Quiet()
	restore := c09InstallChecker()
	defer restore()
	defer timex.VerifRealClock()
	const G = 64
	iters := vk.N(300, 1500)
	rounds := vk.N(6, 30)
	var totAdmit, totReject, totPass, totFail, totSamples, totAdvances int64
	for round := 1; round <= rounds; round++ {
		for _, variant := range []string{"frozen", "advancing"} {
			idx := round*2 - 1
			if variant == "advancing" {
				idx = round * 2
			}
			if !m.Only(idx) {
				continue
			}
			rr := m.Rand("race", round, variant)
			bucketMs := []int64{100, 250, 500}[rr.Intn(3)]
			buckets := []int{4, 10, 20}[rr.Intn(3)]
			desc := fmt.Sprintf("case=%d;{\"variant\":%q,\"goroutines\":%d,\"iterations\":%d,\"bucket_ms\":%d,\"buckets\":%d}", idx, variant, G, iters, bucketMs, buckets)
			m.Current(desc)
			start := time.Duration((3_000_000+int64(idx))*bucketMs) * time.Millisecond
			timex.VerifFakeClock(start)
			atomic.StoreInt64(&c09CPU, 1000)
			sh := NewAdaptiveShedder(WithWindow(time.Duration(bucketMs)*time.Duration(buckets)*time.Millisecond), WithBuckets(buckets), WithCpuThreshold(900))
			seeds := make([]int64, G)
			for g := range seeds {
				seeds[g] = rr.Int63()
			}
			var admit, reject, pass, fail, samples, advances int64
			var firstBad atomic.Value
			var done int32
			var wg sync.WaitGroup
			for g := 0; g < G; g++ {
				wg.Add(1)
				go func(seed int64) {
					defer wg.Done()
					r := rand.New(rand.NewSource(seed))
					var mine []Promise
					var a, rj, ps, fl, sm int64
					sample := func(what string) {
						f := c09Flying(sh)
						sm++
						if f < int64(len(mine)) {
							firstBad.CompareAndSwap(nil, fmt.Sprintf("after %s: flying=%d but this goroutine alone holds %d unreported promises", what, f, len(mine)))
						}
					}
					report := func() {
						p := mine[len(mine)-1]
						mine = mine[:len(mine)-1]
						if r.Intn(100) < 85 {
							p.Pass()
							ps++
							sample("Pass")
						} else {
							p.Fail()
							fl++
							sample("Fail")
						}
					}
					for i := 0; i < iters; i++ {
						if r.Intn(40) == 0 {
							atomic.StoreInt64(&c09CPU, []int64{0, 899, 900, 1000}[r.Intn(4)])
						}
						p, err := sh.Allow()
						if err != nil {
							rj++
						} else {
							a++
							mine = append(mine, p)
						}
						sample("Allow")
						if r.Intn(4) == 0 {
							runtime.Gosched()
						}
						for len(mine) > 0 && (len(mine) >= 3 || r.Intn(2) == 0) {
							report()
						}
					}
					for len(mine) > 0 {
						report()
					}
					atomic.AddInt64(&admit, a)
					atomic.AddInt64(&reject, rj)
					atomic.AddInt64(&pass, ps)
					atomic.AddInt64(&fail, fl)
					atomic.AddInt64(&samples, sm)
				}(seeds[g])
			}
			var cwg sync.WaitGroup
			if variant == "advancing" {
				cwg.Add(1)
				go func() {
					defer cwg.Done()
					for atomic.LoadInt32(&done) == 0 {
						timex.VerifAdvance(time.Duration(bucketMs) * time.Millisecond / 4)
						atomic.AddInt64(&advances, 1)
						time.Sleep(20 * time.Microsecond)
					}
				}()
			}
			wg.Wait()
			atomic.StoreInt32(&done, 1)
			cwg.Wait()
			if v := firstBad.Load(); v != nil {
				m.Violate("C09:shedder:concurrent:flying-below-own-outstanding", desc, "%s", v)
			}
			if f := c09Flying(sh); f != 0 {
				m.Violate("C09:shedder:flying-nonzero-at-quiescence:concurrent", desc, "all %d admitted requests reported (%d Pass, %d Fail) but flying=%d", admit, pass, fail, f)
			}
			if admit != pass+fail {
				m.Inconclusive("harness accounting: admitted %d != reported %d", admit, pass+fail)
			}
			if variant == "frozen" {
				// all passes sit in the current bucket, which the shedder's windows ignore: age it by one bucket
				timex.VerifAdvance(time.Duration(bucketMs) * time.Millisecond)
				if sum, cnt := c09PassWindowTotal(sh); int64(sum) != pass || cnt != pass {
					m.Violate("C09:shedder:concurrent:pass-window-total", desc, "%d concurrent Pass calls in one bucket, pass window shows sum=%v count=%d", pass, sum, cnt)
				}
			}
			m.Case(vk.Digest(desc), admit > 0 && reject > 0)
			if m.WantSample() {
				m.Sample(map[string]any{"scenario": desc, "admitted": admit, "rejected": reject, "pass": pass, "fail": fail,
					"flying_samples": samples, "clock_advances": advances, "flying_at_quiescence": c09Flying(sh)})
			}
			totAdmit += admit
			totReject += reject
			totPass += pass
			totFail += fail
			totSamples += samples
			totAdvances += advances
		}
	}
	m.Count("allow_admitted", totAdmit)
	m.Count("allow_rejected", totReject)
	m.Count("pass", totPass)
	m.Count("fail", totFail)
	m.Count("flying_samples", totSamples)
	m.Count("virtual_clock_advances_concurrent", totAdvances)
}
