//go:build verif

package collection

// C17 — Take, gated schedules around one fetch in flight:
//   (a) two Cache instances are independent: a Take on cache B for a key that cache A is
//       fetching runs B's own fetch and returns B's result (single flight is per cache);
//   (b) a Set that lands while a fetch of the same key is in flight survives a FAILED fetch
//       (errors are not cached, and nothing deleted the key): Get returns the Set value.

import (
	"errors"
	"fmt"
	"testing"
	"time"

	"verif.local/vk"
)

func TestVerifC17TakeIsolationRace(t *testing.T) {
	m := vk.New(t, "C17", "gated Take schedules: (a) cache A parked inside its fetch of key k while cache B takes k with its own fetch: B's fetch must run and B must get B's value without waiting for A; (b) Set(k, v) while a fetch of k is parked, then the fetch fails: the failing Take returns the error and Get(k) still returns v; (c) same with a successful fetch: afterwards Get(k) returns v or the fetched value (both orders are legal), never nothing")
	defer m.Done()
	n := vk.N(60, 3000)
	r := m.Rand("isolation")
	errFetch := errors.New("c17 fetch failed")
	for idx := 1; idx <= n; idx++ {
		kind := []string{"two-caches", "set-during-failing-fetch", "set-during-successful-fetch"}[r.Intn(3)]
		aFails := r.Intn(2) == 0
		limit := r.Intn(3) // 0 = no limit
		if !m.Only(idx) {
			continue
		}
		desc := fmt.Sprintf("case=%d;kind=%s aFails=%v limit=%d", idx, kind, aFails, limit)
		mk := func() *Cache {
			var opts []CacheOption
			if limit > 0 {
				opts = append(opts, WithLimit(limit+1))
			}
			c, err := NewCache(time.Hour, opts...)
			if err != nil {
				m.Inconclusive("NewCache: %v", err)
				return nil
			}
			return c
		}
		a := mk()
		if a == nil {
			return
		}
		key := fmt.Sprintf("k%d", idx)
		entered, gate := make(chan struct{}), make(chan struct{})
		type res struct {
			v   any
			err error
		}
		aDone := make(chan res, 1)
		go func() {
			v, err := a.Take(key, func() (any, error) {
				close(entered)
				<-gate
				if aFails || kind == "set-during-failing-fetch" {
					return nil, errFetch
				}
				return "A-value", nil
			})
			aDone <- res{v, err}
		}()
		select {
		case <-entered:
		case <-time.After(20 * time.Second):
			m.Inconclusive("case %d: cache A never entered its fetch", idx)
			close(gate)
			return
		}
		switch kind {
		case "two-caches":
			b := mk()
			if b == nil {
				close(gate)
				return
			}
			bFetched := false
			bDone := make(chan res, 1)
			go func() {
				v, err := b.Take(key, func() (any, error) { bFetched = true; return "B-value", nil })
				bDone <- res{v, err}
			}()
			select {
			case rb := <-bDone:
				close(gate)
				<-aDone
				switch {
				case !bFetched || rb.err != nil || rb.v != "B-value":
					m.Violate("C17:take-served-by-another-cache", desc, "cache B: Take(%q)=(%v,%v), own fetch ran=%v; want its own fetch result", key, rb.v, rb.err, bFetched)
				default:
					if v, ok := b.Get(key); !ok || v != "B-value" {
						m.Violate("C17:take-success-not-cached", desc, "cache B: Get(%q)=(%v,%v) after a successful Take", key, v, ok)
					}
				}
			case <-time.After(20 * time.Second):
				// B is stuck although nothing it depends on is pending: it waits for cache A's fetch
				m.Violate("C17:take-blocked-by-another-cache", desc, "cache B's Take(%q) has not returned after 20 s while cache A's fetch of the same key is parked (own fetch ran=%v)\n%s", key, bFetched, vk.Stacks())
				close(gate)
				<-aDone
				<-bDone
				return // every further two-cache schedule would wait out the same watchdog
			}
			b.Del(key)
		default:
			a.Set(key, "set-value")
			close(gate)
			ra := <-aDone
			got, ok := a.Get(key)
			if kind == "set-during-failing-fetch" {
				switch {
				case ra.err != errFetch:
					m.Violate("C17:take-error-not-returned", desc, "Take(%q)=(%v,%v), fetch failed with %v", key, ra.v, ra.err, errFetch)
				case !ok || got != "set-value":
					m.Violate("C17:set-lost-after-failed-fetch", desc, "Set(%q) landed while a fetch was in flight; the fetch failed; Get=(%v,%v), want the Set value", key, got, ok)
				}
			} else if !aFails {
				if !ok || (got != "set-value" && got != "A-value") {
					m.Violate("C17:get-missing-after-set-and-fetch", desc, "Get(%q)=(%v,%v) after a Set and a successful fetch", key, got, ok)
				}
			} else if !ok || got != "set-value" {
				m.Violate("C17:set-lost-after-failed-fetch", desc, "Get(%q)=(%v,%v) after Set + failed fetch", key, got, ok)
			}
		}
		m.Case(vk.Digest(desc), true)
		m.Count("schedules_"+kind, 1)
		if m.WantSample() && idx%20 == 1 {
			m.Sample(map[string]any{"scenario": desc})
		}
	}
}
