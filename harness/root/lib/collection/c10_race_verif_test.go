//go:build verif

package collection

// C10 — concurrent callers under the race detector. The wheel runs on a real 1 ms
// ticker, so only schedule-independent clauses are asserted: a task that is set
// (and possibly re-set / moved) and not removed fires exactly once with the value
// most recently set before it fired; a task removed before it could fire never
// fires; Drain hands over each pending task exactly once; operations after Stop
// report ErrClosed.

import (
	"fmt"
	"sync"
	"sync/atomic"
	"testing"
	"time"

	"verif.local/vk"
)

func TestVerifC10Race(t *testing.T) {
	m := vk.New(t, "C10", "8 goroutines x 40-80 rounds on one wheel (real 1 ms ticker, 3-17 slots): each round owns a fresh key and runs one of {set; set+reset; set+move; set(long)+remove; set(long) left for Drain}; fire counts, fired values and drained tasks are reconciled at the end; executed under the Go race detector")
	defer m.Done()
	n := vk.N(12, 300)
	r := m.Rand("race")
	for idx := 1; idx <= n; idx++ {
		if !m.Only(idx) {
			continue
		}
		slots := 3 + r.Intn(15)
		rounds := 40 + r.Intn(41)
		desc := fmt.Sprintf("case=%d;slots=%d rounds=%d", idx, slots, rounds)
		var mu sync.Mutex
		fired := map[string][]int{}
		tw, err := NewTimingWheel(time.Millisecond, slots, func(k, v any) {
			mu.Lock()
			fired[k.(string)] = append(fired[k.(string)], v.(int))
			mu.Unlock()
		})
		if err != nil {
			m.Inconclusive("NewTimingWheel: %v", err)
			return
		}
		type plan struct {
			key    string
			kind   int
			lastV  int
			prevV  int
			expect string // once | never | drain
		}
		var plans []*plan
		var pmu sync.Mutex
		var wg sync.WaitGroup
		var opErrs int32
		seeds := make([]int64, 8)
		for g := range seeds {
			seeds[g] = r.Int63()
		}
		for g := 0; g < 8; g++ {
			wg.Add(1)
			go func(g int) {
				defer wg.Done()
				rr := m.Rand("race-g", idx, g, seeds[g])
				for i := 0; i < rounds; i++ {
					p := &plan{key: fmt.Sprintf("g%d-%d", g, i), kind: rr.Intn(5), lastV: i * 10}
					long := time.Hour
					short := time.Duration(1+rr.Intn(slots*2)) * time.Millisecond
					chk := func(e error) {
						if e != nil {
							atomic.AddInt32(&opErrs, 1)
						}
					}
					switch p.kind {
					case 0:
						chk(tw.SetTimer(p.key, p.lastV, short))
						p.expect = "once"
					case 1:
						chk(tw.SetTimer(p.key, p.lastV-1, long))
						p.prevV = p.lastV - 1
						chk(tw.SetTimer(p.key, p.lastV, short))
						p.expect = "once"
					case 2:
						chk(tw.SetTimer(p.key, p.lastV, long))
						chk(tw.MoveTimer(p.key, short))
						p.expect = "once"
					case 3:
						chk(tw.SetTimer(p.key, p.lastV, long))
						chk(tw.RemoveTimer(p.key))
						p.expect = "never"
					default:
						chk(tw.SetTimer(p.key, p.lastV, long))
						p.expect = "drain"
					}
					pmu.Lock()
					plans = append(plans, p)
					pmu.Unlock()
				}
			}(g)
		}
		if !vk.Within(60*time.Second, wg.Wait) {
			m.Violate("C10:race:caller-hang", desc, "callers did not return within 60 s\n%s", vk.Stacks()[:3000])
			return
		}
		if opErrs != 0 {
			m.Violate("C10:race:op-error", desc, "%d operations on a running wheel returned an error", opErrs)
		}
		// wait (bounded progress) until every "once" key has fired: delays are <= 2 revolutions of 1 ms ticks
		want := 0
		for _, p := range plans {
			if p.expect == "once" {
				want++
			}
		}
		allFired := vk.WaitUntil(30*time.Second, func() bool {
			mu.Lock()
			defer mu.Unlock()
			c := 0
			for _, p := range plans {
				if p.expect == "once" && len(fired[p.key]) > 0 {
					c++
				}
			}
			return c == want
		})
		var dmu sync.Mutex
		drained := map[string][]int{}
		if err := tw.Drain(func(k, v any) {
			dmu.Lock()
			drained[k.(string)] = append(drained[k.(string)], v.(int))
			dmu.Unlock()
		}); err != nil {
			m.Violate("C10:race:drain-error", desc, "Drain: %v", err)
		}
		nd := 0
		for _, p := range plans {
			if p.expect == "drain" {
				nd++
			}
		}
		vk.WaitUntil(30*time.Second, func() bool {
			dmu.Lock()
			defer dmu.Unlock()
			return len(drained) >= nd
		})
		time.Sleep(5 * time.Millisecond) // a few more ticks: nothing may fire after Drain
		tw.Stop()
		mu.Lock()
		dmu.Lock()
		for _, p := range plans {
			f, d := fired[p.key], drained[p.key]
			switch p.expect {
			case "once":
				switch {
				case len(f) == 0 && !allFired && len(d) == 0:
					m.Violate("C10:race:task-never-fired", desc, "key %s (kind %d) neither fired within 30 s (delays <= %d ms) nor was handed to Drain", p.key, p.kind, slots*2)
				case len(f)+len(d) > 1:
					m.Violate("C10:race:fired-twice", desc, "key %s fired %v / drained %v", p.key, f, d)
				case len(f) == 1 && f[0] != p.lastV:
					m.Violate("C10:race:stale-value", desc, "key %s fired with %d, latest value %d", p.key, f[0], p.lastV)
				}
			case "never":
				if len(f)+len(d) > 0 {
					m.Violate("C10:race:removed-task-fired", desc, "key %s was removed but fired %v / drained %v", p.key, f, d)
				}
			case "drain":
				if len(f) != 0 || len(d) != 1 || d[0] != p.lastV {
					m.Violate("C10:race:drain-mismatch", desc, "key %s pending at Drain: fired %v drained %v, want drained [%d]", p.key, f, d, p.lastV)
				}
			}
		}
		m.Count("tasks_fired", int64(len(fired)))
		m.Count("tasks_drained", int64(len(drained)))
		m.Count("rounds", int64(len(plans)))
		dmu.Unlock()
		mu.Unlock()
		m.Case(vk.Digest(desc), true)
		if m.WantSample() {
			m.Sample(map[string]any{"scenario": desc, "plans": len(plans)})
		}
	}
}
