//go:build verif

package collection

// C10 — timing wheel monitor (DESIGN.md §3 C10).
// The wheel under test is the real TimingWheel on a harness ticker with an
// unbuffered channel: tick() returns only after the run loop has taken the tick,
// a no-op command behind it is a barrier for onTick, and callbacks (which run in
// goroutines spawned by runTasks) are awaited through runtime.NumGoroutine().

import (
	"fmt"
	"runtime"
	"sort"
	"strings"
	"sync"
	"sync/atomic"
	"testing"
	"time"

	"verif.local/vk"
)

// vkTicker: the harness feeds ticks through an unbuffered channel; Stop closes the channel, as the
// repository's own timex.FakeTicker does (a wheel that keeps selecting on its ticker after Stop would
// see phantom ticks).
type vkTicker struct {
	c    chan time.Time
	once sync.Once
}

func (t *vkTicker) Chan() <-chan time.Time { return t.c }
func (t *vkTicker) Stop()                  { t.once.Do(func() { close(t.c) }) }

type c10Op struct {
	Op string `json:"op"` // set move remove tick drain stop badset badmove badremove
	K  int    `json:"k,omitempty"`
	V  int    `json:"v,omitempty"`
	D  int64  `json:"d,omitempty"` // delay in milli-intervals (1000 = one interval)
}

type c10Scenario struct {
	Slots      int     `json:"slots"`
	IntervalNs int64   `json:"interval_ns,omitempty"` // 0 = one second
	Ops        []c10Op `json:"ops"`
}

type c10Fire struct {
	k, v int
	tick int
}

type c10Wheel struct {
	tw       *TimingWheel
	tk       *vkTicker
	mu       sync.Mutex
	fires    []c10Fire
	drained  []c10Fire
	tick     int
	baseline int
	stampNs  int64 // driver goroutine only: the time value carried by the next tick (see stamp)
}

// stamp is the time value sent with tick number n. The statement counts ticks (deliveries on the ticker's
// channel), not the values they carry, so the harness sends hostile ones: equal stamps, half an interval,
// several intervals or a thousand intervals apart, and one going backwards (round 13: a wheel that "catches
// up" by the time elapsed between two stamps scans several slots in one tick).
func (w *c10Wheel) stamp(n int) time.Time {
	jumps := [...]int64{1, 2, 0, 5, 1, -3, 1000, 1, 3}
	w.stampNs += jumps[n%len(jumps)] * int64(c10Interval) / 1
	if n%11 == 10 {
		w.stampNs += int64(c10Interval) / 2
	}
	return time.Unix(1700000000, 0).Add(time.Duration(w.stampNs))
}

// c10Interval is the tick interval of the scenario being run (set by runC10 from the scenario).
var c10Interval = time.Second

// intervals that are, and are not, exactly representable in binary fractions of a second
var c10Intervals = []int64{int64(time.Second), int64(100 * time.Millisecond), int64(10 * time.Millisecond), int64(100 * time.Microsecond), int64(7 * time.Millisecond), int64(time.Minute), 1, int64(3 * time.Second), int64(time.Second)}

// c10Floor is the goroutine count of the idle test process (no wheel alive).
var c10Floor int

// c10PanicMod > 0: the execute callback panics for values divisible by it; c10Panics counts them.
var (
	c10PanicMod int
	c10Panics   int64
)

func newC10Wheel(slots int) (*c10Wheel, error) {
	w := &c10Wheel{tk: &vkTicker{c: make(chan time.Time)}}
	// the previous scenario's run loop exits asynchronously after Stop: wait for the
	// process to be back at its floor so that the baseline below is exact
	if c10Floor == 0 {
		c10Floor = runtime.NumGoroutine()
	}
	if !vk.WaitUntil(20*time.Second, func() bool { return runtime.NumGoroutine() <= c10Floor }) {
		return nil, fmt.Errorf("goroutine count did not return to floor %d (now %d)", c10Floor, runtime.NumGoroutine())
	}
	before := runtime.NumGoroutine()
	tw, err := newTimingWheelWithClock(c10Interval, slots, func(k, v any) {
		w.mu.Lock()
		w.fires = append(w.fires, c10Fire{k: k.(int), v: v.(int), tick: w.tick})
		w.mu.Unlock()
		// hostile callback: panics (after the fire has been recorded) for some values; tasks due in
		// the same tick must still fire exactly once
		if c10PanicMod > 0 && v.(int)%c10PanicMod == 0 {
			atomic.AddInt64(&c10Panics, 1)
			panic("c10: hostile execute callback")
		}
	}, w.tk)
	if err != nil {
		return nil, err
	}
	w.tw = tw
	w.baseline = before + 1
	return w, nil
}

// quiesce waits until the run loop is idle (barrier) and every callback
// goroutine has finished. false = watchdog fired (inconclusive).
func (w *c10Wheel) quiesce() bool {
	_ = w.tw.RemoveTimer(-12345) // barrier: accepted only when the loop is back in select
	return vk.WaitUntil(20*time.Second, func() bool { return runtime.NumGoroutine() <= w.baseline })
}

func (w *c10Wheel) doTick() bool {
	w.mu.Lock()
	w.tick++
	n := w.tick
	w.mu.Unlock()
	w.tk.c <- w.stamp(n)
	return w.quiesce()
}

func (w *c10Wheel) takeFires() []c10Fire {
	w.mu.Lock()
	f := w.fires
	w.fires = nil
	w.mu.Unlock()
	return f
}

type c10Model struct {
	val map[int]int
	due map[int]int
	// provenance for signatures: how the pending entry was last scheduled
	how map[int]string
}

// c10Delay converts milli-intervals to a duration without overflowing for delays of billions of ticks.
func c10Delay(d int64) time.Duration {
	return time.Duration(d/1000)*c10Interval + time.Duration(d%1000)*c10Interval/1000
}

// runC10 executes one scenario against the real wheel and the model. It returns
// the number of fire events observed.
func runC10(m *vk.M, idx int, sc c10Scenario) (fires int, ok bool) {
	desc := func() string { return fmt.Sprintf("case=%d;%s", idx, vk.JSON(sc)) }
	c10Interval = time.Second
	if sc.IntervalNs > 0 {
		c10Interval = time.Duration(sc.IntervalNs)
	}
	w, err := newC10Wheel(sc.Slots)
	if err != nil {
		m.Inconclusive("case %d: %v", idx, err)
		return 0, false
	}
	stopped := false
	defer func() {
		if !stopped {
			w.tw.Stop()
		}
	}()
	mod := c10Model{val: map[int]int{}, due: map[int]int{}, how: map[int]string{}}
	drained := false
	checkFires := func(step int, op c10Op) {
		got := w.takeFires()
		fires += len(got)
		want := map[int]int{}
		for k, d := range mod.due {
			if d == w.tick {
				want[k] = mod.val[k]
			}
		}
		if drained {
			want = map[int]int{}
		}
		seen := map[int]int{}
		for _, f := range got {
			seen[f.k]++
			if seen[f.k] > 1 {
				m.Violate("C10:fired-twice", desc(), "step %d %+v: key %d fired %d times at tick %d", step, op, f.k, seen[f.k], w.tick)
				continue
			}
			wv, expected := want[f.k]
			switch {
			case expected && wv == f.v:
			case expected:
				m.Violate("C10:stale-value", desc(), "step %d: key %d fired with value %d, latest set value %d (tick %d)", step, f.k, f.v, wv, w.tick)
			default:
				due, pending := mod.due[f.k]
				switch {
				case drained:
					m.Violate("C10:fired-after-drain", desc(), "step %d: key %d fired at tick %d after Drain", step, f.k, w.tick)
				case !pending:
					m.Violate("C10:unexpected-fire:not-pending", desc(), "step %d: key %d (value %d) fired at tick %d but is not pending (removed or already fired)", step, f.k, f.v, w.tick)
				case due > w.tick:
					m.Violate("C10:fired-early:after-"+mod.how[f.k], desc(), "step %d: key %d fired at tick %d, due at tick %d (slots %d)", step, f.k, w.tick, due, sc.Slots)
					delete(mod.due, f.k)
					delete(mod.val, f.k)
				default:
					// due < tick: a late fire of a key reported missing before
					m.Count("late_fires_seen", 1)
					delete(mod.due, f.k)
					delete(mod.val, f.k)
				}
			}
		}
		for k := range want {
			if seen[k] == 0 {
				m.Violate("C10:not-fired-on-due-tick:after-"+mod.how[k], desc(), "step %d: key %d due at tick %d did not fire during that tick (slots %d)", step, k, w.tick, sc.Slots)
				// keep it pending in the model (due < tick) so a late fire is recognised
			} else {
				delete(mod.due, k)
				delete(mod.val, k)
			}
		}
	}
	v0 := m.ViolCount()
	for step, op := range sc.Ops {
		if m.ViolCount() > v0 {
			// model and wheel have diverged: report only the first witness of a scenario
			return fires, true
		}
		switch op.Op {
		case "set":
			if err := w.tw.SetTimer(op.K, op.V, c10Delay(op.D)); err != nil {
				m.Violate("C10:set-error", desc(), "step %d: SetTimer returned %v", step, err)
			}
			if !drained {
				if _, live := mod.due[op.K]; live && mod.due[op.K] > w.tick {
					mod.how[op.K] = "reset"
				} else {
					mod.how[op.K] = "set"
				}
				mod.val[op.K] = op.V
				mod.due[op.K] = w.tick + int(op.D/1000)
			}
		case "move":
			if err := w.tw.MoveTimer(op.K, c10Delay(op.D)); err != nil {
				m.Violate("C10:move-error", desc(), "step %d: MoveTimer returned %v", step, err)
			}
			if d, live := mod.due[op.K]; live && d > w.tick && !drained {
				mod.due[op.K] = w.tick + int(op.D/1000)
				mod.how[op.K] = "move"
			}
		case "remove":
			if err := w.tw.RemoveTimer(op.K); err != nil {
				m.Violate("C10:remove-error", desc(), "step %d: RemoveTimer returned %v", step, err)
			}
			delete(mod.due, op.K)
			delete(mod.val, op.K)
		case "badset":
			var err error
			switch op.V % 3 {
			case 0:
				err = w.tw.SetTimer(nil, 1, c10Interval)
			case 1:
				err = w.tw.SetTimer(op.K, 999, 0)
			default:
				err = w.tw.SetTimer(op.K, 999, -c10Interval)
			}
			if err != ErrArgument {
				m.Violate("C10:bad-argument-accepted", desc(), "step %d: invalid SetTimer returned %v, want ErrArgument", step, err)
			}
		case "badmove":
			var err error
			if op.V%2 == 0 {
				err = w.tw.MoveTimer(nil, c10Interval)
			} else {
				err = w.tw.MoveTimer(op.K, 0)
			}
			if err != ErrArgument {
				m.Violate("C10:bad-argument-accepted", desc(), "step %d: invalid MoveTimer returned %v, want ErrArgument", step, err)
			}
		case "badremove":
			if err := w.tw.RemoveTimer(nil); err != ErrArgument {
				m.Violate("C10:bad-argument-accepted", desc(), "step %d: RemoveTimer(nil) returned %v, want ErrArgument", step, err)
			}
		case "tick":
			if !w.doTick() {
				m.Inconclusive("case %d: callbacks did not quiesce after tick", idx)
				return fires, false
			}
			checkFires(step, op)
		case "drain":
			var dmu sync.Mutex
			got := map[int][]int{}
			if err := w.tw.Drain(func(k, v any) {
				dmu.Lock()
				got[k.(int)] = append(got[k.(int)], v.(int))
				dmu.Unlock()
			}); err != nil {
				m.Violate("C10:drain-error", desc(), "step %d: Drain returned %v", step, err)
			}
			if !w.quiesce() {
				m.Inconclusive("case %d: drain did not quiesce", idx)
				return fires, false
			}
			dmu.Lock()
			for k, vs := range got {
				wv, pending := mod.val[k]
				if !pending || mod.due[k] <= w.tick {
					m.Violate("C10:drain-unexpected-task", desc(), "step %d: Drain delivered key %d (values %v) which is not pending", step, k, vs)
					continue
				}
				if len(vs) != 1 {
					m.Violate("C10:drain-duplicate", desc(), "step %d: Drain delivered key %d %d times", step, k, len(vs))
				}
				if vs[0] != wv {
					m.Violate("C10:drain-stale-value", desc(), "step %d: Drain delivered key %d value %d, latest %d", step, k, vs[0], wv)
				}
			}
			for k, d := range mod.due {
				if d > w.tick && len(got[k]) == 0 {
					m.Violate("C10:drain-missed-task", desc(), "step %d: pending key %d (due tick %d) not handed to the drain function", step, k, d)
				}
			}
			m.Count("drained_tasks", int64(len(got)))
			dmu.Unlock()
			if f := w.takeFires(); len(f) > 0 {
				m.Violate("C10:fired-after-drain", desc(), "step %d: %d execute callbacks during Drain", step, len(f))
			}
			drained = true
		case "stop", "tickstop":
			if op.Op == "tickstop" {
				// a tick immediately followed by Stop: the tick was taken by the wheel before Stop was called, so
				// whatever is due in it fires. The recorder's lock is held across both calls, which parks the
				// callbacks of that tick until Stop has returned.
				w.mu.Lock()
				w.tick++
				w.tk.c <- w.stamp(w.tick)
				w.tw.Stop()
				w.mu.Unlock()
			} else {
				w.tw.Stop()
			}
			stopped = true
			// wait until the run loop has exited (the statement is about operations after Stop took effect)
			if !vk.WaitUntil(20*time.Second, func() bool { return runtime.NumGoroutine() < w.baseline }) {
				m.Inconclusive("case %d: run loop did not exit after Stop", idx)
				return fires, false
			}
			errs := []error{
				w.tw.SetTimer(1, 1, c10Interval),
				w.tw.MoveTimer(1, c10Interval),
				w.tw.RemoveTimer(1),
				w.tw.Drain(func(k, v any) {}),
			}
			for i, e := range errs {
				if e != ErrClosed {
					m.Violate("C10:op-after-stop-not-ErrClosed", desc(), "step %d: operation #%d after Stop returned %v, want ErrClosed", step, i, e)
				}
			}
			m.Count("ops_after_stop", int64(len(errs)))
			if op.Op == "tickstop" {
				m.Count("ticks_immediately_followed_by_stop", 1)
				checkFires(step, op)
			} else if f := w.takeFires(); len(f) > 0 {
				m.Violate("C10:fired-after-stop", desc(), "step %d: %d callbacks after Stop", step, len(f))
			}
		}
	}
	return fires, true
}

func c10Digest(sc c10Scenario) string { return vk.Digest(vk.JSON(sc)) }

// TestVerifC10Systematic: complete family of single re-schedules for small wheels:
// every (slots<=5, phase, first delay, wait, second delay, move|reset) up to 3 revolutions.
func TestVerifC10Systematic(t *testing.T) {
	m := vk.New(t, "C10", "complete enumeration: slots 1..5 x phase x d1 x wait<d1 x d2 (1..3 revolutions) x {MoveTimer, SetTimer on live key}; then ticks until past the due tick; fire must happen exactly on the due tick")
	defer m.Done()
	c10PanicMod = 0
	idx := 0
	maxSlots := 5
	for slots := 1; slots <= maxSlots; slots++ {
		maxD := 3*slots + 1
		if maxD < 4 {
			maxD = 4
		}
		for phase := 0; phase < slots; phase++ {
			for d1 := 1; d1 <= maxD; d1++ {
				for wait := 0; wait < d1; wait++ {
					for d2 := 1; d2 <= maxD; d2++ {
						for _, kind := range []string{"move", "set"} {
							idx++
							if !m.Only(idx) {
								continue
							}
							var ops []c10Op
							for i := 0; i < phase; i++ {
								ops = append(ops, c10Op{Op: "tick"})
							}
							ops = append(ops, c10Op{Op: "set", K: 1, V: 1, D: int64(d1) * 1000})
							for i := 0; i < wait; i++ {
								ops = append(ops, c10Op{Op: "tick"})
							}
							frac := int64((idx * 37) % 1000) // sub-interval remainder must be floored away
							ops = append(ops, c10Op{Op: kind, K: 1, V: 2, D: int64(d2)*1000 + frac})
							for i := 0; i < d2+slots+1; i++ {
								ops = append(ops, c10Op{Op: "tick"})
							}
							sc := c10Scenario{Slots: slots, IntervalNs: c10Intervals[idx%len(c10Intervals)], Ops: ops}
							f, ok := runC10(m, idx, sc)
							if !ok {
								return
							}
							m.Case(c10Digest(sc), f > 0)
							m.Count("fires", int64(f))
							if m.WantSample() && idx%977 == 1 {
								m.Sample(map[string]any{"scenario": sc, "fires_observed": f})
							}
						}
					}
				}
			}
		}
	}
	m.Extra("exhaustive_family", true)
}

func c10RandomScenario(r interface{ Intn(int) int }, slotsChoices []int) c10Scenario {
	slots := slotsChoices[r.Intn(len(slotsChoices))]
	nkeys := 3 + r.Intn(3)
	nops := 30 + r.Intn(170)
	maxTicksDelay := slots*3 + slots/2 + 1
	if slots >= 100 {
		maxTicksDelay = slots*2 + 50
	}
	interval := c10Intervals[r.Intn(len(c10Intervals))]
	// huge delays only where (2^32+3) revolutions of this wheel still fit a time.Duration
	huge := r.Intn(4) == 0 && float64(interval)*float64(slots)*float64(1<<32+4) < float64(1<<62)
	var ops []c10Op
	v := 10
	for i := 0; i < nops; i++ {
		x := r.Intn(100)
		k := 1 + r.Intn(nkeys)
		d := int64(1+r.Intn(maxTicksDelay))*1000 + int64(r.Intn(1000))
		if r.Intn(4) == 0 {
			d = int64(1+r.Intn(3)) * 1000
		}
		if huge && r.Intn(12) == 0 {
			// billions of ticks: a revolution count around 2^31 / 2^32 (never due within the history, must stay
			// pending, movable, removable and be handed to Drain)
			rev := []int64{1<<31 - 1, 1 << 31, 1<<31 + 1, 1 << 32, 1<<32 + 1, 1<<32 + 2, 3 << 31}[r.Intn(7)]
			d = (rev*int64(slots)+int64(r.Intn(slots)))*1000 + int64(r.Intn(1000))
		}
		switch {
		case x < 40:
			n := 1
			if r.Intn(5) == 0 {
				n = 1 + r.Intn(slots+2)
			}
			for j := 0; j < n; j++ {
				ops = append(ops, c10Op{Op: "tick"})
			}
		case x < 62:
			v++
			ops = append(ops, c10Op{Op: "set", K: k, V: v, D: d})
		case x < 84:
			ops = append(ops, c10Op{Op: "move", K: k, D: d})
		case x < 92:
			ops = append(ops, c10Op{Op: "remove", K: k})
		case x < 95:
			ops = append(ops, c10Op{Op: "badset", K: k, V: r.Intn(3)})
		case x < 98:
			ops = append(ops, c10Op{Op: "badmove", K: k, V: r.Intn(2)})
		default:
			ops = append(ops, c10Op{Op: "badremove"})
		}
	}
	end := r.Intn(4)
	if end == 0 {
		ops = append(ops, c10Op{Op: "drain"})
		for j := 0; j < slots+2; j++ {
			ops = append(ops, c10Op{Op: "tick"})
		}
	}
	if end == 1 && r.Intn(2) == 0 {
		// several tasks due in the very tick that is followed by Stop
		for j := 0; j < 2+r.Intn(3); j++ {
			v++
			ops = append(ops, c10Op{Op: "set", K: 1 + (j % nkeys), V: v, D: 1000 + int64(r.Intn(1000))})
		}
		ops = append(ops, c10Op{Op: "tickstop"})
	} else if end <= 1 {
		ops = append(ops, c10Op{Op: "stop"})
	} else {
		// run out every pending task
		for j := 0; j < maxTicksDelay+slots+2; j++ {
			ops = append(ops, c10Op{Op: "tick"})
		}
	}
	return c10Scenario{Slots: slots, IntervalNs: interval, Ops: ops}
}

// TestVerifC10Random: seeded random histories incl. multi-revolution delays,
// repeated moves, removes, invalid arguments, Drain and Stop.
func TestVerifC10Random(t *testing.T) {
	m := vk.New(t, "C10", "seeded random histories (30-200 ops) of Set/Move/Remove/invalid ops/ticks over 3-5 keys, slots in {1,2,3,5,8,300}, delays 1..3.5 revolutions with sub-interval remainders (and, in a quarter of the small-interval histories, delays of 2^31-1 .. 3*2^31 revolutions that must stay pending), ending in run-out, Drain+ticks and/or Stop; non-trivial = at least one task fired or was drained")
	defer m.Done()
	n := vk.N(2500, 150000)
	r := m.Rand("random")
	c10PanicMod = 7 // every seventh value makes the execute callback panic
	defer func() { c10PanicMod = 0; m.Count("execute_callback_panics", atomic.LoadInt64(&c10Panics)) }()
	kinds := map[string]int64{}
	for idx := 1; idx <= n; idx++ {
		choices := []int{1, 2, 3, 5, 8}
		if idx%25 == 0 {
			choices = []int{300}
		}
		sc := c10RandomScenario(r, choices)
		if !m.Only(idx) {
			continue
		}
		f, ok := runC10(m, idx, sc)
		if !ok {
			return
		}
		for _, op := range sc.Ops {
			kinds[op.Op]++
			if op.D > 1<<40 {
				kinds["with-delay-of-2^31-or-more-revolutions"]++
			}
		}
		m.Case(c10Digest(sc), f > 0)
		m.Count("fires", int64(f))
		if m.WantSample() && idx%211 == 1 {
			short := sc
			if len(short.Ops) > 40 {
				short.Ops = short.Ops[:40]
			}
			m.Sample(map[string]any{"scenario_first_40_ops": short, "fires_observed": f})
		}
		if idx%500 == 0 {
			m.Progress()
		}
	}
	var ks []string
	for k, v := range kinds {
		m.Count("op_"+k, v)
		ks = append(ks, k)
	}
	sort.Strings(ks)
	m.Note("operation kinds exercised: %s", strings.Join(ks, ","))
}

// TestVerifC10LongHistory: one wheel, tens of thousands of set/fire/remove cycles with unique
// keys, so that the wheel's timer index (SafeMap) goes through its deletion-count driven
// migrations (>= 10000 deletions; with fewer and with more than 1000 live entries) while the
// tick-exact oracle keeps running.
func TestVerifC10LongHistory(t *testing.T) {
	m := vk.New(t, "C10", "long histories on one wheel: 24k-40k cycles of SetTimer(unique key) / occasional MoveTimer, RemoveTimer / tick, with 5 or 1500 long-lived entries kept pending, ending in a run-out; exercises the timer index across its internal migrations; same tick-exact oracle")
	defer m.Done()
	n := vk.N(3, 24)
	r := m.Rand("long")
	c10PanicMod = 211
	defer func() { c10PanicMod = 0 }()
	for idx := 1; idx <= n; idx++ {
		slots := []int{7, 60, 300}[r.Intn(3)]
		resident := []int{1500, 5, 1500}[idx%3]
		// variant 2: the resident set shrinks below the index's copy threshold (1000) after more than
		// 10000 deletions, i.e. the first migration happens while short-lived entries sit in the new map
		shrinkAt := -1
		if idx%3 == 2 {
			shrinkAt = 11000 + r.Intn(3000)
		}
		cycles := 24000 + r.Intn(16001)
		var ops []c10Op
		key := 1000
		for i := 0; i < resident; i++ {
			key++
			ops = append(ops, c10Op{Op: "set", K: key, V: key, D: int64(cycles+50+r.Intn(slots*3)) * 1000})
		}
		var recent []int
		due := map[int]int{} // generator-side due tick of the short-lived keys (cycle i starts at tick i)
		removedResidents := map[int]bool{}
		for i := 0; i < cycles; i++ {
			if shrinkAt >= 0 && i >= shrinkAt && i < shrinkAt+700 {
				k := 1001 + (i - shrinkAt)
				ops = append(ops, c10Op{Op: "remove", K: k})
				removedResidents[k] = true
			}
			key++
			d := 1 + r.Intn(slots+3)
			ops = append(ops, c10Op{Op: "set", K: key, V: key, D: int64(d) * 1000})
			due[key] = i + d
			delete(due, key-40)
			// every key still pending two cycles after it was set is re-scheduled once: whatever
			// the index lost in a migration during the last two cycles is touched right after it
			if old := key - 2; due[old] > i {
				nd := 1 + r.Intn(2*slots)
				ops = append(ops, c10Op{Op: "move", K: old, D: int64(nd) * 1000})
				due[old] = i + nd
			}
			recent = append(recent, key)
			if len(recent) > 8 {
				recent = recent[1:]
			}
			// frequent re-schedules / removals of recently set keys: an entry the index lost
			// in a migration is one of these, and the lost entry shows as a fire the model
			// does not expect (RemoveTimer / MoveTimer silently found nothing)
			switch x := r.Intn(10); {
			case x < 3:
				k, nd := recent[r.Intn(len(recent))], 1+r.Intn(2*slots)
				ops = append(ops, c10Op{Op: "move", K: k, D: int64(nd) * 1000})
				if due[k] > i {
					due[k] = i + nd
				}
			case x < 5:
				k := recent[r.Intn(len(recent))]
				ops = append(ops, c10Op{Op: "remove", K: k})
				delete(due, k)
			}
			ops = append(ops, c10Op{Op: "tick"})
		}
		// the long-lived entries went through the index migrations: each must still be
		// found by RemoveTimer / MoveTimer / re-SetTimer (a third each, the rest left alone)
		for i := 0; i < resident; i++ {
			k := 1001 + i
			switch i % 4 {
			case 0:
				ops = append(ops, c10Op{Op: "remove", K: k})
			case 1:
				ops = append(ops, c10Op{Op: "move", K: k, D: int64(1+r.Intn(3*slots)) * 1000})
			case 2:
				ops = append(ops, c10Op{Op: "set", K: k, V: -k, D: int64(1+r.Intn(3*slots)) * 1000})
			}
			if i%97 == 0 {
				ops = append(ops, c10Op{Op: "tick"})
			}
		}
		for j := 0; j < 4*slots+60; j++ {
			ops = append(ops, c10Op{Op: "tick"})
		}
		if idx%3 == 0 {
			ops = append(ops, c10Op{Op: "drain"}, c10Op{Op: "tick"}, c10Op{Op: "stop"})
		}
		if !m.Only(300000 + idx) {
			continue
		}
		sc := c10Scenario{Slots: slots, IntervalNs: c10Intervals[r.Intn(len(c10Intervals))], Ops: ops}
		f, ok := runC10(m, 300000+idx, sc)
		if !ok {
			return
		}
		m.Case(vk.Digest(slots, resident, cycles, idx), f > 10000)
		m.Count("fires", int64(f))
		m.Count("cycles", int64(cycles))
		if m.WantSample() {
			m.Sample(map[string]any{"slots": slots, "resident_entries": resident, "cycles": cycles, "fires_observed": f})
		}
	}
}
