//go:build verif

package collection

// C09 — rolling window monitor (DESIGN.md §3 C09, window half).
//
// The real RollingWindow runs under the virtual clock of lib/timex. After every
// step (Add or time advance) the window is reduced and the multiset of non-empty
// buckets it shows is compared with a reference model: a map bucket-index ->
// (sum,count) of every add, bucket index = floor((t-origin)/interval); visible =
// the last `size` indexes up to the current one (minus the current one with
// IgnoreCurrentBucket). Values are small integers, so float sums are exact in any
// order. The statement does not say where the bucket grid starts: in the main
// families the window is created on a multiple of the interval (creation grid ==
// absolute grid); in the "unaligned" family both grids are tracked and only an
// output that is consistent with neither is reported.

import (
	"fmt"
	"math/rand"
	"sort"
	"sync"
	"testing"
	"time"

	"github.com/gotid/god/lib/timex"
	"verif.local/vk"
)

type c09Step struct {
	Op string `json:"op"` // add | adv
	V  int    `json:"v,omitempty"`
	D  int64  `json:"d,omitempty"` // nanoseconds
	C  string `json:"c,omitempty"` // class of the advance (for evidence)
}

type c09Scenario struct {
	Size     int       `json:"size"`
	Interval int64     `json:"interval_ns"`
	Ignore   bool      `json:"ignore_current"`
	Start    int64     `json:"start_ns"` // virtual time at which the window is created
	Steps    []c09Step `json:"steps"`
}

type c09B struct {
	sum   float64
	count int64
}

// c09Ref is the reference model for one grid origin.
type c09Ref struct {
	origin   int64
	interval int64
	size     int64
	ignore   bool
	b        map[int64]*c09B
	alive    bool
	kind     string // first mismatch class
	why      string
}

func newC09Ref(origin, interval int64, size int, ignore bool) *c09Ref {
	return &c09Ref{origin: origin, interval: interval, size: int64(size), ignore: ignore, b: map[int64]*c09B{}, alive: true}
}

func (r *c09Ref) idx(now int64) int64 { return (now - r.origin) / r.interval } // now >= origin always

func (r *c09Ref) add(now int64, v float64) {
	i := r.idx(now)
	x := r.b[i]
	if x == nil {
		x = &c09B{}
		r.b[i] = x
	}
	x.sum += v
	x.count++
}

// visible returns the non-empty visible buckets (oldest first) and prunes expired ones.
func (r *c09Ref) visible(now int64) []c09B {
	cur := r.idx(now)
	lo, hi := cur-r.size+1, cur
	if r.ignore {
		hi = cur - 1
	}
	for i := range r.b {
		if i < lo {
			delete(r.b, i)
		}
	}
	var out []c09B
	if r.size <= 64 {
		for i := lo; i <= hi; i++ {
			if x := r.b[i]; x != nil {
				out = append(out, *x)
			}
		}
		return out
	}
	var ks []int64
	for i := range r.b {
		if i >= lo && i <= hi {
			ks = append(ks, i)
		}
	}
	sort.Slice(ks, func(a, b int) bool { return ks[a] < ks[b] })
	for _, i := range ks {
		out = append(out, *r.b[i])
	}
	return out
}

func c09Totals(bs []c09B) (sum float64, count int64) {
	for _, b := range bs {
		sum += b.sum
		count += b.count
	}
	return
}

func c09Sorted(bs []c09B) []c09B {
	out := append([]c09B(nil), bs...)
	sort.Slice(out, func(i, j int) bool {
		if out[i].count != out[j].count {
			return out[i].count < out[j].count
		}
		return out[i].sum < out[j].sum
	})
	return out
}

// c09Compare returns "" when got shows exactly the reference's visible values.
func c09Compare(got, want []c09B) string {
	gs, gc := c09Totals(got)
	ws, wc := c09Totals(want)
	switch {
	case gc > wc:
		return "extra-visible" // something older is seen, or something counted twice
	case gc < wc:
		return "recent-lost"
	case gs != ws:
		return "wrong-values"
	}
	a, b := c09Sorted(got), c09Sorted(want)
	if len(a) != len(b) {
		return "bucket-grouping"
	}
	for i := range a {
		if a[i] != b[i] {
			return "bucket-grouping"
		}
	}
	return ""
}

func c09Observe(rw *RollingWindow) (nonEmpty []c09B, delivered int) {
	rw.Reduce(func(b *Bucket) {
		delivered++
		if b.Count != 0 || b.Sum != 0 {
			nonEmpty = append(nonEmpty, c09B{sum: b.Sum, count: b.Count})
		}
	})
	return
}

type c09Obs struct {
	adds, advances, reduces int64
	expiries                int64 // checks at which the visible count dropped after an advance
	seenNonEmpty            int64 // checks at which at least one value was visible
	longGaps                int64 // advances >= whole window
	classes                 map[string]int64
	lastGot, lastWant       []c09B
}

// c09RunWindow executes one scenario. ok=false only for harness problems.
func c09RunWindow(m *vk.M, idx int, sc c09Scenario, obs *c09Obs) {
	desc := func() string { return fmt.Sprintf("case=%d;%s", idx, vk.JSON(sc)) }
	timex.VerifFakeClock(time.Duration(sc.Start))
	now := sc.Start
	var opts []RollingWindowOption
	if sc.Ignore {
		opts = append(opts, IgnoreCurrentBucket())
	}
	rw := NewRollingWindow(sc.Size, time.Duration(sc.Interval), opts...)
	refs := []*c09Ref{newC09Ref(sc.Start, sc.Interval, sc.Size, sc.Ignore)}
	if sc.Start%sc.Interval != 0 {
		// grid origin not determined by the statement: also accept the absolute grid
		refs = append(refs, newC09Ref(0, sc.Interval, sc.Size, sc.Ignore))
	}
	sigSuffix := ""
	if sc.Ignore {
		sigSuffix = ":ignore-current"
	}
	prevCount := int64(0)
	check := func(step int, st c09Step) bool {
		got, _ := c09Observe(rw)
		obs.reduces++
		anyAlive := false
		for _, r := range refs {
			want := r.visible(now)
			if !r.alive {
				continue
			}
			if k := c09Compare(got, want); k != "" {
				r.alive = false
				r.kind = k
				r.why = fmt.Sprintf("%s at step %d %+v (virtual now=%d, bucket %d of grid origin %d): Reduce shows %v, reference %v",
					k, step, st, now, r.idx(now), r.origin, got, want)
				continue
			}
			anyAlive = true
			obs.lastGot, obs.lastWant = got, want
		}
		if !anyAlive {
			detail := refs[0].why
			if len(refs) > 1 {
				detail += " || absolute grid: " + refs[1].why
			}
			m.Violate("C09:window:"+refs[0].kind+sigSuffix, desc(), "size=%d interval=%dns ignoreCurrent=%v: %s", sc.Size, sc.Interval, sc.Ignore, detail)
			return false
		}
		_, gc := c09Totals(got)
		if gc > 0 {
			obs.seenNonEmpty++
		}
		if st.Op == "adv" && gc < prevCount {
			obs.expiries++
		}
		prevCount = gc
		return true
	}
	if !check(-1, c09Step{Op: "new"}) {
		return
	}
	for i, st := range sc.Steps {
		switch st.Op {
		case "add":
			rw.Add(float64(st.V))
			for _, r := range refs {
				r.add(now, float64(st.V))
			}
			obs.adds++
		case "adv":
			timex.VerifAdvance(time.Duration(st.D))
			now += st.D
			obs.advances++
			if obs.classes != nil {
				obs.classes[st.C]++
			}
			if st.D >= sc.Interval*int64(sc.Size) {
				obs.longGaps++
			}
		}
		if !check(i, st) {
			return
		}
	}
}

var c09Intervals = []int64{10, int64(time.Millisecond), int64(50 * time.Millisecond), int64(100 * time.Millisecond), int64(250 * time.Millisecond), int64(time.Second)}
var c09Sizes = []int{1, 2, 3, 4, 5, 8, 10, 40, 50}

func c09GenWindow(r *rand.Rand, nsteps int, unaligned bool) c09Scenario {
	sc := c09Scenario{
		Size:     c09Sizes[r.Intn(len(c09Sizes))],
		Interval: c09Intervals[r.Intn(len(c09Intervals))],
		Ignore:   r.Intn(2) == 0,
	}
	I := sc.Interval
	W := I * int64(sc.Size)
	sc.Start = (1_000_000 + int64(r.Intn(1000))) * I
	if unaligned {
		sc.Start += 1 + r.Int63n(I-1)
	}
	now := sc.Start
	toBoundary := func() int64 { return I - (now-sc.Start)%I }
	for len(sc.Steps) < nsteps {
		if r.Intn(100) < 45 {
			n := 1
			if r.Intn(6) == 0 {
				n = 1 + r.Intn(5)
			}
			for j := 0; j < n; j++ {
				sc.Steps = append(sc.Steps, c09Step{Op: "add", V: 1 + r.Intn(100)})
			}
			continue
		}
		var d int64
		var c string
		switch r.Intn(14) {
		case 0:
			d, c = 0, "zero"
		case 1:
			d, c = 1, "1ns"
		case 2:
			d, c = int64(1+r.Intn(3))*I/4, "sub-bucket"
		case 3:
			d, c = I-1, "bucket-1ns"
		case 4:
			d, c = I, "bucket"
		case 5:
			d, c = I+1, "bucket+1ns"
		case 6:
			d, c = toBoundary(), "to-boundary"
		case 7:
			d, c = toBoundary()-1, "to-boundary-1ns"
		case 8:
			d, c = int64(2+r.Intn(sc.Size))*I, "multi-bucket"
		case 9:
			d, c = int64(2+r.Intn(sc.Size))*I+int64(r.Intn(3))-1, "multi-bucket+-1ns"
		case 10:
			d, c = W+int64(r.Intn(3))-1, "window+-1ns"
		case 11:
			d, c = r.Int63n(3*W+1), "random<=3windows"
		case 12:
			d, c = int64(1+r.Intn(3))*W+r.Int63n(I), "multi-window"
		case 13:
			if r.Intn(4) == 0 {
				d, c = int64(time.Hour)+r.Int63n(I), "1h"
			} else {
				d, c = toBoundary()+int64(r.Intn(sc.Size+1))*I, "k-buckets-to-boundary"
			}
		}
		if d < 0 {
			d = 0
		}
		now += d
		sc.Steps = append(sc.Steps, c09Step{Op: "adv", D: d, C: c})
	}
	return sc
}

func c09RunFamily(t *testing.T, m *vk.M, n, nsteps int, unaligned bool) {
	r := m.Rand("window", unaligned)
	obs := &c09Obs{classes: map[string]int64{}}
	defer timex.VerifRealClock()
	for idx := 1; idx <= n; idx++ {
		sc := c09GenWindow(r, nsteps, unaligned)
		if !m.Only(idx) {
			continue
		}
		before := *obs
		c09RunWindow(m, idx, sc, obs)
		nontrivial := obs.expiries > before.expiries && obs.seenNonEmpty > before.seenNonEmpty
		m.Case(vk.Digest(vk.JSON(sc)), nontrivial)
		if m.WantSample() && idx%397 == 1 {
			short := sc
			if len(short.Steps) > 12 {
				short.Steps = short.Steps[:12]
			}
			m.Sample(map[string]any{"scenario_first_12_steps": short, "steps": len(sc.Steps),
				"reduces_compared": obs.reduces - before.reduces, "expiries_observed": obs.expiries - before.expiries,
				"last_reduce_nonempty_buckets": fmt.Sprint(obs.lastGot), "reference": fmt.Sprint(obs.lastWant)})
		}
		if idx%500 == 0 {
			m.Progress()
		}
	}
	m.Count("adds", obs.adds)
	m.Count("advances", obs.advances)
	m.Count("reduces_compared", obs.reduces)
	m.Count("reduces_with_visible_values", obs.seenNonEmpty)
	m.Count("expiries_observed", obs.expiries)
	m.Count("advances_ge_whole_window", obs.longGaps)
	for k, v := range obs.classes {
		m.Count("advance_"+k, v)
	}
}

// TestVerifC09WindowRandom: seeded histories, window created on the bucket grid.
func TestVerifC09WindowRandom(t *testing.T) {
	m := vk.New(t, "C09", "seeded histories of Add / virtual-time advance (0, 1ns, sub-bucket, bucket+-1ns, exactly to the next boundary and 1ns before it, multi-bucket, window+-1ns, up to 3 windows, 1h) over size in {1..50} x interval in {10ns..1s} x IgnoreCurrentBucket; after every step Reduce is compared with the reference multiset of non-empty buckets; non-trivial = values were visible and at least one expiry was observed")
	defer m.Done()
	c09RunFamily(t, m, vk.N(2000, 60000), 200, false)
}

// TestVerifC09WindowUnaligned: same, window created off the absolute grid; a
// verdict needs the output to be inconsistent with both candidate grids.
func TestVerifC09WindowUnaligned(t *testing.T) {
	m := vk.New(t, "C09", "as WindowRandom but the window is created at an arbitrary virtual time; the reference keeps two grids (creation-time origin, absolute origin) and reports only outputs consistent with neither")
	defer m.Done()
	c09RunFamily(t, m, vk.N(600, 20000), 200, true)
}

// TestVerifC09WindowBoundary: complete small family around exact boundaries:
// one add at offset p in its bucket, a gap of k buckets + {-1,0,+1} ns, a second
// add, then bucket-by-bucket ageing until everything must be gone.
func TestVerifC09WindowBoundary(t *testing.T) {
	m := vk.New(t, "C09", "complete family: size 1..5 x IgnoreCurrentBucket x add offset p in {0,1ns,I/2,I-1ns} x gap = k buckets + {-1,0,+1}ns for k in 0..3*size+1, second add, then size+2 single-bucket advances; Reduce compared after every step")
	defer m.Done()
	defer timex.VerifRealClock()
	const I = int64(100 * time.Millisecond)
	obs := &c09Obs{classes: map[string]int64{}}
	idx := 0
	for size := 1; size <= 5; size++ {
		for _, ign := range []bool{false, true} {
			for _, p := range []int64{0, 1, I / 2, I - 1} {
				for k := 0; k <= 3*size+1; k++ {
					for _, e := range []int64{-1, 0, 1} {
						g := int64(k)*I + e
						if g < 0 {
							continue
						}
						idx++
						if !m.Only(idx) {
							continue
						}
						sc := c09Scenario{Size: size, Interval: I, Ignore: ign, Start: 5_000_000 * I}
						sc.Steps = append(sc.Steps, c09Step{Op: "adv", D: p, C: "offset"}, c09Step{Op: "add", V: 7},
							c09Step{Op: "adv", D: g, C: "gap"}, c09Step{Op: "add", V: 11})
						for j := 0; j < size+2; j++ {
							sc.Steps = append(sc.Steps, c09Step{Op: "adv", D: I, C: "age"})
						}
						before := *obs
						c09RunWindow(m, idx, sc, obs)
						m.Case(vk.Digest(vk.JSON(sc)), obs.reduces > before.reduces && (obs.seenNonEmpty > before.seenNonEmpty || (ign && size == 1)))
						if m.WantSample() && idx%499 == 1 {
							m.Sample(map[string]any{"scenario": sc, "reduces_compared": obs.reduces - before.reduces, "expiries_observed": obs.expiries - before.expiries})
						}
					}
				}
			}
		}
	}
	m.Count("adds", obs.adds)
	m.Count("advances", obs.advances)
	m.Count("reduces_compared", obs.reduces)
	m.Count("expiries_observed", obs.expiries)
	m.Count("advances_ge_whole_window", obs.longGaps)
	m.Extra("exhaustive_family", true)
}

// TestVerifC09RaceAdders (-race run): concurrent adders and readers. The virtual
// clock moves only at barriers between phases (the property quantifies over calls
// separated by time advances), so the reference is exact at every barrier; during a
// phase readers check only bounds that hold for any interleaving.
func TestVerifC09RaceAdders(t *testing.T) {
	m := vk.New(t, "C09", "16 goroutines Add concurrently (4 more Reduce concurrently) on one window with the virtual clock frozen; at the barrier Reduce must equal the reference exactly; then the clock advances by a seeded step (sub-bucket .. 2 windows) and the next phase starts; non-trivial = the phase's adds were visible at the barrier")
	defer m.Done()
	defer timex.VerifRealClock()
	nWindows := vk.N(12, 120)
	phases := vk.N(60, 300)
	const adders, readers = 16, 4
	r := m.Rand("race-adders")
	var totalAdds, totalReads, expiries, comparisons int64
	for w := 1; w <= nWindows; w++ {
		if !m.Only(w) {
			continue
		}
		size := []int{1, 2, 3, 5, 10}[r.Intn(5)]
		I := []int64{int64(time.Millisecond), int64(100 * time.Millisecond)}[r.Intn(2)]
		ign := r.Intn(2) == 0
		start := (2_000_000 + int64(w)) * I
		seedBase := r.Int63()
		desc := fmt.Sprintf("case=%d;{\"size\":%d,\"interval_ns\":%d,\"ignore_current\":%v,\"phases\":%d,\"adders\":%d,\"seed_base\":%d}", w, size, I, ign, phases, adders, seedBase)
		m.Current(desc)
		timex.VerifFakeClock(time.Duration(start))
		now := start
		var opts []RollingWindowOption
		if ign {
			opts = append(opts, IgnoreCurrentBucket())
		}
		rw := NewRollingWindow(size, time.Duration(I), opts...)
		ref := newC09Ref(start, I, size, ign)
		sigSuffix := ""
		if ign {
			sigSuffix = ":ignore-current"
		}
		failed := false
		visibleAtBarrier := false
		for ph := 0; ph < phases && !failed; ph++ {
			// per-goroutine add lists, fixed before the goroutines start
			lists := make([][]int, adders)
			var phaseSum float64
			var phaseCount int64
			for g := range lists {
				n := r.Intn(12)
				for j := 0; j < n; j++ {
					v := 1 + r.Intn(50)
					lists[g] = append(lists[g], v)
					phaseSum += float64(v)
					phaseCount++
				}
			}
			base := ref.visible(now)
			_, baseCount := c09Totals(base)
			baseSum, _ := c09Totals(base)
			var wg sync.WaitGroup
			var bad sync.Map
			for g := 0; g < adders; g++ {
				wg.Add(1)
				go func(vs []int) {
					defer wg.Done()
					for _, v := range vs {
						rw.Add(float64(v))
					}
				}(lists[g])
			}
			for g := 0; g < readers; g++ {
				wg.Add(1)
				go func(g int) {
					defer wg.Done()
					for j := 0; j < 4; j++ {
						got, _ := c09Observe(rw)
						s, c := c09Totals(got)
						lo, hi := baseCount, baseCount+phaseCount
						if ign { // the phase's adds are in the current bucket: never visible
							hi = baseCount
						}
						if c < lo || c > hi || s < baseSum || s > baseSum+phaseSum {
							bad.Store(g, fmt.Sprintf("concurrent Reduce saw count=%d sum=%v, bounds count[%d,%d] sum[%v,%v]", c, s, lo, hi, baseSum, baseSum+phaseSum))
						}
					}
				}(g)
			}
			wg.Wait()
			totalAdds += phaseCount
			totalReads += readers * 4
			bad.Range(func(_, v any) bool {
				if !failed {
					m.Violate("C09:window:concurrent-reduce-out-of-bounds"+sigSuffix, desc, "phase %d: %s", ph, v)
					failed = true
				}
				return true
			})
			if failed {
				break
			}
			for _, l := range lists {
				for _, v := range l {
					ref.add(now, float64(v))
				}
			}
			got, _ := c09Observe(rw)
			want := ref.visible(now)
			if k := c09Compare(got, want); k != "" {
				m.Violate("C09:window:concurrent-adders:"+k+sigSuffix, desc, "phase %d (virtual now=%d): after %d concurrent adds Reduce shows %v, reference %v", ph, now, phaseCount, got, want)
				failed = true
				break
			}
			_, gc := c09Totals(got)
			if phaseCount > 0 && !ign && gc >= phaseCount {
				visibleAtBarrier = true
			}
			// advance
			var d int64
			switch r.Intn(8) {
			case 0:
				d = 0
			case 1:
				d = I / 2
			case 2, 3:
				d = I
			case 4:
				d = I - (now-start)%I
			case 5:
				d = int64(1+r.Intn(size+1)) * I
			case 6:
				d = int64(size)*I + int64(r.Intn(3)) - 1
			case 7:
				d = r.Int63n(2*int64(size)*I + 1)
			}
			timex.VerifAdvance(time.Duration(d))
			now += d
			got, _ = c09Observe(rw)
			want = ref.visible(now)
			if k := c09Compare(got, want); k != "" {
				m.Violate("C09:window:concurrent-adders:"+k+sigSuffix, desc, "phase %d: after advancing %dns (virtual now=%d) Reduce shows %v, reference %v", ph, d, now, got, want)
				failed = true
				break
			}
			_, gc2 := c09Totals(got)
			if gc2 > 0 {
				visibleAtBarrier = true
			}
			if gc2 < gc {
				expiries++
			}
			comparisons += 2
		}
		m.Case(vk.Digest(desc), visibleAtBarrier || (ign && size == 1))
		if m.WantSample() {
			m.Sample(map[string]any{"scenario": desc, "adds_so_far": totalAdds, "concurrent_reduces_so_far": totalReads})
		}
	}
	m.Count("concurrent_adds", totalAdds)
	m.Count("concurrent_reduces", totalReads)
	m.Count("barrier_comparisons", comparisons)
	m.Count("expiries_observed", expiries)
}
