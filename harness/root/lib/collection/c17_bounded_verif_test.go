//go:build verif

package collection

// C17 — a bounded cache under parallel READ hits. A hit refreshes the key's recency, i.e. it
// writes to the LRU structure: parallel Get / Take hits on different keys must leave the bound
// and the eviction order intact (and must be free of data races, which the -race run reports).

import (
	"fmt"
	"sync"
	"testing"
	"time"

	"verif.local/vk"
)

func TestVerifC17BoundedReadersRace(t *testing.T) {
	m := vk.New(t, "C17", "bounded cache (limit 4-48) filled to its limit, then 4-8 goroutines hitting different keys in parallel through Get and Take (2000 hits each); at quiescence: size <= limit, every key still present with its value; then `limit` fresh keys are set: the cache holds exactly the fresh keys (all old ones evicted, none of the fresh ones)")
	defer m.Done()
	n := vk.N(30, 1500)
	r := m.Rand("bounded")
	for idx := 1; idx <= n; idx++ {
		limit := 4 + r.Intn(45)
		readers := 4 + r.Intn(5)
		seeds := make([]int64, readers)
		for i := range seeds {
			seeds[i] = r.Int63()
		}
		if !m.Only(idx) {
			continue
		}
		desc := fmt.Sprintf("case=%d;limit=%d readers=%d", idx, limit, readers)
		c, err := NewCache(time.Hour, WithLimit(limit))
		if err != nil {
			m.Inconclusive("NewCache: %v", err)
			return
		}
		for k := 0; k < limit; k++ {
			c.Set(fmt.Sprintf("old%d", k), k)
		}
		var wg sync.WaitGroup
		var bad sync.Map
		for g := 0; g < readers; g++ {
			wg.Add(1)
			go func(g int) {
				defer wg.Done()
				rr := m.Rand("bounded-reader", idx, g, seeds[g])
				for i := 0; i < 2000; i++ {
					k := rr.Intn(limit)
					key := fmt.Sprintf("old%d", k)
					var v any
					var ok bool
					if i%3 == 0 {
						var e error
						v, e = c.Take(key, func() (any, error) { return -1, nil })
						ok = e == nil
					} else {
						v, ok = c.Get(key)
					}
					if !ok || v != k {
						bad.Store(key, fmt.Sprintf("%v,%v", v, ok))
					}
				}
			}(g)
		}
		if !vk.Within(60*time.Second, wg.Wait) {
			m.Violate("C17:bounded:hang", desc, "parallel readers did not finish\n%s", vk.Stacks())
			return
		}
		bad.Range(func(k, v any) bool {
			m.Violate("C17:bounded:hit-lost-or-wrong", desc, "a parallel hit on %v returned (%v); nothing was deleted or over the limit", k, v)
			return false
		})
		if sz := c.size(); sz > limit {
			m.Violate("C17:size-over-limit", desc, "cache holds %d entries after parallel hits, limit %d", sz, limit)
		}
		for k := 0; k < limit; k++ {
			c.Set(fmt.Sprintf("new%d", k), k)
		}
		missingNew, leftOld := 0, 0
		for k := 0; k < limit; k++ {
			if _, ok := c.Get(fmt.Sprintf("new%d", k)); !ok {
				missingNew++
			}
		}
		for k := 0; k < limit; k++ {
			if _, ok := c.Get(fmt.Sprintf("old%d", k)); ok {
				leftOld++
			}
		}
		if missingNew > 0 || leftOld > 0 || c.size() > limit {
			m.Violate("C17:bounded:eviction-order-corrupted", desc, "after %d fresh keys were set on a cache of limit %d: %d fresh keys missing, %d old keys still present, size %d", limit, limit, missingNew, leftOld, c.size())
		}
		m.Case(vk.Digest(desc), true)
		m.Count("parallel_hits", int64(readers*2000))
		if m.WantSample() && idx%10 == 1 {
			m.Sample(map[string]any{"scenario": desc})
		}
	}
}
