//go:build verif

package collection

// C17 — expiries below the wheel's granularity, and option values shared by caches.
//   (a) re-Set of a PRESENT key with an expiry below one tick: the wheel's "fire now" path runs the
//       cache's own expiry callback, which calls back into the wheel; afterwards the cache must still
//       answer (Set / Get / Del of other keys return) and the key is gone after the next tick;
//   (b) a FRESH key set with an expiry below one tick (incl. below one millisecond: the forgotten-unit
//       case SetWithExpire(k, v, 30)) is dropped by the next tick, never kept for ever;
//   (c) one CacheOption value (WithLimit(n)) used for two caches: each cache has its own bound and its
//       own recency order.
// The harness-driven wheel of c17_verif_test.go supplies the ticks; waits are watchdogs only.

import (
	"fmt"
	"runtime"
	"testing"
	"time"

	"verif.local/vk"
)

func TestVerifC17SubTickAndSharedOptions(t *testing.T) {
	m := vk.New(t, "C17", "sub-tick expiries on the harness-driven wheel (re-Set of a present key / fresh key, expiry 30 ns .. 900 ms) and one WithLimit option value shared by two caches; the cache must stay responsive, sub-tick entries are gone after the next tick, each cache keeps its own bound")
	defer m.Done()
	n := vk.N(40, 2000)
	r := m.Rand("subtick")
	subs := []time.Duration{30, 999, time.Microsecond, 999 * time.Microsecond, time.Millisecond, 30 * time.Millisecond, 300 * time.Millisecond, 900 * time.Millisecond}
	for idx := 1; idx <= n; idx++ {
		kind := []string{"reset-present-key", "fresh-key", "shared-limit-option"}[idx%3]
		exp := subs[r.Intn(len(subs))]
		limit := r.Intn(3) * 2 // 0, 2, 4
		if !m.Only(idx) {
			continue
		}
		desc := fmt.Sprintf("case=%d;kind=%s expiry=%v limit=%d", idx, kind, exp, limit)
		if kind == "shared-limit-option" {
			lim := 2 + r.Intn(3)
			g0 := runtime.NumGoroutine()
			opt := WithLimit(lim)
			a, err1 := NewCache(time.Hour, opt)
			b, err2 := NewCache(time.Hour, opt)
			if err1 != nil || err2 != nil {
				m.Inconclusive("NewCache: %v %v", err1, err2)
				return
			}
			for k := 0; k < lim; k++ {
				a.Set(fmt.Sprintf("a%d", k), k)
			}
			for k := 0; k < lim; k++ {
				b.Set(fmt.Sprintf("b%d", k), k)
			}
			missing := 0
			for k := 0; k < lim; k++ {
				if _, ok := a.Get(fmt.Sprintf("a%d", k)); !ok {
					missing++
				}
				if _, ok := b.Get(fmt.Sprintf("b%d", k)); !ok {
					missing++
				}
			}
			if missing > 0 || a.size() > lim || b.size() > lim {
				m.Violate("C17:shared-option:caches-not-independent", desc, "two caches built from one WithLimit(%d) value, %d keys each: %d keys missing, sizes %d and %d", lim, lim, missing, a.size(), b.size())
			}
			a.Set("a-extra", 1)
			if _, ok := b.Get("b0"); !ok || b.size() != lim {
				m.Violate("C17:shared-option:caches-not-independent", desc, "a Set on cache A changed cache B (size %d, b0 present=%v)", b.size(), ok)
			}
			a.timingWheel.Stop()
			b.timingWheel.Stop()
			// both wheel loops must be gone before the next case takes its goroutine baseline (the two
			// statistics loops live for the whole process)
			vk.WaitUntil(20*time.Second, func() bool { return runtime.NumGoroutine() <= g0+2 })
			m.Case(vk.Digest(desc), true)
			m.Count("schedules_"+kind, 1)
			continue
		}
		env, err := newC17Cache(time.Hour, limit)
		if err != nil {
			m.Inconclusive("case %d: %v", idx, err)
			return
		}
		hung := false
		step := func(what string, f func()) bool {
			if vk.Within(20*time.Second, f) {
				return true
			}
			hung = true
			m.Violate("C17:hang:after-sub-tick-expiry", desc, "%s has not returned after 20 s (cache operations must not block on the wheel)\n%s", what, vk.Stacks())
			return false
		}
		ok := true
		if kind == "reset-present-key" {
			ok = step("Set", func() { env.c.Set("k", 1) }) &&
				step("SetWithExpire on the present key", func() { env.c.SetWithExpire("k", 2, exp) })
		} else {
			ok = step("SetWithExpire on a fresh key", func() { env.c.SetWithExpire("k", 2, exp) })
		}
		ok = ok && step("Set of another key", func() { env.c.Set("other", 7) }) &&
			step("Get", func() { env.c.Get("other") }) &&
			step("Take", func() { _, _ = env.c.Take("third", func() (any, error) { return 3, nil }) }) &&
			step("Del", func() { env.c.Del("third") })
		if ok {
			// (called directly: the quiescence test counts goroutines, a watchdog goroutine would disturb it; the
			// steps above have just shown that the wheel's loop is answering)
			if !(env.doTick() && env.doTick()) {
				m.Inconclusive("case %d: no quiescence after the ticks", idx)
				env.close()
				return
			}
		}
		if ok {
			if v, found := env.c.Get("k"); found {
				m.Violate("C17:not-expired", desc, "key with expiry %v still present (value %v) two ticks after its last Set", exp, v)
			}
			if v, found := env.c.Get("other"); !found || v != 7 {
				m.Violate("C17:get-missing", desc, "unrelated key lost: Get(other)=(%v,%v)", v, found)
			}
		}
		if hung {
			return // the wheel of this cache is stuck; further cases would wait out the same watchdog
		}
		env.close()
		m.Case(vk.Digest(desc), true)
		m.Count("schedules_"+kind, 1)
		if m.WantSample() && idx%13 == 1 {
			m.Sample(map[string]any{"scenario": desc})
		}
	}
}
