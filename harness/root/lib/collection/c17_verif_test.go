//go:build verif

package collection

// C17 — in-memory cache monitor (DESIGN.md §3 C17).
// The real Cache is built with NewCache; its expiry wheel is then replaced by a
// wheel with the same interval/slots/execute callback on a harness ticker
// (unbuffered channel, barrier + goroutine quiescence as in C10), so expiry is
// decided in logical ticks. A reference LRU + expiry-window model runs side by side.

import (
	"errors"
	"fmt"
	"math"
	"runtime"
	"sort"
	"strings"
	"sync"
	"sync/atomic"
	"testing"
	"time"

	"github.com/anishathalye/porcupine"
	"verif.local/vk"
)

type c17Ticker struct{ c chan time.Time }

func (t *c17Ticker) Chan() <-chan time.Time { return t.c }
func (t *c17Ticker) Stop()                  {}

type c17Op struct {
	Op  string `json:"op"` // set setx get del take takeerr tick
	K   string `json:"k,omitempty"`
	V   int    `json:"v,omitempty"`
	E   int    `json:"e,omitempty"` // expiry seconds for setx
	Num int    `json:"n,omitempty"` // ticks
}

type c17Scenario struct {
	Limit  int     `json:"limit"`
	Expire int     `json:"expire_s"`
	Ops    []c17Op `json:"ops"`
}

type c17Env struct {
	c        *Cache
	tk       *c17Ticker
	tick     int
	baseline int
}

var c17Floor int

// newC17Cache builds a real cache and swaps its wheel for a harness-driven one
// that reuses the cache's own execute callback.
func newC17Cache(expire time.Duration, limit int) (*c17Env, error) {
	if c17Floor == 0 {
		c17Floor = runtime.NumGoroutine()
	}
	floor := runtime.NumGoroutine()
	var opts []CacheOption
	if limit > 0 {
		opts = append(opts, WithLimit(limit))
	}
	c, err := NewCache(expire, opts...)
	if err != nil {
		return nil, err
	}
	orig := c.timingWheel
	orig.Stop()
	// NewCache started: stat loop (+1, lives forever) and the wheel loop (+1, exits after Stop)
	if !vk.WaitUntil(20*time.Second, func() bool { return runtime.NumGoroutine() <= floor+1 }) {
		return nil, fmt.Errorf("original wheel loop did not exit (goroutines %d, floor %d)", runtime.NumGoroutine(), floor)
	}
	e := &c17Env{c: c, tk: &c17Ticker{c: make(chan time.Time)}}
	tw, err := newTimingWheelWithClock(orig.interval, orig.numSlots, orig.execute, e.tk)
	if err != nil {
		return nil, err
	}
	c.timingWheel = tw
	e.baseline = floor + 2
	return e, nil
}

func (e *c17Env) quiesce() bool {
	_ = e.c.timingWheel.RemoveTimer("\x00c17-barrier")
	return vk.WaitUntil(20*time.Second, func() bool { return runtime.NumGoroutine() <= e.baseline })
}

func (e *c17Env) doTick() bool {
	e.tick++
	e.tk.c <- time.Time{}
	return e.quiesce()
}

func (e *c17Env) close() {
	e.c.timingWheel.Stop()
	// the stat loop goroutine of every cache lives for the whole process; only the wheel loop exits
	vk.WaitUntil(20*time.Second, func() bool { return runtime.NumGoroutine() <= e.baseline-1 })
}

func (e *c17Env) keys() []string {
	e.c.lock.Lock()
	defer e.c.lock.Unlock()
	ks := make([]string, 0, len(e.c.data))
	for k := range e.c.data {
		ks = append(ks, k)
	}
	sort.Strings(ks)
	return ks
}

type c17Entry struct {
	v       int
	setTick int
	e       int // expiry seconds
}

type c17Model struct {
	limit  int
	ents   map[string]*c17Entry
	recent []string // most recent first
}

func (m *c17Model) touch(k string) {
	for i, x := range m.recent {
		if x == k {
			m.recent = append(m.recent[:i], m.recent[i+1:]...)
			break
		}
	}
	m.recent = append([]string{k}, m.recent...)
}

func (m *c17Model) drop(k string) {
	delete(m.ents, k)
	for i, x := range m.recent {
		if x == k {
			m.recent = append(m.recent[:i], m.recent[i+1:]...)
			break
		}
	}
}

func (m *c17Model) set(k string, v, tick, e int) (evicted string) {
	m.ents[k] = &c17Entry{v: v, setTick: tick, e: e}
	m.touch(k)
	if m.limit > 0 && len(m.recent) > m.limit {
		evicted = m.recent[len(m.recent)-1]
		m.drop(evicted)
	}
	return
}

func (m *c17Model) keys() []string {
	ks := make([]string, 0, len(m.ents))
	for k := range m.ents {
		ks = append(ks, k)
	}
	sort.Strings(ks)
	return ks
}

// expiry window in ticks after the last Set: the jittered delay lies in
// (0.95e, 1.05e] and the wheel floors it to whole ticks.
func c17Lo(e int) int {
	lo := int(math.Floor(0.95*float64(e) - 1e-6))
	if lo < 1 {
		lo = 1
	}
	return lo
}
func c17Hi(e int) int { return int(math.Floor(1.05*float64(e) + 1e-6)) }

var errC17Fetch = errors.New("c17 fetch failed")

// c17Nil in a scenario stands for the nil value (Set(k, nil), a fetch returning (nil, nil)):
// a key holding nil is present like any other.
const c17Nil = -999

func c17Val(v int) any {
	if v == c17Nil {
		return nil
	}
	return v
}

func c17Same(got any, v int) bool {
	if v == c17Nil {
		return got == nil
	}
	i, ok := got.(int)
	return ok && i == v
}

func runC17(m *vk.M, idx int, sc c17Scenario) (events map[string]int, ok bool) {
	events = map[string]int{}
	desc := func() string { return fmt.Sprintf("case=%d;%s", idx, vk.JSON(sc)) }
	env, err := newC17Cache(time.Duration(sc.Expire)*time.Second, sc.Limit)
	if err != nil {
		m.Inconclusive("case %d: %v", idx, err)
		return events, false
	}
	defer env.close()
	mod := &c17Model{limit: sc.Limit, ents: map[string]*c17Entry{}}
	v0 := m.ViolCount()
	sameKeys := func(step int, op c17Op) {
		got, want := env.keys(), mod.keys()
		if sc.Limit > 0 && len(got) > sc.Limit {
			m.Violate("C17:size-over-limit", desc(), "step %d %+v: cache holds %d entries %v, limit %d", step, op, len(got), got, sc.Limit)
			return
		}
		if fmt.Sprint(got) != fmt.Sprint(want) {
			sig := "C17:key-set-mismatch:after-" + op.Op
			if sc.Limit > 0 && len(got) == len(want) {
				sig = "C17:wrong-eviction-victim:after-" + op.Op
			}
			m.Violate(sig, desc(), "step %d %+v: cache keys %v, reference LRU model %v (recency %v, limit %d)", step, op, got, want, mod.recent, sc.Limit)
		}
	}
	for step, op := range sc.Ops {
		if m.ViolCount() > v0 {
			return events, true
		}
		switch op.Op {
		case "set", "setx":
			e := sc.Expire
			if op.Op == "set" {
				env.c.Set(op.K, c17Val(op.V))
			} else {
				e = op.E
				env.c.SetWithExpire(op.K, c17Val(op.V), time.Duration(op.E)*time.Second)
			}
			if ev := mod.set(op.K, op.V, env.tick, e); ev != "" {
				events["evictions"]++
			}
			sameKeys(step, op)
		case "get":
			got, found := env.c.Get(op.K)
			ent, want := mod.ents[op.K]
			switch {
			case found && !want:
				m.Violate("C17:get-returned-dropped-key", desc(), "step %d: Get(%q) returned %v but the key was deleted, evicted or expired", step, op.K, got)
			case !found && want:
				m.Violate("C17:get-missing", desc(), "step %d: Get(%q) found nothing; set at tick %d (expiry %ds), now tick %d", step, op.K, ent.setTick, ent.e, env.tick)
			case found && !c17Same(got, ent.v):
				m.Violate("C17:get-stale-value", desc(), "step %d: Get(%q)=%v, most recent Set value %d", step, op.K, got, ent.v)
			}
			if want {
				mod.touch(op.K)
				events["get_hits"]++
			} else {
				events["get_misses"]++
			}
		case "del":
			env.c.Del(op.K)
			mod.drop(op.K)
			sameKeys(step, op)
		case "takepanic":
			// a fetch that panics (recovered by the caller) must leave nothing behind: not cached, and the
			// next Take of the key fetches again
			calls := 0
			_, cached := mod.ents[op.K]
			vk.Recover(func() {
				_, _ = env.c.Take(op.K, func() (any, error) {
					calls++
					panic("c17: hostile fetch")
				})
			})
			switch {
			case cached && calls != 0:
				m.Violate("C17:take-fetched-when-cached", desc(), "step %d: Take(%q) ran fetch although the key is cached", step, op.K)
			case !cached && calls != 1:
				m.Violate("C17:take-fetch-count", desc(), "step %d: Take(%q) on an absent key ran fetch %d times", step, op.K, calls)
			}
			if cached {
				mod.touch(op.K)
			} else {
				events["take_panics"]++
			}
			sameKeys(step, op)
		case "take", "takeerr":
			calls := 0
			got, err := env.c.Take(op.K, func() (any, error) {
				calls++
				if op.Op == "takeerr" {
					return nil, errC17Fetch
				}
				return c17Val(op.V), nil
			})
			ent, cached := mod.ents[op.K]
			switch {
			case cached && calls != 0:
				m.Violate("C17:take-fetched-when-cached", desc(), "step %d: Take(%q) ran fetch although the key is cached", step, op.K)
			case cached && (err != nil || !c17Same(got, ent.v)):
				m.Violate("C17:take-wrong-cached-value", desc(), "step %d: Take(%q)=(%v,%v), cached %d", step, op.K, got, err, ent.v)
			case !cached && calls != 1:
				m.Violate("C17:take-fetch-count", desc(), "step %d: Take(%q) on an absent key ran fetch %d times", step, op.K, calls)
			case !cached && op.Op == "take" && (err != nil || !c17Same(got, op.V)):
				m.Violate("C17:take-wrong-result", desc(), "step %d: Take(%q)=(%v,%v), fetch returned %d", step, op.K, got, err, op.V)
			case !cached && op.Op == "takeerr" && err != errC17Fetch:
				m.Violate("C17:take-error-not-returned", desc(), "step %d: Take(%q) err=%v, fetch failed with %v", step, op.K, err, errC17Fetch)
			}
			if cached {
				mod.touch(op.K)
				events["take_hits"]++
			} else if op.Op == "take" {
				if ev := mod.set(op.K, op.V, env.tick, sc.Expire); ev != "" {
					events["evictions"]++
				}
				events["take_fills"]++
			} else {
				events["take_errors"]++
			}
			sameKeys(step, op) // a failed fetch must not have been cached
		case "tick":
			for i := 0; i < op.Num; i++ {
				if !env.doTick() {
					m.Inconclusive("case %d: no quiescence after tick", idx)
					return events, false
				}
				present := map[string]bool{}
				for _, k := range env.keys() {
					present[k] = true
				}
				for _, k := range mod.keys() {
					ent := mod.ents[k]
					age := env.tick - ent.setTick
					lo, hi := c17Lo(ent.e), c17Hi(ent.e)
					switch {
					case !present[k] && age < lo:
						m.Violate("C17:expired-early", desc(), "step %d: key %q dropped %d ticks after its last Set (expiry %ds: legal window %d..%d ticks)", step, k, age, ent.e, lo, hi)
					case !present[k] && age > hi:
						m.Violate("C17:dropped-late", desc(), "step %d: key %q dropped %d ticks after its last Set (legal window %d..%d)", step, k, age, lo, hi)
					case !present[k]:
						mod.drop(k)
						events["expirations"]++
					case present[k] && age >= hi:
						m.Violate("C17:not-expired", desc(), "step %d: key %q still present %d ticks after its last Set (expiry %ds: must be gone from tick %d on)", step, k, age, ent.e, hi)
					}
					if m.ViolCount() > v0 {
						return events, true
					}
				}
				for k := range present {
					if _, ok := mod.ents[k]; !ok {
						m.Violate("C17:key-reappeared", desc(), "step %d: key %q present after tick %d but not in the model", step, k, env.tick)
						return events, true
					}
				}
			}
		}
	}
	return events, true
}

func c17Gen(r interface{ Intn(int) int }) c17Scenario {
	expires := []int{2, 3, 5, 10, 20, 60, 120, 299, 300, 301, 450, 700}
	sc := c17Scenario{Limit: r.Intn(6), Expire: expires[r.Intn(len(expires))]}
	nkeys := 6
	n := 100 + r.Intn(300)
	val := 100
	tickChoices := []int{1, 1, 1, 2, 3, 5, 17, 60, 150, 299, 301}
	for i := 0; i < n; i++ {
		k := fmt.Sprintf("k%d", r.Intn(nkeys))
		x := r.Intn(100)
		val++
		v := val
		if r.Intn(12) == 0 {
			v = c17Nil // the nil value is a value like any other
		} else if r.Intn(6) == 0 {
			v = 7 // a value that recurs: re-setting a key to the value it already holds is a Set like any other
		}
		switch {
		case x < 22:
			sc.Ops = append(sc.Ops, c17Op{Op: "set", K: k, V: v})
		case x < 32:
			sc.Ops = append(sc.Ops, c17Op{Op: "setx", K: k, V: v, E: expires[r.Intn(len(expires))]})
		case x < 52:
			sc.Ops = append(sc.Ops, c17Op{Op: "get", K: k})
		case x < 60:
			sc.Ops = append(sc.Ops, c17Op{Op: "del", K: k})
		case x < 70:
			sc.Ops = append(sc.Ops, c17Op{Op: "take", K: k, V: v})
		case x < 73:
			sc.Ops = append(sc.Ops, c17Op{Op: "takeerr", K: k})
		case x < 75:
			sc.Ops = append(sc.Ops, c17Op{Op: "takepanic", K: k})
		default:
			nt := tickChoices[r.Intn(len(tickChoices))]
			if sc.Expire <= 20 && nt > 30 && r.Intn(3) > 0 {
				nt = 1 + r.Intn(sc.Expire+2)
			}
			sc.Ops = append(sc.Ops, c17Op{Op: "tick", Num: nt})
		}
	}
	// run everything out
	sc.Ops = append(sc.Ops, c17Op{Op: "tick", Num: c17Hi(700) + 2})
	return sc
}

func TestVerifC17Model(t *testing.T) {
	m := vk.New(t, "C17", "seeded sequential histories (100-400 ops) of Set/SetWithExpire/Get/Del/Take(ok|error)/ticks over 6 keys, limit 0..5, expiries 2..700 s (re-sets at every phase of the 300-slot wheel, > 1 revolution), each followed by a full run-out; real Cache vs reference LRU + expiry-window model; non-trivial = at least one eviction or expiration observed")
	defer m.Done()
	n := vk.N(700, 30000)
	r := m.Rand("model")
	tot := map[string]int{}
	for idx := 1; idx <= n; idx++ {
		sc := c17Gen(r)
		if !m.Only(idx) {
			continue
		}
		ev, ok := runC17(m, idx, sc)
		if !ok {
			return
		}
		for k, v := range ev {
			tot[k] += v
		}
		m.Case(vk.Digest(vk.JSON(sc)), ev["evictions"]+ev["expirations"] > 0)
		if m.WantSample() && idx%97 == 1 {
			short := sc
			if len(short.Ops) > 30 {
				short.Ops = short.Ops[:30]
			}
			m.Sample(map[string]any{"scenario_first_30_ops": short, "observed": ev})
		}
		if idx%100 == 0 {
			m.Progress()
		}
	}
	for k, v := range tot {
		m.Count(k, int64(v))
	}
}

// ---------------------------------------------------------------------------
// Concurrent Take: at most one fetch per key at a time, everyone gets its result,
// errors are not cached.

func TestVerifC17TakeRace(t *testing.T) {
	m := vk.New(t, "C17", "concurrent Take: 8-48 goroutines over 1-3 keys, fetch parked on a harness gate until every caller has started (or released early in the racing variant); success or error outcome per round; oracle: never two fetches of one key in flight, every caller receives the result of a fetch overlapping its call or the cached value, failed fetches are not cached")
	defer m.Done()
	n := vk.N(300, 6000)
	r := m.Rand("take")
	for idx := 1; idx <= n; idx++ {
		if !m.Only(idx) {
			continue
		}
		callers := 8 + r.Intn(41)
		nkeys := 1 + r.Intn(3)
		fail := r.Intn(3) == 0
		gated := r.Intn(4) != 0
		// after a failed flight every caller takes the same key again at once: that Take started after the flight
		// whose error the caller holds had ended, so it is answered by a new fetch (its own or a shared one), never
		// by the finished flight
		retake := fail && r.Intn(2) == 0
		desc := fmt.Sprintf("case=%d;callers=%d keys=%d fail=%v gated=%v retake=%v", idx, callers, nkeys, fail, gated, retake)
		c, err := NewCache(time.Hour)
		if err != nil {
			m.Inconclusive("NewCache: %v", err)
			return
		}
		var inflight, maxInflight, fetches [3]int32
		gate := make(chan struct{})
		var started sync.WaitGroup
		var done sync.WaitGroup
		type res struct {
			k   int
			v   any
			err error
		}
		results := make([]res, callers)
		results2 := make([]res, callers)
		var refetches [3]int32
		started.Add(callers)
		for g := 0; g < callers; g++ {
			done.Add(1)
			go func(g int) {
				defer done.Done()
				k := g % nkeys
				started.Done()
				v, err := c.Take(fmt.Sprintf("key%d", k), func() (any, error) {
					cur := atomic.AddInt32(&inflight[k], 1)
					for {
						old := atomic.LoadInt32(&maxInflight[k])
						if cur <= old || atomic.CompareAndSwapInt32(&maxInflight[k], old, cur) {
							break
						}
					}
					n := atomic.AddInt32(&fetches[k], 1)
					if gated {
						<-gate
					} else {
						runtime.Gosched()
					}
					atomic.AddInt32(&inflight[k], -1)
					if fail {
						return nil, fmt.Errorf("fetch-%d-%d failed", k, n)
					}
					return fmt.Sprintf("val-%d-%d", k, n), nil
				})
				results[g] = res{k: k, v: v, err: err}
				if retake {
					v2, err2 := c.Take(fmt.Sprintf("key%d", k), func() (any, error) {
						atomic.AddInt32(&refetches[k], 1)
						return fmt.Sprintf("second-%d-%d", k, g), nil
					})
					results2[g] = res{k: k, v: v2, err: err2}
				}
			}(g)
		}
		started.Wait()
		if gated {
			// let callers pile up behind the flight, then release
			for i := 0; i < 20; i++ {
				runtime.Gosched()
			}
			close(gate)
		}
		if !vk.Within(30*time.Second, done.Wait) {
			m.Violate("C17:take-hang", desc, "concurrent Take callers did not return within 30 s\n%s", vk.Stacks()[:3000])
			return
		}
		for k := 0; k < nkeys; k++ {
			if mx := atomic.LoadInt32(&maxInflight[k]); mx > 1 {
				m.Violate("C17:take-concurrent-fetches", desc, "key%d: %d fetches in flight at the same time", k, mx)
			}
			m.Max("max_inflight_fetches_per_key", int64(atomic.LoadInt32(&maxInflight[k])))
			m.Count("fetches", int64(atomic.LoadInt32(&fetches[k])))
			if !fail && atomic.LoadInt32(&fetches[k]) != 1 {
				m.Violate("C17:take-refetched-cached-key", desc, "key%d: %d successful fetches although the first result is cached (no expiry, no limit)", k, fetches[k])
			}
		}
		for g, rs := range results {
			nf := int(atomic.LoadInt32(&fetches[rs.k]))
			if fail {
				if sv, _ := rs.v.(string); retake && rs.err == nil && strings.HasPrefix(sv, fmt.Sprintf("second-%d-", rs.k)) {
					continue // a late first Take that met the value another caller's second Take had fetched
				}
				if rs.err == nil {
					m.Violate("C17:take-error-lost", desc, "caller %d got (%v, nil) although every fetch failed", g, rs.v)
				}
				continue
			}
			okv := false
			for i := 1; i <= nf; i++ {
				if rs.v == fmt.Sprintf("val-%d-%d", rs.k, i) {
					okv = true
				}
			}
			if rs.err != nil || !okv {
				m.Violate("C17:take-wrong-result", desc, "caller %d of key%d got (%v,%v), not the result of any fetch", g, rs.k, rs.v, rs.err)
			}
		}
		if retake {
			for g, rs := range results2 {
				// The next Take may share a flight that another late caller is leading (first- or second-generation
				// fetch), but not the very flight whose result this caller already holds: that one had ended before
				// the caller's first Take returned (fetch errors carry a per-key execution number, so equal text
				// means the same execution).
				if first := results[g]; rs.err != nil && first.err != nil && rs.err.Error() == first.err.Error() {
					m.Violate("C17:take-answered-by-finished-flight", desc, "caller %d of key%d: its first Take returned %q; its next Take, started afterwards, was handed the same finished execution's result again (%v,%v) instead of the result of a fetch overlapping it (%d second-generation fetches ran)", g, rs.k, first.err, rs.v, rs.err, atomic.LoadInt32(&refetches[rs.k]))
					break
				}
				if sv, _ := rs.v.(string); rs.err == nil && !strings.HasPrefix(sv, fmt.Sprintf("second-%d-", rs.k)) {
					m.Violate("C17:take-wrong-result", desc, "caller %d of key%d: second Take got (%v,nil), not the result of any fetch", g, rs.k, rs.v)
					break
				}
			}
			for k := 0; k < nkeys; k++ {
				m.Count("refetches_after_failed_flight", int64(atomic.LoadInt32(&refetches[k])))
			}
		}
		// errors must not be cached: a later Take fetches again
		for k := 0; k < nkeys && !retake; k++ {
			again := 0
			v, err := c.Take(fmt.Sprintf("key%d", k), func() (any, error) { again++; return "fresh", nil })
			if fail && (again != 1 || err != nil || v != "fresh") {
				m.Violate("C17:take-cached-on-error", desc, "key%d: after failed fetches a later Take ran fetch %d times and got (%v,%v)", k, again, v, err)
			}
			if !fail && again != 0 {
				m.Violate("C17:take-refetched-cached-key", desc, "key%d: a later Take fetched again although the value is cached", k)
			}
		}
		c.timingWheel.Stop()
		m.Count("callers", int64(callers))
		m.Case(vk.Digest(callers, nkeys, fail, gated), true)
		if m.WantSample() && idx%61 == 1 {
			m.Sample(map[string]any{"scenario": desc, "fetches_per_key": fetches[:nkeys], "max_inflight": maxInflight[:nkeys]})
		}
	}
}

// ---------------------------------------------------------------------------
// Concurrent Set/Get/Del: per-key register linearizability (porcupine).

type c17LinIn struct {
	Op string
	K  int
	V  int
}
type c17LinOut struct {
	V  int
	Ok bool
}

func TestVerifC17LinearizableRace(t *testing.T) {
	m := vk.New(t, "C17", "concurrent Set/Get/Del by 3-6 goroutines on 1-2 keys (no limit, 1 h expiry), 30-60 operations per history with unique written values; recorded call/return history checked per key against a register model with porcupine")
	defer m.Done()
	model := porcupine.Model{
		Partition: func(h []porcupine.Operation) [][]porcupine.Operation {
			byK := map[int][]porcupine.Operation{}
			for _, o := range h {
				byK[o.Input.(c17LinIn).K] = append(byK[o.Input.(c17LinIn).K], o)
			}
			var out [][]porcupine.Operation
			for _, v := range byK {
				out = append(out, v)
			}
			return out
		},
		Init: func() any { return c17LinOut{} },
		Step: func(st, in, out any) (bool, any) {
			s, i, o := st.(c17LinOut), in.(c17LinIn), out.(c17LinOut)
			switch i.Op {
			case "set":
				return true, c17LinOut{V: i.V, Ok: true}
			case "del":
				return true, c17LinOut{}
			case "get":
				return o == s, s
			default: // take: returns current, or installs V
				if s.Ok {
					return o == s, s
				}
				return o == c17LinOut{V: i.V, Ok: true}, c17LinOut{V: i.V, Ok: true}
			}
		},
		DescribeOperation: func(in, out any) string { return fmt.Sprintf("%+v -> %+v", in, out) },
	}
	n := vk.N(400, 8000)
	r := m.Rand("lin")
	var okN, unk int64
	for idx := 1; idx <= n; idx++ {
		if !m.Only(idx) {
			continue
		}
		c, err := NewCache(time.Hour)
		if err != nil {
			m.Inconclusive("NewCache: %v", err)
			return
		}
		procs := 3 + r.Intn(4)
		nkeys := 1 + r.Intn(2)
		per := 6 + r.Intn(6)
		plans := make([][]c17LinIn, procs)
		v := 0
		for p := range plans {
			for j := 0; j < per; j++ {
				v++
				ops := []string{"set", "get", "get", "del"} // Take is check-then-act by design, not an atomic register operation
				plans[p] = append(plans[p], c17LinIn{Op: ops[r.Intn(len(ops))], K: r.Intn(nkeys), V: v})
			}
		}
		var mu sync.Mutex
		var hist []porcupine.Operation
		var wg sync.WaitGroup
		start := make(chan struct{})
		t0 := time.Now()
		for p := range plans {
			wg.Add(1)
			go func(p int) {
				defer wg.Done()
				<-start
				for _, in := range plans[p] {
					key := fmt.Sprintf("k%d", in.K)
					call := int64(time.Since(t0))
					var out c17LinOut
					switch in.Op {
					case "set":
						c.Set(key, in.V)
					case "del":
						c.Del(key)
					case "get":
						if x, ok := c.Get(key); ok {
							out = c17LinOut{V: x.(int), Ok: true}
						}
					case "take":
						x, _ := c.Take(key, func() (any, error) { return in.V, nil })
						out = c17LinOut{V: x.(int), Ok: true}
					}
					ret := int64(time.Since(t0))
					mu.Lock()
					hist = append(hist, porcupine.Operation{ClientId: p, Input: in, Call: call, Output: out, Return: ret})
					mu.Unlock()
				}
			}(p)
		}
		close(start)
		wg.Wait()
		c.timingWheel.Stop()
		res, _ := porcupine.CheckOperationsVerbose(model, hist, 10*time.Second)
		switch res {
		case porcupine.Ok:
			okN++
		case porcupine.Unknown:
			unk++
		default:
			var lines string
			for _, o := range hist {
				lines += fmt.Sprintf("p%d [%d,%d] %+v -> %+v\n", o.ClientId, o.Call, o.Return, o.Input, o.Output)
			}
			m.Violate("C17:not-linearizable", fmt.Sprintf("case=%d;procs=%d keys=%d", idx, procs, nkeys), "history of %d operations is not linearizable w.r.t. a per-key register:\n%s", len(hist), lines)
		}
		m.Count("operations", int64(len(hist)))
		m.Case(vk.Digest(vk.JSON(plans)), true)
		if m.WantSample() && idx%83 == 1 {
			m.Sample(map[string]any{"procs": procs, "keys": nkeys, "ops": len(hist), "porcupine": fmt.Sprint(res)})
		}
	}
	m.Count("porcupine_ok", okN)
	m.Count("porcupine_unknown", unk)
	if unk > okN/10 {
		m.Inconclusive("porcupine timed out on %d of %d histories", unk, okN+unk)
	}
}
