//go:build verif

package hash

// C13 — consistent hashing monitor (DESIGN.md §3 C13): metamorphic oracles over a
// fixed key population after every membership operation, plus a reference ring
// written from the documented scheme (murmur3 of repr(node)+i, first position
// clockwise), plus a concurrent reader/writer run under the race detector.

import (
	"fmt"
	"math"
	"sort"
	"strconv"
	"strings"
	"sync"
	"sync/atomic"
	"testing"
	"time"

	"github.com/spaolacci/murmur3"
	"verif.local/vk"
)

type c13StructNode struct {
	Host string
	Port int
}

type c13StringerNode struct{ name string }

func (s *c13StringerNode) String() string {
	if s.name == "\x00empty" {
		return "" // a Stringer whose String() is empty (a node configured without an address)
	}
	return "stringer-" + s.name
}

// c13Repr: the documented textual representation of the node kinds the monitor uses.
func c13Repr(n any) string {
	switch v := n.(type) {
	case nil:
		return ""
	case string:
		return v
	case c13StructNode:
		return fmt.Sprint(v)
	case *c13StringerNode:
		return v.String()
	case int:
		return strconv.Itoa(v)
	case *c13StructNode: // a pointer to a non-Stringer struct is represented by the struct it points to
		if v == nil {
			return "<nil>" // a typed nil pointer is a key like any other
		}
		return fmt.Sprint(*v)
	case *int:
		if v == nil {
			return "<nil>"
		}
		return strconv.Itoa(*v)
	case float64:
		return strconv.FormatFloat(v, 'f', -1, 64)
	case []byte:
		return string(v)
	case uint64:
		return strconv.FormatUint(v, 10)
	case int64:
		return strconv.FormatInt(v, 10)
	case uint32:
		return strconv.FormatUint(uint64(v), 10)
	case bool:
		return strconv.FormatBool(v)
	}
	panic("unknown node kind")
}

type c13Ring struct {
	pos   []uint64
	owner map[uint64]int // position -> node index
	dup   bool           // two nodes on one position: outside the claim
}

func c13BuildRing(nodes []any, replicas map[int]int) *c13Ring {
	r := &c13Ring{owner: map[uint64]int{}}
	for i, n := range nodes {
		for k := 0; k < replicas[i]; k++ {
			h := murmur3.Sum64([]byte(c13Repr(n) + strconv.Itoa(k)))
			if o, ok := r.owner[h]; ok && o != i {
				r.dup = true
			}
			if _, ok := r.owner[h]; !ok {
				r.pos = append(r.pos, h)
			}
			r.owner[h] = i
		}
	}
	sort.Slice(r.pos, func(a, b int) bool { return r.pos[a] < r.pos[b] })
	return r
}

func (r *c13Ring) get(key string) (int, bool) {
	if len(r.pos) == 0 {
		return -1, false
	}
	h := murmur3.Sum64([]byte(key))
	i := sort.Search(len(r.pos), func(i int) bool { return r.pos[i] >= h })
	if i == len(r.pos) {
		i = 0
	}
	return r.owner[r.pos[i]], true
}

type c13Op struct {
	Op   string `json:"op"` // add addw addr remove
	Node int    `json:"node"`
	Arg  int    `json:"arg,omitempty"`
}

func c13Keys(n int, seed int64) []string {
	ks := make([]string, n)
	for i := range ks {
		ks[i] = fmt.Sprintf("key-%d-%d", seed, i)
	}
	return ks
}

// c13TypedKeys: lookup keys that are not strings. A key of any dynamic type is looked up
// through its textual representation like a node is, so ids, counters, structs, Stringers
// and byte slices are keys like any other.
func c13TypedKeys(seed int64) []any {
	var ks []any
	for i := 0; i < 60; i++ {
		base := uint64(seed)*1000003 + uint64(i)*7919
		ks = append(ks,
			uint64(i), base, uint64(1)<<40+base, ^uint64(0)-uint64(i), // small ids, mid-range, snowflake-like, near the top
			int64(base), -int64(i)-1, int(i)+1000000, uint32(base),
			[]byte(fmt.Sprintf("blob-%d-%d", seed, i)),
			c13StructNode{Host: fmt.Sprintf("k%d", i), Port: int(seed)},
			&c13StringerNode{name: fmt.Sprintf("key-%d-%d", seed, i)},
			float64(i)+0.5,
		)
	}
	// keys whose representation is the empty string are keys like any other
	seven := 7
	return append(ks, true, false, "", nil, []byte{}, &c13StringerNode{name: "\x00empty"},
		(*int)(nil), (*c13StructNode)(nil), &seven) // typed nil pointers and a pointer to a scalar
}

func c13MakeNodes(r interface{ Intn(int) int }, n int, salt int) []any {
	nodes := make([]any, n)
	for i := range nodes {
		switch r.Intn(7) {
		case 6:
			// a long representation whose distinguishing part lies beyond the first 64 bytes
			nodes[i] = fmt.Sprintf("svc.%070d.cluster.local:%d/%d", salt, 6000+i, r.Intn(1000))
		case 3:
			nodes[i] = salt*1000 + i*37 + r.Intn(30)
		case 4:
			nodes[i] = &c13StructNode{Host: fmt.Sprintf("p%d-%d", salt, i), Port: 7000 + r.Intn(1000)}
		case 5:
			nodes[i] = float64(salt) + float64(i)/8 + 0.0625
		case 0:
			nodes[i] = fmt.Sprintf("10.%d.%d.%d:6379", salt%250, r.Intn(250), i)
		case 1:
			nodes[i] = c13StructNode{Host: fmt.Sprintf("h%d-%d", salt, i), Port: 1000 + r.Intn(5000)}
		default:
			nodes[i] = &c13StringerNode{name: fmt.Sprintf("%d-%d-%d", salt, i, r.Intn(1000))}
		}
	}
	// a node whose representation is the empty string is a node like any other
	if n >= 3 && r.Intn(6) == 0 {
		if r.Intn(2) == 0 {
			nodes[0] = ""
		} else {
			nodes[0] = &c13StringerNode{name: "\x00empty"}
		}
	}
	// node identity is exact: in a third of the sets the last two nodes differ only in letter case
	if n >= 2 && r.Intn(3) == 0 {
		nodes[n-2] = fmt.Sprintf("Shard-%d-EU:%d", salt, 7000+n)
		nodes[n-1] = strings.ToLower(nodes[n-2].(string))
	}
	return nodes
}

func c13Effective(op c13Op, R int) int {
	switch op.Op {
	case "add":
		return R
	case "addw":
		v := R * op.Arg / TopWeight // documented: weight is a percentage of the ring's replica count, rounded down
		if v > R {
			v = R
		}
		if v < 0 {
			v = 0
		}
		return v
	case "addr":
		v := op.Arg
		if v > R {
			v = R
		}
		if v < 0 {
			v = 0
		}
		return v
	}
	return 0
}

func TestVerifC13Ring(t *testing.T) {
	m := vk.New(t, "C13", "seeded membership histories (20-40 ops of Add/AddWithWeight/AddWithReplicas/Remove over 2-7 nodes: strings, structs, Stringers, ints, floats, pointers to structs; weights 0..150, replicas 0..150) observed through Get over a fixed population of 2000 string keys (plus ~720 keys of other dynamic types: uint64/int64/int/uint32 ids, byte slices, structs, Stringers, floats, bools, each looked up through its representation) after every operation: membership/totality, determinism, minimal disruption on Remove and Add, equality with a reference ring (and with a freshly built ring) after re-weighting, weight-0 owns nothing, share ~ weight; non-trivial = at least one key changed owner")
	defer m.Done()
	n := vk.N(200, 5000)
	r := m.Rand("ring")
	var moved, ops, collisions, typedLookups int64
	ratioMin, ratioMax := math.Inf(1), math.Inf(-1)
	for idx := 1; idx <= n; idx++ {
		nn := 2 + r.Intn(6)
		nodes := c13MakeNodes(r, nn, idx)
		keys := c13Keys(2000, int64(idx%7))
		typed := c13TypedKeys(int64(idx % 7))
		nops := 20 + r.Intn(21)
		var hist []c13Op
		for i := 0; i < nops; i++ {
			op := c13Op{Node: r.Intn(nn)}
			switch x := r.Intn(100); {
			case x < 30:
				op.Op = "add"
			case x < 60:
				op.Op = "addw"
				op.Arg = []int{0, 1, 10, 30, 50, 70, 99, 100, 150, r.Intn(151), -1, -40}[r.Intn(12)] // a negative weight owns nothing, like 0
			case x < 72:
				op.Op = "addr"
				op.Arg = []int{0, 1, 50, 100, 150, r.Intn(151), -1, -100}[r.Intn(8)]
			default:
				op.Op = "remove"
			}
			hist = append(hist, op)
		}
		if !m.Only(idx) {
			continue
		}
		R := []int{100, 100, 150, 250, 30}[idx%5] // 30 is raised to the minimum of 100 by the constructor
		ch := NewConsistentHash()
		if idx%5 != 0 {
			ch = NewCustomConsistentHash(R, nil)
		}
		if R < 100 {
			R = 100
		}
		desc := func() string {
			var reprs []string
			for _, x := range nodes {
				reprs = append(reprs, c13Repr(x))
			}
			return fmt.Sprintf("case=%d;replicas=%d nodes=%v ops=%s", idx, R, reprs, vk.JSON(hist))
		}
		replicas := map[int]int{} // node index -> virtual nodes (absent = not a member)
		assign := make([]int, len(keys))
		for i := range assign {
			assign[i] = -1
		}
		index := func(v any) int {
			for i, x := range nodes {
				if x == v {
					return i
				}
			}
			return -2
		}
		v0 := m.ViolCount()
		changedAny := false
		for step, op := range hist {
			if m.ViolCount() > v0 {
				break
			}
			node := nodes[op.Node]
			_, wasMember := replicas[op.Node]
			switch op.Op {
			case "add":
				ch.Add(node)
			case "addw":
				ch.AddWithWeight(node, op.Arg)
			case "addr":
				ch.AddWithReplicas(node, op.Arg)
			case "remove":
				ch.Remove(node)
			}
			if op.Op == "remove" {
				delete(replicas, op.Node)
			} else {
				replicas[op.Node] = c13Effective(op, R)
			}
			ops++
			ring := c13BuildRing(nodes, replicas)
			if ring.dup {
				collisions++
				break // ring-position collision between nodes: outside the claim
			}
			positive := 0
			for _, v := range replicas {
				if v > 0 {
					positive++
				}
			}
			fresh := NewCustomConsistentHash(R, nil)
			for i, v := range replicas {
				fresh.AddWithReplicas(nodes[i], v)
			}
			counts := map[int]int{}
			where := fmt.Sprintf("step %d %+v (node %q)", step, op, c13Repr(node))
			for ki, k := range keys {
				var got any
				var ok bool
				if pv, panicked := vk.Recover(func() { got, ok = ch.Get(k) }); panicked {
					m.Violate("C13:get-panic", desc(), "%s: Get(%q) panicked: %v (virtual nodes %v)", where, k, pv, replicas)
					break
				}
				gi := -1
				if ok {
					gi = index(got)
				}
				switch {
				case positive == 0 && ok:
					m.Violate("C13:get-without-members", desc(), "%s: Get(%q)=%v although no node of positive weight is present", where, k, got)
				case positive > 0 && !ok:
					m.Violate("C13:absent-with-members", desc(), "%s: Get(%q) reports absence with %d positive-weight members", where, k, positive)
				case ok && (gi < 0 || replicas[gi] <= 0):
					m.Violate("C13:get-returned-non-member", desc(), "%s: Get(%q)=%v which is not a current positive-weight member (members %v)", where, k, got, replicas)
				}
				if m.ViolCount() > v0 {
					break
				}
				if got2, ok2 := ch.Get(k); ok2 != ok || (ok && got2 != got) {
					m.Violate("C13:get-not-deterministic", desc(), "%s: Get(%q) returned %v then %v", where, k, got, got2)
					break
				}
				prev := assign[ki]
				if prev != gi {
					changedAny = true
					moved++
					switch {
					case op.Op == "remove" && wasMember && prev != op.Node:
						m.Violate("C13:remove-moved-foreign-key", desc(), "%s: key %q moved from node %d to %d although it was not assigned to the removed node", where, k, prev, gi)
					case op.Op == "remove" && !wasMember:
						m.Violate("C13:remove-of-non-member-changed-assignment", desc(), "%s: key %q moved %d -> %d", where, k, prev, gi)
					case op.Op != "remove" && !wasMember && gi != op.Node:
						m.Violate("C13:add-moved-key-to-old-node", desc(), "%s: key %q moved from node %d to node %d, not to the added node %d", where, k, prev, gi, op.Node)
					case op.Op != "remove" && wasMember && prev != op.Node && gi != op.Node:
						m.Violate("C13:reweight-moved-unrelated-key", desc(), "%s: key %q moved %d -> %d, neither is the re-added node %d", where, k, prev, gi, op.Node)
					}
					if m.ViolCount() > v0 {
						break
					}
				}
				want, wok := ring.get(k)
				if wok != ok || (ok && want != gi) {
					m.Violate("C13:differs-from-reference-ring:after-"+op.Op, desc(), "%s: Get(%q) -> node %d, reference ring with virtual nodes %v -> node %d", where, k, gi, replicas, want)
					break
				}
				fg, fok := fresh.Get(k)
				if fok != ok || (ok && fg != got) {
					m.Violate("C13:differs-from-fresh-ring:after-"+op.Op, desc(), "%s: Get(%q) -> %v, a ring built from scratch with the same membership -> %v", where, k, got, fg)
					break
				}
				assign[ki] = gi
				if ok {
					counts[gi]++
				}
			}
			if m.ViolCount() > v0 {
				break
			}
			// keys of other dynamic types: the owner is the reference ring's owner of the key's representation
			for _, k := range typed {
				var got any
				var ok bool
				if pv, panicked := vk.Recover(func() { got, ok = ch.Get(k) }); panicked {
					m.Violate("C13:get-panic", desc(), "%s: Get(%T %v) panicked: %v", where, k, k, pv)
					break
				}
				gi := -1
				if ok {
					gi = index(got)
				}
				want, wok := ring.get(c13Repr(k))
				if wok != ok || (ok && want != gi) {
					m.Violate("C13:differs-from-reference-ring:typed-key", desc(), "%s: Get(%T %v) -> node %d (present=%v), reference ring looked up with the key's representation %q -> node %d (present=%v)", where, k, k, gi, ok, c13Repr(k), want, wok)
					break
				}
				typedLookups++
			}
			if m.ViolCount() > v0 {
				break
			}
			// proportionality: only when every member has >= 30 virtual nodes
			total, minV := 0, 1<<30
			for _, v := range replicas {
				total += v
				if v < minV {
					minV = v
				}
			}
			if len(replicas) >= 2 && minV >= 40 {
				for i, v := range replicas {
					exp := float64(len(keys)) * float64(v) / float64(total)
					ratio := float64(counts[i]) / exp
					if ratio < ratioMin {
						ratioMin = ratio
					}
					if ratio > ratioMax {
						ratioMax = ratio
					}
					if ratio < 0.20 || ratio > 2.8 {
						m.Violate("C13:share-not-proportional", desc(), "%s: node %d with %d of %d virtual nodes owns %d of %d keys (ratio to expectation %.2f, accepted 0.20..2.8)", where, i, v, total, counts[i], len(keys), ratio)
					}
				}
			}
			for i, v := range replicas {
				if v == 0 && counts[i] != 0 {
					m.Violate("C13:weight-zero-node-owns-keys", desc(), "%s: node %d has weight 0 but owns %d keys", where, i, counts[i])
				}
			}
		}
		m.Case(vk.Digest(desc()), changedAny)
		if m.WantSample() && idx%41 == 1 {
			m.Sample(map[string]any{"scenario": desc(), "final_virtual_nodes": fmt.Sprint(replicas)})
		}
		if idx%50 == 0 {
			m.Progress()
		}
	}
	m.Count("membership_ops", ops)
	m.Count("key_moves_observed", moved)
	m.Count("lookups_with_non_string_keys", typedLookups)
	m.Count("histories_cut_at_ring_collision", collisions)
	m.Extra("share_ratio_observed_min_max", []float64{ratioMin, ratioMax})
}

// Concurrent readers and one writer: a Get whose whole duration lies inside one
// stable membership version must agree with the reference ring of that version.
func TestVerifC13Race(t *testing.T) {
	m := vk.New(t, "C13", "8 reader goroutines calling Get while one writer applies 40-80 membership changes; each change is bracketed by an atomic version counter; a Get that started and ended in the same stable version must equal the reference ring of that version, any Get must return a node that was a member at some point of the call")
	defer m.Done()
	n := vk.N(40, 1500)
	r := m.Rand("race")
	var stable, unstable int64
	for idx := 1; idx <= n; idx++ {
		if !m.Only(idx) {
			continue
		}
		nn := 3 + r.Intn(4)
		nodes := c13MakeNodes(r, nn, 100000+idx)
		keys := c13Keys(300, int64(idx))
		ch := NewConsistentHash()
		ch.Add(nodes[0]) // permanent member
		type ver struct {
			ring    *c13Ring
			members map[int]int
		}
		var mu sync.Mutex
		vers := map[int64]ver{}
		replicas := map[int]int{0: minReplicas}
		var version int64 // even = stable
		vers[0] = ver{ring: c13BuildRing(nodes, replicas), members: map[int]int{0: minReplicas}}
		nchanges := 40 + r.Intn(41)
		plan := make([]c13Op, nchanges)
		for i := range plan {
			plan[i] = c13Op{Op: []string{"add", "addw", "remove"}[r.Intn(3)], Node: 1 + r.Intn(nn-1), Arg: []int{0, 20, 50, 100}[r.Intn(4)]}
		}
		desc := fmt.Sprintf("case=%d;nodes=%d changes=%s", idx, nn, vk.JSON(plan))
		stop := make(chan struct{})
		var reads int64
		var wg sync.WaitGroup
		type obs struct {
			key       string
			got       any
			ok        bool
			v0, v1    int64
		}
		results := make([][]obs, 8)
		for g := 0; g < 8; g++ {
			wg.Add(1)
			go func(g int) {
				defer wg.Done()
				i := g
				for {
					select {
					case <-stop:
						return
					default:
					}
					k := keys[i%len(keys)]
					i += 7
					a := atomic.LoadInt64(&version)
					got, ok := ch.Get(k)
					b := atomic.LoadInt64(&version)
					atomic.AddInt64(&reads, 1)
					if len(results[g]) < 4000 {
						results[g] = append(results[g], obs{k, got, ok, a, b})
					}
				}
			}(g)
		}
		for _, op := range plan {
			// let the readers observe the stable version for a while (logical pacing: ~150 reads)
			target := atomic.LoadInt64(&reads) + 150
			vk.WaitUntil(5*time.Second, func() bool { return atomic.LoadInt64(&reads) >= target })
			atomic.AddInt64(&version, 1)
			switch op.Op {
			case "add":
				ch.Add(nodes[op.Node])
				replicas[op.Node] = minReplicas
			case "addw":
				ch.AddWithWeight(nodes[op.Node], op.Arg)
				replicas[op.Node] = minReplicas * op.Arg / TopWeight
			default:
				ch.Remove(nodes[op.Node])
				delete(replicas, op.Node)
			}
			cp := map[int]int{}
			for k, v := range replicas {
				cp[k] = v
			}
			mu.Lock()
			vers[atomic.LoadInt64(&version)+1] = ver{ring: c13BuildRing(nodes, cp), members: cp}
			mu.Unlock()
			atomic.AddInt64(&version, 1)
		}
		close(stop)
		wg.Wait()
		index := func(v any) int {
			for i, x := range nodes {
				if x == v {
					return i
				}
			}
			return -2
		}
		for g := range results {
			for _, o := range results[g] {
				if !o.ok {
					m.Violate("C13:race:absent-with-permanent-member", desc, "Get(%q) reported absence although node 0 is always a member", o.key)
					continue
				}
				gi := index(o.got)
				if gi < 0 {
					m.Violate("C13:race:unknown-node", desc, "Get(%q) returned %v", o.key, o.got)
					continue
				}
				if o.v0 == o.v1 && o.v0%2 == 0 {
					stable++
					v := vers[o.v0]
					if v.ring.dup {
						continue
					}
					if want, _ := v.ring.get(o.key); want != gi {
						m.Violate("C13:race:differs-from-reference-ring", desc, "Get(%q) in stable version %d -> node %d, reference -> %d", o.key, o.v0, gi, want)
					}
				} else {
					unstable++
				}
			}
		}
		m.Case(vk.Digest(desc), true)
		if m.WantSample() && idx%9 == 1 {
			m.Sample(map[string]any{"scenario": desc, "gets_recorded_by_reader0": len(results[0])})
		}
	}
	m.Count("gets_in_stable_version", stable)
	m.Count("gets_overlapping_a_change", unstable)
}
