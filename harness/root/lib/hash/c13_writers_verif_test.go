//go:build verif

package hash

// C13 — concurrent membership changes. Every goroutine owns one node and applies its own
// sequence of Add / AddWithWeight / AddWithReplicas / Remove to it, all goroutines at the
// same time (plus readers). Operations on DIFFERENT nodes commute, so whatever the
// interleaving, at quiescence the ring must equal the reference ring built from each node's
// LAST operation: no update of one node may be lost because another node changed meanwhile.

import (
	"fmt"
	"sync"
	"testing"

	"verif.local/vk"
)

func TestVerifC13WritersRace(t *testing.T) {
	m := vk.New(t, "C13", "3-8 writer goroutines, one node each, 1-6 membership operations per writer, all released together (2 readers calling Get meanwhile); at quiescence Get over 1500 keys must equal the reference ring built from every node's last operation (operations on different nodes commute); non-trivial = at least two writers changed the ring")
	defer m.Done()
	n := vk.N(120, 6000)
	r := m.Rand("writers")
	for idx := 1; idx <= n; idx++ {
		nn := 3 + r.Intn(6)
		nodes := c13MakeNodes(r, nn, 200000+idx)
		plans := make([][]c13Op, nn)
		final := map[int]int{}
		R := minReplicas
		for i := range plans {
			for k := 0; k < 1+r.Intn(6); k++ {
				op := c13Op{Op: []string{"add", "addw", "addr", "remove", "add"}[r.Intn(5)], Node: i, Arg: []int{0, 1, 20, 50, 100, 150, -7}[r.Intn(7)]}
				plans[i] = append(plans[i], op)
			}
			last := plans[i][len(plans[i])-1]
			if last.Op != "remove" {
				final[i] = c13Effective(last, R)
			}
		}
		if !m.Only(idx) {
			continue
		}
		desc := fmt.Sprintf("case=%d;nodes=%d plans=%s", idx, nn, vk.JSON(plans))
		ch := NewConsistentHash()
		start := make(chan struct{})
		stop := make(chan struct{})
		var wg, rg sync.WaitGroup
		for i := range plans {
			wg.Add(1)
			go func(i int) {
				defer wg.Done()
				<-start
				for _, op := range plans[i] {
					switch op.Op {
					case "add":
						ch.Add(nodes[i])
					case "addw":
						ch.AddWithWeight(nodes[i], op.Arg)
					case "addr":
						ch.AddWithReplicas(nodes[i], op.Arg)
					default:
						ch.Remove(nodes[i])
					}
				}
			}(i)
		}
		keys := c13Keys(1500, int64(idx))
		for g := 0; g < 2; g++ {
			rg.Add(1)
			go func(g int) {
				defer rg.Done()
				for i := g; ; i += 2 {
					select {
					case <-stop:
						return
					default:
					}
					vk.Recover(func() { ch.Get(keys[i%len(keys)]) })
				}
			}(g)
		}
		close(start)
		wg.Wait()
		close(stop)
		rg.Wait()
		ref := c13BuildRing(nodes, final)
		if ref.dup {
			m.Skip("ring-position collision between nodes (outside the claim)")
			continue
		}
		bad := 0
		for _, k := range keys {
			var got any
			var ok bool
			if pv, p := vk.Recover(func() { got, ok = ch.Get(k) }); p {
				m.Violate("C13:concurrent-writers:get-panicked", desc, "Get(%q) panicked after concurrent membership changes: %v", k, pv)
				bad++
				break
			}
			want, wok := ref.get(k)
			switch {
			case ok != wok:
				m.Violate("C13:concurrent-writers:presence", desc, "Get(%q) ok=%v, reference ring of the final membership %v says %v", k, ok, final, wok)
				bad++
			case ok && c13Repr(got) != c13Repr(nodes[want]):
				m.Violate("C13:concurrent-writers:lost-update", desc, "Get(%q)=%v, reference ring of the final membership %v gives node %d (%v): a membership change was lost or resurrected", k, got, final, want, nodes[want])
				bad++
			}
			if bad > 0 {
				break
			}
		}
		m.Case(vk.Digest(desc), len(final) >= 2)
		m.Count("final_members", int64(len(final)))
		if m.WantSample() && idx%40 == 1 {
			m.Sample(map[string]any{"nodes": nn, "final_virtual_nodes": fmt.Sprint(final)})
		}
	}
}
