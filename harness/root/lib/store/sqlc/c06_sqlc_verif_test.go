//go:build verif

package sqlc

// C06 (cache-aside part) — DESIGN.md §3 C06 (a)-(e).
//
// System under test: the real sqlc.CachedConn over the real cache node / cluster over
// miniredis. The "database" is a Go map owned by the harness and reached only through
// the query/exec callbacks, so every database query is an observed event and the map
// is at the same time the reference the reads are compared with.
// Redis-side observation and fault injection: miniredis Server().SetPreHook (every
// GET/SET/DEL of the running scenario is logged before execution, chosen ones are
// answered with an error; during an outage every command's connection is dropped
// without a reply), FastForward for TTLs.
// No verdict depends on wall-clock time.

import (
	"context"
	"database/sql"
	"errors"
	"fmt"
	"math"
	"runtime"
	"sort"
	"strconv"
	"strings"
	"sync"
	"sync/atomic"
	"testing"
	"time"

	"github.com/alicebob/miniredis/v2"
	"github.com/alicebob/miniredis/v2/server"
	"github.com/gotid/god/lib/breaker"
	"github.com/gotid/god/lib/logx"
	"github.com/gotid/god/lib/stat"
	"github.com/gotid/god/lib/store/cache"
	"github.com/gotid/god/lib/store/redis"
	"github.com/gotid/god/lib/store/sqlx"
	"verif.local/vk"
)

const c06Watchdog = 30 * time.Second

// ---------------------------------------------------------------------------
// model database

type c06Row struct {
	ID    int64  `json:"id"`
	Name  string `json:"name"`
	Email string `json:"email"`
	Ver   int64  `json:"ver"`
}

type c06DB struct {
	mu       sync.Mutex
	rows     map[int64]c06Row
	queries  int64 // atomic: query callbacks so far
	inflight map[string]int
	maxIn    map[string]int
	// stampede control
	panicNext int // the next n query callbacks panic
	panicked  int64
	failNext  int           // the next n query callbacks fail with c06ErrDB (database trouble)
	failed    int64         // query callbacks that failed so
	gate      chan struct{} // non-nil: query callbacks block here
	entered   chan string   // non-nil: a callback announces itself
	jitter    bool
}

func newC06DB() *c06DB {
	return &c06DB{rows: map[int64]c06Row{}, inflight: map[string]int{}, maxIn: map[string]int{}}
}

// enter/leave bracket one query callback for the concurrency gauge (slot = cache key).
func (d *c06DB) enter(slot string) {
	atomic.AddInt64(&d.queries, 1)
	d.mu.Lock()
	d.inflight[slot]++
	if d.inflight[slot] > d.maxIn[slot] {
		d.maxIn[slot] = d.inflight[slot]
	}
	gate, entered, jitter := d.gate, d.entered, d.jitter
	d.mu.Unlock()
	if entered != nil {
		select {
		case entered <- slot:
		default:
		}
	}
	if gate != nil {
		<-gate
	}
	if jitter {
		for i := 0; i < 3; i++ {
			runtime.Gosched()
		}
	}
}

var c06ErrDB = errors.New("c06: database unavailable")

// failing reports (and consumes) an armed database failure for the current query callback.
func (d *c06DB) failing() bool {
	d.mu.Lock()
	defer d.mu.Unlock()
	if d.panicNext > 0 {
		d.panicNext--
		d.panicked++
		panic("c06: database query callback panics")
	}
	if d.failNext > 0 {
		d.failNext--
		d.failed++
		return true
	}
	return false
}

func (d *c06DB) armPanic(n int) (panickedSoFar int64) {
	d.mu.Lock()
	defer d.mu.Unlock()
	d.panicNext = n
	return d.panicked
}

func (d *c06DB) armFail(n int) {
	d.mu.Lock()
	d.failNext = n
	d.mu.Unlock()
}

func (d *c06DB) failedCount() int64 {
	d.mu.Lock()
	defer d.mu.Unlock()
	return d.failed
}

func (d *c06DB) all() []c06Row {
	d.mu.Lock()
	defer d.mu.Unlock()
	out := make([]c06Row, 0, len(d.rows))
	for _, r := range d.rows {
		out = append(out, r)
	}
	sort.Slice(out, func(i, j int) bool { return out[i].ID < out[j].ID })
	return out
}

func (d *c06DB) leave(slot string) {
	d.mu.Lock()
	d.inflight[slot]--
	d.mu.Unlock()
}

func (d *c06DB) byID(id int64) (c06Row, bool) {
	d.mu.Lock()
	defer d.mu.Unlock()
	r, ok := d.rows[id]
	return r, ok
}

func (d *c06DB) byName(name string) (c06Row, bool) {
	d.mu.Lock()
	defer d.mu.Unlock()
	for _, r := range d.rows {
		if r.Name == name {
			return r, true
		}
	}
	return c06Row{}, false
}

func (d *c06DB) byEmail(email string) (c06Row, bool) {
	d.mu.Lock()
	defer d.mu.Unlock()
	for _, r := range d.rows {
		if r.Email == email {
			return r, true
		}
	}
	return c06Row{}, false
}

func (d *c06DB) put(r c06Row) {
	d.mu.Lock()
	d.rows[r.ID] = r
	d.mu.Unlock()
}

func (d *c06DB) del(id int64) {
	d.mu.Lock()
	delete(d.rows, id)
	d.mu.Unlock()
}

func (d *c06DB) q() int64 { return atomic.LoadInt64(&d.queries) }

// c06Conn is the sqlx.Conn handed to CachedConn. The cached paths never use it (their
// callbacks go to the model directly); the *NoCache / Transact entry points of CachedConn
// forward to the four methods below.
type c06Conn struct {
	sqlx.Conn
	db *c06DB
}

// ExecCtx: args[0] is the mutation to apply to the model database.
func (c c06Conn) ExecCtx(_ context.Context, _ string, args ...any) (sql.Result, error) {
	args[0].(func())()
	return nil, nil
}

// QueryRowCtx: select by id (args[0]).
func (c c06Conn) QueryRowCtx(_ context.Context, v any, _ string, args ...any) error {
	r, ok := c.db.byID(args[0].(int64))
	if !ok {
		return sqlx.ErrNotFound
	}
	*v.(*c06Row) = r
	return nil
}

// QueryRowsCtx: select all rows ordered by id.
func (c c06Conn) QueryRowsCtx(_ context.Context, v any, _ string, _ ...any) error {
	*v.(*[]c06Row) = c.db.all()
	return nil
}

func (c c06Conn) TransactCtx(ctx context.Context, fn func(context.Context, sqlx.Session) error) error {
	return fn(ctx, nil)
}

// ---------------------------------------------------------------------------
// redis side

type c06Cmd struct {
	Node     int
	Cmd      string
	Keys     []string
	Value    string
	Secs     int64 // TTL of a SET in seconds (-1: none)
	Millis   bool  // TTL given with PX and not a whole number of seconds
	Injected bool
}

type c06Fault struct {
	cmd   string // GET | SET | DEL | * (all)
	node  int    // -1 any
	count int
}

type c06Env struct {
	mrs    []*miniredis.Miniredis
	mu     sync.Mutex
	prefix string
	log    []c06Cmd
	faults []*c06Fault
	db     *c06DB
	qAtInj int64  // db.queries when the first failure of the current op was injected (-1 none)
	onGet  func() // called once when the next observed GET arrives (before it is answered)
	isDown bool   // outage: every command on every node gets its connection dropped without a reply
	drops  int64
}

var (
	c06EnvOnce sync.Once
	c06TheEnv  *c06Env
	c06EnvErr  error
)

func c06GetEnv() (*c06Env, error) {
	c06EnvOnce.Do(func() {
		logx.Disable()
		stat.SetReporter(nil)
		e := &c06Env{qAtInj: -1}
		for i := 0; i < 3; i++ {
			mr, err := miniredis.Run()
			if err != nil {
				c06EnvErr = err
				return
			}
			e.mrs = append(e.mrs, mr)
			e.installHook(i)
		}
		c06TheEnv = e
	})
	return c06TheEnv, c06EnvErr
}

func (e *c06Env) installHook(i int) {
	e.mrs[i].Server().SetPreHook(func(c *server.Peer, cmd string, args ...string) bool {
		return e.hook(i, c, cmd, args)
	})
}

func (e *c06Env) hook(node int, c *server.Peer, cmd string, args []string) bool {
	e.mu.Lock()
	if e.isDown {
		e.drops++
		e.mu.Unlock()
		c.Close() // no reply, connection closed: the client sees a network error
		return true
	}
	e.mu.Unlock()
	if (cmd != "GET" && cmd != "SET" && cmd != "DEL") || len(args) == 0 {
		return false
	}
	e.mu.Lock()
	if e.prefix == "" || !strings.HasPrefix(args[0], e.prefix) {
		e.mu.Unlock()
		return false // stray command of an earlier scenario (background delete retry)
	}
	rec := c06Cmd{Node: node, Cmd: cmd, Secs: -1}
	switch cmd {
	case "DEL":
		rec.Keys = append([]string(nil), args...)
	case "GET":
		rec.Keys = []string{args[0]}
	case "SET":
		rec.Keys = []string{args[0]}
		if len(args) > 1 {
			rec.Value = args[1]
		}
		for i := 2; i+1 < len(args); i++ {
			switch strings.ToUpper(args[i]) {
			case "EX":
				if v, err := strconv.ParseInt(args[i+1], 10, 64); err == nil {
					rec.Secs = v
				}
			case "PX":
				if v, err := strconv.ParseInt(args[i+1], 10, 64); err == nil {
					rec.Secs = v / 1000
					rec.Millis = v%1000 != 0
				}
			}
		}
	}
	for _, f := range e.faults {
		if f.count > 0 && (f.cmd == "*" || f.cmd == cmd) && (f.node < 0 || f.node == node) {
			f.count--
			rec.Injected = true
			break
		}
	}
	if rec.Injected && e.qAtInj < 0 && e.db != nil {
		e.qAtInj = e.db.q()
	}
	e.log = append(e.log, rec)
	var onGet func()
	if cmd == "GET" {
		onGet, e.onGet = e.onGet, nil
	}
	e.mu.Unlock()
	if onGet != nil {
		onGet()
	}
	if rec.Injected {
		c.WriteError("ERR c06 injected redis failure")
		return true
	}
	return false
}

// begin starts a scenario: only keys with this prefix are observed from now on.
func (e *c06Env) begin(prefix string, db *c06DB) {
	if prefix != "" {
		for _, mr := range e.mrs {
			mr.FlushAll() // every scenario starts on an empty redis
		}
	}
	e.mu.Lock()
	e.prefix, e.db, e.log, e.faults, e.qAtInj = prefix, db, nil, nil, -1
	e.mu.Unlock()
}

func (e *c06Env) arm(cmd string, node, count int) {
	e.mu.Lock()
	e.faults = append(e.faults, &c06Fault{cmd: cmd, node: node, count: count})
	e.mu.Unlock()
}

func (e *c06Env) disarm() {
	e.mu.Lock()
	e.faults = nil
	e.mu.Unlock()
}

// take returns and clears the command log of the op that just finished.
func (e *c06Env) take() (log []c06Cmd, qAtInj int64) {
	e.mu.Lock()
	log, qAtInj = e.log, e.qAtInj
	e.log, e.qAtInj = nil, -1
	e.mu.Unlock()
	return
}

func (e *c06Env) ff(d time.Duration) {
	for _, mr := range e.mrs {
		mr.FastForward(d)
	}
}

// down/up model a whole-redis outage at the protocol level: while down, every command
// on every node has its connection closed without a reply (the client sees EOF / a
// network error and its retries fare no better). The listeners are NOT closed: closing
// and re-opening a loopback port while a client keeps dialling it can lose the port to
// a TCP self-connection, which would make the harness flaky.
func (e *c06Env) down() {
	e.mu.Lock()
	e.isDown = true
	e.mu.Unlock()
}

func (e *c06Env) up() error {
	e.mu.Lock()
	e.isDown = false
	e.mu.Unlock()
	return nil
}

// ---------------------------------------------------------------------------
// system under test + typed operations

type c06Sys struct {
	cc     CachedConn
	db     *c06DB
	prefix string
	ctx    context.Context // nil: the plain entry points; else the *Ctx entry points with this request context
}

func (s c06Sys) with(ctx context.Context) c06Sys { s.ctx = ctx; return s }

func (s c06Sys) getCache(id int64) (c06Row, error) {
	var row c06Row
	if s.ctx != nil {
		return row, s.cc.GetCacheCtx(s.ctx, s.pk(id), &row)
	}
	return row, s.cc.GetCache(s.pk(id), &row)
}

// c06DoneCtx is a request context that is already past its deadline.
type c06DoneCtx struct{ done chan struct{} }

func newC06ExpiredCtx() c06DoneCtx {
	c := c06DoneCtx{done: make(chan struct{})}
	close(c.done)
	return c
}
func (c c06DoneCtx) Deadline() (time.Time, bool) { return time.Time{}, false }
func (c c06DoneCtx) Done() <-chan struct{}       { return c.done }
func (c c06DoneCtx) Err() error                  { return context.DeadlineExceeded }
func (c c06DoneCtx) Value(any) any               { return nil }

type c06Topo struct {
	Kind    string `json:"kind"` // nodeconn | conf1 | cluster2 | cluster3
	Weights []int  `json:"weights,omitempty"`
	Expire  int    `json:"expire_s"`          // effective expiry the oracles use
	NFE     int    `json:"notfound_expire_s"` // effective not-found expiry
	// how the expiry is configured when not simply WithExpire(Expire): "zero" = WithExpire(0)
	// (an unset config field forwarded), "neg" = WithExpire(-3s), "unset" = option not given.
	// All three mean the documented defaults: 7 days / 1 minute.
	ExpireCfg string `json:"expire_cfg,omitempty"`
	NFECfg    string `json:"notfound_expire_cfg,omitempty"`
}

const (
	c06DefaultExpire = 7 * 24 * 3600
	c06DefaultNFE    = 60
)

// c06Boundary picks a configuration boundary for the two expiries (and fixes the effective values).
func c06Boundary(tp *c06Topo, expireCfg, nfeCfg string) {
	tp.ExpireCfg, tp.NFECfg = expireCfg, nfeCfg
	if expireCfg != "" {
		tp.Expire = c06DefaultExpire
	}
	if nfeCfg != "" {
		tp.NFE = c06DefaultNFE
	}
}

func c06Options(tp c06Topo) []cache.Option {
	var opts []cache.Option
	switch tp.ExpireCfg {
	case "zero":
		opts = append(opts, cache.WithExpire(0))
	case "neg":
		opts = append(opts, cache.WithExpire(-3*time.Second))
	case "unset":
	default:
		opts = append(opts, cache.WithExpire(time.Duration(tp.Expire)*time.Second))
	}
	switch tp.NFECfg {
	case "zero":
		opts = append(opts, cache.WithNotFoundExpire(0))
	case "neg":
		opts = append(opts, cache.WithNotFoundExpire(-3*time.Second))
	case "unset":
	default:
		opts = append(opts, cache.WithNotFoundExpire(time.Duration(tp.NFE)*time.Second))
	}
	return opts
}

func c06Build(env *c06Env, tp c06Topo, db *c06DB, prefix string) c06Sys {
	opts := c06Options(tp)
	var cc CachedConn
	nodes := 1
	switch tp.Kind {
	case "cluster2":
		nodes = 2
	case "cluster3":
		nodes = 3
	}
	if tp.Kind == "nodeconn" {
		cc = NewNodeConn(c06Conn{db: db}, redis.New(env.mrs[0].Addr()), opts...)
	} else {
		var conf cache.Config
		for i := 0; i < nodes; i++ {
			w := 100
			if i < len(tp.Weights) {
				w = tp.Weights[i]
			}
			conf = append(conf, cache.NodeConfig{Config: redis.Config{Host: env.mrs[i].Addr(), Type: redis.NodeType}, Weight: w})
		}
		cc = NewConn(c06Conn{db: db}, conf, opts...)
	}
	return c06Sys{cc: cc, db: db, prefix: prefix}
}

func (s c06Sys) pk(id int64) string       { return fmt.Sprintf("%suser:id:%d", s.prefix, id) }
func (s c06Sys) nameKey(n string) string  { return s.prefix + "user:name:" + n }
func (s c06Sys) emailKey(n string) string { return s.prefix + "user:email:" + n }

func c06PrimaryID(primary any) (int64, error) {
	return strconv.ParseInt(fmt.Sprint(primary), 10, 64)
}

func (s c06Sys) findOne(id int64) (c06Row, error) {
	var row c06Row
	key := s.pk(id)
	query := func(conn sqlx.Conn, v any) error {
		s.db.enter("pk:" + key)
		defer s.db.leave("pk:" + key)
		if s.db.failing() {
			return c06ErrDB
		}
		r, ok := s.db.byID(id)
		if !ok {
			return ErrNotFound
		}
		*v.(*c06Row) = r
		return nil
	}
	if s.ctx != nil {
		return row, s.cc.QueryRowCtx(s.ctx, &row, key, func(_ context.Context, conn sqlx.Conn, v any) error { return query(conn, v) })
	}
	return row, s.cc.QueryRow(&row, key, query)
}

func (s c06Sys) findByIndex(field, val string) (c06Row, error) {
	var row c06Row
	key := s.nameKey(val)
	look := s.db.byName
	if field == "email" {
		key = s.emailKey(val)
		look = s.db.byEmail
	}
	keyer := func(primary any) string {
		return fmt.Sprintf("%suser:id:%v", s.prefix, primary) // as generated models do
	}
	indexQuery := func(conn sqlx.Conn, v any) (any, error) {
		s.db.enter("idx:" + key)
		defer s.db.leave("idx:" + key)
		if s.db.failing() {
			return nil, c06ErrDB
		}
		r, ok := look(val)
		if !ok {
			return nil, ErrNotFound
		}
		*v.(*c06Row) = r
		return r.ID, nil
	}
	primaryQuery := func(conn sqlx.Conn, v, primary any) error {
		id, err := c06PrimaryID(primary)
		if err != nil {
			return err
		}
		s.db.enter("pk:" + s.pk(id))
		defer s.db.leave("pk:" + s.pk(id))
		if s.db.failing() {
			return c06ErrDB
		}
		r, ok := s.db.byID(id)
		if !ok {
			return ErrNotFound
		}
		*v.(*c06Row) = r
		return nil
	}
	if s.ctx != nil {
		return row, s.cc.QueryRowIndexCtx(s.ctx, &row, key, keyer,
			func(_ context.Context, conn sqlx.Conn, v any) (any, error) { return indexQuery(conn, v) },
			func(_ context.Context, conn sqlx.Conn, v, primary any) error { return primaryQuery(conn, v, primary) })
	}
	return row, s.cc.QueryRowIndex(&row, key, keyer, indexQuery, primaryQuery)
}

// exec applies mutate to the database and names keys, like a generated model does.
func (s c06Sys) exec(mutate func(), keys ...string) error {
	_, err := s.cc.Exec(func(conn sqlx.Conn) (sql.Result, error) {
		mutate()
		return nil, nil
	}, keys...)
	return err
}

// ---------------------------------------------------------------------------
// TTL oracle (d)

// c06Bounds returns [ceil(0.95 e), ceil(1.05 e)] in seconds, computed in integers.
func c06Bounds(eSec int) (lo, hi int64) {
	e := int64(eSec) * 1000 // ms
	lo = (e*95/100 + 999) / 1000
	hi = (e*105/100 + 999) / 1000
	return
}

type c06TTLStats struct {
	n                  int64
	minRatio, maxRatio float64
	seen               map[int64]int64
}

func newC06TTLStats() *c06TTLStats {
	return &c06TTLStats{minRatio: math.Inf(1), maxRatio: math.Inf(-1), seen: map[int64]int64{}}
}

// c06CheckTTLs applies the TTL oracle to the SETs of one op. indexOp: the op was a
// QueryRowIndex (its primary-key SET carries the 5 s safety gap).
func c06CheckTTLs(m *vk.M, desc func() string, s c06Sys, tp c06Topo, log []c06Cmd, indexOp bool, st *c06TTLStats, what string) (bad bool) {
	var idxSecs int64 = -1
	// the 5 s gap applies to the primary entry written together with a fresh index entry
	idxWritten := false
	for _, c := range log {
		if c.Cmd == "SET" && c.Value != "*" && !strings.HasPrefix(c.Keys[0], s.prefix+"user:id:") {
			idxWritten = true
		}
	}
	for _, c := range log {
		if c.Cmd != "SET" || c.Injected {
			continue
		}
		key := c.Keys[0]
		isPK := strings.HasPrefix(key, s.prefix+"user:id:")
		placeholder := c.Value == "*"
		class := "row"
		if placeholder {
			class = "placeholder"
		} else if !isPK {
			class = "index"
		}
		m.Count("ttl_sets_"+class, 1)
		if c.Secs < 0 {
			m.Violate("C06:ttl:no-expiry:"+class, desc(), "%s: SET %s %q stored without any expiry", what, key, c.Value)
			return true
		}
		if c.Millis {
			m.Violate("C06:ttl:not-whole-seconds:"+class, desc(), "%s: SET %s stored with a sub-second TTL", what, key)
			return true
		}
		base := tp.Expire
		if placeholder {
			base = tp.NFE
		}
		lo, hi := c06Bounds(base)
		gap := int64(0)
		if indexOp && idxWritten && isPK && !placeholder {
			gap = 5
		}
		if c.Secs < lo+gap || c.Secs > hi+gap {
			dir := "below"
			if c.Secs > hi+gap {
				dir = "above"
			}
			m.Violate(fmt.Sprintf("C06:ttl:out-of-range:%s:%s", class, dir), desc(), "%s: SET %s stored with TTL %d s; configured expiry %d s allows [%d,%d] s (+%d s index/primary gap)", what, key, c.Secs, base, lo+gap, hi+gap, gap)
			return true
		}
		if indexOp && !placeholder {
			if isPK {
				if idxSecs >= 0 && c.Secs < idxSecs {
					m.Violate("C06:ttl:index-outlives-primary", desc(), "%s: primary entry %s TTL %d s < index entry TTL %d s", what, key, c.Secs, idxSecs)
					return true
				}
			} else {
				idxSecs = c.Secs
			}
		}
		if st != nil {
			st.n++
			ratio := float64(c.Secs-gap) / float64(base)
			st.minRatio = math.Min(st.minRatio, ratio)
			st.maxRatio = math.Max(st.maxRatio, ratio)
			st.seen[(c.Secs-gap)*100000+int64(base)]++
		}
	}
	// in a QueryRowIndex the primary entry is written before the index entry: compare afterwards too
	if indexOp {
		var pkSecs, ixSecs int64 = -1, -1
		for _, c := range log {
			if c.Cmd != "SET" || c.Injected || c.Value == "*" {
				continue
			}
			if strings.HasPrefix(c.Keys[0], s.prefix+"user:id:") {
				pkSecs = c.Secs
			} else {
				ixSecs = c.Secs
			}
		}
		if pkSecs >= 0 && ixSecs >= 0 && pkSecs < ixSecs {
			m.Violate("C06:ttl:index-outlives-primary", desc(), "%s: primary entry TTL %d s < index entry TTL %d s", what, pkSecs, ixSecs)
			return true
		}
	}
	return false
}

// ---------------------------------------------------------------------------
// (a) coherence histories with faults, (d) TTL on every SET seen

type c06Op struct {
	Op    string `json:"op"`
	ID    int64  `json:"id,omitempty"`
	Name  string `json:"name,omitempty"`
	Email string `json:"email,omitempty"`
	D     int    `json:"d,omitempty"`     // seconds (ff)
	Fault string `json:"fault,omitempty"` // GET|SET|DEL armed for this op
	Node  int    `json:"node,omitempty"`
	// Nest: reads performed INSIDE the Exec callback (same goroutine, a legal sequential
	// nesting): "b:<read>" before the callback mutates the database, "a:<read>" after.
	// <read> = findOne | findByName | getCache (of the row being written) | other (another id).
	Nest []string `json:"nest,omitempty"`
	// Ctx (op ctxRead): fate of the request context handed to the *Ctx read entry point:
	// canceled-before | expired-before | cancel-in-flight (cancelled when the GET reaches redis)
	Ctx string `json:"ctx,omitempty"`
}

var (
	c06Names  = []string{"ann", "bob", "cy", "dee", "eve"}
	c06Emails = []string{"a@x", "b@x", "c@x", "d@x", "e@x"}
	c06Exp    = []int{1, 7, 10, 30, 90, 3610, 120 * 24 * 3600}
	c06NFE    = []int{1, 3, 7, 10, 30}
	c06Cfgs   = []string{"zero", "neg", "unset"}
	// primary keys of the histories: numeric boundary family (>= 1e6 prints in exponent form as a
	// float64, > 2^53 does not survive a float64) — the index entry stores them as JSON numbers
	c06IDs = []int64{1, 1000000, 1<<53 + 1, math.MaxInt64}
	// primary keys of the stampede rounds
	c06StampedeIDs = []int64{1, 999999, 1000000, 1234567, 1<<53 + 1, math.MaxInt64, -5, math.MinInt64}
)

func c06RandTopo(r interface{ Intn(int) int }) c06Topo {
	tp := c06Topo{Kind: []string{"nodeconn", "conf1", "cluster2", "cluster3", "cluster3"}[r.Intn(5)],
		Expire: c06Exp[r.Intn(len(c06Exp))], NFE: c06NFE[r.Intn(len(c06NFE))]}
	if strings.HasPrefix(tp.Kind, "cluster") {
		for i := 0; i < 3; i++ {
			tp.Weights = append(tp.Weights, []int{100, 100, 30, 300}[r.Intn(4)])
		}
	}
	switch r.Intn(8) { // configuration boundaries of the expiry options
	case 0:
		c06Boundary(&tp, c06Cfgs[r.Intn(3)], "")
	case 1:
		c06Boundary(&tp, "", c06Cfgs[r.Intn(3)])
	case 2:
		c06Boundary(&tp, c06Cfgs[r.Intn(3)], c06Cfgs[r.Intn(3)])
	}
	return tp
}

type c06Hist struct {
	m        *vk.M
	env      *c06Env
	idx      int
	tp       c06Topo
	sys      c06Sys
	db       *c06DB
	ops      []c06Op
	taint    map[string]bool   // cache key may hold an outdated entry (a delete failed)
	lastW    map[string]string // last write kind naming the key (for signatures)
	faults   int               // failures injected so far (kept <= 4 per history: breaker stays closed)
	isDown   bool
	downOps  int
	counts   map[string]int64
	ttl      *c06TTLStats
	nodesHit map[int]bool
	// per-op flags for checkRead
	dbFailedInOp bool
	corruptInOp  bool
	writeErr     bool
}

func (h *c06Hist) desc() string {
	return fmt.Sprintf("case=%d;%s", h.idx, vk.JSON(map[string]any{"topo": h.tp, "ops": h.ops}))
}

func (h *c06Hist) lw(k string) string {
	if w, ok := h.lastW[k]; ok {
		return w
	}
	return "nothing"
}

// absorb processes the redis commands of the op that just ran: TTL oracle, taint bookkeeping.
// named: keys a write op named; dbChanged: the database row(s) behind them changed.
func (h *c06Hist) absorb(log []c06Cmd, what string, indexOp bool, named []string, dbChanged bool) (bad bool) {
	if c06CheckTTLs(h.m, h.desc, h.sys, h.tp, log, indexOp, h.ttl, what) {
		return true
	}
	deleted := map[string]bool{}
	for _, c := range log {
		h.nodesHit[c.Node] = true
		h.counts["redis_"+c.Cmd]++
		if c.Injected {
			h.counts["injected_"+c.Cmd]++
			continue
		}
		if c.Cmd == "DEL" {
			for _, k := range c.Keys {
				deleted[k] = true
				delete(h.taint, k)
			}
		}
	}
	if dbChanged {
		// a named key whose delete was not seen after the mutation is excused (tainted) only if
		// the delete can have FAILED: outage, injected DEL error, or the call reported an error.
		// Otherwise nothing is excused: the reads that follow are checked as usual.
		failed := h.isDown || h.writeErr
		for _, c := range log {
			if c.Injected && c.Cmd == "DEL" {
				failed = true
			}
		}
		for _, k := range named {
			switch {
			case deleted[k]:
			case failed:
				h.taint[k] = true
				h.counts["keys_tainted_by_failed_delete"]++
			default:
				h.counts["named_keys_not_deleted_after_mutation"]++
			}
		}
	}
	return false
}

func c06OtherID(id int64) int64 {
	for i, v := range c06IDs {
		if v == id {
			return c06IDs[(i+1)%len(c06IDs)]
		}
	}
	return c06IDs[0]
}

// nestedRead performs one read inside an Exec callback. Its result is not judged (the
// write is still in progress); its redis commands go through the TTL oracle.
func (h *c06Hist) nestedRead(op c06Op, what string) (bad bool) {
	s := h.sys
	h.counts["nested_reads_"+what]++
	switch what {
	case "findOne":
		_, _ = s.findOne(op.ID)
	case "other":
		_, _ = s.findOne(c06OtherID(op.ID))
	case "getCache":
		var row c06Row
		_ = s.cc.GetCache(s.pk(op.ID), &row)
	case "findByName":
		name := op.Name
		if name == "" {
			cur, ok := h.db.byID(op.ID)
			if !ok {
				return false
			}
			name = cur.Name
		}
		_, _ = s.findByIndex("name", name)
		log, _ := h.env.take()
		return h.absorb(log, "nested findByName", true, nil, false)
	}
	log, _ := h.env.take()
	return h.absorb(log, "nested "+what, false, nil, false)
}

// execWrite runs one Exec-style write: [reads] mutate [reads] inside the callback, naming keys.
func (h *c06Hist) execWrite(kind string, op c06Op, mutate func(), keys []string) (bad bool) {
	nestBad := false
	nest := func(when string) {
		for _, n := range op.Nest {
			if strings.HasPrefix(n, when+":") && !nestBad {
				nestBad = h.nestedRead(op, n[2:])
			}
		}
	}
	err := h.sys.exec(func() {
		nest("b")
		// whatever reached redis before the mutation (e.g. an early delete) is not the delete after the write
		seg, _ := h.env.take()
		if h.absorb(seg, kind+" (before the mutation)", false, nil, false) {
			nestBad = true
		}
		mutate()
		nest("a")
	}, keys...)
	if nestBad {
		return true
	}
	return h.afterWrite(kind, err, keys)
}

// checkRead compares one read with the database. keys: cache keys the answer may come from.
func (h *c06Hist) checkRead(kind string, got c06Row, err error, want c06Row, exists bool, keys []string, log []c06Cmd, qAtInj, q0 int64) (bad bool) {
	q1 := h.db.q()
	injected := false
	injectedGet := false
	for _, c := range log {
		if c.Injected {
			injected = true
			if c.Cmd == "GET" {
				injectedGet = true
			}
		}
	}
	what := fmt.Sprintf("op #%d %s", len(h.ops), vk.JSON(h.ops[len(h.ops)-1]))
	if h.isDown || injectedGet {
		// (e) a cache failure other than a miss goes to the caller; the database is not consulted
		h.counts["reads_under_cache_failure"]++
		cause := "injected-get-error"
		after := q1 - qAtInj
		if h.isDown {
			cause = "redis-down"
			after = q1 - q0
		}
		if err == nil {
			h.m.Violate("C06:passthrough:cache-error-swallowed:"+kind+":"+cause, h.desc(), "%s: redis failed (%s) but the read returned a value %+v with a nil error (db queries during op: %d)", what, cause, got, q1-q0)
			return true
		}
		if after > 0 {
			h.m.Violate("C06:passthrough:db-queried-after-cache-error:"+kind+":"+cause, h.desc(), "%s: %d database queries after the cache failure (%s); returned error: %v", what, after, cause, err)
			return true
		}
		if exists && errors.Is(err, ErrNotFound) {
			h.m.Violate("C06:passthrough:not-found-instead-of-cache-error:"+kind, h.desc(), "%s: redis failed (%s) and the read reported not-found although the row exists", what, cause)
			return true
		}
		return false
	}
	if errors.Is(err, breaker.ErrServiceUnavailable) {
		h.counts["reads_rejected_by_breaker"]++
		return false
	}
	for _, k := range keys {
		if h.taint[k] {
			h.counts["reads_unchecked_pending_failed_delete"]++
			return false
		}
	}
	if injected && err != nil && !errors.Is(err, ErrNotFound) {
		// a failed SET surfaced as an error: a cache failure returned to the caller — legal
		h.counts["reads_failed_on_injected_set"]++
		return false
	}
	key0 := keys[0]
	if h.dbFailedInOp {
		// the database failed under this read: no row can be promised, but the failure must
		// not be turned into an answer (a wrong row, or not-found for a row that exists)
		switch {
		case err == nil && exists && got == want:
			h.counts["reads_ok_row"]++
		case err == nil:
			h.m.Violate("C06:dberror:answered-with-wrong-row:"+kind, h.desc(), "%s: a database query failed during the read, yet it returned %+v with nil error (database has %+v, exists=%v)", what, got, want, exists)
			return true
		case exists && errors.Is(err, ErrNotFound):
			h.m.Violate("C06:dberror:reported-as-not-found:"+kind, h.desc(), "%s: a database query failed during the read and the read reported not-found although the row exists", what)
			return true
		default:
			h.counts["reads_failed_on_db_error"]++
		}
		return false
	}
	// (an entry that cannot be decoded into the row type is no answer: the read must still
	// return the database's current row — checked by the ordinary rules below)
	switch {
	case exists && err == nil && got == want:
		h.counts["reads_ok_row"]++
		if q1 == q0 {
			h.counts["reads_served_from_cache"]++
		}
	case !exists && errors.Is(err, ErrNotFound):
		h.counts["reads_ok_notfound"]++
		if q1 == q0 {
			h.counts["notfound_served_from_placeholder"]++
		}
	case exists && errors.Is(err, ErrNotFound):
		h.m.Violate(fmt.Sprintf("C06:coherence:not-found-for-existing-row:%s:after-%s", kind, h.lw(key0)), h.desc(), "%s: returned not-found, database has %+v (last write naming %s: %s; db queries during op: %d)", what, want, key0, h.lw(key0), q1-q0)
		return true
	case exists && err == nil:
		h.m.Violate(fmt.Sprintf("C06:coherence:stale-read:%s:after-%s", kind, h.lw(key0)), h.desc(), "%s: returned %+v, database has %+v (last write naming %s: %s; db queries during op: %d)", what, got, want, key0, h.lw(key0), q1-q0)
		return true
	case !exists && err == nil:
		h.m.Violate(fmt.Sprintf("C06:coherence:phantom-row:%s:after-%s", kind, h.lw(key0)), h.desc(), "%s: returned %+v, database has no such row (last write naming %s: %s)", what, got, key0, h.lw(key0))
		return true
	default:
		h.m.Violate("C06:read:unexpected-error:"+kind, h.desc(), "%s: returned error %v with redis healthy (row exists: %v)", what, err, exists)
		return true
	}
	return false
}

// checkGetCache: GetCache answers from the cache only. A miss (ErrNotFound) is always
// legal; a value must be the database's current row.
func (h *c06Hist) checkGetCache(got c06Row, err error, want c06Row, exists bool, key string, log []c06Cmd) (bad bool) {
	what := fmt.Sprintf("op #%d %s", len(h.ops), vk.JSON(h.ops[len(h.ops)-1]))
	injectedGet := false
	for _, c := range log {
		if c.Injected && c.Cmd == "GET" {
			injectedGet = true
		}
	}
	switch {
	case h.isDown || injectedGet:
		h.counts["reads_under_cache_failure"]++
		if err == nil || errors.Is(err, ErrNotFound) {
			h.m.Violate("C06:passthrough:cache-error-swallowed:getCache", h.desc(), "%s: redis failed but GetCache returned %+v err=%v (a cache failure other than a miss must be returned)", what, got, err)
			return true
		}
	case errors.Is(err, breaker.ErrServiceUnavailable):
		h.counts["reads_rejected_by_breaker"]++
	case h.taint[key]:
		h.counts["reads_unchecked_pending_failed_delete"]++
	case errors.Is(err, ErrNotFound):
		h.counts["getcache_miss"]++
	case err != nil:
		h.m.Violate("C06:read:unexpected-error:getCache", h.desc(), "%s: returned error %v with redis healthy", what, err)
		return true
	case !exists:
		h.m.Violate("C06:coherence:phantom-row:getCache:after-"+h.lw(key), h.desc(), "%s: returned %+v, database has no such row (last write naming the key: %s)", what, got, h.lw(key))
		return true
	case got != want:
		h.m.Violate("C06:coherence:stale-read:getCache:after-"+h.lw(key), h.desc(), "%s: returned %+v, database has %+v (last write naming the key: %s)", what, got, want, h.lw(key))
		return true
	default:
		h.counts["getcache_hit_ok"]++
	}
	return false
}

// c06PanicHangSeen: a read hung after a panicking query; do not provoke further 20 s waits.
var c06PanicHangSeen int32

// dbPanic: the query callback of a read panics once (the caller recovers, as an HTTP/RPC
// server does). The next read of the same key must work again: it returns the current row.
// A read that does not return is decided by a 20 s watchdog together with a goroutine dump
// that shows it parked inside the shared-flight wait.
func (h *c06Hist) dbPanic(op c06Op) (bad, stop bool) {
	s := h.sys
	read := func() (got c06Row, err error, want c06Row, exists bool, keys []string, kind string) {
		if op.D == 0 {
			kind = "findOne"
			got, err = s.findOne(op.ID)
			want, exists = h.db.byID(op.ID)
			keys = []string{s.pk(op.ID)}
			return
		}
		kind = "findByName"
		got, err = s.findByIndex("name", op.Name)
		want, exists = h.db.byName(op.Name)
		keys = []string{s.nameKey(op.Name)}
		if exists {
			keys = append(keys, s.pk(want.ID))
		}
		return
	}
	p0 := h.db.armPanic(1)
	_, panicked := vk.Recover(func() { read() })
	p1 := h.db.armPanic(0)
	log, _ := h.env.take()
	if h.absorb(log, "dbpanic", op.D != 0, nil, false) {
		return true, false
	}
	if !panicked || p1 == p0 {
		h.counts["dbpanic_not_reached"]++ // served from the cache: no query callback ran
		if panicked {
			h.m.Inconclusive("case %d: a read panicked without the harness' callback panicking", h.idx)
			return false, true
		}
		return false, false
	}
	h.counts["query_callback_panics"]++
	// the next read of the same key
	q0 := h.db.q()
	var got, want c06Row
	var err error
	var exists bool
	var keys []string
	var kind string
	if !vk.Within(20*time.Second, func() { got, err, want, exists, keys, kind = read() }) {
		atomic.StoreInt32(&c06PanicHangSeen, 1)
		dump := vk.Stacks()
		if strings.Contains(dump, "syncx.(*flightGroup).createCall") {
			h.m.Violate("C06:panic:reads-hang-after-panicking-query", h.desc(), "op #%d %s: after one query callback panicked (recovered by the caller) the next read of the same key did not return within 20 s; a goroutine is parked in the shared-flight wait:\n%s", len(h.ops), vk.JSON(op), c06Excerpt(dump, "syncx.(*flightGroup).createCall"))
			return true, true
		}
		h.m.Inconclusive("case %d: read after a panicking query did not return within 20 s", h.idx)
		return false, true
	}
	log, qi := h.env.take()
	if h.absorb(log, "dbpanic", op.D != 0, nil, false) {
		return true, false
	}
	h.counts["reads_after_panicking_query"]++
	return h.checkRead(kind+":after-panic", got, err, want, exists, keys, log, qi, q0), false
}

// c06Excerpt returns the goroutine block of dump that contains frame.
func c06Excerpt(dump, frame string) string {
	for _, b := range strings.Split(dump, "\n\n") {
		if strings.Contains(b, frame) {
			if len(b) > 1500 {
				b = b[:1500]
			}
			return b
		}
	}
	return ""
}

func (e *c06Env) setOnGet(f func()) {
	e.mu.Lock()
	e.onGet = f
	e.mu.Unlock()
}

// c06CacheConsulted: did a GET of this op reach redis and get answered?
func c06CacheConsulted(log []c06Cmd) bool {
	for _, c := range log {
		if c.Cmd == "GET" && !c.Injected {
			return true
		}
	}
	return false
}

// ctxRead: a read through a *Ctx entry point whose request context is already cancelled /
// past its deadline, or is cancelled while the GET is at redis. If the client refused to
// consult the cache (no GET reached redis) that is a cache failure, not a miss: the read must
// return an error and must not query the database. If the cache did answer, the usual rules apply.
func (h *c06Hist) ctxRead(op c06Op, q0 int64) (bad bool) {
	s := h.sys
	var ctx context.Context
	cancel := func() {}
	switch op.Ctx {
	case "expired-before":
		ctx = newC06ExpiredCtx()
	case "cancel-in-flight":
		ctx, cancel = context.WithCancel(context.Background())
		h.env.setOnGet(cancel)
	default:
		ctx, cancel = context.WithCancel(context.Background())
		cancel()
	}
	fs := s.with(ctx)
	var got, want c06Row
	var err error
	var exists bool
	var keys []string
	kind := []string{"findOne", "findByName", "getCache"}[op.D%3]
	switch kind {
	case "findOne":
		got, err = fs.findOne(op.ID)
		want, exists = h.db.byID(op.ID)
		keys = []string{s.pk(op.ID)}
	case "findByName":
		got, err = fs.findByIndex("name", op.Name)
		want, exists = h.db.byName(op.Name)
		keys = []string{s.nameKey(op.Name)}
		if exists {
			keys = append(keys, s.pk(want.ID))
		}
	default:
		got, err = fs.getCache(op.ID)
		want, exists = h.db.byID(op.ID)
		keys = []string{s.pk(op.ID)}
	}
	h.env.setOnGet(nil)
	cancel()
	q1 := h.db.q()
	log, qi := h.env.take()
	if h.absorb(log, "ctxRead", kind == "findByName", nil, false) {
		return true
	}
	h.counts["ctx_reads_"+op.Ctx]++
	what := fmt.Sprintf("op #%d %s", len(h.ops), vk.JSON(op))
	if op.Ctx != "cancel-in-flight" && !c06CacheConsulted(log) {
		h.counts["ctx_reads_refused_before_redis"]++
		if err == nil || errors.Is(err, ErrNotFound) {
			h.m.Violate("C06:passthrough:cache-error-swallowed:"+kind+":ctx-"+op.Ctx, h.desc(), "%s: the request context was done, no GET reached redis (the cache could not be consulted), yet the read returned %+v err=%v (database queries during op: %d)", what, got, err, q1-q0)
			return true
		}
		if q1 != q0 {
			h.m.Violate("C06:passthrough:db-queried-after-cache-error:"+kind+":ctx-"+op.Ctx, h.desc(), "%s: the cache could not be consulted (request context done) and the read fell through to the database (%d queries), err=%v", what, q1-q0, err)
			return true
		}
		return false
	}
	if errors.Is(err, context.Canceled) || errors.Is(err, context.DeadlineExceeded) {
		h.counts["ctx_reads_failed_with_ctx_error"]++
		return false
	}
	if kind == "getCache" {
		return h.checkGetCache(got, err, want, exists, keys[0], log)
	}
	return h.checkRead(kind, got, err, want, exists, keys, log, qi, q0)
}

// run executes one seeded history; returns false if a violation ended it.
func (h *c06Hist) run(r interface {
	Intn(int) int
}, nops int) (okRun bool) {
	s := h.sys
	nextVer := int64(1)
	for step := 0; step < nops; step++ {
		x := r.Intn(129)
		op := c06Op{}
		id := c06IDs[r.Intn(len(c06IDs))]
		name := c06Names[r.Intn(len(c06Names))]
		email := c06Emails[r.Intn(len(c06Emails))]
		// optional single fault armed for this op
		fault := ""
		if !h.isDown && h.faults < 4 && r.Intn(25) == 0 {
			fault = []string{"GET", "GET", "SET", "DEL", "DEL"}[r.Intn(5)]
		}
		switch {
		case h.isDown && (h.downOps >= 2 || r.Intn(2) == 0):
			op.Op = "up"
		case x < 24:
			op = c06Op{Op: "findOne", ID: id}
		case x < 38:
			op = c06Op{Op: "findByName", Name: name}
		case x < 48:
			op = c06Op{Op: "findByEmail", Email: email}
		case x < 64:
			op = c06Op{Op: "insert", ID: id, Name: name, Email: email}
		case x < 80:
			op = c06Op{Op: "update", ID: id, Name: name, Email: email}
		case x < 85:
			op = c06Op{Op: "delete", ID: id}
		case x < 89:
			op = c06Op{Op: "delCache", ID: id, Name: name}
		case x < 93:
			op = c06Op{Op: "setCache", ID: id}
		case x < 99:
			ds := []int{1, h.tp.NFE, h.tp.NFE + 2, h.tp.Expire / 2, h.tp.Expire + h.tp.Expire/10 + 7}
			op = c06Op{Op: "ff", D: ds[r.Intn(len(ds))]}
			if op.D < 1 {
				op.D = 1
			}
		case x < 100:
			if h.faults < 3 && !h.isDown && r.Intn(8) == 0 { // rare: each failing command costs the client's retry back-off
				op.Op = "down"
			} else {
				op = c06Op{Op: "findOne", ID: id}
			}
		case x < 104:
			op = c06Op{Op: "getCache", ID: id}
		case x < 107:
			op = c06Op{Op: "update1", ID: id} // touches no index column: names the primary key only
		case x < 109:
			op = c06Op{Op: "updateNoCache", ID: id, Name: name, Email: email} // ExecNoCache + DelCache
		case x < 111:
			op = c06Op{Op: "updateTx", ID: id, Name: name, Email: email} // Transact + DelCache
		case x < 113:
			op = c06Op{Op: "readNoCache", ID: id}
		case x < 114:
			op = c06Op{Op: "execFail", ID: id}
		case x < 115:
			op = c06Op{Op: "delCache0"}
		case x < 118:
			op = c06Op{Op: "corrupt", ID: id, D: r.Intn(7)}
		case x < 122:
			op = c06Op{Op: "dbfault", ID: id, Name: name, D: r.Intn(2)}
		default:
			op = c06Op{Op: "ctxRead", ID: id, Name: name, D: r.Intn(3), Ctx: []string{"canceled-before", "canceled-before", "expired-before", "cancel-in-flight"}[r.Intn(4)]}
			if op.Ctx == "expired-before" && h.faults >= 4 { // a deadline error counts as a failure for the redis breaker
				op.Ctx = "canceled-before"
			}
		}
		if x >= 127 {
			op = c06Op{Op: "dbpanic", ID: id, Name: name, D: r.Intn(2)}
			if atomic.LoadInt32(&c06PanicHangSeen) != 0 {
				op = c06Op{Op: "findOne", ID: id}
			}
		}
		if h.isDown && (op.Op == "corrupt" || op.Op == "dbfault" || op.Op == "ctxRead" || op.Op == "dbpanic") {
			op = c06Op{Op: "findOne", ID: id}
		}
		// make writes applicable to the current database
		switch op.Op {
		case "insert":
			// pick a free id / name / email (4 ids, 5 names, 5 emails: a free id implies free names)
			free := func(taken func(i int) bool, n int) int {
				start := r.Intn(n)
				for i := 0; i < n; i++ {
					if j := (start + i) % n; !taken(j) {
						return j
					}
				}
				return -1
			}
			fi := free(func(i int) bool { _, t := h.db.byID(c06IDs[i]); return t }, len(c06IDs))
			fn := free(func(i int) bool { _, t := h.db.byName(c06Names[i]); return t }, len(c06Names))
			fe := free(func(i int) bool { _, t := h.db.byEmail(c06Emails[i]); return t }, len(c06Emails))
			if fi < 0 || fn < 0 || fe < 0 {
				op = c06Op{Op: "findOne", ID: id}
			} else {
				op.ID, op.Name, op.Email = c06IDs[fi], c06Names[fn], c06Emails[fe]
			}
		case "update", "updateNoCache", "updateTx":
			cur, ok := h.db.byID(op.ID)
			if !ok {
				op = c06Op{Op: "findByName", Name: name}
				break
			}
			if o, taken := h.db.byName(op.Name); taken && o.ID != cur.ID {
				op.Name = cur.Name
			}
			if o, taken := h.db.byEmail(op.Email); taken && o.ID != cur.ID {
				op.Email = cur.Email
			}
		case "delete", "setCache", "update1":
			if _, ok := h.db.byID(op.ID); !ok {
				op = c06Op{Op: "findOne", ID: id}
			}
		}
		switch op.Op {
		case "insert", "update", "update1", "delete":
			if r.Intn(3) == 0 {
				for i, n := 0, 1+r.Intn(3); i < n; i++ {
					op.Nest = append(op.Nest, []string{"b:", "a:"}[r.Intn(2)]+[]string{"findOne", "findOne", "findByName", "getCache", "other"}[r.Intn(5)])
				}
			}
		}
		switch op.Op {
		case "ff", "down", "up", "dbfault", "readNoCache", "execFail", "delCache0", "ctxRead", "dbpanic":
			fault = ""
		}
		if fault != "" {
			op.Fault = fault
			op.Node = -1
			if r.Intn(2) == 0 {
				op.Node = r.Intn(3)
			}
			h.env.arm(fault, op.Node, 1)
		}
		h.ops = append(h.ops, op)
		h.counts["op_"+op.Op]++
		q0 := h.db.q()
		bad := false
		h.dbFailedInOp, h.corruptInOp = false, false
		switch op.Op {
		case "getCache":
			var got c06Row
			err := s.cc.GetCache(s.pk(op.ID), &got)
			log, _ := h.env.take()
			want, exists := h.db.byID(op.ID)
			bad = h.absorb(log, "getCache", false, nil, false) || h.checkGetCache(got, err, want, exists, s.pk(op.ID), log)
		case "update1":
			cur, _ := h.db.byID(op.ID)
			row := cur
			row.Ver = nextVer
			nextVer++
			keys := []string{s.pk(row.ID)}
			bad = h.execWrite("update1", op, func() { h.db.put(row) }, keys)
		case "updateNoCache", "updateTx":
			cur, _ := h.db.byID(op.ID)
			row := c06Row{ID: op.ID, Name: op.Name, Email: op.Email, Ver: nextVer}
			nextVer++
			keys := c06Uniq(s.pk(row.ID), s.nameKey(cur.Name), s.nameKey(row.Name), s.emailKey(cur.Email), s.emailKey(row.Email))
			var err error
			if op.Op == "updateNoCache" {
				_, err = s.cc.ExecNoCache("update user", func() { h.db.put(row) })
			} else {
				err = s.cc.Transact(func(sqlx.Session) error { h.db.put(row); return nil })
			}
			if got, _ := h.db.byID(row.ID); err != nil || got != row {
				h.m.Inconclusive("case %d: %s did not reach the model database (err=%v)", h.idx, op.Op, err)
				return false
			}
			err = s.cc.DelCache(keys...)
			bad = h.afterWrite(op.Op, err, keys)
		case "readNoCache":
			var got c06Row
			err := s.cc.QueryRowNoCache(&got, "select by id", op.ID)
			want, exists := h.db.byID(op.ID)
			var rows []c06Row
			err2 := s.cc.QueryRowsNoCache(&rows, "select all")
			log, _ := h.env.take()
			all := h.db.all()
			what := fmt.Sprintf("op #%d %s", len(h.ops), vk.JSON(op))
			switch {
			case exists && (err != nil || got != want), !exists && !errors.Is(err, ErrNotFound):
				h.m.Violate("C06:coherence:stale-read:queryRowNoCache", h.desc(), "%s: QueryRowNoCache returned %+v err=%v, database has %+v (exists=%v)", what, got, err, want, exists)
				bad = true
			case err2 != nil || fmt.Sprint(rows) != fmt.Sprint(all):
				h.m.Violate("C06:coherence:stale-read:queryRowsNoCache", h.desc(), "%s: QueryRowsNoCache returned %+v err=%v, database has %+v", what, rows, err2, all)
				bad = true
			default:
				h.counts["reads_ok_nocache"]++
				h.counts["nocache_redis_commands"] += int64(len(log))
			}
		case "execFail":
			keys := []string{s.pk(op.ID)}
			_, err := s.cc.Exec(func(sqlx.Conn) (sql.Result, error) { return nil, c06ErrDB }, keys...)
			log, _ := h.env.take()
			if err != nil {
				h.counts["failed_exec_reported"]++
			}
			bad = h.absorb(log, "execFail", false, nil, false) // database unchanged: nothing can become stale
		case "delCache0":
			if err := s.cc.DelCache(); err != nil {
				h.counts["delcache_errors"]++
			}
			h.env.take()
		case "corrupt":
			// an undecodable entry sits under the primary key (foreign writer / old schema)
			key := s.pk(op.ID)
			// raw: not JSON at all; via SetCache: valid JSON of another shape than the row type
			switch v := op.D % 7; v {
			case 0, 1, 2:
				for _, mr := range h.env.mrs {
					_ = mr.Set(key, []string{"{bad json", "[1,2", `"just a string"`}[v])
				}
			default:
				_ = s.cc.SetCache(key, []any{"name", 12345, []int{1, 2}, map[string]string{"id": "seven"}}[v-3])
				plog, _ := h.env.take()
				if h.absorb(plog, "corrupt (SetCache of another shape)", false, nil, false) {
					return false
				}
			}
			h.corruptInOp = true
			got, err := s.findOne(op.ID)
			log, qi := h.env.take()
			want, exists := h.db.byID(op.ID)
			bad = h.absorb(log, "corrupt", false, nil, false) || h.checkRead("findOne:corrupt-entry", got, err, want, exists, []string{key}, log, qi, q0)
			if !bad && err == nil {
				h.counts["corrupt_entries_healed"]++
			}
			if !bad && err != nil {
				// whatever is left under the key is not a row of an older version; make sure of it
				for _, mr := range h.env.mrs {
					mr.Del(key)
				}
			}
		case "dbpanic":
			var stop bool
			bad, stop = h.dbPanic(op)
			if stop {
				return false
			}
		case "ctxRead":
			bad = h.ctxRead(op, q0)
			if op.Ctx == "expired-before" {
				h.faults++
			}
		case "dbfault":
			f0 := h.db.failedCount()
			h.db.armFail(1)
			var got c06Row
			var err error
			var want c06Row
			var exists bool
			var keys []string
			kind := "findOne"
			if op.D == 0 {
				got, err = s.findOne(op.ID)
				want, exists = h.db.byID(op.ID)
				keys = []string{s.pk(op.ID)}
			} else {
				kind = "findByName"
				got, err = s.findByIndex("name", op.Name)
				want, exists = h.db.byName(op.Name)
				keys = []string{s.nameKey(op.Name)}
				if exists {
					keys = append(keys, s.pk(want.ID))
				}
			}
			h.db.armFail(0)
			h.dbFailedInOp = h.db.failedCount() > f0
			if h.dbFailedInOp {
				h.counts["db_query_failures"]++
			}
			log, qi := h.env.take()
			bad = h.absorb(log, "dbfault", op.D != 0, nil, false) || h.checkRead(kind, got, err, want, exists, keys, log, qi, q0)
		case "findOne":
			got, err := s.findOne(op.ID)
			log, qi := h.env.take()
			want, exists := h.db.byID(op.ID)
			bad = h.absorb(log, "findOne", false, nil, false) || h.checkRead("findOne", got, err, want, exists, []string{s.pk(op.ID)}, log, qi, q0)
		case "findByName", "findByEmail":
			field, val, key := "name", op.Name, s.nameKey(op.Name)
			look := h.db.byName
			if op.Op == "findByEmail" {
				field, val, key = "email", op.Email, s.emailKey(op.Email)
				look = h.db.byEmail
			}
			got, err := s.findByIndex(field, val)
			log, qi := h.env.take()
			want, exists := look(val)
			keys := []string{key}
			if exists {
				keys = append(keys, s.pk(want.ID))
			}
			// a tainted index entry may point at any primary key: then nothing can be said
			bad = h.absorb(log, op.Op, true, nil, false) || h.checkRead(op.Op, got, err, want, exists, keys, log, qi, q0)
		case "insert":
			row := c06Row{ID: op.ID, Name: op.Name, Email: op.Email, Ver: nextVer}
			nextVer++
			keys := []string{s.pk(row.ID), s.nameKey(row.Name), s.emailKey(row.Email)}
			bad = h.execWrite("insert", op, func() { h.db.put(row) }, keys)
		case "update":
			cur, _ := h.db.byID(op.ID)
			row := c06Row{ID: op.ID, Name: op.Name, Email: op.Email, Ver: nextVer}
			nextVer++
			keys := c06Uniq(s.pk(row.ID), s.nameKey(cur.Name), s.nameKey(row.Name), s.emailKey(cur.Email), s.emailKey(row.Email))
			bad = h.execWrite("update", op, func() { h.db.put(row) }, keys)
		case "delete":
			cur, _ := h.db.byID(op.ID)
			keys := []string{s.pk(cur.ID), s.nameKey(cur.Name), s.emailKey(cur.Email)}
			bad = h.execWrite("delete", op, func() { h.db.del(cur.ID) }, keys)
		case "delCache":
			keys := []string{s.pk(op.ID), s.nameKey(op.Name)}
			err := s.cc.DelCache(keys...)
			log, _ := h.env.take()
			if err != nil {
				h.counts["delcache_errors"]++
			}
			bad = h.absorb(log, "delCache", false, keys, false)
		case "setCache":
			cur, _ := h.db.byID(op.ID)
			key := s.pk(cur.ID)
			err := s.cc.SetCache(key, cur)
			log, _ := h.env.take()
			bad = h.absorb(log, "setCache", false, nil, false)
			if err == nil && !h.isDown {
				ok := false
				for _, c := range log {
					if c.Cmd == "SET" && !c.Injected && c.Keys[0] == key {
						ok = true
					}
				}
				if ok {
					delete(h.taint, key) // the entry now equals the database row
				}
			} else {
				h.counts["setcache_errors"]++
			}
		case "ff":
			h.env.ff(time.Duration(op.D) * time.Second)
			// rows/index entries live at most ceil(1.05e)+5 s, placeholders at most ceil(1.05*nfe) s
			_, hi := c06Bounds(h.tp.Expire)
			_, hiNF := c06Bounds(h.tp.NFE)
			longest := hi + 5
			if hiNF > longest {
				longest = hiNF
			}
			if int64(op.D) > longest {
				h.taint = map[string]bool{} // every entry that existed has expired
			}
		case "down":
			h.env.down()
			h.isDown, h.downOps = true, 0
			h.counts["outages"]++
		case "up":
			if err := h.env.up(); err != nil {
				h.m.Inconclusive("case %d: miniredis restart failed: %v", h.idx, err)
				return false
			}
			h.isDown = false
		}
		if op.Fault != "" {
			h.env.disarm()
		}
		if op.Fault != "" || (h.isDown && op.Op != "down") {
			h.faults++
			if h.isDown {
				h.downOps++
			}
		}
		if bad {
			if h.isDown {
				_ = h.env.up()
			}
			return false
		}
	}
	if h.isDown {
		if err := h.env.up(); err != nil {
			h.m.Inconclusive("case %d: miniredis restart failed: %v", h.idx, err)
			return false
		}
		h.isDown = false
	}
	return true
}

func c06Uniq(ks ...string) []string {
	seen := map[string]bool{}
	var out []string
	for _, k := range ks {
		if !seen[k] {
			seen[k] = true
			out = append(out, k)
		}
	}
	return out
}

func (h *c06Hist) afterWrite(kind string, err error, keys []string) (bad bool) {
	log, _ := h.env.take()
	h.writeErr = err != nil
	if err != nil {
		h.counts["write_errors"]++
	}
	for _, k := range keys {
		h.lastW[k] = kind
	}
	bad = h.absorb(log, kind, false, keys, true)
	h.writeErr = false
	return bad
}

func TestVerifC06Coherence(t *testing.T) {
	m := vk.New(t, "C06", "coherence: seeded sequential histories (findOne=QueryRow, findByName/findByEmail=QueryRowIndex, insert/update/delete=Exec naming primary+old+new index keys, DelCache, SetCache of the current row, FastForward, single injected GET/SET/DEL errors per node, whole-redis outages down..up) over 4 ids x 5 names x 5 emails on node / 1-node config / 2- and 3-node clusters with varied weights; every read == the reference row or ErrNotFound (skipped only while a failed delete of that key is pending); reads under a cache failure must return an error with 0 database queries after the failure; every SET seen at miniredis must carry a TTL in [ceil(.95e),ceil(1.05e)] (+5 s for the primary entry written by QueryRowIndex, never below the index entry)")
	defer m.Done()
	env, err := c06GetEnv()
	if err != nil {
		m.Inconclusive("env: %v", err)
		return
	}
	n := vk.N(500, 12000)
	nops := 100
	agg := map[string]int64{}
	ttl := newC06TTLStats()
	nodes := map[int]bool{}
	for idx := 1; idx <= n; idx++ {
		if !m.Only(idx) {
			continue
		}
		r := m.Rand("hist", idx)
		tp := c06RandTopo(r)
		db := newC06DB()
		prefix := fmt.Sprintf("c06h%d:", idx)
		env.begin(prefix, db)
		h := &c06Hist{m: m, env: env, idx: idx, tp: tp, db: db, sys: c06Build(env, tp, db, prefix),
			taint: map[string]bool{}, lastW: map[string]string{}, counts: map[string]int64{}, ttl: ttl, nodesHit: nodes}
		m.Current(fmt.Sprintf("case=%d;topo=%s", idx, vk.JSON(tp)))
		h.run(r, nops)
		env.begin("", nil)
		for k, v := range h.counts {
			agg[k] += v
		}
		checked := h.counts["reads_ok_row"] + h.counts["reads_ok_notfound"]
		m.Case(vk.Digest(vk.JSON(h.ops)), checked > 0 && h.counts["redis_DEL"] > 0)
		if m.WantSample() && idx%97 == 1 {
			short := h.ops
			if len(short) > 12 {
				short = short[:12]
			}
			m.Sample(map[string]any{"topo": tp, "first_12_ops": short, "observed": h.counts})
		}
		if idx%100 == 0 {
			m.Progress()
		}
	}
	for k, v := range agg {
		m.Count(k, v)
	}
	m.Count("redis_nodes_touched", int64(len(nodes)))
	if ttl.n > 0 {
		m.Extra("ttl_ratio_min_max", []float64{ttl.minRatio, ttl.maxRatio})
		m.Extra("ttl_distinct_values", len(ttl.seen))
	}
}

// ---------------------------------------------------------------------------
// (d) TTL spread: many stores per configured expiry

func TestVerifC06TTL(t *testing.T) {
	m := vk.New(t, "C06", "ttl: for each configured expiry e in {7,10,30,90,150,3610}s and not-found expiry in {3,7,10,30}s, repeated QueryRow / QueryRowIndex / SetCache / not-found reads on fresh keys; every SET observed at miniredis must have an EX within [ceil(.95e), ceil(1.05e)] s (primary entry of QueryRowIndex: +5 s and >= the index entry); non-trivial = both ends of the allowed interval were actually observed")
	defer m.Done()
	env, err := c06GetEnv()
	if err != nil {
		m.Inconclusive("env: %v", err)
		return
	}
	reps := vk.N(60, 2000)
	idx := 0
	var tps []c06Topo
	const day = 24 * 3600
	for _, e := range []int{1, 7, 10, 30, 90, 150, 3610, 90 * day, 120 * day, 200 * day, 365 * day, 3650 * day} {
		for _, kind := range []string{"nodeconn", "cluster3"} {
			tps = append(tps, c06Topo{Kind: kind, Expire: e, NFE: c06NFE[len(tps)%len(c06NFE)]})
		}
	}
	// configuration boundaries: 0 / negative / option not given => the documented defaults
	for _, kind := range []string{"nodeconn", "conf1", "cluster3"} {
		for _, cfg := range [][2]string{{"zero", "zero"}, {"neg", "neg"}, {"unset", "unset"}, {"zero", ""}, {"", "neg"}} {
			tp := c06Topo{Kind: kind, Expire: 10, NFE: 3}
			c06Boundary(&tp, cfg[0], cfg[1])
			tps = append(tps, tp)
		}
	}
	{
		for _, tp := range tps {
			e, kind := tp.Expire, tp.Kind
			idx++
			if !m.Only(idx) {
				continue
			}
			reps := reps
			if tp.ExpireCfg != "" || tp.NFECfg != "" || tp.Expire > 3610 {
				reps = reps/3 + 1
				m.Count("boundary_configs", 1)
			}
			db := newC06DB()
			prefix := fmt.Sprintf("c06t%d:", idx)
			env.begin(prefix, db)
			s := c06Build(env, tp, db, prefix)
			desc := func() string { return fmt.Sprintf("case=%d;%s", idx, vk.JSON(tp)) }
			st := newC06TTLStats()
			bad := false
			for i := 0; i < reps && !bad; i++ {
				id := int64(i + 1)
				row := c06Row{ID: id, Name: fmt.Sprintf("n%d", i), Email: fmt.Sprintf("e%d", i), Ver: 1}
				db.put(row)
				_, _ = s.findOne(id)
				log, _ := env.take()
				bad = c06CheckTTLs(m, desc, s, tp, log, false, st, "QueryRow")
				if bad {
					break
				}
				_, _ = s.findByIndex("email", row.Email)
				log, _ = env.take()
				bad = c06CheckTTLs(m, desc, s, tp, log, true, st, "QueryRowIndex")
				if bad {
					break
				}
				_ = s.cc.SetCache(s.pk(id), row)
				log, _ = env.take()
				bad = c06CheckTTLs(m, desc, s, tp, log, false, st, "SetCache")
				if bad {
					break
				}
				_, _ = s.findOne(int64(-i - 1)) // missing row -> placeholder
				log, _ = env.take()
				bad = c06CheckTTLs(m, desc, s, tp, log, false, st, "QueryRow(not found)")
				if bad {
					break
				}
				_, _ = s.findByIndex("name", fmt.Sprintf("missing%d", i))
				log, _ = env.take()
				bad = c06CheckTTLs(m, desc, s, tp, log, true, st, "QueryRowIndex(not found)")
			}
			env.begin("", nil)
			lo, hi := c06Bounds(e)
			both := st.seen[lo*100000+int64(e)] > 0 && st.seen[hi*100000+int64(e)] > 0
			m.Case(fmt.Sprintf("ttl-%s-%d-%s-%s", kind, e, tp.ExpireCfg, tp.NFECfg), both || tp.ExpireCfg != "" || tp.NFECfg != "")
			m.Count("ttl_sets_checked", st.n)
			if m.WantSample() {
				m.Sample(map[string]any{"topo": tp, "sets_checked": st.n, "ratio_min": st.minRatio, "ratio_max": st.maxRatio, "allowed_s": []int64{lo, hi}, "both_ends_observed": both})
			}
		}
	}
}

// ---------------------------------------------------------------------------
// (b) not-found memo

func TestVerifC06Memo(t *testing.T) {
	m := vk.New(t, "C06", "not-found memo: read of a missing row (QueryRow and QueryRowIndex; node and 3-node cluster) => 1 database query and ErrNotFound; N further reads => 0 queries, still ErrNotFound; FastForward to 1 s before ceil(.95*nfe) => still 0; FastForward past ceil(1.05*nfe) => the next read queries the database exactly once; then the row is inserted naming the key and the next read returns it")
	defer m.Done()
	env, err := c06GetEnv()
	if err != nil {
		m.Inconclusive("env: %v", err)
		return
	}
	rounds := vk.N(40, 1500)
	r := m.Rand("memo")
	for idx := 1; idx <= rounds; idx++ {
		tp := c06Topo{Kind: []string{"nodeconn", "conf1", "cluster3"}[r.Intn(3)], Expire: c06Exp[r.Intn(len(c06Exp))], NFE: c06NFE[r.Intn(len(c06NFE))]}
		via := []string{"findOne", "findByName"}[r.Intn(2)]
		nreads := 2 + r.Intn(6)
		if !m.Only(idx) {
			continue
		}
		db := newC06DB()
		prefix := fmt.Sprintf("c06m%d:", idx)
		env.begin(prefix, db)
		s := c06Build(env, tp, db, prefix)
		desc := fmt.Sprintf("case=%d;%s", idx, vk.JSON(map[string]any{"topo": tp, "via": via, "reads": nreads}))
		m.Current(desc)
		read := func() error {
			var err error
			if via == "findOne" {
				_, err = s.findOne(1)
			} else {
				_, err = s.findByIndex("name", "ann")
			}
			env.take()
			return err
		}
		func() {
			defer env.begin("", nil)
			q := db.q()
			if err := read(); !errors.Is(err, ErrNotFound) || db.q()-q != 1 {
				m.Violate("C06:memo:first-miss:"+via, desc, "first read of a missing row: err=%v, database queries=%d (want ErrNotFound, 1)", err, db.q()-q)
				return
			}
			for i := 0; i < nreads; i++ {
				q = db.q()
				err := read()
				if db.q() != q {
					m.Violate("C06:memo:db-queried-while-placeholder-live:"+via, desc, "repeated read #%d of a missing row reached the database (%d queries) although the not-found placeholder cannot have expired", i+1, db.q()-q)
					return
				}
				if !errors.Is(err, ErrNotFound) {
					m.Violate("C06:memo:wrong-answer-from-placeholder:"+via, desc, "repeated read #%d returned %v, want ErrNotFound", i+1, err)
					return
				}
				m.Count("memo_reads_absorbed", 1)
			}
			lo, hi := c06Bounds(tp.NFE)
			if lo > 1 {
				env.ff(time.Duration(lo-1) * time.Second)
				q = db.q()
				err := read()
				if db.q() != q || !errors.Is(err, ErrNotFound) {
					m.Violate("C06:memo:placeholder-expired-early:"+via, desc, "read %d s after the miss (not-found expiry %d s, allowed TTL >= %d s): err=%v, database queries=%d (want ErrNotFound, 0)", lo-1, tp.NFE, lo, err, db.q()-q)
					return
				}
				m.Count("memo_reads_absorbed", 1)
			}
			env.ff(time.Duration(hi+1) * time.Second)
			q = db.q()
			err := read()
			if db.q()-q != 1 || !errors.Is(err, ErrNotFound) {
				m.Violate("C06:memo:after-expiry:"+via, desc, "read after the placeholder's maximal TTL (%d s) elapsed: err=%v, database queries=%d (want ErrNotFound, exactly 1)", hi, err, db.q()-q)
				return
			}
			m.Count("memo_expiries_observed", 1)
			// the row appears; the write names the keys; the memo must not hide it
			row := c06Row{ID: 1, Name: "ann", Email: "a@x", Ver: 1}
			if err := s.exec(func() { db.put(row) }, s.pk(1), s.nameKey("ann"), s.emailKey("a@x")); err != nil {
				m.Violate("C06:memo:exec-error", desc, "Exec returned %v", err)
				return
			}
			env.take()
			var got c06Row
			if via == "findOne" {
				got, err = s.findOne(1)
			} else {
				got, err = s.findByIndex("name", "ann")
			}
			env.take()
			if err != nil || got != row {
				m.Violate("C06:coherence:not-found-for-existing-row:"+via+":after-insert", desc, "after insert naming the key: got %+v err=%v, want %+v", got, err, row)
				return
			}
		}()
		m.Case(vk.Digest(desc), true)
		if m.WantSample() && idx%9 == 1 {
			m.Sample(map[string]any{"topo": tp, "via": via, "repeated_reads_without_db": nreads})
		}
	}
}

// ---------------------------------------------------------------------------
// (e) error pass-through: redis answers errors / is closed, then comes back

func TestVerifC06Faults(t *testing.T) {
	m := vk.New(t, "C06", "pass-through: with every redis command answered by an error (pre-hook) or redis closed, reads of cached rows, uncached rows and missing rows (QueryRow and QueryRowIndex; node and clusters) must return an error and cause 0 database queries; after redis is back the same reads return the current rows (at most 4 failing operations per connection so the redis breaker stays closed)")
	defer m.Done()
	env, err := c06GetEnv()
	if err != nil {
		m.Inconclusive("env: %v", err)
		return
	}
	rounds := vk.N(24, 400)
	r := m.Rand("faults")
	for idx := 1; idx <= rounds; idx++ {
		tp := c06RandTopo(r)
		mode := []string{"errors", "down", "ctx-canceled", "ctx-expired"}[idx%4]
		if !m.Only(idx) {
			continue
		}
		db := newC06DB()
		prefix := fmt.Sprintf("c06f%d:", idx)
		env.begin(prefix, db)
		s := c06Build(env, tp, db, prefix)
		desc := fmt.Sprintf("case=%d;%s", idx, vk.JSON(map[string]any{"topo": tp, "mode": mode}))
		m.Current(desc)
		func() {
			defer env.begin("", nil)
			rows := []c06Row{{ID: 1, Name: "ann", Email: "a@x", Ver: 1}, {ID: 2, Name: "bob", Email: "b@x", Ver: 1}}
			for _, row := range rows {
				db.put(row)
			}
			// warm: id 1 and name ann cached; id 2 / bob uncached; id 3 / cy missing
			if got, err := s.findOne(1); err != nil || got != rows[0] {
				m.Violate("C06:read:unexpected-error:findOne", desc, "warm-up read: %+v %v", got, err)
				return
			}
			if got, err := s.findByIndex("name", "ann"); err != nil || got != rows[0] {
				m.Violate("C06:read:unexpected-error:findByName", desc, "warm-up read: %+v %v", got, err)
				return
			}
			env.take()
			fs := s // the system as the failing reads see it
			switch mode {
			case "errors":
				env.arm("*", -1, 1<<30)
			case "down":
				env.down()
			case "ctx-canceled":
				ctx, cancel := context.WithCancel(context.Background())
				cancel()
				fs = s.with(ctx)
			case "ctx-expired":
				fs = s.with(newC06ExpiredCtx())
			}
			restore := func() bool {
				if mode == "errors" {
					env.disarm()
					return true
				}
				if strings.HasPrefix(mode, "ctx-") {
					return true
				}
				if err := env.up(); err != nil {
					m.Inconclusive("case %d: miniredis restart: %v", idx, err)
					return false
				}
				return true
			}
			type rd struct {
				kind string
				f    func() (c06Row, error)
				want c06Row
				ok   bool
			}
			mk := func(s c06Sys) []rd {
				return []rd{
					{"findOne:cached", func() (c06Row, error) { return s.findOne(1) }, rows[0], true},
					{"findByName:cached", func() (c06Row, error) { return s.findByIndex("name", "ann") }, rows[0], true},
					{"findOne:uncached", func() (c06Row, error) { return s.findOne(2) }, rows[1], true},
					{"findByEmail:uncached", func() (c06Row, error) { return s.findByIndex("email", "b@x") }, rows[1], true},
					{"findOne:missing", func() (c06Row, error) { return s.findOne(3) }, c06Row{}, false},
					{"findByName:missing", func() (c06Row, error) { return s.findByIndex("name", "cy") }, c06Row{}, false},
					{"getCache:cached", func() (c06Row, error) { return s.getCache(1) }, rows[0], true},
				}
			}
			reads := mk(fs)
			// 4 of the 6 reads under failure (breaker protection is 5 failures)
			start := r.Intn(len(reads))
			for i := 0; i < 4; i++ {
				x := reads[(start+i)%len(reads)]
				q := db.q()
				got, err := x.f()
				flog, _ := env.take()
				if strings.HasPrefix(mode, "ctx-") && c06CacheConsulted(flog) {
					// the client consulted the cache despite the done context: then it is not a cache failure
					m.Count("ctx_reads_cache_consulted", 1)
					continue
				}
				m.Count("reads_under_cache_failure", 1)
				if strings.HasPrefix(x.kind, "getCache") && errors.Is(err, ErrNotFound) {
					restore()
					m.Violate("C06:passthrough:cache-error-swallowed:"+x.kind+":"+mode, desc, "cache failing (%s): GetCache reported a miss instead of the failure", mode)
					return
				}
				if err == nil {
					restore()
					m.Violate("C06:passthrough:cache-error-swallowed:"+x.kind+":"+mode, desc, "redis failing (%s): read returned %+v with nil error (database queries: %d)", mode, got, db.q()-q)
					return
				}
				if db.q() != q {
					restore()
					m.Violate("C06:passthrough:db-queried-after-cache-error:"+x.kind+":"+mode, desc, "redis failing (%s): read fell through to the database (%d queries), err=%v", mode, db.q()-q, err)
					return
				}
				if x.ok && errors.Is(err, ErrNotFound) {
					restore()
					m.Violate("C06:passthrough:not-found-instead-of-cache-error:"+x.kind, desc, "redis failing (%s): read reported not-found for an existing row", mode)
					return
				}
			}
			if !restore() {
				return
			}
			for _, x := range mk(s) {
				got, err := x.f()
				env.take()
				if errors.Is(err, breaker.ErrServiceUnavailable) {
					m.Count("reads_rejected_by_breaker", 1)
					continue
				}
				m.Count("reads_after_recovery", 1)
				if x.ok && (err != nil || got != x.want) {
					m.Violate("C06:recovery:wrong-read:"+x.kind, desc, "redis back: got %+v err=%v, want %+v", got, err, x.want)
					return
				}
				if !x.ok && !errors.Is(err, ErrNotFound) {
					m.Violate("C06:recovery:wrong-read:"+x.kind, desc, "redis back: got %+v err=%v, want ErrNotFound", got, err)
					return
				}
			}
		}()
		m.Case(vk.Digest(desc), true)
		if m.WantSample() && idx%5 == 1 {
			m.Sample(map[string]any{"topo": tp, "mode": mode, "failing_reads": 4, "db_queries_total": db.q()})
		}
	}
}

// ---------------------------------------------------------------------------
// (c) stampede (run under -race)

func TestVerifC06Stampede(t *testing.T) {
	m := vk.New(t, "C06", "stampede (-race): 64 goroutines read one cold key (QueryRow / QueryRowIndex, existing / missing row, node / cluster) while the database callback is held on a gate (or, in the racing flavour, yields a few times): the number of concurrent database queries for one cache key never exceeds 1 and every reader gets the row / ErrNotFound")
	defer m.Done()
	env, err := c06GetEnv()
	if err != nil {
		m.Inconclusive("env: %v", err)
		return
	}
	rounds := vk.N(60, 3000)
	r := m.Rand("stampede")
	const readers = 64
	for idx := 1; idx <= rounds; idx++ {
		tp := c06Topo{Kind: []string{"nodeconn", "cluster3"}[r.Intn(2)], Expire: 30, NFE: 10}
		via := []string{"findOne", "findByName"}[r.Intn(2)]
		exists := r.Intn(3) != 0
		gated := r.Intn(2) == 0
		waves := 1 + r.Intn(3)
		dbErr := r.Intn(3) == 0 // every database query of the round fails
		rowID := c06StampedeIDs[r.Intn(len(c06StampedeIDs))]
		nHandles := 1 + r.Intn(3) // CachedConn handles over the same database and redis
		if !m.Only(idx) {
			continue
		}
		db := newC06DB()
		if dbErr {
			db.armFail(1 << 30)
		}
		row := c06Row{ID: rowID, Name: "ann", Email: "a@x", Ver: int64(idx)}
		if exists {
			db.put(row)
		}
		prefix := fmt.Sprintf("c06s%d:", idx)
		env.begin(prefix, db)
		s := c06Build(env, tp, db, prefix)
		// further handles: a second connection built the same way, and one sharing the first one's cache
		handles := []c06Sys{s}
		if nHandles >= 2 {
			handles = append(handles, c06Build(env, tp, db, prefix))
		}
		if nHandles >= 3 {
			h3 := s
			h3.cc = NewConnWithCache(c06Conn{db: db}, s.cc.cache)
			handles = append(handles, h3)
			if tp.Kind == "nodeconn" { // and the same redis through the config constructor
				tp1 := tp
				tp1.Kind = "conf1"
				handles = append(handles, c06Build(env, tp1, db, prefix))
			}
		}
		m.Count(fmt.Sprintf("rounds_with_%d_handles", len(handles)), 1)
		desc := fmt.Sprintf("case=%d;%s", idx, vk.JSON(map[string]any{"topo": tp, "via": via, "exists": exists, "gated": gated, "waves": waves, "db_fails": dbErr, "id": rowID, "handles": len(handles)}))
		m.Current(desc)
		var gate chan struct{}
		entered := make(chan string, 1)
		db.mu.Lock()
		if gated {
			gate = make(chan struct{})
			db.gate = gate
		} else {
			db.jitter = true
		}
		if dbErr {
			db.jitter = true
		}
		db.entered = entered
		db.mu.Unlock()
		type res struct {
			row c06Row
			err error
		}
		out := make(chan res, readers*waves)
		var wg sync.WaitGroup
		launch := func(n int) {
			for i := 0; i < n; i++ {
				wg.Add(1)
				hs := handles[i%len(handles)]
				go func() {
					defer wg.Done()
					var x res
					if via == "findOne" {
						x.row, x.err = hs.findOne(rowID)
					} else {
						x.row, x.err = hs.findByIndex("name", "ann")
					}
					out <- x
				}()
			}
		}
		launch(readers)
		inconclusive := false
		select {
		case <-entered:
		case <-time.After(c06Watchdog):
			inconclusive = true
		}
		if inconclusive {
			if gate != nil {
				close(gate)
			}
			m.Inconclusive("%s: no database query was entered", desc)
			return
		}
		// let the other readers pile up behind the flight (no verdict depends on how many did)
		for i := 0; i < 200; i++ {
			runtime.Gosched()
		}
		for w := 1; w < waves; w++ {
			launch(readers / 2)
			runtime.Gosched()
		}
		if gate != nil {
			db.mu.Lock()
			db.gate = nil
			db.mu.Unlock()
			close(gate)
		}
		if !vk.Within(c06Watchdog, wg.Wait) {
			m.Inconclusive("%s: readers did not return", desc)
			return
		}
		close(out)
		env.take()
		env.begin("", nil)
		db.mu.Lock()
		maxIn := 0
		slot := ""
		for k, v := range db.maxIn {
			if v > maxIn {
				maxIn, slot = v, k
			}
		}
		db.mu.Unlock()
		m.Max("max_concurrent_db_queries_per_key", int64(maxIn))
		m.Count("db_queries", db.q())
		nres := 0
		bad := false
		if maxIn > 1 {
			sig := "C06:stampede:concurrent-db-queries:" + via
			if dbErr {
				sig += ":failing-query"
			}
			m.Violate(sig, desc, "%d concurrent database queries for cache key %s (total queries %d, readers %d, database failing: %v)", maxIn, slot, db.q(), readers, dbErr)
			bad = true
		}
		if dbErr {
			m.Count("failing_query_rounds", 1)
		}
		for x := range out {
			nres++
			if bad {
				continue
			}
			if dbErr {
				// the database failed for every query: nobody can have got a row, and the failure
				// must not have been turned into not-found for an existing row
				if x.err == nil || (exists && errors.Is(x.err, ErrNotFound)) {
					m.Violate("C06:stampede:wrong-result:"+via+":failing-query", desc, "every database query failed, yet a reader got %+v err=%v", x.row, x.err)
					bad = true
				}
				continue
			}
			if exists && (x.err != nil || x.row != row) {
				m.Violate("C06:stampede:wrong-result:"+via, desc, "reader got %+v err=%v, want %+v", x.row, x.err, row)
				bad = true
			}
			if !exists && !errors.Is(x.err, ErrNotFound) {
				m.Violate("C06:stampede:wrong-result:"+via, desc, "reader got %+v err=%v, want ErrNotFound", x.row, x.err)
				bad = true
			}
		}
		if dbErr && !bad {
			// database healthy again: the failure must not have been remembered
			db.armFail(0)
			db.mu.Lock()
			db.jitter, db.entered = false, nil
			db.mu.Unlock()
			var got c06Row
			var err error
			if via == "findOne" {
				got, err = s.findOne(rowID)
			} else {
				got, err = s.findByIndex("name", "ann")
			}
			if (exists && (err != nil || got != row)) || (!exists && !errors.Is(err, ErrNotFound)) {
				m.Violate("C06:stampede:db-error-remembered:"+via, desc, "after a round of failing database queries the next read returned %+v err=%v (row exists: %v)", got, err, exists)
			}
		}
		m.Count("readers_returned", int64(nres))
		m.Case(vk.Digest(desc), true)
		if m.WantSample() && idx%13 == 1 {
			m.Sample(map[string]any{"scenario": desc, "readers": nres, "db_queries": db.q(), "max_concurrent_per_key": maxIn})
		}
	}
}
