//go:build verif

package cache

// C06 (retry part) — background retry of failed cache deletes (DESIGN.md §3 C06 (f)).
//
// The package-level cleaner wheel is replaced by a real collection.TimingWheel on a
// harness ticker with an UNBUFFERED channel, so one tick == one logical second:
//   - a send on the ticker channel returns once the wheel's run loop took the tick;
//   - before every tick the harness plants a sentinel timer (delay 1 tick) in the same
//     wheel. Tasks of one slot run sequentially, in insertion order, in one goroutine
//     (TimingWheel.runTasks), and the sentinel is inserted last, so when the sentinel
//     is executed every clean() of this tick has already been handed to the cleaner's
//     threading.TaskRunner (Schedule is synchronous up to the slot acquisition);
//   - the harness then acquires all cleanWorkers slots of that TaskRunner with gate
//     tasks: this succeeds only after every cleaner goroutine of the tick has finished
//     (task executed AND rescheduling done). Only then is the tick's observation read.
// No wall clock decides anything; real time is only a 30 s watchdog (=> inconclusive).
//
// Attempts are observed (a) exactly, by a task function injected through AddCleanTask,
// and (b) at miniredis (Server().SetPreHook) for node.DelCtx / cluster.DelCtx /
// cluster-type per-key deletes, where the hook also injects the DEL failures.

import (
	"context"
	"errors"
	"fmt"
	"os"
	"sort"
	"strings"
	"sync"
	"sync/atomic"
	"testing"
	"time"

	"github.com/alicebob/miniredis/v2"
	"github.com/alicebob/miniredis/v2/server"
	"github.com/gotid/god/lib/collection"
	"github.com/gotid/god/lib/logx"
	"github.com/gotid/god/lib/stat"
	"github.com/gotid/god/lib/store/redis"
	"github.com/gotid/god/lib/syncx"
	"github.com/gotid/god/lib/timex"
	"verif.local/vk"
)

const (
	c06Watchdog = 30 * time.Second
	// longest delay of the retry table (1h) in ticks, plus margin: after this many
	// quiet ticks nothing scheduled from the table can still be pending
	c06QuietTicks = 3600 + 310
	// a failed attempt whose successor has not shown up after this many ticks is "not retried"
	c06NotRetriedTicks = 3600 + 400
)

// retry table of the mechanism the property anchors (cleaner.go nextDelay; pinned by the
// repo's own cleaner_test): delay before background attempt k (1-based), in ticks.
var c06Delays = []int64{0, 1, 5, 60, 300, 3600}

var c06ErrInjected = errors.New("c06: injected delete failure")

type c06Ticker struct{ c chan time.Time }

func (t *c06Ticker) Chan() <-chan time.Time { return t.c }
func (t *c06Ticker) Stop()                  {}

type c06Sentinel struct{ n int64 }

// c06Plan is the fault plan and observation record of one retry unit (= one failed
// foreground delete of one key group).
type c06Plan struct {
	id        string
	kind      string
	node      int      // index of the miniredis the keys live on
	keys      []string // sorted
	fgFail    bool
	failFirst int // number of background attempts that fail (>=5: all)
	// observation (guarded by rig.mu)
	seen int // DELs / task calls seen so far (index 0 = foreground for redis kinds)
}

type c06Event struct {
	plan *c06Plan
	idx  int // 0 = foreground delete, k>=1 = k-th background attempt
	tick int64
	fail bool
	keys []string
}

type c06Rig struct {
	tw        *collection.TimingWheel
	tk        *c06Ticker
	tick      int64 // atomic: logical seconds
	sentinel  chan int64
	cleanCall int64 // atomic: tasks handed to clean() so far
	mu        sync.Mutex
	events    []c06Event
	byKey     map[string]*c06Plan
	mrs       []*miniredis.Miniredis
	st        *Stat
}

var (
	c06RigOnce sync.Once
	c06TheRig  *c06Rig
	c06RigErr  error
)

// c06GetRig builds the single rig of this test process: the cleaner's package wheel is
// swapped exactly once, before any task exists, and is never stopped.
func c06GetRig() (*c06Rig, error) {
	c06RigOnce.Do(func() {
		logx.Disable()
		stat.SetReporter(nil)
		// one tick of the cleaner wheel == one second of the library clock (the redis
		// breaker's 10 s rolling window runs on lib/timex), continuing from the real value
		timex.VerifFakeClock(timex.Now())
		r := &c06Rig{
			tk:       &c06Ticker{c: make(chan time.Time)},
			sentinel: make(chan int64, 4),
			byKey:    map[string]*c06Plan{},
			st:       NewStat("c06"),
		}
		tw, err := collection.VerifNewTimingWheelWithTicker(time.Second, timingWheelSlots, func(k, v any) {
			if s, ok := v.(c06Sentinel); ok {
				r.sentinel <- s.n
				return
			}
			atomic.AddInt64(&r.cleanCall, 1)
			clean(k, v) // the real cleaner callback
		}, r.tk)
		if err != nil {
			c06RigErr = err
			return
		}
		r.tw = tw
		timingWheel = tw
		for i := 0; i < 3; i++ {
			mr, err := miniredis.Run()
			if err != nil {
				c06RigErr = err
				return
			}
			node := i
			mr.Server().SetPreHook(func(c *server.Peer, cmd string, args ...string) bool {
				return r.hook(node, c, cmd, args)
			})
			r.mrs = append(r.mrs, mr)
		}
		c06TheRig = r
	})
	return c06TheRig, c06RigErr
}

// hook runs inside miniredis before every command: records DELs of planned keys and
// injects the planned failures.
func (r *c06Rig) hook(node int, c *server.Peer, cmd string, args []string) bool {
	if cmd != "DEL" || len(args) == 0 {
		return false
	}
	r.mu.Lock()
	p := r.byKey[fmt.Sprintf("%d|%s", node, args[0])]
	if p == nil {
		r.mu.Unlock()
		return false
	}
	fail := r.recordLocked(p, args)
	r.mu.Unlock()
	if fail {
		c.WriteError("ERR c06 injected delete failure")
		return true
	}
	return false
}

func (r *c06Rig) recordLocked(p *c06Plan, keys []string) (fail bool) {
	idx := p.seen
	p.seen++
	if idx == 0 {
		fail = p.fgFail
	} else {
		fail = idx <= p.failFirst
	}
	ks := append([]string(nil), keys...)
	sort.Strings(ks)
	r.events = append(r.events, c06Event{plan: p, idx: idx, tick: atomic.LoadInt64(&r.tick), fail: fail, keys: ks})
	return fail
}

func (r *c06Rig) takeEvents() []c06Event {
	r.mu.Lock()
	ev := r.events
	r.events = nil
	r.mu.Unlock()
	return ev
}

func (r *c06Rig) register(p *c06Plan) {
	r.mu.Lock()
	for _, k := range p.keys {
		r.byKey[fmt.Sprintf("%d|%s", p.node, k)] = p
	}
	r.mu.Unlock()
}

func (r *c06Rig) unregister(p *c06Plan) {
	r.mu.Lock()
	for _, k := range p.keys {
		delete(r.byKey, fmt.Sprintf("%d|%s", p.node, k))
	}
	r.mu.Unlock()
}

// step advances logical time by one second and returns once everything caused by that
// tick has finished. ok=false: a watchdog fired (inconclusive). skipped=true: the wheel has
// finished the tick (run loop idle again, no runTasks goroutine left) WITHOUT executing the
// sentinel timer that was due on it — a decided fact, not a timeout: the wheel left due
// timers of this tick unexecuted.
func (r *c06Rig) step() (ok bool, why string, skipped bool) {
	n := atomic.LoadInt64(&r.tick) + 1
	if err := r.tw.SetTimer(fmt.Sprintf("c06-sentinel-%d", n), c06Sentinel{n: n}, time.Second); err != nil {
		return false, "sentinel SetTimer: " + err.Error(), false
	}
	before := atomic.LoadInt64(&r.cleanCall)
	atomic.StoreInt64(&r.tick, n)
	timex.VerifAdvance(time.Second)
	wd := time.NewTimer(c06Watchdog)
	defer wd.Stop()
	select {
	case r.tk.c <- time.Time{}:
	case <-wd.C:
		return false, "wheel run loop did not take the tick", false
	}
	pollEvery := 2 * time.Millisecond
	poll := time.NewTimer(pollEvery) // only triggers the diagnosis below, decides nothing
	defer poll.Stop()
wait:
	for {
		select {
		case got := <-r.sentinel:
			if got < n {
				continue // a sentinel the wheel had skipped earlier, executed a revolution late
			}
			if got != n {
				return false, fmt.Sprintf("sentinel %d seen while waiting for %d", got, n), false
			}
			break wait
		case <-poll.C:
			// barrier: accepted only once the run loop is back in its select, i.e. onTick is over
			// and the goroutine executing this tick's tasks (if any) has been created
			if err := r.tw.RemoveTimer("c06-barrier"); err != nil {
				return false, "barrier: " + err.Error(), false
			}
			if !strings.Contains(vk.Stacks(), "(*TimingWheel).runTasks") {
				// no task-executing goroutine exists any more: whatever it sent is in the channel
				for {
					select {
					case got := <-r.sentinel:
						if got < n {
							continue
						}
						if got != n {
							return false, fmt.Sprintf("sentinel %d seen while waiting for %d", got, n), false
						}
						break wait
					default:
						skipped = true
						break wait
					}
				}
			}
			if pollEvery < 100*time.Millisecond {
				pollEvery *= 2
			}
			poll.Reset(pollEvery)
		case <-wd.C:
			return false, "sentinel of the tick was not executed", false
		}
	}
	if atomic.LoadInt64(&r.cleanCall) != before {
		ok, why = r.drainRunner(wd)
		return ok, why, skipped
	}
	return true, "", skipped
}

// drainRunner holds all slots of the cleaner's TaskRunner at once: possible only when no
// cleaner goroutine is running any more.
func (r *c06Rig) drainRunner(wd *time.Timer) (bool, string) {
	gate := make(chan struct{})
	var wg sync.WaitGroup
	wg.Add(cleanWorkers)
	acquired := make(chan struct{})
	go func() {
		for i := 0; i < cleanWorkers; i++ {
			taskRunner.Schedule(func() {
				defer wg.Done()
				<-gate
			})
		}
		close(acquired)
	}()
	select {
	case <-acquired:
	case <-wd.C:
		close(gate)
		return false, "cleaner task runner did not drain"
	}
	close(gate)
	wg.Wait()
	return true, ""
}

// ---------------------------------------------------------------------------
// scenarios

type c06Op struct {
	Kind      string `json:"kind"`  // direct | node | clustertype | cluster
	Start     int    `json:"start"` // tick offset at which the foreground delete is issued
	NKeys     int    `json:"nkeys"`
	FgFail    []bool `json:"fg_fail"`    // per key group (see kinds): does the foreground delete fail
	FailFirst []int  `json:"fail_first"` // per key group: number of failing background attempts
	// Ctx is the context handed to DelCtx (redis kinds): "" = context.Background();
	// cancel-after / deadline-after = a live request context that is cancelled / passes its
	// deadline right after DelCtx returned (the normal fate of a request context);
	// canceled-before / expired-before = the context is already done when DelCtx is called,
	// so the foreground delete fails in the client without reaching redis.
	Ctx string `json:"ctx,omitempty"`
	// Absent: the keys are not in redis when the retries run (never cached / already expired):
	// the first retry that gets through deletes 0 keys — it has succeeded all the same.
	Absent bool `json:"absent,omitempty"`
}

// c06Ctx is a request context whose end the harness decides (no wall clock involved).
type c06Ctx struct {
	mu   sync.Mutex
	done chan struct{}
	err  error
}

func newC06Ctx() *c06Ctx { return &c06Ctx{done: make(chan struct{})} }

func (c *c06Ctx) Deadline() (time.Time, bool) { return time.Time{}, false }
func (c *c06Ctx) Done() <-chan struct{}       { return c.done }
func (c *c06Ctx) Value(any) any               { return nil }
func (c *c06Ctx) Err() error {
	c.mu.Lock()
	defer c.mu.Unlock()
	return c.err
}

func (c *c06Ctx) finish(err error) {
	c.mu.Lock()
	if c.err == nil {
		c.err = err
		close(c.done)
	}
	c.mu.Unlock()
}

// c06OpCtx returns the context for the foreground call and what to do after it returned.
func c06OpCtx(mode string) (ctx context.Context, after func(), doneBefore bool) {
	switch mode {
	case "cancel-after":
		c, cancel := context.WithCancel(context.Background())
		return c, cancel, false
	case "deadline-after":
		c := newC06Ctx()
		return c, func() { c.finish(context.DeadlineExceeded) }, false
	case "canceled-before":
		c, cancel := context.WithCancel(context.Background())
		cancel()
		return c, func() {}, true
	case "expired-before":
		c := newC06Ctx()
		c.finish(context.DeadlineExceeded)
		return c, func() {}, true
	}
	return context.Background(), func() {}, false
}

type c06Scenario struct {
	Name string  `json:"name"`
	Ops  []c06Op `json:"ops"`
}

// c06Unit is the model of one retry unit.
type c06Unit struct {
	plan      *c06Plan
	active    bool // foreground failed: retries are owed
	last      int64
	n         int // background attempts so far
	done      bool
	succeeded bool
	doneTick  int64
	closed    bool
	fgSeen    bool
	mr        *miniredis.Miniredis
	verified  bool
}

// c06Repeat counts how often a scenario name ran in this process (-count / -cpu
// repetitions): key names are a function of (scenario, op index, repetition) only, so a
// replayed scenario places its keys on the same cluster nodes.
var (
	c06RepeatMu sync.Mutex
	c06Repeat   = map[string]int{}
)

func c06Keys(prefix string, n int) []string {
	ks := make([]string, n)
	for i := range ks {
		ks[i] = fmt.Sprintf("%s:k%d", prefix, i)
	}
	sort.Strings(ks)
	return ks
}

type c06Run struct {
	name  string
	rep   int
	nop   int
	m     *vk.M
	rig   *c06Rig
	desc  string
	units []*c06Unit
	stats map[string]int64
	bad   bool // violation recorded: stop the scenario
}

func (x *c06Run) violate(sig, format string, a ...any) {
	x.m.Violate(sig, x.desc, format, a...)
	x.bad = true
}

// issue performs the foreground delete of op and creates its units.
func (x *c06Run) issue(op c06Op) (ok bool) {
	r := x.rig
	id := x.nop
	x.nop++
	prefix := fmt.Sprintf("c06:%s:%d:%d", x.name, x.rep, id)
	now := atomic.LoadInt64(&r.tick)
	var created []*c06Unit
	ctx, afterCall, ctxDoneBefore := c06OpCtx(op.Ctx)
	if op.Ctx != "" {
		x.stats["ctx_"+op.Ctx]++
	}
	mk := func(kind string, keys []string, g int) *c06Unit {
		p := &c06Plan{id: fmt.Sprintf("%s#%d", prefix, g), kind: kind, keys: keys}
		if g < len(op.FgFail) {
			p.fgFail = op.FgFail[g]
		}
		if g < len(op.FailFirst) {
			p.failFirst = op.FailFirst[g]
		}
		u := &c06Unit{plan: p, last: now}
		x.units = append(x.units, u)
		created = append(created, u)
		return u
	}
	switch op.Kind {
	case "direct":
		// a failed foreground delete is modelled by registering the retry task directly
		u := mk("direct", c06Keys(prefix, op.NKeys), 0)
		p := u.plan
		p.fgFail = true
		p.seen = 1
		u.active, u.fgSeen = true, true
		AddCleanTask(func() error {
			r.mu.Lock()
			fail := r.recordLocked(p, p.keys)
			r.mu.Unlock()
			if fail {
				return c06ErrInjected
			}
			return nil
		}, p.keys...)
		x.stats["fg_failed"]++
	case "node", "clustertype":
		mr := r.mrs[int(id)%len(r.mrs)]
		var rds *redis.Redis
		if op.Kind == "clustertype" {
			rds = redis.New(mr.Addr(), redis.WithCluster())
		} else {
			rds = redis.New(mr.Addr())
		}
		n := NewNode(rds, syncx.NewSingleFlight(), r.st, errors.New("c06 not found"))
		keys := c06Keys(prefix, op.NKeys)
		var us []*c06Unit
		if op.Kind == "clustertype" && len(keys) > 1 {
			// redis cluster type: node.DelCtx deletes key by key; every key is its own unit
			for g, k := range keys {
				us = append(us, mk(op.Kind, []string{k}, g))
			}
		} else {
			us = append(us, mk(op.Kind, keys, 0))
		}
		for _, u := range us {
			u.mr, u.plan.node = mr, int(id)%len(r.mrs)
			r.register(u.plan)
			for _, k := range u.plan.keys {
				if !op.Absent {
					mr.Set(k, "stale")
				}
			}
		}
		if err := n.DelCtx(ctx, keys...); err != nil {
			x.stats["del_returned_error"]++ // not claimed either way by the statement: counted only
		}
		afterCall()
	case "twonodes":
		// two cache nodes (two redis servers) fail to delete the SAME key names
		keys := c06Keys(prefix, op.NKeys)
		var nodes []Cache
		for g := 0; g < 2; g++ {
			ni := (int(id) + g) % len(r.mrs)
			mr := r.mrs[ni]
			u := mk("twonodes", keys, g)
			u.plan.node, u.mr = ni, mr
			r.register(u.plan)
			if !op.Absent {
				for _, k := range keys {
					mr.Set(k, "stale")
				}
			}
			nodes = append(nodes, NewNode(redis.New(mr.Addr()), syncx.NewSingleFlight(), r.st, errors.New("c06 not found")))
		}
		for _, n := range nodes {
			if err := n.DelCtx(ctx, keys...); err != nil {
				x.stats["del_returned_error"]++
			}
		}
		afterCall()
	case "joined":
		// one node: Del(k0,k1) and then Del of the single key named "k0,k1" — two different
		// deletes whose key lists look alike when joined with ","
		ni := int(id) % len(r.mrs)
		mr := r.mrs[ni]
		n := NewNode(redis.New(mr.Addr()), syncx.NewSingleFlight(), r.st, errors.New("c06 not found"))
		pair := c06Keys(prefix, 2)
		single := []string{pair[0] + "," + pair[1]}
		for g, ks := range [][]string{pair, single} {
			u := mk("joined", ks, g)
			u.plan.node, u.mr = ni, mr
			r.register(u.plan)
			if !op.Absent {
				for _, k := range ks {
					mr.Set(k, "stale")
				}
			}
		}
		for _, ks := range [][]string{pair, single} {
			if err := n.DelCtx(ctx, ks...); err != nil {
				x.stats["del_returned_error"]++
			}
		}
		afterCall()
	case "cluster":
		var conf Config
		for _, mr := range r.mrs {
			conf = append(conf, NodeConfig{Config: redis.Config{Host: mr.Addr(), Type: redis.NodeType}, Weight: 100})
		}
		c := New(conf, syncx.NewSingleFlight(), r.st, errors.New("c06 not found"))
		cl, isCluster := c.(cluster)
		if !isCluster {
			x.m.Skip("cache.New with 3 nodes did not return a cluster")
			return true
		}
		keys := c06Keys(prefix, op.NKeys)
		groups := map[string][]string{}
		for _, k := range keys {
			nd, ok := cl.dispatcher.Get(k)
			if !ok {
				x.m.Skip("cluster dispatcher returned no node")
				return true
			}
			addr := nd.(node).rds.Addr
			groups[addr] = append(groups[addr], k)
		}
		g := 0
		for i, mr := range r.mrs { // deterministic group order: by server index
			ks := groups[mr.Addr()]
			if len(ks) == 0 {
				continue
			}
			sort.Strings(ks)
			u := mk("cluster", ks, g)
			g++
			u.mr, u.plan.node = mr, i
			r.register(u.plan)
			for _, k := range ks {
				if !op.Absent {
					mr.Set(k, "stale")
				}
			}
			x.stats[fmt.Sprintf("cluster_keys_on_node%d", i)] += int64(len(ks))
		}
		if err := c.DelCtx(ctx, keys...); err != nil {
			x.stats["del_returned_error"]++
		}
		afterCall()
	}
	// foreground observations
	for _, ev := range r.takeEvents() {
		x.observe(ev)
	}
	for _, u := range created {
		if !u.fgSeen && u.mr != nil {
			// no DEL of this key group reached redis during the foreground call (the request
			// context was already done and the client refused it, or the implementation stopped
			// after an earlier key failed). DelCtx has returned and the keys are still cached =>
			// the removal named by the caller has not happened: it is owed in the background,
			// on the retry schedule, from now on.
			still := true
			for _, k := range u.plan.keys {
				if !u.mr.Exists(k) {
					still = false
				}
			}
			if still {
				r.mu.Lock()
				u.plan.seen = 1
				r.mu.Unlock()
				u.fgSeen, u.active, u.last = true, true, now
				if ctxDoneBefore {
					x.stats["fg_failed_ctx_done"]++
				} else {
					x.stats["fg_delete_not_issued_key_still_cached"]++
				}
				continue
			}
		}
		if !u.fgSeen {
			// the foreground DEL of this group never reached miniredis
			x.m.Inconclusive("%s: foreground DEL of %v not observed at miniredis", x.desc, u.plan.keys)
			return false
		}
	}
	return true
}

func (x *c06Run) unitOf(p *c06Plan) *c06Unit {
	for _, u := range x.units {
		if u.plan == p {
			return u
		}
	}
	return nil
}

func (x *c06Run) observe(ev c06Event) {
	u := x.unitOf(ev.plan)
	if u == nil || u.closed {
		x.stats["stray_events"]++
		return
	}
	if ev.idx == 0 {
		u.fgSeen = true
		if ev.fail {
			u.active = true
			u.last = ev.tick
			x.stats["fg_failed"]++
		} else {
			u.done, u.succeeded, u.doneTick = true, true, ev.tick
			x.stats["fg_ok"]++
		}
		return
	}
	if ev.fail {
		x.stats["bg_attempt_failed"]++
	} else {
		x.stats["bg_attempt_ok"]++
	}
	where := fmt.Sprintf("unit %s kind=%s keys=%v failFirst=%d", u.plan.id, u.plan.kind, u.plan.keys, u.plan.failFirst)
	if !u.active {
		// foreground delete succeeded: background deletes are not owed. The statement does not
		// forbid them explicitly; counted, not flagged.
		x.stats["bg_delete_without_failure"]++
		return
	}
	if u.done {
		u.closed = true
		if u.succeeded {
			x.violate("C06:retry:attempt-after-success", "%s: background delete attempt #%d at tick %d although attempt #%d had succeeded at tick %d (a removal must not be retried after its first success)",
				where, u.n+1, ev.tick, u.n, u.doneTick)
		} else {
			x.violate("C06:retry:more-than-5-attempts", "%s: background attempt #%d at tick %d after the retry table was exhausted at tick %d", where, u.n+1, ev.tick, u.doneTick)
		}
		return
	}
	k := u.n + 1
	want := u.last + c06Delays[k]
	if ev.tick != want {
		u.closed = true
		x.violate(fmt.Sprintf("C06:retry:wrong-delay:attempt%d", k), "%s: background attempt #%d at tick %d = %d s after the previous failure (tick %d); the retry schedule says %d s",
			where, k, ev.tick, ev.tick-u.last, u.last, c06Delays[k])
		return
	}
	if strings.Join(ev.keys, ",") != strings.Join(u.plan.keys, ",") {
		u.closed = true
		x.violate("C06:retry:wrong-keys", "%s: background attempt #%d deleted %v", where, k, ev.keys)
		return
	}
	u.n = k
	u.last = ev.tick
	if !ev.fail {
		u.done, u.succeeded, u.doneTick = true, true, ev.tick
	} else if k == 5 {
		u.done, u.doneTick = true, ev.tick
	}
}

// deadlines flags owed attempts that never came; returns true when every unit is settled.
func (x *c06Run) deadlines(now int64) (settled bool) {
	settled = true
	for _, u := range x.units {
		if u.closed {
			continue
		}
		switch {
		case !u.active && !u.done: // not issued / foreground unseen
			settled = false
		case !u.active: // foreground delete succeeded: nothing owed, nothing flagged
			if now < u.doneTick+10 {
				settled = false
			}
		case u.done:
			if now < u.doneTick+c06QuietTicks {
				settled = false
			} else if u.succeeded && u.mr != nil && !u.verified {
				u.verified = true
				for _, k := range u.plan.keys {
					if u.mr.Exists(k) {
						u.closed = true
						x.violate("C06:retry:key-still-cached-after-successful-retry", "unit %s kind=%s: key %q still present in redis after background attempt #%d succeeded", u.plan.id, u.plan.kind, k, u.n)
						break
					}
					x.stats["keys_verified_deleted"]++
				}
			}
		default:
			if now >= u.last+c06NotRetriedTicks {
				u.closed = true
				after := "foreground-failure"
				if u.n > 0 {
					after = fmt.Sprintf("failed-attempt%d", u.n)
				}
				x.violate("C06:retry:failed-delete-not-retried:after-"+after,
					"unit %s kind=%s keys=%v failFirst=%d: delete failed at tick %d (%d background attempts so far, all failed); next attempt was due %d s later but no delete attempt was observed (at redis / in the injected task) within %d s",
					u.plan.id, u.plan.kind, u.plan.keys, u.plan.failFirst, u.last, u.n, c06Delays[u.n+1], c06NotRetriedTicks)
			} else {
				settled = false
			}
		}
	}
	return settled
}

// c06RunScenario executes one scenario on the shared rig. ok=false: inconclusive, stop the test.
func c06RunScenario(m *vk.M, rig *c06Rig, idx int, sc c06Scenario) (ok bool, stats map[string]int64) {
	c06RepeatMu.Lock()
	rep := c06Repeat[sc.Name]
	c06Repeat[sc.Name] = rep + 1
	c06RepeatMu.Unlock()
	x := &c06Run{name: sc.Name, rep: rep, m: m, rig: rig, desc: fmt.Sprintf("case=%d;%s", idx, vk.JSON(sc)), stats: map[string]int64{}}
	m.Current(x.desc)
	defer func() {
		for _, u := range x.units {
			rig.unregister(u.plan)
		}
	}()
	ops := append([]c06Op(nil), sc.Ops...)
	sort.SliceStable(ops, func(i, j int) bool { return ops[i].Start < ops[j].Start })
	next := 0
	const maxTicks = 20000
	for rel := 0; rel < maxTicks; rel++ {
		for next < len(ops) && ops[next].Start <= rel {
			if !x.issue(ops[next]) {
				return false, x.stats
			}
			next++
			if x.bad {
				return true, x.stats
			}
		}
		okStep, why, skipped := rig.step()
		if !okStep {
			m.Inconclusive("%s: tick %d: %s", x.desc, atomic.LoadInt64(&rig.tick), why)
			return false, x.stats
		}
		x.stats["ticks"]++
		evs := rig.takeEvents()
		if len(evs) > int(x.stats["max_attempts_in_one_tick"]) {
			x.stats["max_attempts_in_one_tick"] = int64(len(evs))
		}
		for _, ev := range evs {
			x.observe(ev)
			if x.bad {
				return true, x.stats
			}
		}
		now := atomic.LoadInt64(&rig.tick)
		if skipped {
			// the wheel finished this tick leaving due timers unexecuted: every retry that was
			// due on it and did not run has been passed over
			x.stats["ticks_with_unexecuted_due_timers"]++
			for _, u := range x.units {
				if u.active && !u.done && !u.closed && u.last+c06Delays[u.n+1] == now {
					u.closed = true
					x.violate("C06:retry:due-retry-not-run-in-shared-tick", "unit %s kind=%s keys=%v: background attempt #%d was due at tick %d (%d s after the failure at tick %d); the wheel completed that tick (run loop idle, no task goroutine left) having executed only part of the tasks due on it — this retry did not run",
						u.plan.id, u.plan.kind, u.plan.keys, u.n+1, now, c06Delays[u.n+1], u.last)
					return true, x.stats
				}
			}
		}
		settled := x.deadlines(now)
		if x.bad {
			return true, x.stats
		}
		if settled && next == len(ops) {
			return true, x.stats
		}
	}
	m.Inconclusive("%s: scenario did not settle within %d ticks", x.desc, maxTicks)
	return false, x.stats
}

func c06Finish(m *vk.M, sc c06Scenario, stats map[string]int64, agg map[string]int64) {
	for k, v := range stats {
		if strings.HasPrefix(k, "max_") {
			if v > agg[k] {
				agg[k] = v
			}
			continue
		}
		agg[k] += v
	}
	m.Case(vk.Digest(vk.JSON(sc)), stats["bg_attempt_failed"]+stats["bg_attempt_ok"] > 0)
}

func c06Flush(m *vk.M, agg map[string]int64) {
	for k, v := range agg {
		if strings.HasPrefix(k, "max_") {
			m.Max(k, v)
		} else {
			m.Count(k, v)
		}
	}
}

// TestVerifC06RetrySystematic: the complete fault table "first j background attempts
// fail" (j = 0..5) for every delete path, one failed delete per scenario.
func TestVerifC06RetrySystematic(t *testing.T) {
	m := vk.New(t, "C06", "retry: for each delete path (task injected through AddCleanTask; node.DelCtx; node.DelCtx on a cluster-type redis = per-key deletes; 3-node cluster.DelCtx) x j=0..5 failing background attempts, and for the redis paths x request context {cancelled / deadline passed right after DelCtx returned, already cancelled / expired before the call}: after the failed foreground delete, background attempts must come exactly 1s,5s,1m,5m,1h after the previous failure, stop at the first success, never exceed 5, never re-run after success; observed tick by tick on the real cleaner wheel (fake ticker) until 1h+ of silence")
	defer m.Done()
	rig, err := c06GetRig()
	if err != nil {
		m.Inconclusive("rig: %v", err)
		return
	}
	agg := map[string]int64{}
	defer c06Flush(m, agg)
	idx := 0
	for _, kind := range []string{"direct", "node", "clustertype", "cluster"} {
		for j := 0; j <= 5; j++ {
			idx++
			if !m.Only(idx) {
				continue
			}
			op := c06Op{Kind: kind, NKeys: 1 + j%3}
			switch kind {
			case "clustertype":
				op.NKeys = 3
				// key 0 fails j times, key 1's foreground delete succeeds, key 2 fails (5-j) times
				op.FgFail = []bool{true, false, true}
				op.FailFirst = []int{j, 0, 5 - j}
			case "cluster":
				op.NKeys = 6
				op.FgFail = []bool{true, j%2 == 0, true}
				op.FailFirst = []int{j, (j + 2) % 6, (j + 4) % 6}
			default:
				op.FgFail = []bool{true}
				op.FailFirst = []int{j}
			}
			sc := c06Scenario{Name: fmt.Sprintf("%s/j=%d", kind, j), Ops: []c06Op{op}}
			ok, stats := c06RunScenario(m, rig, idx, sc)
			if !ok {
				return
			}
			c06Finish(m, sc, stats, agg)
			if m.WantSample() && (idx%5 == 1) {
				m.Sample(map[string]any{"scenario": sc, "observed": stats})
			}
			m.Progress()
		}
	}
	// request-context family: the context given to DelCtx ends right after the call (or was
	// already done), as a request context does; the retries must still reach redis on schedule
	// and the first successful one must remove the keys.
	for _, kind := range []string{"node", "clustertype", "cluster"} {
		for _, mode := range []string{"cancel-after", "deadline-after", "canceled-before", "expired-before"} {
			for j := 0; j <= 5; j++ {
				idx++
				if !m.Only(idx) {
					continue
				}
				before := strings.HasSuffix(mode, "-before")
				op := c06Op{Kind: kind, NKeys: 1 + j%3, Ctx: mode, FgFail: []bool{true}, FailFirst: []int{j}}
				switch kind {
				case "clustertype":
					if before { // every key fails in the client: keep the shared breaker below its protection
						op.NKeys, op.FgFail, op.FailFirst = 2, []bool{true, true}, []int{j, 5 - j}
					} else {
						op.NKeys, op.FgFail, op.FailFirst = 3, []bool{true, false, true}, []int{j, 0, 5 - j}
					}
				case "cluster":
					op.NKeys = 6
					op.FgFail = []bool{true, j%2 == 0, true}
					op.FailFirst = []int{j, (j + 2) % 6, (j + 4) % 6}
				}
				sc := c06Scenario{Name: fmt.Sprintf("%s/%s/j=%d", kind, mode, j), Ops: []c06Op{op}}
				ok, stats := c06RunScenario(m, rig, idx, sc)
				if !ok {
					return
				}
				c06Finish(m, sc, stats, agg)
				if m.WantSample() && j == 2 && kind == "node" {
					m.Sample(map[string]any{"scenario": sc, "observed": stats})
				}
				m.Progress()
			}
		}
	}
	// two failed deletes pending at once whose key lists coincide (same key names on two redis
	// servers) or merely look alike when joined with "," — each keeps its own retry schedule
	for _, kind := range []string{"twonodes", "joined"} {
		for j := 0; j <= 5; j++ {
			idx++
			if !m.Only(idx) {
				continue
			}
			op := c06Op{Kind: kind, NKeys: 1 + j%2, FgFail: []bool{true, true}, FailFirst: []int{j, 5 - j}}
			sc := c06Scenario{Name: fmt.Sprintf("%s/j=%d", kind, j), Ops: []c06Op{op}}
			ok, stats := c06RunScenario(m, rig, idx, sc)
			if !ok {
				return
			}
			c06Finish(m, sc, stats, agg)
			agg["colliding_key_list_scenarios"]++
			m.Progress()
		}
	}
	// the keys of the failed delete are not cached when the retry gets through (DEL removes 0 keys)
	for _, kind := range []string{"node", "clustertype", "cluster"} {
		for j := 0; j <= 5; j++ {
			idx++
			if !m.Only(idx) {
				continue
			}
			op := c06Op{Kind: kind, NKeys: 1 + j%3, Absent: true, FgFail: []bool{true}, FailFirst: []int{j}}
			switch kind {
			case "clustertype":
				op.NKeys, op.FgFail, op.FailFirst = 3, []bool{true, false, true}, []int{j, 0, 5 - j}
			case "cluster":
				op.NKeys = 6
				op.FgFail = []bool{true, j%2 == 0, true}
				op.FailFirst = []int{j, (j + 2) % 6, (j + 4) % 6}
			}
			sc := c06Scenario{Name: fmt.Sprintf("%s/absent/j=%d", kind, j), Ops: []c06Op{op}}
			ok, stats := c06RunScenario(m, rig, idx, sc)
			if !ok {
				return
			}
			c06Finish(m, sc, stats, agg)
			agg["absent_key_scenarios"]++
			m.Progress()
		}
	}
	m.Extra("exhaustive_family", "4 delete paths x j=0..5, plus 3 redis paths x 4 request-context fates x j=0..5, plus 3 redis paths x keys-absent x j=0..5")
}

func c06RandomScenario(r interface{ Intn(int) int }, idx int) c06Scenario {
	nops := 6 + r.Intn(14)
	kinds := []string{"direct", "direct", "node", "clustertype", "cluster", "twonodes", "joined"}
	sc := c06Scenario{Name: fmt.Sprintf("random-%d", idx)}
	sameTick := r.Intn(3) == 0 // pile attempts onto one tick (more than cleanWorkers at once)
	for i := 0; i < nops; i++ {
		op := c06Op{Kind: kinds[r.Intn(len(kinds))], Start: r.Intn(400), NKeys: 1 + r.Intn(4)}
		if sameTick {
			op.Start = 0
		}
		if op.Kind != "direct" {
			op.Ctx = []string{"", "", "cancel-after", "deadline-after", "canceled-before", "expired-before"}[r.Intn(6)]
		}
		if op.Kind != "direct" && !strings.HasSuffix(op.Ctx, "-before") && r.Intn(4) == 0 {
			op.Absent = true
		}
		groups := 1
		switch op.Kind {
		case "clustertype":
			op.NKeys = 2 + r.Intn(3)
			if strings.HasSuffix(op.Ctx, "-before") {
				op.NKeys = 2 // all keys fail in the client: see the breaker note below
			}
			groups = op.NKeys
		case "cluster":
			op.NKeys = 3 + r.Intn(5)
			groups = 3
		case "twonodes", "joined":
			op.NKeys = 1 + r.Intn(2)
			groups = 2
		}
		failing := 0
		for g := 0; g < groups; g++ {
			ff := r.Intn(4) != 0
			// per-key deletes of one cluster-type node share one redis breaker: keep the
			// failures inside its 10 s window at <= 5 (2 keys x {foreground, +1s, +5s} -> the
			// 6th request still sees 5) so the breaker never answers instead of miniredis
			if op.Kind == "clustertype" && ff && failing >= 2 {
				ff = false
			}
			if op.Kind == "direct" {
				ff = true // a direct task IS the retry of a failed delete
			}
			if ff {
				failing++
			}
			op.FgFail = append(op.FgFail, ff)
			op.FailFirst = append(op.FailFirst, r.Intn(7))
		}
		sc.Ops = append(sc.Ops, op)
	}
	return sc
}

// TestVerifC06RetryRandom: many failed deletes in flight at once on the one cleaner wheel.
func TestVerifC06RetryRandom(t *testing.T) {
	m := vk.New(t, "C06", "retry: seeded batches of 6-19 deletes (all paths, random start ticks 0..399 or all on one tick, random per-group foreground failure and j=0..6 failing background attempts) in flight concurrently on the cleaner wheel; same per-unit oracle as the systematic family")
	defer m.Done()
	rig, err := c06GetRig()
	if err != nil {
		m.Inconclusive("rig: %v", err)
		return
	}
	agg := map[string]int64{}
	defer c06Flush(m, agg)
	r := m.Rand("retry-random")
	n := vk.N(8, 300)
	if os.Getenv("C06_LIGHT") != "" { // the -race repetition of this test
		n = vk.N(4, 40)
	}
	for idx := 1; idx <= n; idx++ {
		sc := c06RandomScenario(r, idx)
		if !m.Only(idx) {
			continue
		}
		ok, stats := c06RunScenario(m, rig, idx, sc)
		if !ok {
			return
		}
		c06Finish(m, sc, stats, agg)
		if m.WantSample() {
			short := sc
			if len(short.Ops) > 4 {
				short.Ops = short.Ops[:4]
			}
			m.Sample(map[string]any{"scenario_first_4_ops": short, "observed": stats})
		}
		m.Progress()
	}
}
