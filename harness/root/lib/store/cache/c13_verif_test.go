//go:build verif

package cache

// C13 — placement through cache.New (cluster): same oracle as for kv.New.

import (
	"context"
	"errors"
	"fmt"
	"sort"
	"strconv"
	"testing"
	"time"

	"github.com/alicebob/miniredis/v2"
	"github.com/gotid/god/lib/store/redis"
	"github.com/gotid/god/lib/syncx"
	"github.com/spaolacci/murmur3"
	"verif.local/vk"
)

func c13CachePredict(addrs []string, weights []int, key string) int {
	type pos struct {
		h uint64
		n int
	}
	var ring []pos
	for n, a := range addrs {
		for i := 0; i < 100*weights[n]/100 && i < 100; i++ {
			ring = append(ring, pos{murmur3.Sum64([]byte(a + strconv.Itoa(i))), n})
		}
	}
	sort.Slice(ring, func(i, j int) bool { return ring[i].h < ring[j].h })
	h := murmur3.Sum64([]byte(key))
	i := sort.Search(len(ring), func(i int) bool { return ring[i].h >= h })
	if i == len(ring) {
		i = 0
	}
	return ring[i].n
}

func TestVerifC13CachePlacement(t *testing.T) {
	m := vk.New(t, "C13", "cache.New over 2-4 miniredis nodes with weights from {0,10,50,100}: 120 keys stored through all eight storing entry points in turn (Set/SetWithExpire/Take/TakeWithExpire and their Ctx forms), node holding each key compared with the reference ring; Get/GetCtx/Take/TakeWithExpireCtx read it back without fetching, Del/DelCtx remove it from that node")
	defer m.Done()
	n := vk.N(25, 400)
	r := m.Rand("cache")
	errNF := errors.New("c13 not found")
	var placed int64
	entry := map[string]int64{}
	for idx := 1; idx <= n; idx++ {
		if !m.Only(idx) {
			continue
		}
		ns := 2 + r.Intn(3)
		var servers []*miniredis.Miniredis
		var conf Config
		var addrs []string
		var weights []int
		for i := 0; i < ns; i++ {
			s, err := miniredis.Run()
			if err != nil {
				m.Inconclusive("miniredis: %v", err)
				return
			}
			servers = append(servers, s)
			w := []int{0, 10, 50, 100, 100, -20}[r.Intn(6)] // negative weights are clamped to 'owns nothing' by the ring
			if i == 0 {
				w = 100
			}
			addrs = append(addrs, s.Addr())
			weights = append(weights, w)
			conf = append(conf, NodeConfig{Config: redis.Config{Host: s.Addr(), Type: redis.NodeType}, Weight: w})
		}
		desc := fmt.Sprintf("case=%d;addrs=%v weights=%v", idx, addrs, weights)
		c := New(conf, syncx.NewSingleFlight(), NewStat("c13"), errNF)
		for k := 0; k < 120; k++ {
			key := fmt.Sprintf("c13c-%d-%d", idx, k)
			// every entry point that stores a key must choose the node from the KEY: rotate through all of them
			var err error
			via := []string{"Set", "SetCtx", "SetWithExpire", "SetWithExpireCtx", "Take", "TakeCtx", "TakeWithExpire", "TakeWithExpireCtx"}[k%8]
			var dst int
			switch via {
			case "Set":
				err = c.Set(key, k)
			case "SetCtx":
				err = c.SetCtx(context.Background(), key, k)
			case "SetWithExpire":
				err = c.SetWithExpire(key, k, time.Hour)
			case "SetWithExpireCtx":
				err = c.SetWithExpireCtx(context.Background(), key, k, time.Hour)
			case "Take":
				err = c.Take(&dst, key, func(v any) error { *v.(*int) = k; return nil })
			case "TakeCtx":
				err = c.TakeCtx(context.Background(), &dst, key, func(v any) error { *v.(*int) = k; return nil })
			case "TakeWithExpire":
				err = c.TakeWithExpire(&dst, key, func(v any, _ time.Duration) error { *v.(*int) = k; return nil })
			default:
				err = c.TakeWithExpireCtx(context.Background(), &dst, key, func(v any, _ time.Duration) error { *v.(*int) = k; return nil })
			}
			entry[via]++
			if err != nil {
				m.Violate("C13:cache-set-error", desc, "%s(%q): %v", via, key, err)
				break
			}
			want := c13CachePredict(addrs, weights, key)
			var holders []int
			for i, s := range servers {
				if s.Exists(key) {
					holders = append(holders, i)
				}
			}
			if len(holders) != 1 || holders[0] != want {
				m.Violate("C13:cache-key-on-unexpected-node", desc, "key %q stored through %s is held by nodes %v, reference ring predicts node %d", key, via, holders, want)
				break
			}
			var back int
			fetched := false
			rvia := []string{"Get", "GetCtx", "Take", "TakeWithExpireCtx"}[(k/8)%4]
			switch rvia {
			case "Get":
				err = c.Get(key, &back)
			case "GetCtx":
				err = c.GetCtx(context.Background(), key, &back)
			case "Take":
				err = c.Take(&back, key, func(v any) error { fetched = true; *v.(*int) = -1; return nil })
			default:
				err = c.TakeWithExpireCtx(context.Background(), &back, key, func(v any, _ time.Duration) error { fetched = true; *v.(*int) = -1; return nil })
			}
			if err != nil || back != k || fetched {
				m.Violate("C13:cache-read-back-mismatch", desc, "stored through %s, %s(%q)=(%d,%v) fetched=%v: the read went to another node than the write", via, rvia, key, back, err, fetched)
				break
			}
			if k%3 == 0 {
				if k%2 == 0 {
					err = c.Del(key)
				} else {
					err = c.DelCtx(context.Background(), key, fmt.Sprintf("c13c-absent-%d", k))
				}
				if err != nil || servers[want].Exists(key) {
					m.Violate("C13:cache-del-wrong-node", desc, "Del(%q) err=%v, still on node %d: %v", key, err, want, servers[want].Exists(key))
					break
				}
			}
			placed++
		}
		for _, s := range servers {
			s.Close()
		}
		m.Case(vk.Digest(desc), true)
		if m.WantSample() {
			m.Sample(map[string]any{"scenario": desc})
		}
	}
	m.Count("keys_placed_and_checked", placed)
	for k, v := range entry {
		m.Count("stored_through_"+k, v)
	}
}
