//go:build verif

package cache

// C06 — the cache layer under CachedConn, driven directly through the cache.Cache
// interface in its plain (non-Ctx) forms, on a node and on a 3-node cluster:
// Set / SetWithExpire / Get / Take / TakeWithExpire / Del (0, 1, many keys spanning
// nodes) / IsNotFound. Same oracle as the sqlc histories: the "database" is a harness
// map, every value handed out must be the map's current value, a missing value must
// come back as an error for which IsNotFound is true (also when it is served from the
// not-found placeholder), TTLs read from miniredis after every store must lie in the
// +/-5% window (rounded up to whole seconds).

import (
	"errors"
	"fmt"
	"sync"
	"testing"
	"time"

	"github.com/alicebob/miniredis/v2"
	"github.com/gotid/god/lib/logx"
	"github.com/gotid/god/lib/stat"
	"github.com/gotid/god/lib/store/redis"
	"github.com/gotid/god/lib/syncx"
	"verif.local/vk"
)

type c06Val struct {
	K string `json:"k"`
	V int64  `json:"v"`
}

type c06ApiOp struct {
	Op string `json:"op"`
	K  int    `json:"k,omitempty"`
	N  int    `json:"n,omitempty"`
	D  int    `json:"d,omitempty"`
}

var (
	c06ApiOnce sync.Once
	c06ApiMrs  []*miniredis.Miniredis
	c06ApiErr  error
	c06ApiStat *Stat
)

func c06ApiEnv() ([]*miniredis.Miniredis, error) {
	c06ApiOnce.Do(func() {
		logx.Disable()
		stat.SetReporter(nil)
		c06ApiStat = NewStat("c06api")
		for i := 0; i < 3; i++ {
			mr, err := miniredis.Run()
			if err != nil {
				c06ApiErr = err
				return
			}
			c06ApiMrs = append(c06ApiMrs, mr)
		}
	})
	return c06ApiMrs, c06ApiErr
}

func c06ApiBounds(eSec int) (lo, hi int64) {
	e := int64(eSec) * 1000
	return (e*95/100 + 999) / 1000, (e*105/100 + 999) / 1000
}

func TestVerifC06CacheAPI(t *testing.T) {
	m := vk.New(t, "C06", "cache layer, plain forms: seeded histories of Set(current value)/SetWithExpire/Get/Take/TakeWithExpire/put+Del/remove+Del (0,1,many keys, spanning cluster nodes)/FastForward over 6 keys on a node and a 3-node cluster: a value handed out == the reference map's current value; a missing value => error with IsNotFound true (also from the placeholder, with 0 database queries while it lives); TTL read back from miniredis after every store within [ceil(.95e),ceil(1.05e)] s")
	defer m.Done()
	mrs, err := c06ApiEnv()
	if err != nil {
		m.Inconclusive("env: %v", err)
		return
	}
	errNF := errors.New("c06 api: not found")
	n := vk.N(80, 3000)
	counts := map[string]int64{}
	for idx := 1; idx <= n; idx++ {
		if !m.Only(idx) {
			continue
		}
		r := m.Rand("api", idx)
		for _, mr := range mrs {
			mr.FlushAll()
		}
		expire := []int{7, 10, 30, 90}[r.Intn(4)]
		nfe := []int{3, 7, 10}[r.Intn(3)]
		topo := []string{"node", "cluster3"}[r.Intn(2)]
		opts := []Option{WithExpire(time.Duration(expire) * time.Second), WithNotFoundExpire(time.Duration(nfe) * time.Second)}
		var c Cache
		if topo == "node" {
			c = NewNode(redis.New(mrs[0].Addr()), syncx.NewSingleFlight(), c06ApiStat, errNF, opts...)
		} else {
			var conf Config
			for _, mr := range mrs {
				conf = append(conf, NodeConfig{Config: redis.Config{Host: mr.Addr(), Type: redis.NodeType}, Weight: []int{100, 40, 250}[r.Intn(3)]})
			}
			c = New(conf, syncx.NewSingleFlight(), c06ApiStat, errNF, opts...)
		}
		prefix := fmt.Sprintf("c06a%d:", idx)
		key := func(k int) string { return fmt.Sprintf("%sk%d", prefix, k) }
		db := map[int]c06Val{}
		queries := 0
		memo := map[int]bool{} // a not-found placeholder for k is certainly live
		var ops []c06ApiOp
		desc := func() string {
			return fmt.Sprintf("case=%d;%s", idx, vk.JSON(map[string]any{"topo": topo, "expire_s": expire, "notfound_expire_s": nfe, "ops": ops}))
		}
		ttlOf := func(k string) time.Duration {
			var d time.Duration
			for _, mr := range mrs {
				if mr.Exists(k) {
					d = mr.TTL(k)
				}
			}
			return d
		}
		stored := func(k string) bool {
			for _, mr := range mrs {
				if mr.Exists(k) {
					return true
				}
			}
			return false
		}
		checkTTL := func(what, k string, base int) bool {
			if !stored(k) {
				// nothing was stored: no promise of the statement is about that (counted only)
				counts["store_missing"]++
				return true
			}
			secs := int64(ttlOf(k) / time.Second)
			lo, hi := c06ApiBounds(base)
			counts["ttl_checked"]++
			if ttlOf(k) == 0 {
				m.Violate("C06:ttl:no-expiry:api", desc(), "%s: %s stored without expiry", what, k)
				return false
			}
			if ttlOf(k)%time.Second != 0 || secs < lo || secs > hi {
				m.Violate("C06:ttl:out-of-range:api:"+what, desc(), "%s: %s has TTL %v; base %d s allows [%d,%d] s", what, k, ttlOf(k), base, lo, hi)
				return false
			}
			return true
		}
		// checkValue: what a read handed out vs the reference
		checkValue := func(what string, k int, got c06Val, err error) bool {
			want, exists := db[k]
			switch {
			case err == nil && exists && got == want:
				counts["reads_ok_value"]++
			case err == nil && exists:
				m.Violate("C06:coherence:stale-read:api:"+what, desc(), "%s(%s) returned %+v, reference has %+v", what, key(k), got, want)
				return false
			case err == nil:
				m.Violate("C06:coherence:phantom-row:api:"+what, desc(), "%s(%s) returned %+v, reference has nothing", what, key(k), got)
				return false
			case !c.IsNotFound(err):
				m.Violate("C06:read:unexpected-error:api:"+what, desc(), "%s(%s) returned error %v (IsNotFound=false) with redis healthy", what, key(k), err)
				return false
			case exists && what != "Get":
				m.Violate("C06:coherence:not-found-for-existing-row:api:"+what, desc(), "%s(%s) reported not-found, reference has %+v", what, key(k), want)
				return false
			default:
				counts["reads_ok_notfound"]++ // Get: a miss is always legal
			}
			return true
		}
		ver := int64(0)
		ok := true
		for step := 0; step < 60 && ok; step++ {
			k := r.Intn(6)
			x := r.Intn(100)
			var op c06ApiOp
			switch {
			case x < 18:
				op = c06ApiOp{Op: "Get", K: k}
			case x < 36:
				op = c06ApiOp{Op: "Take", K: k}
			case x < 46:
				op = c06ApiOp{Op: "TakeWithExpire", K: k}
			case x < 56:
				op = c06ApiOp{Op: "Set", K: k}
			case x < 64:
				op = c06ApiOp{Op: "SetWithExpire", K: k, D: 2 + r.Intn(40)}
			case x < 80:
				op = c06ApiOp{Op: "put+Del", K: k, N: []int{1, 1, 2, 4, 6}[r.Intn(5)]}
			case x < 88:
				op = c06ApiOp{Op: "remove+Del", K: k, N: 1 + r.Intn(3)}
			case x < 91:
				op = c06ApiOp{Op: "Del0"}
			default:
				op = c06ApiOp{Op: "ff", D: []int{1, nfe + 2, expire + expire/10 + 2}[r.Intn(3)]}
			}
			if _, exists := db[op.K]; !exists && (op.Op == "Set" || op.Op == "SetWithExpire") {
				op.Op = "Take"
			}
			ops = append(ops, op)
			counts["op_"+op.Op]++
			q0 := queries
			query := func(v any) error {
				queries++
				cur, exists := db[op.K]
				if !exists {
					return errNF
				}
				*v.(*c06Val) = cur
				return nil
			}
			switch op.Op {
			case "Get":
				var got c06Val
				err := c.Get(key(op.K), &got)
				ok = checkValue("Get", op.K, got, err)
			case "Take":
				var got c06Val
				err := c.Take(&got, key(op.K), query)
				ok = checkValue("Take", op.K, got, err)
				if ok && memo[op.K] && queries != q0 {
					m.Violate("C06:memo:db-queried-while-placeholder-live:api", desc(), "Take(%s) queried the database although the not-found placeholder is live", key(op.K))
					ok = false
				}
				if ok && queries != q0 {
					if _, exists := db[op.K]; exists {
						ok = checkTTL("Take", key(op.K), expire)
					} else {
						ok = checkTTL("Take-placeholder", key(op.K), nfe)
						memo[op.K] = ok && stored(key(op.K))
					}
				}
			case "TakeWithExpire":
				var got c06Val
				var given time.Duration
				err := c.TakeWithExpire(&got, key(op.K), func(v any, e time.Duration) error {
					given = e
					return query(v)
				})
				ok = checkValue("TakeWithExpire", op.K, got, err)
				if ok && memo[op.K] && queries != q0 {
					m.Violate("C06:memo:db-queried-while-placeholder-live:api", desc(), "TakeWithExpire(%s) queried the database although the not-found placeholder is live", key(op.K))
					ok = false
				}
				if ok && queries != q0 {
					if _, exists := db[op.K]; exists {
						ok = checkTTL("TakeWithExpire", key(op.K), expire)
						if ok && stored(key(op.K)) && int64((given+time.Second-1)/time.Second) != int64(ttlOf(key(op.K))/time.Second) {
							m.Violate("C06:ttl:callback-expire-differs-from-stored", desc(), "TakeWithExpire(%s): callback was told %v, stored TTL is %v", key(op.K), given, ttlOf(key(op.K)))
							ok = false
						}
					} else {
						ok = checkTTL("Take-placeholder", key(op.K), nfe)
						memo[op.K] = ok && stored(key(op.K))
					}
				}
			case "Set":
				if err := c.Set(key(op.K), db[op.K]); err != nil {
					m.Violate("C06:read:unexpected-error:api:Set", desc(), "Set(%s) returned %v", key(op.K), err)
					ok = false
					break
				}
				delete(memo, op.K)
				ok = checkTTL("Set", key(op.K), expire)
			case "SetWithExpire":
				if err := c.SetWithExpire(key(op.K), db[op.K], time.Duration(op.D)*time.Second-300*time.Millisecond); err != nil {
					m.Violate("C06:read:unexpected-error:api:SetWithExpire", desc(), "SetWithExpire(%s) returned %v", key(op.K), err)
					ok = false
					break
				}
				delete(memo, op.K)
				// explicit expiry d-0.3 s must be rounded UP to d whole seconds
				counts["ttl_checked"]++
				if got := ttlOf(key(op.K)); stored(key(op.K)) && got != time.Duration(op.D)*time.Second {
					m.Violate("C06:ttl:explicit-expiry-not-rounded-up", desc(), "SetWithExpire(%s, %v): stored TTL %v, want %d s", key(op.K), time.Duration(op.D)*time.Second-300*time.Millisecond, got, op.D)
					ok = false
				}
			case "put+Del", "remove+Del":
				var keys []string
				for i := 0; i < op.N; i++ {
					kk := (op.K + i) % 6
					if op.Op == "put+Del" {
						ver++
						db[kk] = c06Val{K: key(kk), V: ver}
					} else {
						delete(db, kk)
					}
					delete(memo, kk)
					keys = append(keys, key(kk))
				}
				if err := c.Del(keys...); err != nil {
					counts["del_errors"]++
				}
				counts["keys_deleted"] += int64(len(keys))
			case "Del0":
				_ = c.Del()
			case "ff":
				for _, mr := range mrs {
					mr.FastForward(time.Duration(op.D) * time.Second)
				}
				memo = map[int]bool{}
			}
		}
		// IsNotFound must recognise exactly the configured error
		if ok && (!c.IsNotFound(errNF) || c.IsNotFound(errors.New("other"))) {
			m.Violate("C06:api:is-not-found", desc(), "IsNotFound(errNotFound)=%v IsNotFound(other)=%v", c.IsNotFound(errNF), c.IsNotFound(errors.New("other")))
		}
		m.Case(vk.Digest(vk.JSON(ops), topo), counts["reads_ok_value"] > 0)
		if m.WantSample() && idx%17 == 1 {
			short := ops
			if len(short) > 10 {
				short = short[:10]
			}
			m.Sample(map[string]any{"topo": topo, "expire_s": expire, "first_10_ops": short, "db_queries": queries})
		}
	}
	for k, v := range counts {
		m.Count(k, v)
	}
}
