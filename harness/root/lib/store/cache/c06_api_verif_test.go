//go:build verif

package cache

// C06 — the cache layer under CachedConn, driven directly through the cache.Cache
// interface in its plain (non-Ctx) forms, on a node and on a 3-node cluster:
// Set / SetWithExpire / Get / Take / TakeWithExpire / Del (0, 1, many keys spanning
// nodes) / IsNotFound. Same oracle as the sqlc histories: the "database" is a harness
// map, every value handed out must be the map's current value, a missing value must
// come back as an error for which IsNotFound is true (also when it is served from the
// not-found placeholder), TTLs read from miniredis after every store must lie in the
// +/-5% window (rounded up to whole seconds).

import (
	"errors"
	"fmt"
	"sync"
	"testing"
	"time"

	"github.com/alicebob/miniredis/v2"
	"github.com/gotid/god/lib/logx"
	"github.com/gotid/god/lib/stat"
	"github.com/gotid/god/lib/store/redis"
	"github.com/gotid/god/lib/syncx"
	"verif.local/vk"
)

type c06Val struct {
	K string `json:"k"`
	V int64  `json:"v"`
}

type c06ApiOp struct {
	Op string `json:"op"`
	K  int    `json:"k,omitempty"`
	N  int    `json:"n,omitempty"`
	D  int    `json:"d,omitempty"`
}

var (
	c06ApiOnce sync.Once
	c06ApiMrs  []*miniredis.Miniredis
	c06ApiErr  error
	c06ApiStat *Stat
)

func c06ApiEnv() ([]*miniredis.Miniredis, error) {
	c06ApiOnce.Do(func() {
		logx.Disable()
		stat.SetReporter(nil)
		c06ApiStat = NewStat("c06api")
		for i := 0; i < 3; i++ {
			mr, err := miniredis.Run()
			if err != nil {
				c06ApiErr = err
				return
			}
			c06ApiMrs = append(c06ApiMrs, mr)
		}
	})
	return c06ApiMrs, c06ApiErr
}

func c06ApiBounds(eSec int) (lo, hi int64) {
	e := int64(eSec) * 1000
	return (e*95/100 + 999) / 1000, (e*105/100 + 999) / 1000
}

func TestVerifC06CacheAPI(t *testing.T) {
	m := vk.New(t, "C06", "cache layer, plain forms: seeded histories of Set(current value)/SetWithExpire/Get/Take/TakeWithExpire/put+Del/remove+Del (0,1,many keys, spanning cluster nodes)/FastForward over 6 keys on a node and a 3-node cluster: a value handed out == the reference map's current value; a missing value => error with IsNotFound true (also from the placeholder, with 0 database queries while it lives); TTL read back from miniredis after every store within [ceil(.95e),ceil(1.05e)] s")
	defer m.Done()
	mrs, err := c06ApiEnv()
	if err != nil {
		m.Inconclusive("env: %v", err)
		return
	}
	errNF := errors.New("c06 api: not found")
	n := vk.N(80, 3000)
	counts := map[string]int64{}
	for idx := 1; idx <= n; idx++ {
		if !m.Only(idx) {
			continue
		}
		r := m.Rand("api", idx)
		for _, mr := range mrs {
			mr.FlushAll()
		}
		expire := []int{7, 10, 30, 90}[r.Intn(4)]
		nfe := []int{3, 7, 10}[r.Intn(3)]
		topo := []string{"node", "cluster3"}[r.Intn(2)]
		opts := []Option{WithExpire(time.Duration(expire) * time.Second), WithNotFoundExpire(time.Duration(nfe) * time.Second)}
		var c Cache
		if topo == "node" {
			c = NewNode(redis.New(mrs[0].Addr()), syncx.NewSingleFlight(), c06ApiStat, errNF, opts...)
		} else {
			var conf Config
			for _, mr := range mrs {
				conf = append(conf, NodeConfig{Config: redis.Config{Host: mr.Addr(), Type: redis.NodeType}, Weight: []int{100, 40, 250}[r.Intn(3)]})
			}
			c = New(conf, syncx.NewSingleFlight(), c06ApiStat, errNF, opts...)
		}
		prefix := fmt.Sprintf("c06a%d:", idx)
		key := func(k int) string { return fmt.Sprintf("%sk%d", prefix, k) }
		db := map[int]c06Val{}
		queries := 0
		memo := map[int]bool{} // a not-found placeholder for k is certainly live
		var ops []c06ApiOp
		desc := func() string {
			return fmt.Sprintf("case=%d;%s", idx, vk.JSON(map[string]any{"topo": topo, "expire_s": expire, "notfound_expire_s": nfe, "ops": ops}))
		}
		ttlOf := func(k string) time.Duration {
			var d time.Duration
			for _, mr := range mrs {
				if mr.Exists(k) {
					d = mr.TTL(k)
				}
			}
			return d
		}
		stored := func(k string) bool {
			for _, mr := range mrs {
				if mr.Exists(k) {
					return true
				}
			}
			return false
		}
		checkTTL := func(what, k string, base int) bool {
			if !stored(k) {
				// nothing was stored: no promise of the statement is about that (counted only)
				counts["store_missing"]++
				return true
			}
			secs := int64(ttlOf(k) / time.Second)
			lo, hi := c06ApiBounds(base)
			counts["ttl_checked"]++
			if ttlOf(k) == 0 {
				m.Violate("C06:ttl:no-expiry:api", desc(), "%s: %s stored without expiry", what, k)
				return false
			}
			if ttlOf(k)%time.Second != 0 || secs < lo || secs > hi {
				m.Violate("C06:ttl:out-of-range:api:"+what, desc(), "%s: %s has TTL %v; base %d s allows [%d,%d] s", what, k, ttlOf(k), base, lo, hi)
				return false
			}
			return true
		}
		// checkValue: what a read handed out vs the reference
		checkValue := func(what string, k int, got c06Val, err error) bool {
			want, exists := db[k]
			switch {
			case err == nil && exists && got == want:
				counts["reads_ok_value"]++
			case err == nil && exists:
				m.Violate("C06:coherence:stale-read:api:"+what, desc(), "%s(%s) returned %+v, reference has %+v", what, key(k), got, want)
				return false
			case err == nil:
				m.Violate("C06:coherence:phantom-row:api:"+what, desc(), "%s(%s) returned %+v, reference has nothing", what, key(k), got)
				return false
			case !c.IsNotFound(err):
				m.Violate("C06:read:unexpected-error:api:"+what, desc(), "%s(%s) returned error %v (IsNotFound=false) with redis healthy", what, key(k), err)
				return false
			case exists && what != "Get":
				m.Violate("C06:coherence:not-found-for-existing-row:api:"+what, desc(), "%s(%s) reported not-found, reference has %+v", what, key(k), want)
				return false
			default:
				counts["reads_ok_notfound"]++ // Get: a miss is always legal
			}
			return true
		}
		ver := int64(0)
		ok := true
		for step := 0; step < 60 && ok; step++ {
			k := r.Intn(6)
			x := r.Intn(100)
			var op c06ApiOp
			switch {
			case x < 18:
				op = c06ApiOp{Op: "Get", K: k}
			case x < 36:
				op = c06ApiOp{Op: "Take", K: k}
			case x < 46:
				op = c06ApiOp{Op: "TakeWithExpire", K: k}
			case x < 56:
				op = c06ApiOp{Op: "Set", K: k}
			case x < 64:
				op = c06ApiOp{Op: "SetWithExpire", K: k, D: 2 + r.Intn(40)}
			case x < 80:
				op = c06ApiOp{Op: "put+Del", K: k, N: []int{1, 1, 2, 4, 6}[r.Intn(5)]}
			case x < 88:
				op = c06ApiOp{Op: "remove+Del", K: k, N: 1 + r.Intn(3)}
			case x < 91:
				op = c06ApiOp{Op: "Del0"}
			default:
				op = c06ApiOp{Op: "ff", D: []int{1, nfe + 2, expire + expire/10 + 2}[r.Intn(3)]}
			}
			if _, exists := db[op.K]; !exists && (op.Op == "Set" || op.Op == "SetWithExpire") {
				op.Op = "Take"
			}
			ops = append(ops, op)
			counts["op_"+op.Op]++
			q0 := queries
			query := func(v any) error {
				queries++
				cur, exists := db[op.K]
				if !exists {
					return errNF
				}
				*v.(*c06Val) = cur
				return nil
			}
			switch op.Op {
			case "Get":
				var got c06Val
				err := c.Get(key(op.K), &got)
				ok = checkValue("Get", op.K, got, err)
			case "Take":
				var got c06Val
				err := c.Take(&got, key(op.K), query)
				ok = checkValue("Take", op.K, got, err)
				if ok && memo[op.K] && queries != q0 {
					m.Violate("C06:memo:db-queried-while-placeholder-live:api", desc(), "Take(%s) queried the database although the not-found placeholder is live", key(op.K))
					ok = false
				}
				if ok && queries != q0 {
					if _, exists := db[op.K]; exists {
						ok = checkTTL("Take", key(op.K), expire)
					} else {
						ok = checkTTL("Take-placeholder", key(op.K), nfe)
						memo[op.K] = ok && stored(key(op.K))
					}
				}
			case "TakeWithExpire":
				var got c06Val
				var given time.Duration
				err := c.TakeWithExpire(&got, key(op.K), func(v any, e time.Duration) error {
					given = e
					return query(v)
				})
				ok = checkValue("TakeWithExpire", op.K, got, err)
				if ok && memo[op.K] && queries != q0 {
					m.Violate("C06:memo:db-queried-while-placeholder-live:api", desc(), "TakeWithExpire(%s) queried the database although the not-found placeholder is live", key(op.K))
					ok = false
				}
				if ok && queries != q0 {
					if _, exists := db[op.K]; exists {
						ok = checkTTL("TakeWithExpire", key(op.K), expire)
						if ok && stored(key(op.K)) && int64((given+time.Second-1)/time.Second) != int64(ttlOf(key(op.K))/time.Second) {
							m.Violate("C06:ttl:callback-expire-differs-from-stored", desc(), "TakeWithExpire(%s): callback was told %v, stored TTL is %v", key(op.K), given, ttlOf(key(op.K)))
							ok = false
						}
					} else {
						ok = checkTTL("Take-placeholder", key(op.K), nfe)
						memo[op.K] = ok && stored(key(op.K))
					}
				}
			case "Set":
				if err := c.Set(key(op.K), db[op.K]); err != nil {
					m.Violate("C06:read:unexpected-error:api:Set", desc(), "Set(%s) returned %v", key(op.K), err)
					ok = false
					break
				}
				delete(memo, op.K)
				ok = checkTTL("Set", key(op.K), expire)
			case "SetWithExpire":
				if err := c.SetWithExpire(key(op.K), db[op.K], time.Duration(op.D)*time.Second-300*time.Millisecond); err != nil {
					m.Violate("C06:read:unexpected-error:api:SetWithExpire", desc(), "SetWithExpire(%s) returned %v", key(op.K), err)
					ok = false
					break
				}
				delete(memo, op.K)
				// explicit expiry d-0.3 s must be rounded UP to d whole seconds
				counts["ttl_checked"]++
				if got := ttlOf(key(op.K)); stored(key(op.K)) && got != time.Duration(op.D)*time.Second {
					m.Violate("C06:ttl:explicit-expiry-not-rounded-up", desc(), "SetWithExpire(%s, %v): stored TTL %v, want %d s", key(op.K), time.Duration(op.D)*time.Second-300*time.Millisecond, got, op.D)
					ok = false
				}
			case "put+Del", "remove+Del":
				var keys []string
				for i := 0; i < op.N; i++ {
					kk := (op.K + i) % 6
					if op.Op == "put+Del" {
						ver++
						db[kk] = c06Val{K: key(kk), V: ver}
					} else {
						delete(db, kk)
					}
					delete(memo, kk)
					keys = append(keys, key(kk))
				}
				if err := c.Del(keys...); err != nil {
					counts["del_errors"]++
				}
				counts["keys_deleted"] += int64(len(keys))
			case "Del0":
				_ = c.Del()
			case "ff":
				for _, mr := range mrs {
					mr.FastForward(time.Duration(op.D) * time.Second)
				}
				memo = map[int]bool{}
			}
		}
		// IsNotFound must recognise exactly the configured error
		if ok && (!c.IsNotFound(errNF) || c.IsNotFound(errors.New("other"))) {
			m.Violate("C06:api:is-not-found", desc(), "IsNotFound(errNotFound)=%v IsNotFound(other)=%v", c.IsNotFound(errNF), c.IsNotFound(errors.New("other")))
		}
		m.Case(vk.Digest(vk.JSON(ops), topo), counts["reads_ok_value"] > 0)
		if m.WantSample() && idx%17 == 1 {
			short := ops
			if len(short) > 10 {
				short = short[:10]
			}
			m.Sample(map[string]any{"topo": topo, "expire_s": expire, "first_10_ops": short, "db_queries": queries})
		}
	}
	for k, v := range counts {
		m.Count(k, v)
	}
}

// TestVerifC06BulkDel: one write invalidates very many keys in a single Del call. Every
// named key must be gone from redis afterwards (redis healthy: nothing may be left to a
// retry), so that the next Take returns the database's current value. State-based oracle:
// it does not care how the implementation batches the DEL commands.
func TestVerifC06BulkDel(t *testing.T) {
	m := vk.New(t, "C06", "bulk invalidation: Del of n keys in one call, n in {0,1,2,255,256,257,1023,1024,1025,2048,2049,2050,3000}, on a node, a cluster-type node (per-key deletes) and a 3-node weighted cluster, every key cached with an old value beforehand: afterwards no named key may still be in redis and Take of a sample of them (first, last, every boundary index) must return the reference's current value")
	defer m.Done()
	mrs, err := c06ApiEnv()
	if err != nil {
		m.Inconclusive("env: %v", err)
		return
	}
	errNF := errors.New("c06 bulk: not found")
	counts := []int{0, 1, 2, 255, 256, 257, 1023, 1024, 1025, 2048, 2049, 2050, 3000}
	if vk.Thorough() {
		counts = append(counts, 4095, 4096, 4097, 10000)
	}
	idx := 0
	for _, world := range []string{"node", "clustertype", "cluster3"} {
		for _, n := range counts {
			idx++
			if !m.Only(idx) {
				continue
			}
			for _, mr := range mrs {
				mr.FlushAll()
			}
			var c Cache
			home := func(string) *miniredis.Miniredis { return mrs[0] }
			switch world {
			case "node":
				c = NewNode(redis.New(mrs[0].Addr()), syncx.NewSingleFlight(), c06ApiStat, errNF)
			case "clustertype":
				c = NewNode(redis.New(mrs[0].Addr(), redis.WithCluster()), syncx.NewSingleFlight(), c06ApiStat, errNF)
			default:
				var conf Config
				for i, mr := range mrs {
					conf = append(conf, NodeConfig{Config: redis.Config{Host: mr.Addr(), Type: redis.NodeType}, Weight: []int{100, 40, 250}[i]})
				}
				c = New(conf, syncx.NewSingleFlight(), c06ApiStat, errNF)
				cl, ok := c.(cluster)
				if !ok {
					m.Skip("cache.New with 3 nodes did not return a cluster")
					continue
				}
				byAddr := map[string]*miniredis.Miniredis{}
				for _, mr := range mrs {
					byAddr[mr.Addr()] = mr
				}
				home = func(k string) *miniredis.Miniredis {
					nd, ok := cl.dispatcher.Get(k)
					if !ok {
						return nil
					}
					return byAddr[nd.(node).rds.Addr]
				}
			}
			desc := fmt.Sprintf("case=%d;%s", idx, vk.JSON(map[string]any{"world": world, "keys": n}))
			m.Current(desc)
			keys := make([]string, n)
			perNode := map[*miniredis.Miniredis]int{}
			for i := range keys {
				keys[i] = fmt.Sprintf("c06b%d:k%05d", idx, i)
				h := home(keys[i])
				if h == nil {
					m.Skip("cluster dispatcher returned no node")
					continue
				}
				perNode[h]++
				_ = h.Set(keys[i], `{"k":"old","v":1}`) // the entry cached before the write
			}
			// the write: the reference moves on, then every affected key is named in ONE call
			cur := func(i int) c06Val { return c06Val{K: keys[i], V: 2} }
			if err := c.Del(keys...); err != nil {
				m.Count("del_errors", 1)
			}
			m.Count("keys_named", int64(n))
			bad := false
			for i, k := range keys {
				if home(k).Exists(k) {
					m.Violate("C06:coherence:named-key-not-deleted:"+world, desc, "Del named %d keys in one call; key #%d (%s) is still cached with the old value although redis is healthy (nothing was handed to a retry that could remove it later either: no DEL for it reached redis)", n, i, k)
					bad = true
					break
				}
			}
			// reads of boundary keys after the completed write
			var sample []int
			for _, i := range []int{0, 1, 255, 256, 1023, 1024, 1025, 2047, 2048, 2049, n - 1} {
				if i >= 0 && i < n {
					sample = append(sample, i)
				}
			}
			for _, i := range sample {
				if bad {
					break
				}
				var got c06Val
				err := c.Take(&got, keys[i], func(v any) error {
					*v.(*c06Val) = cur(i)
					return nil
				})
				m.Count("reads_after_bulk_del", 1)
				if err != nil || got != cur(i) {
					m.Violate("C06:coherence:stale-read:api:Take:after-bulk-del", desc, "Take(%s) after the write naming %d keys returned %+v err=%v, reference has %+v", keys[i], n, got, err, cur(i))
					bad = true
				}
			}
			m.Max("max_keys_on_one_node", int64(func() int {
				mx := 0
				for _, v := range perNode {
					if v > mx {
						mx = v
					}
				}
				return mx
			}()))
			m.Case(desc, n > 0)
			if m.WantSample() && (n == 1025 || n == 3000) {
				m.Sample(map[string]any{"world": world, "keys_named": n, "keys_left_in_redis": 0, "reads_checked": len(sample)})
			}
		}
	}
}
