//go:build verif

package redis_test

// C12 — configurations: whatever redis.Config says (Type node/cluster, Pass, Tls)
// must arrive at the instance that Config.NewRedis builds and at the nodes that
// kv.New builds from a kv.Config: for all 2^3 combinations a miniredis of exactly
// that flavour (plain or TLS listener, with or without AUTH) is started twice (A
// for the wrapper, B for go-redis); the store built from the configuration and a
// go-redis client built from the same settings run the same short command script;
// transcripts and final key states must be equal. Additionally the fields of the
// constructed *Redis are compared with the configuration (Addr, Type, Pass
// exported; tls read through reflect, skipped if the field is renamed).

import (
	"context"
	"crypto/ecdsa"
	"crypto/elliptic"
	"crypto/rand"
	"crypto/tls"
	"crypto/x509"
	"crypto/x509/pkix"
	"fmt"
	"math/big"
	"reflect"
	"strings"
	"testing"
	"time"

	"github.com/alicebob/miniredis/v2"
	red "github.com/go-redis/redis/v8"
	"github.com/gotid/god/lib/logx"
	"github.com/gotid/god/lib/store/cache"
	"github.com/gotid/god/lib/store/kv"
	"github.com/gotid/god/lib/store/redis"
	"verif.local/vk"
)

func c12SelfSigned() (*tls.Config, error) {
	key, err := ecdsa.GenerateKey(elliptic.P256(), rand.Reader)
	if err != nil {
		return nil, err
	}
	tmpl := &x509.Certificate{SerialNumber: big.NewInt(12), Subject: pkix.Name{CommonName: "c12"},
		NotBefore: time.Now().Add(-time.Hour), NotAfter: time.Now().Add(24 * time.Hour),
		KeyUsage: x509.KeyUsageDigitalSignature, ExtKeyUsage: []x509.ExtKeyUsage{x509.ExtKeyUsageServerAuth}}
	der, err := x509.CreateCertificate(rand.Reader, tmpl, tmpl, &key.PublicKey, key)
	if err != nil {
		return nil, err
	}
	return &tls.Config{Certificates: []tls.Certificate{{Certificate: [][]byte{der}, PrivateKey: key}}}, nil
}

// c12MiniAPI: what redis.Redis and kv.Store have in common for the script.
type c12MiniAPI interface {
	Set(key, value string) error
	Get(key string) (string, error)
	HSet(key, field, value string) error
	HGet(key, field string) (string, error)
	Incr(key string) (int64, error)
	Exists(key string) (bool, error)
	Del(keys ...string) (int, error)
	SetEx(key, value string, seconds int) error
	TTL(key string) (int, error)
}

var c12CfgKeys = []string{"cfg-s", "cfg-h", "cfg-n", "cfg-t", "cfg-absent"}

func c12CfgScriptWrapper(a c12MiniAPI) []string {
	var out []string
	rec := func(v any, err error) { out = append(out, c12Canon(v)+" "+c12ErrClassNoAddr(err)) }
	rec(nil, a.Set("cfg-s", "v1"))
	rec(a.Get("cfg-s"))
	rec(a.Get("cfg-absent"))
	rec(nil, a.HSet("cfg-h", "f", "1"))
	rec(a.HGet("cfg-h", "f"))
	rec(a.HGet("cfg-h", "nofield"))
	rec(a.Incr("cfg-n"))
	rec(a.Incr("cfg-n"))
	rec(a.Incr("cfg-s")) // not an integer: server error reply
	rec(a.Exists("cfg-n"))
	rec(nil, a.SetEx("cfg-t", "x", 30))
	rec(a.TTL("cfg-t"))
	rec(a.Del("cfg-s"))
	rec(a.Exists("cfg-s"))
	return out
}

func c12CfgScriptRef(c red.Cmdable) []string {
	ctx := context.Background()
	var out []string
	rec := func(v any, err error) { out = append(out, c12Canon(v)+" "+c12ErrClassNoAddr(err)) }
	swallow := func(v string, err error) (string, error) {
		if err == red.Nil {
			return "", nil
		}
		return v, err
	}
	rec(nil, c.Set(ctx, "cfg-s", "v1", 0).Err())
	rec(swallow(c.Get(ctx, "cfg-s").Result()))
	rec(swallow(c.Get(ctx, "cfg-absent").Result()))
	rec(nil, c.HSet(ctx, "cfg-h", "f", "1").Err())
	rec(c.HGet(ctx, "cfg-h", "f").Result())
	rec(c.HGet(ctx, "cfg-h", "nofield").Result())
	rec(c.Incr(ctx, "cfg-n").Result())
	rec(c.Incr(ctx, "cfg-n").Result())
	rec(c.Incr(ctx, "cfg-s").Result())
	n, err := c.Exists(ctx, "cfg-n").Result()
	rec(n == 1, err)
	rec(nil, c.Set(ctx, "cfg-t", "x", 30*time.Second).Err())
	d, err := c.TTL(ctx, "cfg-t").Result()
	if d >= 0 {
		d /= time.Second
	}
	rec(int(d), err)
	n, err = c.Del(ctx, "cfg-s").Result()
	rec(int(n), err)
	n, err = c.Exists(ctx, "cfg-s").Result()
	rec(n == 1, err)
	return out
}

// error class without the server address (transport errors name it)
func c12ErrClassNoAddr(err error) string {
	c := c12ErrClass(err)
	if strings.HasPrefix(c, "error: ") && !strings.HasPrefix(c, "error: ERR") && !strings.HasPrefix(c, "error: WRONGTYPE") && !strings.HasPrefix(c, "error: NOAUTH") {
		return "error: <transport> " + fmt.Sprintf("%T", err)
	}
	return c
}

func TestVerifC12ConfigMatrix(t *testing.T) {
	logx.Disable()
	m := vk.New(t, "C12", "configuration matrix: Type{node,cluster} x Pass{none,set} x Tls{off,on}: miniredis of that flavour (TLS listener / AUTH) twice; Config.NewRedis() and kv.New(kv.Config{that node}) run a 14-command script, go-redis built from the same settings runs it on the twin; transcripts and final key states equal; fields of the constructed *Redis equal the configuration")
	defer m.Done()
	srvTLS, err := c12SelfSigned()
	if err != nil {
		m.Inconclusive("cannot create a self-signed certificate: %v", err)
		return
	}
	idx := 0
	for _, typ := range []string{redis.NodeType, redis.ClusterType} {
		for _, pass := range []string{"", "c12-cfg-secret"} {
			for _, useTLS := range []bool{false, true} {
				for _, who := range []string{"NewRedis", "kv.New"} {
					idx++
					if !m.Only(idx) {
						continue
					}
					combo := fmt.Sprintf("type=%s,pass=%v,tls=%v", typ, pass != "", useTLS)
					scen := fmt.Sprintf("case=%d;config;%s;%s", idx, who, combo)
					m.Current(scen)
					start := func() (*miniredis.Miniredis, error) {
						var s *miniredis.Miniredis
						var err error
						if useTLS {
							s, err = miniredis.RunTLS(srvTLS)
						} else {
							s, err = miniredis.Run()
						}
						if err == nil && pass != "" {
							s.RequireAuth(pass)
						}
						return s, err
					}
					a, err := start()
					if err != nil {
						m.Inconclusive("cannot start miniredis (%s): %v", combo, err)
						return
					}
					b, err := start()
					if err != nil {
						a.Close()
						m.Inconclusive("cannot start miniredis (%s): %v", combo, err)
						return
					}
					var cliTLS *tls.Config
					if useTLS {
						cliTLS = &tls.Config{InsecureSkipVerify: true}
					}
					var ref red.UniversalClient
					if typ == redis.ClusterType {
						ref = red.NewClusterClient(&red.ClusterOptions{Addrs: []string{b.Addr()}, Password: pass, TLSConfig: cliTLS})
					} else {
						ref = red.NewClient(&red.Options{Addr: b.Addr(), Password: pass, TLSConfig: cliTLS})
					}
					want := c12CfgScriptRef(ref)
					_ = ref.Close()
					usable := !strings.Contains(want[0], "error")
					if !usable {
						// go-redis itself cannot use this flavour of miniredis (e.g. cluster over TLS): nothing to compare
						m.Skip(fmt.Sprintf("config %s: the go-redis reference client cannot talk to miniredis in this flavour (%s)", combo, want[0]))
						a.Close()
						b.Close()
						continue
					}
					conf := redis.Config{Host: a.Addr(), Type: typ, Pass: pass, Tls: useTLS}
					var api c12MiniAPI
					if who == "NewRedis" {
						r := conf.NewRedis()
						api = r
						// the configuration must arrive at the instance unchanged
						if r.Addr != conf.Host || r.Type != conf.Type || r.Pass != conf.Pass {
							m.Violate("C12:config:NewRedis:fields", scen, "Config%+v built Redis{Addr:%q Type:%q Pass:%q}", conf, r.Addr, r.Type, r.Pass)
						}
						if f := reflect.ValueOf(r).Elem().FieldByName("tls"); f.IsValid() && f.Kind() == reflect.Bool {
							if f.Bool() != conf.Tls {
								m.Violate("C12:config:NewRedis:field-tls", scen, "Config{Tls:%v, Pass set:%v, Type:%s}.NewRedis() built an instance with tls=%v", conf.Tls, pass != "", typ, f.Bool())
							}
							m.Count("field_checks", 1)
						} else {
							m.Skip("Redis.tls not found by reflection: field check skipped")
						}
					} else {
						api = kv.New(kv.Config{cache.NodeConfig{Config: conf, Weight: 100}})
					}
					got := c12CfgScriptWrapper(api)
					if fmt.Sprint(got) != fmt.Sprint(want) {
						for i := range want {
							if i >= len(got) || got[i] != want[i] {
								g := "<missing>"
								if i < len(got) {
									g = got[i]
								}
								m.Violate("C12:config:"+who+":"+combo, scen, "store built from Config{Host, Type:%s, Pass set:%v, Tls:%v}: command #%d of the script gives %s, a go-redis client with the same settings gives %s", typ, pass != "", useTLS, i+1, g, want[i])
								break
							}
						}
					} else {
						for _, k := range c12CfgKeys {
							if sa, sb := c12SnapKey(a, k), c12SnapKey(b, k); sa != sb {
								m.Violate("C12:config:"+who+":"+combo+":state", scen, "key %q is [%s] behind the store, [%s] behind go-redis", k, sa, sb)
								break
							}
						}
					}
					m.Count("configurations_compared", 1)
					m.Count("script_commands_compared", int64(len(want)))
					m.Case(who+"/"+combo, true)
					a.Close()
					b.Close()
				}
			}
		}
	}
	m.Sample(map[string]any{"combinations": 8, "constructors": []string{"redis.Config.NewRedis", "kv.New"}, "script_commands": 14})
}
