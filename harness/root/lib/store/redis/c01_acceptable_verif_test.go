//go:build verif

package redis

// C01 — benign-outcome table of the Redis integration (DESIGN.md §3 C01 (f)).
// A real *Redis from New(addr) against miniredis; its real breaker is kept and
// only wrapped by a transparent spy that notes whether the protected function ran
// and what the package's acceptable-predicate answered for the error it saw.

import (
	"context"
	"errors"
	"fmt"
	"reflect"
	"sort"
	"strings"
	"testing"
	"time"

	"github.com/alicebob/miniredis/v2"
	red "github.com/go-redis/redis/v8"
	"github.com/gotid/god/lib/breaker"
	"github.com/gotid/god/lib/logx"
	"github.com/gotid/god/lib/stat"
	"github.com/gotid/god/lib/timex"
	"verif.local/vk"
)

type c01Spy struct {
	breaker.Breaker
	ran      int
	verdicts int
	lastErr  error
	lastAcc  bool
}

// every Do* form is forwarded to the same form of the real breaker; the spy notes
// whether req ran, what it returned and the verdict of the predicate in effect
// (err == nil for the forms without a predicate).
func (s *c01Spy) wrapReq(req func() error, note bool) func() error {
	return func() error {
		s.ran++
		err := req()
		if note {
			s.verdicts++
			s.lastErr = err
			s.lastAcc = err == nil
		}
		return err
	}
}

func (s *c01Spy) wrapAcc(acc breaker.Acceptable) breaker.Acceptable {
	return func(err error) bool {
		s.verdicts++
		s.lastErr = err
		s.lastAcc = acc(err)
		return s.lastAcc
	}
}

func (s *c01Spy) Do(req func() error) error { return s.Breaker.Do(s.wrapReq(req, true)) }
func (s *c01Spy) DoWithAcceptable(req func() error, acc breaker.Acceptable) error {
	return s.Breaker.DoWithAcceptable(s.wrapReq(req, false), s.wrapAcc(acc))
}
func (s *c01Spy) DoWithFallback(req func() error, fb func(error) error) error {
	return s.Breaker.DoWithFallback(s.wrapReq(req, true), fb)
}
func (s *c01Spy) DoWithFallbackAcceptable(req func() error, fb func(error) error, acc breaker.Acceptable) error {
	return s.Breaker.DoWithFallbackAcceptable(s.wrapReq(req, false), fb, s.wrapAcc(acc))
}

var c01PipeCalls int

// c01Pipeline sends one pipeline (alternating Pipelined / PipelinedCtx) with one
// command per key; variant picks the command mix.
func c01Pipeline(r *Redis, variant int, keys ...string) error {
	ctx := context.Background()
	body := func(p Pipeliner) error {
		for i, k := range keys {
			switch {
			case variant == 1 && i%4 == 1:
				p.HGet(ctx, k, "f")
			case variant == 1 && i%4 == 2:
				p.LPop(ctx, k)
			case variant == 1 && i%4 == 3:
				p.ZScore(ctx, k, "m")
			default:
				p.Get(ctx, k)
			}
		}
		return nil
	}
	c01PipeCalls++
	if c01PipeCalls%2 == 0 {
		return r.Pipelined(body)
	}
	return r.PipelinedCtx(ctx, body)
}

// c01OnlyNil: the outcome consists of nothing but redis.Nil replies (whatever the
// carrier: the value itself or a batch whose every line is redis.Nil's text), or no error.
func c01OnlyNil(err error) bool {
	if err == nil || err == red.Nil {
		return true
	}
	for _, line := range strings.Split(err.Error(), "\n") {
		if line != red.Nil.Error() {
			return false
		}
	}
	return true
}

func TestVerifC01RedisBenignTable(t *testing.T) {
	m := vk.New(t, "C01", "redis.Redis (New(addr) against miniredis, real breaker behind a transparent spy, virtual clock frozen): predicate table {nil, redis.Nil, context.Canceled => true; ERR reply, context.DeadlineExceeded, io error => false}; rows on a fresh Redis each: Set/Get hit (nil), Get/Hget miss (redis.Nil), GetCtx with cancelled context (context.Canceled), Pipelined/PipelinedCtx with 1, 2, 5 misses and hits+misses (only redis.Nil replies) x150 => the command path always runs; ERR replies (single commands and pipelines) / expired context x400 => at least one call short-circuited with ErrServiceUnavailable; 10000 mixed benign calls => 0 rejections; non-trivial = row completed (benign) / rejected (failing)")
	defer m.Done()
	logx.Disable()
	stat.SetReporter(nil)
	timex.VerifFakeClock(1000*time.Hour + time.Duration(m.Rand("clock").Int63n(int64(time.Hour))))
	defer timex.VerifRealClock()
	r := m.Rand("redis")
	perBenign := vk.N(150, 2000)
	perBad := vk.N(400, 3000)

	// ---- predicate table
	for _, row := range []struct {
		name string
		err  error
		want bool
	}{
		{"nil", nil, true},
		{"redis.Nil", red.Nil, true},
		{"context.Canceled", context.Canceled, true},
		{"ERR-reply", errors.New("ERR c01"), false},
		{"context.DeadlineExceeded", context.DeadlineExceeded, false},
	} {
		m.Count("predicate_evaluations", 1)
		if got := acceptable(row.err); got != row.want {
			cls := "nonbenign"
			if row.want {
				cls = "benign"
			}
			m.Violate("C01:"+cls+":redis:"+row.name+":predicate", "case=0;acceptable("+row.name+")", "acceptable(%v) = %v, want %v", row.err, got, row.want)
		}
	}

	type env struct {
		s   *miniredis.Miniredis
		r   *Redis
		spy *c01Spy
	}
	var envs []*env
	defer func() {
		for _, e := range envs {
			e.s.Close()
		}
	}()
	newEnv := func() *env {
		s, err := miniredis.Run()
		if err != nil {
			m.Inconclusive("miniredis did not start: %v", err)
			return nil
		}
		e := &env{s: s, r: New(s.Addr())}
		e.spy = &c01Spy{Breaker: e.r.brk}
		e.r.brk = e.spy
		_ = s.Set("present", "v")
		envs = append(envs, e)
		return e
	}
	cancelled, cancel := context.WithCancel(context.Background())
	cancel()
	expired, cancel2 := context.WithDeadline(context.Background(), time.Now().Add(-time.Hour))
	defer cancel2()

	type op struct {
		name    string
		benign  bool
		wantErr func(error) bool // what the predicate must have seen for the row to count as exercising the class
		do      func(e *env) error
	}
	ops := []op{
		{"hit:nil", true, func(err error) bool { return err == nil }, func(e *env) error { _, err := e.r.Get("present"); return err }},
		{"set:nil", true, func(err error) bool { return err == nil }, func(e *env) error { return e.r.Set("k", "v") }},
		{"get-miss:nil-or-redis.Nil", true, func(err error) bool { return err == nil || err == red.Nil }, func(e *env) error { _, err := e.r.Get("absent"); return err }},
		{"hget-miss:redis.Nil", true, func(err error) bool { return err == red.Nil }, func(e *env) error { _, err := e.r.HGet("absent", "f"); return err }},
		{"lpop-empty:redis.Nil", true, func(err error) bool { return err == red.Nil }, func(e *env) error { _, err := e.r.LPop("absent"); return err }},
		// pipelines on a healthy server whose commands only miss (and hit): every reply is redis.Nil or a value
		{"pipeline-1-miss:redis.Nil", true, c01OnlyNil, func(e *env) error { return c01Pipeline(e.r, 0, "absent1") }},
		{"pipeline-2-misses:redis.Nil", true, c01OnlyNil, func(e *env) error { return c01Pipeline(e.r, 0, "absent1", "absent2") }},
		{"pipeline-5-misses-mixed-commands:redis.Nil", true, c01OnlyNil, func(e *env) error { return c01Pipeline(e.r, 1, "absent1", "absent2", "absent3", "absent4", "absent5") }},
		{"pipeline-hits-and-3-misses:redis.Nil", true, c01OnlyNil, func(e *env) error { return c01Pipeline(e.r, 2, "present", "absent1", "absent2", "present", "absent3") }},
		{"cancelled-context:context.Canceled", true, func(err error) bool { return err == context.Canceled }, func(e *env) error { _, err := e.r.GetCtx(cancelled, "present"); return err }},
		{"ERR-reply", false, func(err error) bool { return err != nil }, func(e *env) error { _, err := e.r.Get("present"); return err }},
		{"pipeline-ERR-replies", false, func(err error) bool { return err != nil }, func(e *env) error { return c01Pipeline(e.r, 0, "present", "absent1") }},
		{"wrong-type-reply", false, func(err error) bool { return err != nil }, func(e *env) error { _, err := e.r.HGet("present", "f"); return err }},
		{"expired-context:context.DeadlineExceeded", false, func(err error) bool { return err == context.DeadlineExceeded }, func(e *env) error { _, err := e.r.GetCtx(expired, "present"); return err }},
	}
	var benignOps []op
	for idx, o := range ops {
		e := newEnv()
		if e == nil {
			return
		}
		if o.name == "ERR-reply" || o.name == "pipeline-ERR-replies" {
			e.s.SetError("ERR c01 injected")
		}
		desc := fmt.Sprintf("case=%d;%s on a fresh Redis", idx+1, o.name)
		classSeen := 0
		if o.benign {
			okRow := true
			for i := 0; i < perBenign; i++ {
				before, vb := e.spy.ran, e.spy.verdicts
				got := o.do(e)
				m.Count("calls_benign", 1)
				if e.spy.ran == before {
					m.Violate("C01:benign:redis:"+o.name+":rejected", desc, "call #%d short-circuited (%v) after only %s outcomes", i, got, o.name)
					okRow = false
					break
				}
				if e.spy.verdicts > vb {
					if o.wantErr(e.spy.lastErr) {
						classSeen++
						if !e.spy.lastAcc {
							m.Violate("C01:benign:redis:"+o.name+":predicate", desc, "acceptable answered false for %v", e.spy.lastErr)
							okRow = false
							break
						}
					} else if i == 0 {
						m.Note("row %s: the client reported %v instead of the intended error class; row not counted", o.name, e.spy.lastErr)
					}
				}
			}
			if classSeen == 0 {
				m.Skip("redis row " + o.name + ": intended error class never observed")
				okRow = false
			} else {
				benignOps = append(benignOps, o)
			}
			m.Count("benign_outcomes_of_intended_class", int64(classSeen))
			m.Case("benign-"+o.name, okRow)
			continue
		}
		rej, first := 0, -1
		bad := false
		for i := 0; i < perBad; i++ {
			before, vb := e.spy.ran, e.spy.verdicts
			got := o.do(e)
			m.Count("calls_failing", 1)
			if e.spy.ran > before && got == breaker.ErrServiceUnavailable {
				m.Violate("C01:reject:req-ran", desc, "call #%d ran the protected function and still returned ErrServiceUnavailable", i)
				bad = true
				break
			}
			if e.spy.ran == before {
				rej++
				if first < 0 {
					first = i
				}
				if got != breaker.ErrServiceUnavailable {
					m.Violate("C01:reject:redis:wrong-error", desc, "short-circuited call #%d returned %v", i, got)
					bad = true
					break
				}
				continue
			}
			if e.spy.verdicts > vb && o.wantErr(e.spy.lastErr) {
				classSeen++
				if e.spy.lastAcc {
					m.Violate("C01:nonbenign:redis:"+o.name+":predicate", desc, "acceptable answered true for %v", e.spy.lastErr)
					bad = true
					break
				}
			}
		}
		m.Count("calls_rejected", int64(rej))
		if classSeen == 0 && !bad {
			m.Skip("redis row " + o.name + ": intended error class never observed")
		} else if !bad && rej == 0 {
			m.Violate("C01:nonbenign:redis:"+o.name+":never-cut-off", desc, "%d consecutive %s outcomes and the command ran every time", perBad, o.name)
		}
		m.Case("failing-"+o.name, rej > 0)
		m.Sample(map[string]any{"scenario": fmt.Sprintf("%s x%d", o.name, perBad), "short_circuited": rej, "first_at_call": first, "last_error_seen_by_predicate": fmt.Sprint(e.spy.lastErr)})
	}
	if len(benignOps) > 0 {
		e := newEnv()
		if e == nil {
			return
		}
		n := vk.N(10000, 100000)
		for i := 0; i < n; i++ {
			o := benignOps[r.Intn(len(benignOps))]
			before := e.spy.ran
			got := o.do(e)
			m.Count("calls_benign_mixed", 1)
			if e.spy.ran == before {
				m.Violate("C01:benign:redis:mixed:rejected", "case=100;mixed benign calls on one Redis", "call #%d (%s) short-circuited (%v)", i, o.name, got)
				break
			}
		}
		m.Case("mixed-benign", true)
	}
	// sustained mix of benign and failing outcomes below the trip threshold (outcomes counted by what the
	// package's predicate answered, as seen by the spy): nothing may be rejected while total-5 <= 1.5*accepts
	var failingOps []op
	for _, o := range ops {
		if o.name == "wrong-type-reply" || o.name == "expired-context:context.DeadlineExceeded" {
			failingOps = append(failingOps, o)
		}
	}
	for _, share := range []int{10, 30} {
		if len(benignOps) == 0 || len(failingOps) == 0 {
			break
		}
		e := newEnv()
		if e == nil {
			return
		}
		n := vk.N(3000, 20000)
		var acc, tot int64
		okRow := true
		for i := 0; i < n; i++ {
			o := benignOps[r.Intn(len(benignOps))]
			if r.Intn(100) < share {
				o = failingOps[r.Intn(len(failingOps))]
			}
			must := 2*(tot-5) <= 3*acc
			before, vb := e.spy.ran, e.spy.verdicts
			got := o.do(e)
			m.Count("calls_mixed_success_failure", 1)
			if e.spy.ran == before {
				if must {
					m.Violate("C01:mixed:redis:rejected-below-threshold", fmt.Sprintf("case=%d;%d%% failing commands among benign ones on one Redis", 200+share, share), "call #%d (%s) short-circuited (%v) although the %d admitted calls so far were judged %d acceptable / %d not by the package's predicate, i.e. total-5 <= 1.5*successes", i, o.name, got, tot, acc, tot-acc)
					okRow = false
					break
				}
				continue
			}
			if e.spy.verdicts > vb {
				tot++
				if e.spy.lastAcc {
					acc++
				}
			}
		}
		m.Case(fmt.Sprint("mixed-success-failure", share, okRow), okRow && tot > acc)
	}
}

// ---------------------------------------------------------------- method sweep

var (
	c01CtxType = reflect.TypeOf((*context.Context)(nil)).Elem()
	c01ErrType = reflect.TypeOf((*error)(nil)).Elem()
)

// c01SweepArgs builds generic arguments for a wrapper method against an EMPTY
// healthy server: every string is a key/value unique to the method (so reads miss),
// numbers are 1. ok=false: a parameter type the sweep cannot build (listed as exempt).
func c01SweepArgs(mt reflect.Type, name string, ctx context.Context) (in []reflect.Value, ok bool) {
	for i := 1; i < mt.NumIn(); i++ { // 0 is the receiver
		pt := mt.In(i)
		variadic := mt.IsVariadic() && i == mt.NumIn()-1
		if variadic {
			pt = pt.Elem()
		}
		v, built := c01SweepValue(pt, fmt.Sprintf("c01-%s-%d", name, i), ctx)
		if !built {
			return nil, false
		}
		in = append(in, v)
	}
	return in, true
}

func c01SweepValue(pt reflect.Type, key string, ctx context.Context) (reflect.Value, bool) {
	switch {
	case pt == c01CtxType:
		return reflect.ValueOf(ctx), true
	case pt == reflect.TypeOf(time.Duration(0)):
		return reflect.ValueOf(time.Second), true
	case pt == reflect.TypeOf(Pair{}):
		return reflect.ValueOf(Pair{Member: key, Score: 1}), true
	case pt == reflect.TypeOf(&GeoLocation{}):
		return reflect.ValueOf(&GeoLocation{Name: key, Longitude: 1, Latitude: 1}), true
	case pt == reflect.TypeOf(&GeoRadiusQuery{}):
		return reflect.ValueOf(&GeoRadiusQuery{Radius: 1, Unit: "km"}), true
	case pt == reflect.TypeOf(&ZStore{}):
		return reflect.ValueOf(&ZStore{Keys: []string{key}}), true
	}
	switch pt.Kind() {
	case reflect.String:
		return reflect.ValueOf(key).Convert(pt), true
	case reflect.Int, reflect.Int8, reflect.Int16, reflect.Int32, reflect.Int64:
		return reflect.ValueOf(1).Convert(pt), true
	case reflect.Uint, reflect.Uint8, reflect.Uint16, reflect.Uint32, reflect.Uint64:
		return reflect.Zero(pt), true
	case reflect.Float32, reflect.Float64:
		return reflect.ValueOf(1.0).Convert(pt), true
	case reflect.Bool:
		return reflect.Zero(pt), true
	case reflect.Interface:
		if pt.NumMethod() == 0 {
			return reflect.ValueOf(key).Convert(reflect.TypeOf("")), true // any
		}
		return reflect.Value{}, false // Node etc.
	case reflect.Slice:
		ev, ok := c01SweepValue(pt.Elem(), key, ctx)
		if !ok {
			return reflect.Value{}, false
		}
		sl := reflect.MakeSlice(pt, 1, 1)
		sl.Index(0).Set(ev.Convert(pt.Elem()))
		return sl, true
	case reflect.Map:
		if pt.Key().Kind() == reflect.String && pt.Elem().Kind() == reflect.String {
			mv := reflect.MakeMap(pt)
			mv.SetMapIndex(reflect.ValueOf("f").Convert(pt.Key()), reflect.ValueOf("v").Convert(pt.Elem()))
			return mv, true
		}
	case reflect.Func:
		if pt.NumOut() == 1 && pt.Out(0) == c01ErrType {
			return reflect.MakeFunc(pt, func([]reflect.Value) []reflect.Value { return []reflect.Value{reflect.Zero(c01ErrType)} }), true
		}
	}
	return reflect.Value{}, false
}

// TestVerifC01RedisMethodSweep: complete over the reflected method list of *Redis.
// Every wrapper method is driven with generic arguments against an empty, healthy
// miniredis (reads miss) and with an already cancelled context. Whatever the
// protected function returned is seen by the spy; whenever that is nil / redis.Nil
// (resp. context.Canceled) the outcome must be recorded as a success - whichever
// Do* form the method uses - and the method is never short-circuited.
func TestVerifC01RedisMethodSweep(t *testing.T) {
	m := vk.New(t, "C01", "every exported method of *Redis (reflection) x60 calls on a fresh breaker against an empty healthy miniredis, generic arguments (unique absent keys): all outcomes the protected function returned that are nil / redis.Nil must be judged acceptable by the predicate in effect and the method is never short-circuited; same with an already cancelled context for every ...Ctx method (context.Canceled must be acceptable); methods that do not reach the breaker, cannot be built generically or answer other errors with generic arguments are listed as exempt; non-trivial = method observed returning redis.Nil or context.Canceled")
	defer m.Done()
	logx.Disable()
	stat.SetReporter(nil)
	timex.VerifFakeClock(1000*time.Hour + time.Duration(m.Rand("clock").Int63n(int64(time.Hour))))
	defer timex.VerifRealClock()
	s, err := miniredis.Run()
	if err != nil {
		m.Inconclusive("miniredis did not start: %v", err)
		return
	}
	defer s.Close()
	rds := New(s.Addr())
	cancelled, cancel := context.WithCancel(context.Background())
	cancel()
	per := vk.N(60, 400)
	rt := reflect.TypeOf(rds)
	var noBreaker, unbuildable, otherErr, nilMethods, cancelMethods, benignOnly []string
	for mi := 0; mi < rt.NumMethod(); mi++ {
		meth := rt.Method(mi)
		name := meth.Name
		hasCtx := meth.Type.NumIn() > 1 && meth.Type.In(1) == c01CtxType
		for pass, ctx := range []context.Context{context.Background(), cancelled} {
			if pass == 1 && !hasCtx {
				continue
			}
			idx := mi*2 + pass + 1
			if !m.Only(idx) {
				continue
			}
			in, ok := c01SweepArgs(meth.Type, name, ctx)
			if !ok {
				if pass == 0 {
					unbuildable = append(unbuildable, name)
				}
				continue
			}
			s.FlushAll()
			spy := &c01Spy{Breaker: breaker.New()}
			rds.brk = spy
			class := "redis.Nil"
			if pass == 1 {
				class = "context.Canceled"
			}
			desc := fmt.Sprintf("case=%d;(*Redis).%s x%d with generic arguments, %s pass", idx, name, per, class)
			args := append([]reflect.Value{reflect.ValueOf(rds)}, in...)
			sawClass, sawOther, calls := 0, "", 0
			okRow := true
			for k := 0; k < per && okRow; k++ {
				before, vb := spy.ran, spy.verdicts
				_, panicked := vk.Recover(func() { meth.Func.Call(args) })
				if panicked {
					sawOther = "panic with generic arguments"
					break
				}
				if spy.ran == before && spy.verdicts == vb {
					if k == 0 {
						break // the method did not reach the breaker
					}
					// reached the breaker before, now short-circuited
					if sawOther == "" {
						m.Violate("C01:benign:redis:method:"+name+":"+class+":dropped", desc, "call #%d was short-circuited although every outcome of the protected function so far was nil / %s", k, class)
						okRow = false
					}
					break
				}
				calls++
				m.Count("sweep_calls", 1)
				if spy.verdicts == vb {
					continue
				}
				e := spy.lastErr
				inClass := e == nil || (pass == 0 && e == red.Nil) || (pass == 1 && e == context.Canceled)
				if !inClass {
					if sawOther == "" {
						sawOther = fmt.Sprint(e)
					}
					continue
				}
				if e != nil {
					sawClass++
				}
				if !spy.lastAcc {
					m.Violate("C01:benign:redis:method:"+name+":"+class+":predicate", desc, "the protected function of %s returned %v on a healthy server and the predicate in effect judged it a failure", name, e)
					okRow = false
				}
			}
			switch {
			case calls == 0 && sawOther == "":
				if pass == 0 {
					noBreaker = append(noBreaker, name)
				}
			case sawOther != "":
				otherErr = append(otherErr, fmt.Sprintf("%s[%s]: %s", name, class, sawOther))
			case sawClass > 0 && pass == 0:
				nilMethods = append(nilMethods, name)
			case sawClass > 0:
				cancelMethods = append(cancelMethods, name)
			case pass == 0:
				benignOnly = append(benignOnly, name)
			}
			m.Case(fmt.Sprint("sweep-", name, "-", class, okRow), okRow && sawClass > 0)
		}
	}
	for _, l := range []*[]string{&noBreaker, &unbuildable, &otherErr, &nilMethods, &cancelMethods, &benignOnly} {
		sort.Strings(*l)
	}
	m.Count("methods_total", int64(rt.NumMethod()))
	m.Count("methods_returning_redis_nil", int64(len(nilMethods)))
	m.Count("methods_returning_context_canceled", int64(len(cancelMethods)))
	m.Count("methods_only_nil_error", int64(len(benignOnly)))
	m.Extra("methods_observed_returning_redis.Nil", nilMethods)
	m.Extra("methods_observed_returning_context.Canceled", len(cancelMethods))
	m.Extra("exempt_not_reaching_breaker", noBreaker)
	m.Extra("exempt_unbuildable_arguments", unbuildable)
	m.Extra("exempt_other_error_with_generic_arguments", otherErr)
	m.Sample(map[string]any{"methods": rt.NumMethod(), "returning_redis.Nil": nilMethods, "ctx_methods_returning_context.Canceled": len(cancelMethods)})
	if len(nilMethods) < 3 {
		m.Inconclusive("only %d methods were observed returning redis.Nil: the sweep did not exercise its subject", len(nilMethods))
	}
}
