//go:build verif

package redis

// C01 — benign-outcome table of the Redis integration (DESIGN.md §3 C01 (f)).
// A real *Redis from New(addr) against miniredis; its real breaker is kept and
// only wrapped by a transparent spy that notes whether the protected function ran
// and what the package's acceptable-predicate answered for the error it saw.

import (
	"context"
	"errors"
	"fmt"
	"strings"
	"testing"
	"time"

	"github.com/alicebob/miniredis/v2"
	red "github.com/go-redis/redis/v8"
	"github.com/gotid/god/lib/breaker"
	"github.com/gotid/god/lib/logx"
	"github.com/gotid/god/lib/stat"
	"github.com/gotid/god/lib/timex"
	"verif.local/vk"
)

type c01Spy struct {
	breaker.Breaker
	ran      int
	verdicts int
	lastErr  error
	lastAcc  bool
}

func (s *c01Spy) DoWithAcceptable(req func() error, acc breaker.Acceptable) error {
	return s.Breaker.DoWithAcceptable(func() error {
		s.ran++
		return req()
	}, func(err error) bool {
		s.verdicts++
		s.lastErr = err
		s.lastAcc = acc(err)
		return s.lastAcc
	})
}

var c01PipeCalls int

// c01Pipeline sends one pipeline (alternating Pipelined / PipelinedCtx) with one
// command per key; variant picks the command mix.
func c01Pipeline(r *Redis, variant int, keys ...string) error {
	ctx := context.Background()
	body := func(p Pipeliner) error {
		for i, k := range keys {
			switch {
			case variant == 1 && i%4 == 1:
				p.HGet(ctx, k, "f")
			case variant == 1 && i%4 == 2:
				p.LPop(ctx, k)
			case variant == 1 && i%4 == 3:
				p.ZScore(ctx, k, "m")
			default:
				p.Get(ctx, k)
			}
		}
		return nil
	}
	c01PipeCalls++
	if c01PipeCalls%2 == 0 {
		return r.Pipelined(body)
	}
	return r.PipelinedCtx(ctx, body)
}

// c01OnlyNil: the outcome consists of nothing but redis.Nil replies (whatever the
// carrier: the value itself or a batch whose every line is redis.Nil's text), or no error.
func c01OnlyNil(err error) bool {
	if err == nil || err == red.Nil {
		return true
	}
	for _, line := range strings.Split(err.Error(), "\n") {
		if line != red.Nil.Error() {
			return false
		}
	}
	return true
}

func TestVerifC01RedisBenignTable(t *testing.T) {
	m := vk.New(t, "C01", "redis.Redis (New(addr) against miniredis, real breaker behind a transparent spy, virtual clock frozen): predicate table {nil, redis.Nil, context.Canceled => true; ERR reply, context.DeadlineExceeded, io error => false}; rows on a fresh Redis each: Set/Get hit (nil), Get/Hget miss (redis.Nil), GetCtx with cancelled context (context.Canceled), Pipelined/PipelinedCtx with 1, 2, 5 misses and hits+misses (only redis.Nil replies) x150 => the command path always runs; ERR replies (single commands and pipelines) / expired context x400 => at least one call short-circuited with ErrServiceUnavailable; 10000 mixed benign calls => 0 rejections; non-trivial = row completed (benign) / rejected (failing)")
	defer m.Done()
	logx.Disable()
	stat.SetReporter(nil)
	timex.VerifFakeClock(1000*time.Hour + time.Duration(m.Rand("clock").Int63n(int64(time.Hour))))
	defer timex.VerifRealClock()
	r := m.Rand("redis")
	perBenign := vk.N(150, 2000)
	perBad := vk.N(400, 3000)

	// ---- predicate table
	for _, row := range []struct {
		name string
		err  error
		want bool
	}{
		{"nil", nil, true},
		{"redis.Nil", red.Nil, true},
		{"context.Canceled", context.Canceled, true},
		{"ERR-reply", errors.New("ERR c01"), false},
		{"context.DeadlineExceeded", context.DeadlineExceeded, false},
	} {
		m.Count("predicate_evaluations", 1)
		if got := acceptable(row.err); got != row.want {
			cls := "nonbenign"
			if row.want {
				cls = "benign"
			}
			m.Violate("C01:"+cls+":redis:"+row.name+":predicate", "case=0;acceptable("+row.name+")", "acceptable(%v) = %v, want %v", row.err, got, row.want)
		}
	}

	type env struct {
		s   *miniredis.Miniredis
		r   *Redis
		spy *c01Spy
	}
	var envs []*env
	defer func() {
		for _, e := range envs {
			e.s.Close()
		}
	}()
	newEnv := func() *env {
		s, err := miniredis.Run()
		if err != nil {
			m.Inconclusive("miniredis did not start: %v", err)
			return nil
		}
		e := &env{s: s, r: New(s.Addr())}
		e.spy = &c01Spy{Breaker: e.r.brk}
		e.r.brk = e.spy
		_ = s.Set("present", "v")
		envs = append(envs, e)
		return e
	}
	cancelled, cancel := context.WithCancel(context.Background())
	cancel()
	expired, cancel2 := context.WithDeadline(context.Background(), time.Now().Add(-time.Hour))
	defer cancel2()

	type op struct {
		name    string
		benign  bool
		wantErr func(error) bool // what the predicate must have seen for the row to count as exercising the class
		do      func(e *env) error
	}
	ops := []op{
		{"hit:nil", true, func(err error) bool { return err == nil }, func(e *env) error { _, err := e.r.Get("present"); return err }},
		{"set:nil", true, func(err error) bool { return err == nil }, func(e *env) error { return e.r.Set("k", "v") }},
		{"get-miss:nil-or-redis.Nil", true, func(err error) bool { return err == nil || err == red.Nil }, func(e *env) error { _, err := e.r.Get("absent"); return err }},
		{"hget-miss:redis.Nil", true, func(err error) bool { return err == red.Nil }, func(e *env) error { _, err := e.r.HGet("absent", "f"); return err }},
		{"lpop-empty:redis.Nil", true, func(err error) bool { return err == red.Nil }, func(e *env) error { _, err := e.r.LPop("absent"); return err }},
		// pipelines on a healthy server whose commands only miss (and hit): every reply is redis.Nil or a value
		{"pipeline-1-miss:redis.Nil", true, c01OnlyNil, func(e *env) error { return c01Pipeline(e.r, 0, "absent1") }},
		{"pipeline-2-misses:redis.Nil", true, c01OnlyNil, func(e *env) error { return c01Pipeline(e.r, 0, "absent1", "absent2") }},
		{"pipeline-5-misses-mixed-commands:redis.Nil", true, c01OnlyNil, func(e *env) error { return c01Pipeline(e.r, 1, "absent1", "absent2", "absent3", "absent4", "absent5") }},
		{"pipeline-hits-and-3-misses:redis.Nil", true, c01OnlyNil, func(e *env) error { return c01Pipeline(e.r, 2, "present", "absent1", "absent2", "present", "absent3") }},
		{"cancelled-context:context.Canceled", true, func(err error) bool { return err == context.Canceled }, func(e *env) error { _, err := e.r.GetCtx(cancelled, "present"); return err }},
		{"ERR-reply", false, func(err error) bool { return err != nil }, func(e *env) error { _, err := e.r.Get("present"); return err }},
		{"pipeline-ERR-replies", false, func(err error) bool { return err != nil }, func(e *env) error { return c01Pipeline(e.r, 0, "present", "absent1") }},
		{"wrong-type-reply", false, func(err error) bool { return err != nil }, func(e *env) error { _, err := e.r.HGet("present", "f"); return err }},
		{"expired-context:context.DeadlineExceeded", false, func(err error) bool { return err == context.DeadlineExceeded }, func(e *env) error { _, err := e.r.GetCtx(expired, "present"); return err }},
	}
	var benignOps []op
	for idx, o := range ops {
		e := newEnv()
		if e == nil {
			return
		}
		if o.name == "ERR-reply" || o.name == "pipeline-ERR-replies" {
			e.s.SetError("ERR c01 injected")
		}
		desc := fmt.Sprintf("case=%d;%s on a fresh Redis", idx+1, o.name)
		classSeen := 0
		if o.benign {
			okRow := true
			for i := 0; i < perBenign; i++ {
				before, vb := e.spy.ran, e.spy.verdicts
				got := o.do(e)
				m.Count("calls_benign", 1)
				if e.spy.ran == before {
					m.Violate("C01:benign:redis:"+o.name+":rejected", desc, "call #%d short-circuited (%v) after only %s outcomes", i, got, o.name)
					okRow = false
					break
				}
				if e.spy.verdicts > vb {
					if o.wantErr(e.spy.lastErr) {
						classSeen++
						if !e.spy.lastAcc {
							m.Violate("C01:benign:redis:"+o.name+":predicate", desc, "acceptable answered false for %v", e.spy.lastErr)
							okRow = false
							break
						}
					} else if i == 0 {
						m.Note("row %s: the client reported %v instead of the intended error class; row not counted", o.name, e.spy.lastErr)
					}
				}
			}
			if classSeen == 0 {
				m.Skip("redis row " + o.name + ": intended error class never observed")
				okRow = false
			} else {
				benignOps = append(benignOps, o)
			}
			m.Count("benign_outcomes_of_intended_class", int64(classSeen))
			m.Case("benign-"+o.name, okRow)
			continue
		}
		rej, first := 0, -1
		bad := false
		for i := 0; i < perBad; i++ {
			before, vb := e.spy.ran, e.spy.verdicts
			got := o.do(e)
			m.Count("calls_failing", 1)
			if e.spy.ran > before && got == breaker.ErrServiceUnavailable {
				m.Violate("C01:reject:req-ran", desc, "call #%d ran the protected function and still returned ErrServiceUnavailable", i)
				bad = true
				break
			}
			if e.spy.ran == before {
				rej++
				if first < 0 {
					first = i
				}
				if got != breaker.ErrServiceUnavailable {
					m.Violate("C01:reject:redis:wrong-error", desc, "short-circuited call #%d returned %v", i, got)
					bad = true
					break
				}
				continue
			}
			if e.spy.verdicts > vb && o.wantErr(e.spy.lastErr) {
				classSeen++
				if e.spy.lastAcc {
					m.Violate("C01:nonbenign:redis:"+o.name+":predicate", desc, "acceptable answered true for %v", e.spy.lastErr)
					bad = true
					break
				}
			}
		}
		m.Count("calls_rejected", int64(rej))
		if classSeen == 0 && !bad {
			m.Skip("redis row " + o.name + ": intended error class never observed")
		} else if !bad && rej == 0 {
			m.Violate("C01:nonbenign:redis:"+o.name+":never-cut-off", desc, "%d consecutive %s outcomes and the command ran every time", perBad, o.name)
		}
		m.Case("failing-"+o.name, rej > 0)
		m.Sample(map[string]any{"scenario": fmt.Sprintf("%s x%d", o.name, perBad), "short_circuited": rej, "first_at_call": first, "last_error_seen_by_predicate": fmt.Sprint(e.spy.lastErr)})
	}
	if len(benignOps) > 0 {
		e := newEnv()
		if e == nil {
			return
		}
		n := vk.N(10000, 100000)
		for i := 0; i < n; i++ {
			o := benignOps[r.Intn(len(benignOps))]
			before := e.spy.ran
			got := o.do(e)
			m.Count("calls_benign_mixed", 1)
			if e.spy.ran == before {
				m.Violate("C01:benign:redis:mixed:rejected", "case=100;mixed benign calls on one Redis", "call #%d (%s) short-circuited (%v)", i, o.name, got)
				break
			}
		}
		m.Case("mixed-benign", true)
	}
	// sustained mix of benign and failing outcomes below the trip threshold (outcomes counted by what the
	// package's predicate answered, as seen by the spy): nothing may be rejected while total-5 <= 1.5*accepts
	var failingOps []op
	for _, o := range ops {
		if o.name == "wrong-type-reply" || o.name == "expired-context:context.DeadlineExceeded" {
			failingOps = append(failingOps, o)
		}
	}
	for _, share := range []int{10, 30} {
		if len(benignOps) == 0 || len(failingOps) == 0 {
			break
		}
		e := newEnv()
		if e == nil {
			return
		}
		n := vk.N(3000, 20000)
		var acc, tot int64
		okRow := true
		for i := 0; i < n; i++ {
			o := benignOps[r.Intn(len(benignOps))]
			if r.Intn(100) < share {
				o = failingOps[r.Intn(len(failingOps))]
			}
			must := 2*(tot-5) <= 3*acc
			before, vb := e.spy.ran, e.spy.verdicts
			got := o.do(e)
			m.Count("calls_mixed_success_failure", 1)
			if e.spy.ran == before {
				if must {
					m.Violate("C01:mixed:redis:rejected-below-threshold", fmt.Sprintf("case=%d;%d%% failing commands among benign ones on one Redis", 200+share, share), "call #%d (%s) short-circuited (%v) although the %d admitted calls so far were judged %d acceptable / %d not by the package's predicate, i.e. total-5 <= 1.5*successes", i, o.name, got, tot, acc, tot-acc)
					okRow = false
					break
				}
				continue
			}
			if e.spy.verdicts > vb {
				tot++
				if e.spy.lastAcc {
					acc++
				}
			}
		}
		m.Case(fmt.Sprint("mixed-success-failure", share, okRow), okRow && tot > acc)
	}
}
