//go:build verif

package redis_test

// C12 — script cache (anchored file scriptcache.go; no command path uses it):
// plain map contract under concurrency. G goroutines SetSha disjoint scripts at the
// same time while readers GetSha; afterwards every script must map to the sha that
// was set for it. Runs under -race in its own run.

import (
	"fmt"
	"sync"
	"testing"

	"github.com/gotid/god/lib/store/redis"
	"verif.local/vk"
)

func TestVerifC12ScriptCache(t *testing.T) {
	m := vk.New(t, "C12", "script cache contract: G goroutines SetSha K distinct scripts each, released together, with concurrent GetSha readers; afterwards GetSha(script) == the sha set, for every script of every round (the cache is process-wide, earlier rounds must survive later ones)")
	defer m.Done()
	sc := redis.GetScriptCache()
	if sc != redis.GetScriptCache() {
		m.Violate("C12:scriptcache:not-a-singleton", "case=0", "GetScriptCache returned two different caches")
	}
	rounds, G, K := vk.N(4, 16), 8, 40 // SetSha copies the whole process-wide map: cost is quadratic in the number of entries
	total := 0
	for round := 1; round <= rounds; round++ {
		if !m.Only(round) {
			continue
		}
		scen := fmt.Sprintf("case=%d;goroutines=%d;scripts_per_goroutine=%d", round, G, K)
		m.Current(scen)
		start := make(chan struct{})
		stop := make(chan struct{})
		var wg, rg sync.WaitGroup
		for g := 0; g < G; g++ {
			wg.Add(1)
			go func(g int) {
				defer wg.Done()
				<-start
				for k := 0; k < K; k++ {
					sc.SetSha(fmt.Sprintf("script-%d-%d-%d", round, g, k), fmt.Sprintf("sha-%d-%d-%d", round, g, k))
				}
			}(g)
		}
		for rd := 0; rd < 2; rd++ {
			rg.Add(1)
			go func() {
				defer rg.Done()
				<-start
				for {
					select {
					case <-stop:
						return
					default:
						sc.GetSha(fmt.Sprintf("script-%d-0-0", round))
					}
				}
			}()
		}
		close(start)
		wg.Wait()
		close(stop)
		rg.Wait()
		lost, wrong := 0, 0
		first := ""
		for r := 1; r <= round; r++ {
			if m.Only(round) && !m.Only(r) && r != round {
				continue
			}
			for g := 0; g < G; g++ {
				for k := 0; k < K; k++ {
					s := fmt.Sprintf("script-%d-%d-%d", r, g, k)
					sha, ok := sc.GetSha(s)
					switch {
					case !ok:
						lost++
						if first == "" {
							first = s
						}
					case sha != fmt.Sprintf("sha-%d-%d-%d", r, g, k):
						wrong++
					}
				}
			}
		}
		total += G * K
		m.Count("scripts_set", int64(G*K))
		m.Count("entries_checked", int64(round*G*K))
		if lost > 0 {
			m.Violate("C12:scriptcache:lost-entry", scen, "%d of %d scripts set concurrently are missing from the cache afterwards (first: %q)", lost, round*G*K, first)
		}
		if wrong > 0 {
			m.Violate("C12:scriptcache:wrong-sha", scen, "%d scripts map to a sha that was not set for them", wrong)
		}
		m.Case(fmt.Sprintf("round-%d", round), true)
		if lost+wrong > 0 {
			break
		}
	}
	if _, ok := sc.GetSha("c12-never-set"); ok {
		m.Violate("C12:scriptcache:phantom-entry", "case=0", "GetSha reports a script that was never set")
	}
	m.Sample(map[string]any{"rounds": rounds, "goroutines": G, "scripts_per_goroutine": K, "scripts_set_in_total": total})
}
