//go:build verif

package redis_test

// C12 — Redis wrapper / sharded KV store transparency monitor (DESIGN.md §3 C12).
//
// Twin-server differential monitor. Side A: the wrapper under test (redis.Redis,
// or kv.Store over 1..4 shards) talking to miniredis instance(s) A. Side B: a raw
// go-redis v8 client talking to miniredis B. Every generated command is executed
// on both sides; the hand-written table in c12_table_verif_test.go says, per
// wrapper method, which go-redis call it corresponds to and which documented
// conversion is applied to the result. After every command the keys of the
// history's alphabet are compared through miniredis' direct API (type, value,
// TTL); after every history the whole keyspace is compared.
//
// This file: servers, reflection-driven invocation, canonical rendering and
// comparison of results, keyspace snapshots, the per-history runner.

import (
	"context"
	"errors"
	"fmt"
	"math/rand"
	"os"
	"reflect"
	"sort"
	"strconv"
	"strings"
	"sync"
	"time"

	"github.com/alicebob/miniredis/v2"
	"github.com/alicebob/miniredis/v2/server"
	red "github.com/go-redis/redis/v8"
	"github.com/gotid/god/lib/breaker"
	"github.com/gotid/god/lib/store/cache"
	"github.com/gotid/god/lib/store/kv"
	"github.com/gotid/god/lib/store/redis"
	"verif.local/vk"
)

// c12Base is the fixed "now" of every miniredis instance (EXPIREAT is computed
// against it), so TTLs on both sides are exactly comparable.
var c12Base = time.Unix(1_000_000_000, 0).UTC()

// ---------------------------------------------------------------------------
// canonical rendering of results

// c12Canon renders a value so that two results are "the same result" iff the
// renderings are equal: integers of any width by value, nil and empty
// slices/maps alike, pointers by pointee, maps with sorted keys.
func c12Canon(v any) string {
	var b strings.Builder
	c12canon(&b, reflect.ValueOf(v))
	return b.String()
}

func c12canon(b *strings.Builder, v reflect.Value) {
	if !v.IsValid() {
		b.WriteString("nil")
		return
	}
	switch v.Kind() {
	case reflect.Interface, reflect.Ptr:
		if v.IsNil() {
			b.WriteString("nil")
			return
		}
		c12canon(b, v.Elem())
	case reflect.Slice, reflect.Array:
		if v.Kind() == reflect.Slice && v.Type().Elem().Kind() == reflect.Uint8 {
			fmt.Fprintf(b, "%q", string(v.Bytes()))
			return
		}
		b.WriteByte('[')
		for i := 0; i < v.Len(); i++ {
			if i > 0 {
				b.WriteByte(' ')
			}
			c12canon(b, v.Index(i))
		}
		b.WriteByte(']')
	case reflect.Map:
		keys := make([]string, 0, v.Len())
		vals := map[string]reflect.Value{}
		for _, k := range v.MapKeys() {
			ks := c12Canon(k.Interface())
			keys = append(keys, ks)
			vals[ks] = v.MapIndex(k)
		}
		sort.Strings(keys)
		b.WriteString("map[")
		for i, k := range keys {
			if i > 0 {
				b.WriteByte(' ')
			}
			b.WriteString(k)
			b.WriteByte(':')
			c12canon(b, vals[k])
		}
		b.WriteByte(']')
	case reflect.Struct:
		b.WriteByte('{')
		for i := 0; i < v.NumField(); i++ {
			if i > 0 {
				b.WriteByte(' ')
			}
			b.WriteString(v.Type().Field(i).Name)
			b.WriteByte(':')
			f := v.Field(i)
			if f.CanInterface() {
				c12canon(b, f)
			} else {
				b.WriteString("?")
			}
		}
		b.WriteByte('}')
	case reflect.String:
		fmt.Fprintf(b, "%q", v.String())
	case reflect.Bool:
		fmt.Fprintf(b, "%v", v.Bool())
	case reflect.Int, reflect.Int8, reflect.Int16, reflect.Int32, reflect.Int64:
		fmt.Fprintf(b, "%d", v.Int())
	case reflect.Uint, reflect.Uint8, reflect.Uint16, reflect.Uint32, reflect.Uint64:
		fmt.Fprintf(b, "%d", v.Uint())
	case reflect.Float32, reflect.Float64:
		fmt.Fprintf(b, "%v", v.Float())
	default:
		fmt.Fprintf(b, "<%s>", v.Kind())
	}
}

func c12CanonAll(vs []any) string {
	parts := make([]string, len(vs))
	for i, v := range vs {
		parts[i] = c12Canon(v)
	}
	return "(" + strings.Join(parts, ", ") + ")"
}

// c12SortedCopy returns v with every top-level []string sorted (multiset compare).
func c12SortedCopy(vs []any) []any {
	out := make([]any, len(vs))
	for i, v := range vs {
		if s, ok := v.([]string); ok {
			c := append([]string(nil), s...)
			sort.Strings(c)
			out[i] = c
		} else {
			out[i] = v
		}
	}
	return out
}

// error classes: the statement distinguishes nil / redis.Nil / cancellation;
// anything else is a server or client error compared by message.
func c12ErrClass(err error) string {
	switch {
	case err == nil:
		return "ok"
	case err == red.Nil:
		return "redis.Nil"
	case errors.Is(err, context.Canceled):
		return "context.Canceled"
	case errors.Is(err, context.DeadlineExceeded):
		return "context.DeadlineExceeded"
	case err == breaker.ErrServiceUnavailable:
		return "breaker-open"
	default:
		return "error: " + err.Error()
	}
}

func c12Unsupported(err error) bool {
	return err != nil && strings.HasPrefix(err.Error(), "ERR unknown command")
}

// ---------------------------------------------------------------------------
// keyspace snapshots through miniredis' direct API

type c12Snap struct {
	Present bool
	Type    string
	Val     string
	TTL     time.Duration
}

func (s c12Snap) String() string {
	if !s.Present {
		return "<absent>"
	}
	return fmt.Sprintf("%s %s ttl=%v", s.Type, s.Val, s.TTL)
}

func c12SnapKey(m *miniredis.Miniredis, k string) c12Snap {
	if !m.Exists(k) {
		return c12Snap{}
	}
	s := c12Snap{Present: true, Type: m.Type(k), TTL: m.TTL(k)}
	switch s.Type {
	case "string":
		v, _ := m.Get(k)
		s.Val = fmt.Sprintf("%q", v)
	case "list":
		l, _ := m.List(k)
		s.Val = fmt.Sprintf("%q", l)
	case "hash":
		fs, _ := m.HKeys(k)
		sort.Strings(fs)
		var parts []string
		for _, f := range fs {
			parts = append(parts, fmt.Sprintf("%q:%q", f, m.HGet(k, f)))
		}
		s.Val = "{" + strings.Join(parts, " ") + "}"
	case "set":
		ms, _ := m.Members(k)
		sort.Strings(ms)
		s.Val = fmt.Sprintf("%q", ms)
	case "zset":
		z, _ := m.SortedSet(k)
		var ms []string
		for mem := range z {
			ms = append(ms, mem)
		}
		sort.Strings(ms)
		var parts []string
		for _, mem := range ms {
			parts = append(parts, fmt.Sprintf("%q:%v", mem, z[mem]))
		}
		s.Val = "{" + strings.Join(parts, " ") + "}"
	case "hll":
		n, _ := m.PfCount(k)
		s.Val = fmt.Sprintf("hll(count=%d)", n)
	default:
		s.Val = "?"
	}
	return s
}

// ---------------------------------------------------------------------------
// the two sides

// c12World holds the persistent servers of one test function.
type c12World struct {
	shards []*miniredis.Miniredis // side A (1 for the plain wrapper, 4 for kv)
	mrB    *miniredis.Miniredis   // side B
	cli    *red.Client            // raw go-redis on B
	admin  []*red.Client          // harness-only clients on the A servers (SCRIPT FLUSH between histories)
	ccli   *red.ClusterClient     // go-redis cluster client on B: the reference for Type=cluster histories

	// pass: every server of a world requires AUTH with a per-world password. The
	// machine is shared: a client of another test process that reconnects to a port
	// it used before (now ours) must not be able to write to these servers, and its
	// commands are not the wrapper's (seen once: a token-limit EVAL of another run
	// arriving on side A).
	pass    string
	foreign int64 // commands from unauthenticated connections, ignored by the wire oracle

	// wire oracle: every command (name + arguments) that reaches a server, recorded
	// through miniredis' PreHook, side A (all shards, arrival order) and side B
	wmu   sync.Mutex
	wireA [][]string
	wireB [][]string
}

// c12Housekeeping: connection set-up / topology traffic of the clients, not part of any call.
var c12Housekeeping = map[string]bool{"HELLO": true, "AUTH": true, "SELECT": true, "CLIENT": true, "COMMAND": true, "CLUSTER": true, "READONLY": true, "READWRITE": true}

func (w *c12World) hook(dst *[][]string) server.Hook {
	return func(p *server.Peer, cmd string, args ...string) bool {
		if !c12Housekeeping[cmd] {
			if known, auth := c12PeerAuthenticated(p); known && !auth {
				w.wmu.Lock()
				w.foreign++
				w.wmu.Unlock()
				return false // miniredis answers NOAUTH
			}
			w.wmu.Lock()
			*dst = append(*dst, append([]string{cmd}, args...))
			w.wmu.Unlock()
		}
		return false
	}
}

// c12PeerAuthenticated reads miniredis' per-connection state (unexported, through
// reflect; unknown layout => known=false and everything is recorded as before).
func c12PeerAuthenticated(p *server.Peer) (known, auth bool) {
	v := reflect.ValueOf(p.Ctx)
	if !v.IsValid() || v.Kind() != reflect.Ptr || v.IsNil() {
		return true, false // no command handled on this connection yet: not authenticated
	}
	if v.Elem().Kind() != reflect.Struct {
		return false, false
	}
	f := v.Elem().FieldByName("authenticated")
	if !f.IsValid() || f.Kind() != reflect.Bool {
		return false, false
	}
	return true, f.Bool()
}

var c12WorldSeq int64

func (w *c12World) wireReset() {
	w.wmu.Lock()
	w.wireA, w.wireB = nil, nil
	w.wmu.Unlock()
}

func (w *c12World) wireTake() (a, b [][]string) {
	w.wmu.Lock()
	a, b = w.wireA, w.wireB
	w.wireA, w.wireB = nil, nil
	w.wmu.Unlock()
	return
}

// c12WireNorm renders one command for comparison: documented spellings of the same
// request are normalised numerically (EX s / PX ms, SETEX/PSETEX, EXPIRE/PEXPIRE,
// EXPIREAT/PEXPIREAT, blocking timeouts 1 / 1.0), and the field/value pairs of
// HSET/HMSET, which the wrapper takes as a map, are ordered.
func c12WireNorm(c []string) string {
	c = append([]string(nil), c...)
	ms := func(v string, mul float64) string {
		f, err := strconv.ParseFloat(v, 64)
		if err != nil {
			return v
		}
		return strconv.FormatFloat(f*mul, 'f', -1, 64)
	}
	switch c[0] {
	case "SET":
		for i := 3; i+1 < len(c); i++ {
			switch strings.ToUpper(c[i]) {
			case "EX":
				c[i], c[i+1] = "PX", ms(c[i+1], 1000)
			case "PX":
				c[i], c[i+1] = "PX", ms(c[i+1], 1)
			}
		}
		for i := 3; i < len(c); i++ {
			if u := strings.ToUpper(c[i]); u == "NX" || u == "XX" || u == "KEEPTTL" || u == "PX" {
				c[i] = u
			}
		}
	case "SETEX", "PSETEX":
		if len(c) == 4 {
			mul := 1000.0
			if c[0] == "PSETEX" {
				mul = 1
			}
			c = []string{"SET", c[1], c[3], "PX", ms(c[2], mul)}
		}
	case "EXPIRE":
		if len(c) == 3 {
			c = []string{"PEXPIRE", c[1], ms(c[2], 1000)}
		}
	case "EXPIREAT":
		if len(c) == 3 {
			c = []string{"PEXPIREAT", c[1], ms(c[2], 1000)}
		}
	case "PEXPIRE", "PEXPIREAT":
		if len(c) == 3 {
			c[2] = ms(c[2], 1)
		}
	case "BLPOP", "BRPOP":
		c[len(c)-1] = ms(c[len(c)-1], 1)
	case "HSET", "HMSET":
		if len(c) >= 4 && len(c)%2 == 0 {
			var pairs []string
			for i := 2; i+1 < len(c); i += 2 {
				pairs = append(pairs, c[i]+"\x00"+c[i+1])
			}
			sort.Strings(pairs)
			c = c[:2]
			for _, p := range pairs {
				c = append(c, strings.SplitN(p, "\x00", 2)...)
			}
		}
	}
	return fmt.Sprintf("%q", c)
}

func c12WireStr(cs [][]string) string {
	parts := make([]string, len(cs))
	for i, c := range cs {
		parts[i] = c12WireNorm(c)
	}
	return "[" + strings.Join(parts, "; ") + "]"
}

func c12NewWorld(nShards int) (*c12World, error) {
	c12WorldSeq++
	w := &c12World{pass: fmt.Sprintf("c12-%d-%d-%d", os.Getpid(), c12WorldSeq, time.Now().UnixNano())}
	for i := 0; i < nShards; i++ {
		s, err := miniredis.Run()
		if err != nil {
			return nil, err
		}
		s.RequireAuth(w.pass)
		s.Server().SetPreHook(w.hook(&w.wireA))
		w.shards = append(w.shards, s)
		w.admin = append(w.admin, red.NewClient(&red.Options{Addr: s.Addr(), Password: w.pass}))
	}
	b, err := miniredis.Run()
	if err != nil {
		return nil, err
	}
	w.mrB = b
	b.RequireAuth(w.pass)
	b.Server().SetPreHook(w.hook(&w.wireB))
	w.cli = red.NewClient(&red.Options{Addr: b.Addr(), Password: w.pass})
	w.ccli = red.NewClusterClient(&red.ClusterOptions{Addrs: []string{b.Addr()}, Password: w.pass})
	return w, nil
}

func (w *c12World) close() {
	_ = w.cli.Close()
	_ = w.ccli.Close()
	for _, c := range w.admin {
		_ = c.Close()
	}
	for _, s := range w.shards {
		s.Close()
	}
	w.mrB.Close()
}

func (w *c12World) reset() {
	for _, s := range append(append([]*miniredis.Miniredis{}, w.shards...), w.mrB) {
		s.FlushAll()
		s.SetTime(c12Base)
	}
	// histories start from the same script cache on every server
	for _, c := range append(append([]*red.Client{}, w.admin...), w.cli) {
		c.ScriptFlush(context.Background())
	}
}

// c12Side is the wrapper side of one history.
type c12Side struct {
	kind    string // "redis" | "kv"
	obj     reflect.Value
	rebuild func() reflect.Value // fresh instance with fresh breaker(s)
	servers []*miniredis.Miniredis
	node    redis.ClosableNode // blocking node (redis only)
	cluster bool               // Type=cluster: the reference is a go-redis ClusterClient
}

// snapA: state of key k on side A (union of shards). dup = key on >1 shard.
func (s *c12Side) snapA(k string) (snap c12Snap, dup bool) {
	for _, m := range s.servers {
		x := c12SnapKey(m, k)
		if x.Present {
			if snap.Present {
				dup = true
			}
			snap = x
		}
	}
	return
}

// ---------------------------------------------------------------------------
// table entry and generator context

type c12X struct { // reference side context of one call
	ctx   context.Context
	cli   red.Cmdable // the go-redis reference client on side B (ClusterClient for Type=cluster histories)
	mrB   *miniredis.Miniredis
	addrA string // address the wrapper instance was built for (redis side only)
	// reissued: a breaker rejection was seen and the call was issued again (a
	// multi-key kv Del may have been partially executed by the rejected attempt)
	reissued bool
}

type c12Entry struct {
	name   string // method of redis.Redis (plain form; the context form is name+"Ctx"); "" = kv only
	kv     string // method of kv.Store ("" = not part of kv.Store)
	doc    string // equivalent go-redis call and documented conversion
	weight int
	noCtx  bool // method has no context form (String)
	multi  bool // []string results compared as multisets (iteration order of sets/hashes unspecified)
	// gen returns the argument tuple (without ctx), exactly typed; nil = not applicable in the current state
	gen func(g *c12Gen) []any
	// ref executes the equivalent go-redis call on side B and returns the expected non-error results
	ref func(x *c12X, a []any) ([]any, error)
	// custom, if set, replaces ref+compare (results that are legitimately random, pipelines)
	custom func(x *c12X, a []any, got []any, gotErr error) (ok bool, detail string)
	// prepare, if set, builds the actual call arguments from the generated tuple
	// (function-valued parameters) and returns the comparison to run afterwards
	prepare func(x *c12X, a []any) (callArgs []any, finish func(got []any, gotErr error) (ok bool, detail string))
	// wire, for entries with a custom comparison whose reference side does not issue
	// the same command (SPop, SRandMember, kv Del): the commands the call must put on
	// the wire. noWire: no wire comparison (not a command).
	wire   func(a []any) [][]string
	noWire bool
	// classify returns a signature sub-class for a value mismatch (default "value")
	classify func(a []any, got, want []any) string
	// blocking: runs wrapper and reference concurrently (both block on the server)
	blocking bool
	// fresh: call on a freshly built instance (fresh breaker). Ping folds every
	// error, including a breaker rejection after many server error replies, into
	// false, so a rejection could not be told from a wrong answer otherwise.
	fresh bool
}

type c12Gen struct {
	r    *rand.Rand
	keys []string
	mrB  *miniredis.Miniredis
	kv   bool
	// blockEmpty: remaining budget of blocking pops on an empty list (1 s each, both sides in parallel)
	blockEmpty *int
}

// key picks a key: mostly one whose current type on side B is want (or absent),
// sometimes any key (wrong-type errors must be transparent too).
func (g *c12Gen) key(want string) string {
	if g.r.Intn(100) < 88 {
		var fit []string
		for _, k := range g.keys {
			t := ""
			if g.mrB.Exists(k) {
				t = g.mrB.Type(k)
			}
			if t == want || (t == "" && g.r.Intn(3) == 0) {
				fit = append(fit, k)
			}
		}
		if len(fit) > 0 {
			return fit[g.r.Intn(len(fit))]
		}
		// none of that type yet: prefer an absent key
		for _, i := range g.r.Perm(len(g.keys)) {
			if !g.mrB.Exists(g.keys[i]) {
				return g.keys[i]
			}
		}
	}
	return g.keys[g.r.Intn(len(g.keys))]
}

// existing returns a key whose type on B is want, or "" when there is none.
func (g *c12Gen) existing(want string) string {
	var fit []string
	for _, k := range g.keys {
		if g.mrB.Exists(k) && g.mrB.Type(k) == want {
			fit = append(fit, k)
		}
	}
	if len(fit) == 0 {
		return ""
	}
	return fit[g.r.Intn(len(fit))]
}

// emptySet: miniredis can hold a set key without members (SINTERSTORE/SDIFFSTORE
// with an empty result) and its SRANDMEMBER/SPOP then panic inside the
// in-process server; such keys are not used for the random-member commands.
func (g *c12Gen) emptySet(k string) bool {
	if !g.mrB.Exists(k) || g.mrB.Type(k) != "set" {
		return false
	}
	ms, _ := g.mrB.Members(k)
	return len(ms) == 0
}

func (g *c12Gen) anyKey() string { return g.keys[g.r.Intn(len(g.keys))] }

func (g *c12Gen) keysN(want string, lo, hi int) []string {
	n := lo + g.r.Intn(hi-lo+1)
	out := make([]string, n)
	for i := range out {
		out[i] = g.key(want)
	}
	return out
}

var (
	c12Vals    = []string{"0", "1", "7", "-3", "10", "41", "a", "b", "hello", "", "3.5", "\xff\x0f", "a b", "9223372036854775807"}
	c12Members = []string{"a", "b", "c", "d", "e", "1", "2"}
	c12Fields  = []string{"f1", "f2", "f3", "n", ""}
)

func (g *c12Gen) val() string    { return c12Vals[g.r.Intn(len(c12Vals))] }
func (g *c12Gen) member() string { return c12Members[g.r.Intn(len(c12Members))] }
func (g *c12Gen) field() string  { return c12Fields[g.r.Intn(len(c12Fields))] }
func (g *c12Gen) idx() int64     { return int64(g.r.Intn(11) - 5) } // -5..5 (negative indexes, reversed ranges)
func (g *c12Gen) score() int64   { return int64(g.r.Intn(14) - 3) } // -3..10
func (g *c12Gen) small() int64   { return int64(g.r.Intn(9) - 3) }  // -3..5
func (g *c12Gen) fscore() float64 {
	return []float64{-2.5, -0.5, 0, 0.25, 1, 1.5, 2.75, 3, 7.9, 1e3}[g.r.Intn(10)]
}
func (g *c12Gen) secs() int { return []int{1, 2, 5, 30, 3600}[g.r.Intn(5)] }
func (g *c12Gen) members(lo, hi int) []string {
	n := lo + g.r.Intn(hi-lo+1)
	out := make([]string, n)
	for i := range out {
		out[i] = g.member()
	}
	return out
}

// anys returns values of the kinds callers pass through ...any parameters.
func (g *c12Gen) anys(lo, hi int) []any {
	n := lo + g.r.Intn(hi-lo+1)
	out := make([]any, n)
	for i := range out {
		switch g.r.Intn(8) {
		case 0:
			out[i] = g.r.Intn(5)
		case 1:
			out[i] = int64(g.r.Intn(5))
		case 2:
			out[i] = []byte(g.member())
		default:
			out[i] = g.member()
		}
	}
	return out
}

// shaped: argument-shape boundary of the variadic `...any` parameters. go-redis
// flattens ONE slice argument into its elements, takes scalars as they are and
// cannot marshal a slice among several arguments; the wrapper must hand the
// caller's arguments on unchanged (`args...`) for every shape.
func (g *c12Gen) shaped(lo, hi int) []any {
	if g.r.Intn(100) < 70 {
		return g.anys(lo, hi)
	}
	switch g.r.Intn(6) {
	case 0:
		return []any{} // no arguments
	case 1:
		return []any{[]string{g.member(), g.member()}} // one []string
	case 2:
		return []any{[]any{g.member(), g.r.Intn(5)}} // one []any
	case 3:
		return []any{g.member(), []string{g.member()}} // mixed: client-side marshal error on both sides
	case 4:
		return []any{[]string{}} // one empty slice
	default:
		return []any{g.member(), g.r.Intn(5), g.member(), int64(2)} // many scalars
	}
}

// ---------------------------------------------------------------------------
// reflective invocation

type c12Form int

const (
	c12Plain c12Form = iota
	c12Ctx
)

var c12ErrType = reflect.TypeOf((*error)(nil)).Elem()

// c12Invoke calls method name on obj with args (ctx prepended for the context
// form). sigErr != "" means the method is missing or its signature does not fit
// the table (modified tree): the entry is skipped, never flagged.
func c12Invoke(obj reflect.Value, name string, ctx context.Context, useCtx bool, args []any) (outs []any, err error, sigErr string) {
	mv := obj.MethodByName(name)
	if !mv.IsValid() {
		return nil, nil, "method " + name + " not found"
	}
	mt := mv.Type()
	all := args
	if useCtx {
		all = append([]any{ctx}, args...)
	}
	if mt.NumIn() != len(all) {
		return nil, nil, fmt.Sprintf("method %s takes %d parameters, table has %d", name, mt.NumIn(), len(all))
	}
	in := make([]reflect.Value, len(all))
	for i, a := range all {
		pt := mt.In(i)
		var v reflect.Value
		if a == nil {
			v = reflect.Zero(pt)
		} else {
			v = reflect.ValueOf(a)
		}
		if !v.Type().AssignableTo(pt) {
			k := v.Kind()
			numeric := k >= reflect.Int && k <= reflect.Float64 && k != reflect.Uintptr
			pk := pt.Kind()
			pnumeric := pk >= reflect.Int && pk <= reflect.Float64 && pk != reflect.Uintptr
			if numeric && pnumeric {
				v = v.Convert(pt)
			} else {
				return nil, nil, fmt.Sprintf("method %s parameter %d is %s, table has %s", name, i, pt, v.Type())
			}
		}
		in[i] = v
	}
	var res []reflect.Value
	if mt.IsVariadic() {
		res = mv.CallSlice(in)
	} else {
		res = mv.Call(in)
	}
	for _, r := range res {
		if r.Type().Implements(c12ErrType) && r.Type().Kind() == reflect.Interface {
			if !r.IsNil() {
				err = r.Interface().(error)
			}
			continue
		}
		outs = append(outs, r.Interface())
	}
	return outs, err, ""
}

// ---------------------------------------------------------------------------
// history runner

type c12Stats struct {
	calls       map[string]int64 // per wrapper method (plain and Ctx counted separately)
	kinds       map[string]int64
	unsupported map[string]int64
	cancelled   map[string]int64 // Ctx methods called with a cancelled context
	sigSkipped  map[string]string
}

func c12NewStats() *c12Stats {
	return &c12Stats{calls: map[string]int64{}, kinds: map[string]int64{}, unsupported: map[string]int64{}, cancelled: map[string]int64{}, sigSkipped: map[string]string{}}
}

type c12Hist struct {
	m       *vk.M
	idx     int
	prefix  string // signature prefix: "C12:diff" / "C12:kv:diff"
	eprefix string
	wprefix string
	side    *c12Side
	w       *c12World
	g       *c12Gen
	st      *c12Stats
	log     []string
	header  string
	viols   int
	sigs    map[string]bool
	dead    bool // state diverged: stop the history
}

func (h *c12Hist) desc() string {
	l := h.log
	if len(l) > 60 {
		l = l[len(l)-60:]
	}
	return fmt.Sprintf("case=%d;%s;ops=%d;last_ops=[%s]", h.idx, h.header, len(h.log), strings.Join(l, " | "))
}

func c12ArgStr(a []any) string {
	s := c12CanonAll(a)
	if len(s) > 160 {
		s = s[:160] + "…"
	}
	return s
}

func (h *c12Hist) methodName(e *c12Entry, form c12Form) string {
	n := e.name
	if h.side.kind == "kv" {
		n = e.kv
	}
	if form == c12Ctx {
		n += "Ctx"
	}
	return n
}

// step executes one table entry on both sides and compares results and state.
// It returns false when the entry was not applicable (no call made).
// ctxMode: 0 live context, 1 already cancelled, 2 deadline already expired.
func (h *c12Hist) step(e *c12Entry, form c12Form, ctxMode int) bool {
	cancelled := ctxMode != 0
	if e.noCtx {
		form = c12Plain
	}
	args := e.gen(h.g)
	if args == nil {
		h.st.kinds["gen_not_applicable"]++
		return false
	}
	name := h.methodName(e, form)
	if _, bad := h.st.sigSkipped[name]; bad {
		return false
	}
	ctx := context.Background()
	if form == c12Ctx {
		c, cancel := context.WithCancel(context.WithValue(context.Background(), c12CtxKey{}, h.idx))
		switch ctxMode {
		case 1:
			cancel()
		case 2:
			defer cancel()
			var cancel2 context.CancelFunc
			c, cancel2 = context.WithDeadline(c, time.Now().Add(-time.Hour))
			defer cancel2()
		default:
			defer cancel()
		}
		ctx = c
	} else {
		cancelled, ctxMode = false, 0
	}
	var ref red.Cmdable = h.w.cli
	if h.side.cluster {
		ref = h.w.ccli
	}
	x := &c12X{ctx: ctx, cli: ref, mrB: h.w.mrB, addrA: h.side.servers[0].Addr()}
	callArgs := args
	var finish func(got []any, gotErr error) (bool, string)
	if e.prepare != nil {
		callArgs, finish = e.prepare(x, args)
	}
	if e.blocking { // first argument is the blocking node of side A
		callArgs = append([]any{h.side.node}, args...)
	}
	opStr := fmt.Sprintf("%s%s", name, c12ArgStr(args))
	if ctxMode == 1 {
		opStr += "[ctx cancelled]"
	} else if ctxMode == 2 {
		opStr += "[ctx deadline expired]"
	}
	h.log = append(h.log, opStr)
	h.w.wireReset()

	var (
		got     []any
		gotErr  error
		sigErr  string
		want    []any
		wantErr error
		refDone chan struct{}
	)
	if e.blocking && e.custom == nil {
		// both sides may block on their server for the same timeout: run B concurrently
		refDone = make(chan struct{})
		go func() {
			defer close(refDone)
			want, wantErr = e.ref(x, args)
		}()
	}
	if e.fresh {
		h.side.obj = h.side.rebuild()
	}
	for attempt := 0; ; attempt++ {
		got, gotErr, sigErr = c12Invoke(h.side.obj, name, ctx, form == c12Ctx, callArgs)
		if gotErr == breaker.ErrServiceUnavailable && attempt < 3 {
			// The per-address breaker also counts server error replies (WRONGTYPE ...)
			// as failures; a rejection is legitimate wrapper behaviour, not a
			// transparency defect. Re-issue on a fresh instance (fresh breaker).
			h.st.kinds["breaker_rejections_reissued"]++
			x.reissued = true
			h.side.obj = h.side.rebuild()
			continue
		}
		break
	}
	if refDone != nil {
		<-refDone
	}
	if sigErr != "" {
		h.st.sigSkipped[name] = sigErr
		h.log = h.log[:len(h.log)-1]
		if refDone != nil {
			h.dead = true // reference already executed: sides out of step
		}
		return false
	}
	h.st.calls[name]++
	h.st.kinds["command_pairs"]++
	if ctxMode == 2 {
		h.st.kinds["ctx_deadline_expired_calls"]++
	} else if cancelled {
		h.st.kinds["ctx_cancelled_calls"]++
		h.st.cancelled[name]++
	}

	base := strings.TrimSuffix(name, "Ctx") // one signature per method; the form is in the witness
	sig := func(class string) string { return h.prefix + ":" + base + ":" + class }
	if e.custom != nil || finish != nil {
		var ok bool
		var detail string
		if finish != nil {
			ok, detail = finish(got, gotErr)
		} else {
			ok, detail = e.custom(x, args, got, gotErr)
		}
		if !ok {
			h.violate(sig("value"), "%s: %s", opStr, detail)
		}
		h.st.kinds["result_custom_compared"]++
	} else {
		if refDone == nil {
			want, wantErr = e.ref(x, args)
		}
		gc, wc := c12ErrClass(gotErr), c12ErrClass(wantErr)
		switch {
		case c12Unsupported(gotErr) && c12Unsupported(wantErr):
			h.st.unsupported[name]++
			h.st.kinds["unsupported_by_miniredis_identical_on_both_sides"]++
		case gc != wc:
			class := "error"
			if gotErr == red.Nil || wantErr == red.Nil {
				class = "nil-handling"
			} else if cancelled {
				class = "ctx"
			}
			h.violate(sig(class), "%s: wrapper returned %s %s, go-redis (%s) gives %s %s",
				opStr, c12CanonAll(got), gc, e.doc, c12CanonAll(want), wc)
		default:
			g2, w2 := got, want
			if e.multi {
				g2, w2 = c12SortedCopy(got), c12SortedCopy(want)
			}
			if len(g2) != len(w2) || c12CanonAll(g2) != c12CanonAll(w2) {
				class := "value"
				if e.classify != nil {
					if c := e.classify(args, got, want); c != "" {
						class = c
					}
				}
				h.violate(sig(class), "%s: wrapper returned %s (%s), go-redis (%s) gives %s",
					opStr, c12CanonAll(got), gc, e.doc, c12CanonAll(want))
			}
			switch {
			case gotErr == red.Nil:
				h.st.kinds["result_redis.Nil"]++
			case gotErr == nil:
				h.st.kinds["result_ok"]++
			case cancelled:
				h.st.kinds["result_"+c12ErrClass(gotErr)]++
			default:
				h.st.kinds["result_server_error"]++
			}
		}
	}
	// on the wire: the wrapper must send what the equivalent go-redis call sends
	// (same command, same arguments in the same order, same number of commands)
	if wa, wb := h.w.wireTake(); !e.noWire && !(x.reissued && e.wire != nil) { // (a rejected multi-key kv Del may have sent part of its DELs)
		if e.wire != nil {
			if ctx.Err() != nil {
				wb = nil
			} else {
				wb = e.wire(args)
			}
		}
		if sa, sb := c12WireStr(wa), c12WireStr(wb); sa != sb {
			h.violate(h.wprefix+":"+base, "%s: the wrapper put %s on the wire, the equivalent go-redis call (%s) puts %s", opStr, sa, e.doc, sb)
		} else {
			h.st.kinds["wire_streams_compared"]++
			h.st.kinds["wire_commands_compared"] += int64(len(wa))
		}
	}
	// effect on the server: every key of the alphabet, both sides
	for _, k := range h.g.keys {
		a, dup := h.side.snapA(k)
		b := c12SnapKey(h.w.mrB, k)
		if dup {
			h.violate(h.eprefix+":"+base+":key-on-two-shards", "%s: key %q present on more than one shard", opStr, k)
			h.dead = true
			return true
		}
		if a != b {
			what := "value"
			switch {
			case a.Present != b.Present:
				what = "presence"
			case a.Type != b.Type:
				what = "type"
			case a.Val == b.Val:
				what = "ttl"
			}
			h.violate(h.eprefix+":"+base+":"+what, "%s: after the call key %q is [%s] behind the wrapper but [%s] behind go-redis", opStr, k, a, b)
			h.dead = true // model and system diverged
			return true
		}
	}
	// miniredis leaves a member-less set key behind S*STORE with an empty result
	// (Redis deletes it) and later panics on it inside the in-process server:
	// once compared, such keys are removed on every server (harness normalisation).
	for _, k := range h.g.keys {
		if h.g.emptySet(k) {
			for _, s := range h.side.servers {
				s.Del(k)
			}
			h.w.mrB.Del(k)
			h.st.kinds["empty_set_keys_normalised"]++
		}
	}
	return true
}

type c12CtxKey struct{}

// violate records a violation once per signature and history (a return-value
// mismatch that leaves both servers in the same state does not stop the history:
// the sides are still in step). Three different signatures stop it.
func (h *c12Hist) violate(sig, format string, a ...any) {
	h.viols++
	if h.sigs == nil {
		h.sigs = map[string]bool{}
	}
	if h.sigs[sig] {
		h.st.kinds["repeated_violations_same_signature_same_history"]++
		return
	}
	h.sigs[sig] = true
	h.m.Violate(sig, h.desc(), format, a...)
	if len(h.sigs) >= 3 {
		h.dead = true
	}
}

// fastForward advances the TTL clock of every server by d (harness operation).
func (h *c12Hist) fastForward(d time.Duration) {
	for _, s := range h.side.servers {
		s.FastForward(d)
	}
	h.w.mrB.FastForward(d)
	h.log = append(h.log, fmt.Sprintf("<fast-forward %v>", d))
	h.st.kinds["fast_forwards"]++
}

// finalKeyspace compares the complete keyspaces (union of shards vs B).
func (h *c12Hist) finalKeyspace() (nkeys int) {
	all := map[string]bool{}
	for _, s := range h.side.servers {
		for _, k := range s.Keys() {
			all[k] = true
		}
	}
	for _, k := range h.w.mrB.Keys() {
		all[k] = true
	}
	for k := range all {
		a, dup := h.side.snapA(k)
		b := c12SnapKey(h.w.mrB, k)
		if dup || a != b {
			h.violate(h.eprefix+":final-keyspace", "after the history key %q is [%s] (on two shards: %v) behind the wrapper but [%s] behind go-redis", k, a, dup, b)
			return len(all)
		}
	}
	h.st.kinds["keys_compared_after_history"] += int64(len(all))
	return len(all)
}

// ---------------------------------------------------------------------------
// sides

func c12RedisSide(w *c12World, cluster bool) (*c12Side, error) {
	addr := w.shards[0].Addr()
	mk := func() reflect.Value {
		if cluster { // Type=cluster: go-redis ClusterClient; miniredis answers CLUSTER SLOTS with itself for all slots
			return reflect.ValueOf(redis.New(addr, redis.WithCluster(), redis.WithPass(w.pass)))
		}
		return reflect.ValueOf(redis.New(addr, redis.WithPass(w.pass)))
	}
	s := &c12Side{kind: "redis", obj: mk(), rebuild: mk, servers: w.shards[:1], cluster: cluster}
	return s, nil
}

// boundary: 0 = random configuration; 1 = a single shard of weight 1 (the smallest
// valid total weight); 2 = every shard with weight 1.
func c12KVSide(w *c12World, r *rand.Rand, boundary int) (*c12Side, string) {
	n := 1 + r.Intn(len(w.shards))
	switch boundary {
	case 1:
		n = 1
	case 2:
		n = len(w.shards)
	}
	perm := r.Perm(len(w.shards))[:n]
	var conf kv.Config
	var servers []*miniredis.Miniredis
	var ws []int
	for _, i := range perm {
		wt := 1 + r.Intn(100)
		if r.Intn(4) == 0 {
			wt = 100
		}
		if boundary != 0 {
			wt = 1
		}
		ws = append(ws, wt)
		conf = append(conf, cache.NodeConfig{
			Config: redis.Config{Host: w.shards[i].Addr(), Type: redis.NodeType, Pass: w.pass},
			Weight: wt,
		})
		servers = append(servers, w.shards[i])
	}
	mk := func() reflect.Value { return reflect.ValueOf(kv.New(conf)) }
	return &c12Side{kind: "kv", obj: mk(), rebuild: mk, servers: servers}, fmt.Sprintf("shards=%d;weights=%v", n, ws)
}

// c12Coverage compares the table with the method set found by reflection.
// uncovered: methods of the wrapper without a table entry; missing: table
// entries without a method (modified tree).
func c12Coverage(t reflect.Type, names map[string]bool, noCtx map[string]bool) (uncovered, missing []string, total int) {
	have := map[string]bool{}
	for i := 0; i < t.NumMethod(); i++ {
		n := t.Method(i).Name
		have[n] = true
		total++
		base := strings.TrimSuffix(n, "Ctx")
		if !names[n] && !names[base] {
			uncovered = append(uncovered, n)
		}
	}
	for n := range names {
		if !have[n] {
			missing = append(missing, n)
		}
		if !noCtx[n] && !have[n+"Ctx"] {
			missing = append(missing, n+"Ctx")
		}
	}
	sort.Strings(uncovered)
	sort.Strings(missing)
	return
}
