//go:build verif

package redis_test

// C12 — breaker guard completeness over the whole method list.
//
// (A) forced open: one instance's breaker is driven open with thousands of cheap
//     failures (server error replies of a guarded command; virtual clock, nothing
//     ages). Then EVERY method of the table, plain and Ctx form, is called on that
//     instance: a guarded method is rejected (ErrServiceUnavailable; Ping: false)
//     and puts nothing on the wire. A method that is served although the breaker is
//     open is "not guarded": legitimate only for the explicit exemption list below.
// (B) failures are counted: against a closed server every method, on its own fresh
//     instance, must be rejected by the breaker after enough connection failures.
//
// Exempt BY DESIGN on the unchanged tree (documented in the wrapper): String is not
// a command; ScriptLoad[Ctx] talks to the node directly; the blocking pops take a
// caller-supplied node ("no breaker protection"). Ping[Ctx] is guarded (A) but
// folds every error into `false` and reports success to the breaker, so (B) does
// not apply to it.

import (
	"context"
	"fmt"
	"reflect"
	"sort"
	"strings"
	"sync"
	"testing"
	"time"

	"github.com/gotid/god/lib/breaker"
	"github.com/gotid/god/lib/logx"
	"github.com/gotid/god/lib/store/redis"
	"github.com/gotid/god/lib/timex"
	"verif.local/vk"
)

var c12BreakerExempt = map[string]string{
	"String":              "not a command",
	"ScriptLoad":          "talks to the node directly (no breaker in ScriptLoadCtx)",
	"ScriptLoadCtx":       "talks to the node directly",
	"BLPop":               "caller-supplied blocking node, documented as unprotected",
	"BLPopCtx":            "caller-supplied blocking node",
	"BLPopEx":             "caller-supplied blocking node",
	"BLPopExCtx":          "caller-supplied blocking node",
	"BLPopWithTimeout":    "caller-supplied blocking node",
	"BLPopWithTimeoutCtx": "caller-supplied blocking node",
}

// methods whose failures are, by design, not reported to the breaker (clause B only)
var c12BreakerNoCount = map[string]string{
	"Ping":    "folds errors into false and returns nil to the breaker",
	"PingCtx": "folds errors into false and returns nil to the breaker",
}

type c12GuardCall struct {
	e      *c12Entry
	method string
	useCtx bool
	args   []any
}

// c12GuardPlan pre-generates one argument tuple per (method, form); arguments are
// chosen so that the call reaches the server when it is served at all.
func c12GuardPlan(kind string, g *c12Gen, forms []bool) []c12GuardCall {
	var out []c12GuardCall
	for _, e := range c12Entries(kind) {
		base := e.name
		if kind == "kv" {
			base = e.kv
		}
		var a []any
		if e.blocking {
			a = e.gen(&c12Gen{r: g.r, keys: []string{"bs"}, mrB: g.mrB}) // wrong-type key: immediate error, never blocks
			if a == nil {
				a = c12R("bs")
				if base == "BLPopWithTimeout" {
					a = c12R(time.Second, "bs")
				}
			}
		} else {
			for try := 0; try < 30 && a == nil; try++ {
				if a = e.gen(g); a != nil && c12IdlePipe(a) {
					a = nil
				}
			}
		}
		if a == nil {
			continue
		}
		if strings.HasSuffix(base, "AndLimit") && a[4] == any(0) {
			a[4] = 1 // size 0 returns an empty page before anything else
		}
		for _, useCtx := range forms {
			if useCtx && e.noCtx {
				continue
			}
			m := base
			if useCtx {
				m += "Ctx"
			}
			out = append(out, c12GuardCall{e, m, useCtx, a})
		}
	}
	return out
}

func c12GuardInvoke(obj reflect.Value, c c12GuardCall, node redis.ClosableNode, x *c12X) (outs []any, err error, sigErr string) {
	call := c.args
	if c.e.prepare != nil {
		call, _ = c.e.prepare(x, c.args)
	}
	if c.e.blocking {
		call = append([]any{node}, c.args...)
	}
	return c12Invoke(obj, c.method, x.ctx, c.useCtx, call)
}

func c12BreakerGuard(t *testing.T, kind string) {
	logx.Disable()
	m := vk.New(t, "C12", "breaker guard completeness ("+kind+"): (A) breaker of one instance forced open by server-error replies, then every table method (plain and Ctx) called on it: must be rejected without reaching the wire unless on the explicit by-design exemption list; (B, redis) closed server: every method on its own fresh instance must be rejected by the breaker within 40 connection failures; virtual clock frozen")
	defer m.Done()
	timex.VerifFakeClock(time.Hour)
	defer timex.VerifRealClock()
	prefix := "C12:breaker"
	if kind == "kv" {
		prefix = "C12:kv:breaker"
	}
	w, err := c12NewWorld(1)
	if err != nil {
		m.Inconclusive("cannot start miniredis: %v", err)
		return
	}
	defer w.close()
	w.reset()
	r := m.Rand("brk-guard", kind)
	var side *c12Side
	var node redis.ClosableNode
	if kind == "kv" {
		side, _ = c12KVSide(w, r, 1)
	} else {
		side, _ = c12RedisSide(w, false)
		if node, err = redis.CreateBlockingNode(redis.New(w.shards[0].Addr(), redis.WithPass(w.pass))); err != nil {
			m.Inconclusive("CreateBlockingNode: %v", err)
			return
		}
		defer node.Close()
	}
	if err := c12Populate(side.rebuild().Interface().(c12Populator), w.cli); err != nil {
		m.Inconclusive("seeding the servers failed: %v", err)
		return
	}
	g := &c12Gen{r: r, keys: c12BrkKeys, mrB: w.mrB, kv: kind == "kv"}
	plan := c12GuardPlan(kind, g, []bool{false, true})
	exemptSeen := map[string]string{}

	// ---------------- (A) forced open
	obj := side.rebuild()
	// executed failures f grow like sqrt(12 n); drop ratio (f-5)/(f+1) ~ 0.99 after 30000 calls (rejected calls cost microseconds)
	const nForce = 30000
	rejected := 0
	for i := 0; i < nForce; i++ { // HGet on a string key: WRONGTYPE, a failure for the breaker
		_, e, s := c12Invoke(obj, "HGet", context.Background(), false, c12R("bs", "f"))
		if s != "" {
			m.Inconclusive("cannot drive the breaker open: %s", s)
			return
		}
		if e == breaker.ErrServiceUnavailable {
			rejected++
		}
	}
	m.Count("forcing_calls_rejected", int64(rejected))
	if rejected < nForce*9/10 {
		m.Inconclusive("breaker not open after 30000 failing calls (%d rejections)", rejected)
		return
	}
	guarded := 0
	for i, c := range plan {
		if !m.Only(i + 1) {
			continue
		}
		scen := fmt.Sprintf("case=%d;%s;forced-open;method=%s%s", i+1, kind, c.method, c12ArgStr(c.args))
		m.Current(scen)
		x := &c12X{ctx: context.Background(), cli: w.cli, mrB: w.mrB, addrA: w.shards[0].Addr()}
		served, isGuarded := "", false
		for try := 0; try < 4 && !isGuarded; try++ {
			w.wireReset()
			outs, e, s := c12GuardInvoke(obj, c, node, x)
			wa, _ := w.wireTake()
			if s != "" {
				m.Skip(fmt.Sprintf("guard %s.%s: %s", kind, c.method, s))
				served = "skip"
				break
			}
			m.Count("calls_on_open_breaker", 1)
			// kv Del aggregates one rejection per key into a batch error
			rej := e == breaker.ErrServiceUnavailable || (e != nil && strings.Contains(e.Error(), breaker.ErrServiceUnavailable.Error()))
			switch {
			case rej && (len(wa) == 0 || e != breaker.ErrServiceUnavailable):
				// (a batch error of a multi-key kv Del may carry the DELs of keys whose call the breaker let through)
				isGuarded = true
			case rej:
				m.Violate(prefix+":rejected-call-reached-wire:"+c.method, scen, "rejected with ErrServiceUnavailable but %s was sent to the server", c12WireStr(wa))
				isGuarded = true
			case strings.HasPrefix(c.method, "Ping") && len(wa) == 0 && len(outs) == 1 && outs[0] == any(false):
				isGuarded = true // Ping folds the rejection into false
			default:
				served = fmt.Sprintf("returned %s %s, wire %s", c12CanonAll(outs), c12ErrClass(e), c12WireStr(wa))
			}
		}
		if served == "skip" {
			continue
		}
		why, exempt := c12BreakerExempt[c.method]
		switch {
		case isGuarded:
			guarded++
			if exempt {
				m.Note("%s.%s is on the exemption list (%s) but was rejected by the open breaker", kind, c.method, why)
			}
		case exempt:
			exemptSeen[c.method] = why
		default:
			m.Violate(prefix+":method-not-guarded:"+c.method, scen, "breaker of the instance is open (%d of 30000 forcing calls rejected) but %s was served 4 times: %s; not on the by-design exemption list", rejected, c.method, served)
		}
		m.Case("A/"+c.method, true)
	}
	m.Count("methods_rejected_by_open_breaker", int64(guarded))
	m.Count("methods_exempt_by_design", int64(len(exemptSeen)))

	// ---------------- (B) failures counted (redis.Redis; kv delegates to these methods)
	counted := 0
	if kind == "redis" {
		forms := []bool{true}
		if vk.Thorough() {
			forms = []bool{false, true}
		}
		planB := c12GuardPlan(kind, g, forms)
		for _, e := range c12Entries(kind) { // methods without a Ctx form
			if e.noCtx {
				planB = append(planB, c12GuardCall{e, e.name, false, c12R()})
			}
		}
		w.shards[0].Close()
		w.mrB.Close()
		var mu sync.Mutex
		var wg sync.WaitGroup
		sem := make(chan struct{}, 16)
		for i, c := range planB {
			if !m.Only(1000 + i) {
				continue
			}
			if _, ex := c12BreakerExempt[c.method]; ex {
				continue
			}
			if why, ex := c12BreakerNoCount[c.method]; ex {
				mu.Lock()
				exemptSeen[c.method+" (failure counting only)"] = why
				mu.Unlock()
				continue
			}
			wg.Add(1)
			sem <- struct{}{}
			go func(i int, c c12GuardCall) {
				defer wg.Done()
				defer func() { <-sem }()
				scen := fmt.Sprintf("case=%d;redis;closed-server;method=%s%s", 1000+i, c.method, c12ArgStr(c.args))
				inst := side.rebuild() // fresh breaker
				x := &c12X{ctx: context.Background(), cli: w.cli, mrB: w.mrB}
				failures, other := 0, 0
				for n := 0; n < 60 && failures < 40; n++ {
					_, e, s := c12GuardInvoke(inst, c, node, x)
					if s != "" {
						return
					}
					switch {
					case e == breaker.ErrServiceUnavailable:
						mu.Lock()
						counted++
						mu.Unlock()
						m.Count("connection_failures_before_rejection_total", int64(failures))
						m.Case("B/"+c.method, true)
						return
					case c12ConnLevel(e):
						failures++
					default:
						other++
					}
				}
				if failures >= 40 {
					m.Violate("C12:breaker:connection-failures-not-counted:"+c.method, scen, "%d consecutive connection failures of %s on a fresh instance and the breaker never rejected", failures, c.method)
				} else {
					m.Inconclusive("guard B: %s produced %d connection failures and %d other outcomes against a closed server", c.method, failures, other)
				}
			}(i, c)
		}
		wg.Wait()
		m.Count("methods_rejected_after_connection_failures", int64(counted))
	}
	var ex []string
	for k, v := range exemptSeen {
		ex = append(ex, k+": "+v)
	}
	sort.Strings(ex)
	m.Extra("breaker_exempt_by_design", ex)
	m.Note("%s: methods exempt from the breaker by design (explicit list; any other unguarded method is a violation): %s", kind, strings.Join(ex, "; "))
	m.Sample(map[string]any{"wrapper": kind, "methods_called_on_open_breaker": len(plan), "rejected": guarded, "exempt_by_design": len(exemptSeen), "rejected_after_connection_failures": counted})
}

func TestVerifC12BreakerGuardRedis(t *testing.T) { c12BreakerGuard(t, "redis") }
func TestVerifC12BreakerGuardKV(t *testing.T)    { c12BreakerGuard(t, "kv") }
