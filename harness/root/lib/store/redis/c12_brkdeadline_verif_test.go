//go:build verif

package redis_test

// C12 — breaker clause, unanswered requests: a server that accepts the connection
// but never answers within the caller's deadline is a connection-level failure
// (go-redis reports the read timeout / context.DeadlineExceeded of the retry). It is
// neither redis.Nil nor a cancellation by the caller, so such calls must count
// against the per-address breaker: after enough of them it rejects. The server is
// held by a gate in miniredis' PreHook (it NEVER answers, whatever the machine
// load), the breaker window is frozen by the virtual clock; no timing decides.

import (
	"context"
	"errors"
	"net"
	"testing"
	"time"

	"github.com/alicebob/miniredis/v2"
	"github.com/alicebob/miniredis/v2/server"
	"github.com/gotid/god/lib/breaker"
	"github.com/gotid/god/lib/logx"
	"github.com/gotid/god/lib/store/redis"
	"github.com/gotid/god/lib/timex"
	"verif.local/vk"
)

func TestVerifC12BreakerUnanswered(t *testing.T) {
	logx.Disable()
	m := vk.New(t, "C12", "breaker clause, hung server: miniredis holds every command behind a gate (never answers); calls with a 25 ms deadline on a fresh instance all fail with a timeout / context.DeadlineExceeded; within 60 such connection-level failures the breaker must reject (ErrServiceUnavailable); virtual clock frozen")
	defer m.Done()
	timex.VerifFakeClock(time.Hour)
	defer timex.VerifRealClock()
	mr, err := miniredis.Run()
	if err != nil {
		m.Inconclusive("cannot start miniredis: %v", err)
		return
	}
	gate := make(chan struct{})
	mr.Server().SetPreHook(func(_ *server.Peer, _ string, _ ...string) bool {
		<-gate // the server never answers while the scenario runs
		return false
	})
	defer mr.Close()
	defer close(gate)
	r := redis.New(mr.Addr())
	calls := []struct {
		name string
		f    func(ctx context.Context) error
	}{
		{"GetCtx", func(ctx context.Context) error { _, e := r.GetCtx(ctx, "k"); return e }},
		{"SetCtx", func(ctx context.Context) error { return r.SetCtx(ctx, "k", "v") }},
		{"HGetAllCtx", func(ctx context.Context) error { _, e := r.HGetAllCtx(ctx, "h"); return e }},
		{"ZScoreCtx", func(ctx context.Context) error { _, e := r.ZScoreCtx(ctx, "z", "m"); return e }},
	}
	scen := "case=1;hung-server;deadline=25ms"
	m.Current(scen)
	failures, rejections, firstAfter := 0, 0, -1
	kinds := map[string]int{}
	for i := 0; i < 200 && failures < 60 && rejections < 5; i++ {
		c := calls[i%len(calls)]
		ctx, cancel := context.WithTimeout(context.Background(), 25*time.Millisecond)
		e := c.f(ctx)
		cancel()
		var ne net.Error
		switch {
		case e == breaker.ErrServiceUnavailable:
			rejections++
			if firstAfter < 0 {
				firstAfter = failures
			}
		case errors.Is(e, context.DeadlineExceeded):
			failures++
			kinds["context.DeadlineExceeded"]++
		case errors.As(e, &ne) && ne.Timeout():
			failures++
			kinds["i/o timeout"]++
		default:
			kinds["other: "+c12ErrClass(e)]++
		}
	}
	m.Count("unanswered_calls_failed", int64(failures))
	m.Count("breaker_rejections", int64(rejections))
	m.Extra("failure_kinds", kinds)
	m.Extra("failures_before_first_rejection", firstAfter)
	switch {
	case rejections > 0:
	case failures >= 60:
		m.Violate("C12:breaker:not-tripped-by-unanswered-requests", scen, "%d consecutive calls that the server never answered (%v) on a fresh instance and the breaker never rejected", failures, kinds)
	default:
		m.Inconclusive("hung server produced only %d timeout failures (%v)", failures, kinds)
	}
	m.Case("hung-server", failures > 0)
	m.Case("hung-server-rejected", rejections > 0)
	m.Sample(map[string]any{"timeout_failures": failures, "kinds": kinds, "rejections": rejections, "failures_before_first_rejection": firstAfter})
}
