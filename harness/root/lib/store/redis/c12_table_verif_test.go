//go:build verif

package redis_test

// C12 — the correspondence table: one entry per wrapper method, written from the
// Redis command semantics and the wrapper's documented result types:
//   name   method of redis.Redis (plain form; context form = name+"Ctx")
//   kv     method of kv.Store that must behave like the same command on one server
//   doc    equivalent go-redis call + documented conversion
//   gen    argument generator (exactly typed, without ctx)
//   ref    the go-redis call on side B and the conversion of its result
// Nil handling: only Get and GetSet swallow redis.Nil (zero value, nil error);
// every other method must hand redis.Nil through.

import (
	"crypto/sha1"
	"encoding/hex"
	"errors"
	"fmt"
	"sort"
	"strconv"
	"time"

	red "github.com/go-redis/redis/v8"
	"github.com/gotid/god/lib/store/redis"
)

// ---- typed access to argument tuples
func c12s(a []any, i int) string    { return a[i].(string) }
func c12i(a []any, i int) int       { return a[i].(int) }
func c12i64(a []any, i int) int64   { return a[i].(int64) }
func c12f(a []any, i int) float64   { return a[i].(float64) }
func c12u(a []any, i int) uint64    { return a[i].(uint64) }
func c12ss(a []any, i int) []string { return a[i].([]string) }
func c12as(a []any, i int) []any    { return a[i].([]any) }
func c12R(vs ...any) []any          { return append([]any{}, vs...) }
func c12itoa(v int64) string        { return strconv.FormatInt(v, 10) }
func c12secs(n int) time.Duration   { return time.Duration(n) * time.Second }

// documented conversions -----------------------------------------------------

// []interface{} -> []string: missing (nil) elements become "".
func c12Strs(vs []any) []string {
	out := make([]string, len(vs))
	for i, v := range vs {
		switch x := v.(type) {
		case nil:
			out[i] = ""
		case string:
			out[i] = x
		default:
			out[i] = fmt.Sprint(x)
		}
	}
	return out
}

// []Z -> []Pair: member as string, score as int64 (fraction dropped).
func c12Pairs(zs []red.Z) []redis.Pair {
	out := make([]redis.Pair, len(zs))
	for i, z := range zs {
		m, _ := z.Member.(string)
		out[i] = redis.Pair{Member: m, Score: int64(z.Score)}
	}
	return out
}

var c12Scripts = []string{
	`return redis.call('GET', KEYS[1])`,
	`return redis.call('INCRBY', KEYS[1], ARGV[1])`,
	`return {KEYS[1], ARGV[1], 7}`,
	`redis.call('SET', KEYS[1], ARGV[1]) return redis.call('STRLEN', KEYS[1])`,
	`return redis.call('EXISTS', KEYS[1])`,
	`return redis.call('LLEN', KEYS[1])`,
	`if redis.call('GET', KEYS[1]) == ARGV[1] then return redis.call('DEL', KEYS[1]) else return 0 end`,
	`return nosuchfunction(`,
	`return {#ARGV, ARGV[1], ARGV[2]}`,
}

// c12NeverLoaded is only ever used through EvalSha (NOSCRIPT on both sides).
const c12NeverLoaded = `return 'never loaded'`

func c12Sha(script string) string {
	h := sha1.Sum([]byte(script))
	return hex.EncodeToString(h[:])
}

var c12ErrPipe = errors.New("c12: pipeline function failed")

// c12PipeSpec describes what the pipelined function queues.
type c12PipeSpec struct {
	Ops  [][3]string // op, key, value
	Fail bool        // the function returns an error after queueing
}

func (p c12PipeSpec) fn(cx *c12X, x *[]red.Cmder) func(red.Pipeliner) error {
	return func(pipe red.Pipeliner) error {
		*x = nil
		ctx := cx.ctx
		for _, o := range p.Ops {
			var c red.Cmder
			switch o[0] {
			case "SET":
				c = pipe.Set(ctx, o[1], o[2], 0)
			case "GET":
				c = pipe.Get(ctx, o[1])
			case "INCR":
				c = pipe.Incr(ctx, o[1])
			case "RPUSH":
				c = pipe.RPush(ctx, o[1], o[2])
			case "HSET":
				c = pipe.HSet(ctx, o[1], "f1", o[2])
			case "ZADD":
				c = pipe.ZAdd(ctx, o[1], &red.Z{Score: 2, Member: o[2]})
			case "EXPIRE":
				c = pipe.Expire(ctx, o[1], 30*time.Second)
			case "LLEN":
				c = pipe.LLen(ctx, o[1])
			}
			*x = append(*x, c)
		}
		if p.Fail {
			return c12ErrPipe
		}
		return nil
	}
}

func c12CmdResults(cs []red.Cmder) []string {
	out := make([]string, len(cs))
	for i, c := range cs {
		out[i] = c.String()
	}
	return out
}

func c12Contains(set []string, v string) bool {
	for _, s := range set {
		if s == v {
			return true
		}
	}
	return false
}

// c12Table builds the table. Weights steer the random part of the workload
// (writers heavier than readers so that states become interesting).
func c12Table() []*c12Entry {
	var T []*c12Entry
	add := func(e *c12Entry) {
		if e.weight == 0 {
			e.weight = 3
		}
		T = append(T, e)
	}

	// ------------------------------------------------------------------ strings
	add(&c12Entry{name: "Set", kv: "Set", weight: 8, doc: "Set(key,value,0).Err()",
		gen: func(g *c12Gen) []any { return c12R(g.key("string"), g.val()) },
		ref: func(x *c12X, a []any) ([]any, error) { return nil, x.cli.Set(x.ctx, c12s(a, 0), c12s(a, 1), 0).Err() }})
	add(&c12Entry{name: "SetEx", kv: "SetEx", weight: 4, doc: "SET key value EX seconds (seconds>=1)",
		gen: func(g *c12Gen) []any { return c12R(g.key("string"), g.val(), g.secs()) },
		ref: func(x *c12X, a []any) ([]any, error) {
			return nil, x.cli.Set(x.ctx, c12s(a, 0), c12s(a, 1), c12secs(c12i(a, 2))).Err()
		}})
	add(&c12Entry{name: "SetNX", kv: "SetNX", weight: 4, doc: "SetNX(key,value,0) -> bool",
		gen: func(g *c12Gen) []any { return c12R(g.key("string"), g.val()) },
		ref: func(x *c12X, a []any) ([]any, error) {
			v, err := x.cli.SetNX(x.ctx, c12s(a, 0), c12s(a, 1), 0).Result()
			return c12R(v), err
		}})
	add(&c12Entry{name: "SetNXEx", kv: "SetNXEx", weight: 4, doc: "SET key value EX seconds NX -> bool (seconds>=1)",
		gen: func(g *c12Gen) []any { return c12R(g.key("string"), g.val(), g.secs()) },
		ref: func(x *c12X, a []any) ([]any, error) {
			v, err := x.cli.SetNX(x.ctx, c12s(a, 0), c12s(a, 1), c12secs(c12i(a, 2))).Result()
			return c12R(v), err
		}})
	add(&c12Entry{name: "Get", kv: "Get", weight: 5, doc: "Get(key); redis.Nil swallowed -> \"\", nil",
		gen: func(g *c12Gen) []any { return c12R(g.key("string")) },
		ref: func(x *c12X, a []any) ([]any, error) {
			v, err := x.cli.Get(x.ctx, c12s(a, 0)).Result()
			if err == red.Nil {
				return c12R(""), nil
			}
			return c12R(v), err
		}})
	add(&c12Entry{name: "GetSet", kv: "GetSet", weight: 4, doc: "GetSet(key,value); redis.Nil swallowed -> \"\", nil",
		gen: func(g *c12Gen) []any { return c12R(g.key("string"), g.val()) },
		ref: func(x *c12X, a []any) ([]any, error) {
			v, err := x.cli.GetSet(x.ctx, c12s(a, 0), c12s(a, 1)).Result()
			if err == red.Nil {
				return c12R(""), nil
			}
			return c12R(v), err
		}})
	add(&c12Entry{name: "MGet", doc: "MGet(keys...) -> []string, missing/non-string -> \"\"",
		gen: func(g *c12Gen) []any { return c12R(g.keysN("string", 0, 4)) },
		ref: func(x *c12X, a []any) ([]any, error) {
			v, err := x.cli.MGet(x.ctx, c12ss(a, 0)...).Result()
			return c12R(c12Strs(v)), err
		}})
	for _, d := range []struct {
		n string
		f func(x *c12X, k string) *red.IntCmd
	}{
		{"Incr", func(x *c12X, k string) *red.IntCmd { return x.cli.Incr(x.ctx, k) }},
		{"Decr", func(x *c12X, k string) *red.IntCmd { return x.cli.Decr(x.ctx, k) }},
	} {
		d := d
		add(&c12Entry{name: d.n, kv: d.n, weight: 4, doc: d.n + "(key) -> int64",
			gen: func(g *c12Gen) []any { return c12R(g.key("string")) },
			ref: func(x *c12X, a []any) ([]any, error) { v, err := d.f(x, c12s(a, 0)).Result(); return c12R(v), err }})
	}
	add(&c12Entry{name: "IncrBy", kv: "IncrBy", weight: 4, doc: "IncrBy(key,n) -> int64",
		gen: func(g *c12Gen) []any { return c12R(g.key("string"), g.small()) },
		ref: func(x *c12X, a []any) ([]any, error) {
			v, err := x.cli.IncrBy(x.ctx, c12s(a, 0), c12i64(a, 1)).Result()
			return c12R(v), err
		}})
	add(&c12Entry{name: "DecrBy", kv: "DecrBy", weight: 4, doc: "DecrBy(key,n) -> int64",
		gen: func(g *c12Gen) []any { return c12R(g.key("string"), g.small()) },
		ref: func(x *c12X, a []any) ([]any, error) {
			v, err := x.cli.DecrBy(x.ctx, c12s(a, 0), c12i64(a, 1)).Result()
			return c12R(v), err
		}})

	// ------------------------------------------------------------------ generic
	delGen := func(g *c12Gen) []any {
		n := 1 + g.r.Intn(3)
		if !g.kv && g.r.Intn(12) == 0 {
			n = 0 // DEL without keys is an argument error on one server; for kv.Store it is outside the statement
		}
		ks := make([]string, n)
		for i := range ks {
			ks[i] = g.anyKey()
		}
		return c12R(ks)
	}
	add(&c12Entry{name: "Del", weight: 3, doc: "Del(keys...) -> int (number removed)",
		gen: delGen,
		ref: func(x *c12X, a []any) ([]any, error) {
			v, err := x.cli.Del(x.ctx, c12ss(a, 0)...).Result()
			return c12R(int(v)), err
		}})
	add(&c12Entry{kv: "Del", weight: 3,
		wire: func(a []any) [][]string { // one DEL per named key, in order, each on the key's shard
			var out [][]string
			for _, k := range c12ss(a, 0) {
				out = append(out, []string{"DEL", k})
			}
			return out
		}, doc: "Del(keys...) over the shards: every named key removed (state comparison), count = number removed; errors are aggregated per key, so only error/no error is compared",
		gen: delGen,
		custom: func(x *c12X, a []any, got []any, gotErr error) (bool, string) {
			v, werr := x.cli.Del(x.ctx, c12ss(a, 0)...).Result()
			if (gotErr == nil) != (werr == nil) {
				return false, fmt.Sprintf("wrapper returned %s %s, go-redis Del gives %d %s", c12CanonAll(got), c12ErrClass(gotErr), v, c12ErrClass(werr))
			}
			if !x.reissued && c12Canon(got[0]) != c12Canon(v) {
				return false, fmt.Sprintf("wrapper returned %s, go-redis Del removed %d keys", c12CanonAll(got), v)
			}
			return true, ""
		}})
	add(&c12Entry{name: "Exists", kv: "Exists", doc: "Exists(key)==1 -> bool",
		gen: func(g *c12Gen) []any { return c12R(g.anyKey()) },
		ref: func(x *c12X, a []any) ([]any, error) {
			v, err := x.cli.Exists(x.ctx, c12s(a, 0)).Result()
			return c12R(v == 1), err
		}})
	add(&c12Entry{name: "Expire", kv: "Expire", weight: 4, doc: "Expire(key, seconds*time.Second).Err()",
		gen: func(g *c12Gen) []any {
			s := g.secs()
			if g.r.Intn(8) == 0 {
				s = []int{0, -1}[g.r.Intn(2)]
			}
			return c12R(g.anyKey(), s)
		},
		ref: func(x *c12X, a []any) ([]any, error) {
			return nil, x.cli.Expire(x.ctx, c12s(a, 0), c12secs(c12i(a, 1))).Err()
		}})
	add(&c12Entry{name: "ExpireAt", kv: "ExpireAt", weight: 3, doc: "ExpireAt(key, time.Unix(ts,0)).Err()",
		gen: func(g *c12Gen) []any {
			off := []int64{-5, 0, 1, 10, 100, 3600}[g.r.Intn(6)]
			return c12R(g.anyKey(), c12Base.Unix()+off)
		},
		ref: func(x *c12X, a []any) ([]any, error) {
			return nil, x.cli.ExpireAt(x.ctx, c12s(a, 0), time.Unix(c12i64(a, 1), 0)).Err()
		}})
	add(&c12Entry{name: "Persist", kv: "Persist", doc: "Persist(key) -> bool",
		gen: func(g *c12Gen) []any { return c12R(g.anyKey()) },
		ref: func(x *c12X, a []any) ([]any, error) {
			v, err := x.cli.Persist(x.ctx, c12s(a, 0)).Result()
			return c12R(v), err
		}})
	add(&c12Entry{name: "TTL", kv: "TTL", weight: 4, doc: "TTL(key) -> int seconds; the command's codes -2 (no key) / -1 (no expiry) kept",
		gen: func(g *c12Gen) []any { return c12R(g.anyKey()) },
		ref: func(x *c12X, a []any) ([]any, error) {
			d, err := x.cli.TTL(x.ctx, c12s(a, 0)).Result()
			if err != nil {
				return c12R(0), err
			}
			if d < 0 { // go-redis reports the codes -2/-1 as time.Duration(-2)/(-1)
				return c12R(int(d)), nil
			}
			return c12R(int(d / time.Second)), nil
		},
		classify: func(a []any, got, want []any) string {
			if w, ok := want[0].(int); ok && w < 0 {
				return "negative-code"
			}
			return ""
		}})
	add(&c12Entry{name: "Keys", multi: true, doc: "Keys(pattern) -> []string",
		gen: func(g *c12Gen) []any { return c12R([]string{"*", "k*", g.anyKey(), "*1*", "nomatch?"}[g.r.Intn(5)]) },
		ref: func(x *c12X, a []any) ([]any, error) {
			v, err := x.cli.Keys(x.ctx, c12s(a, 0)).Result()
			return c12R(v), err
		}})
	add(&c12Entry{name: "Scan", multi: true, doc: "Scan(cursor,match,count) -> keys, cursor",
		gen: func(g *c12Gen) []any {
			return c12R(uint64(0), []string{"", "*", "k*"}[g.r.Intn(3)], int64(g.r.Intn(3)*10))
		},
		ref: func(x *c12X, a []any) ([]any, error) {
			ks, cur, err := x.cli.Scan(x.ctx, c12u(a, 0), c12s(a, 1), c12i64(a, 2)).Result()
			return c12R(ks, cur), err
		}})
	add(&c12Entry{name: "Ping", weight: 1, fresh: true, doc: "Ping()==\"PONG\" -> bool, errors -> false",
		gen: func(g *c12Gen) []any { return c12R() },
		ref: func(x *c12X, a []any) ([]any, error) {
			v, err := x.cli.Ping(x.ctx).Result()
			return c12R(err == nil && v == "PONG"), nil
		}})
	add(&c12Entry{name: "String", noCtx: true, noWire: true, weight: 1, doc: "address of the node (not a command)",
		gen: func(g *c12Gen) []any { return c12R() },
		custom: func(x *c12X, a []any, got []any, gotErr error) (bool, string) {
			if len(got) != 1 || got[0] != any(x.addrA) {
				return false, fmt.Sprintf("String() = %s, instance was built for address %q", c12CanonAll(got), x.addrA)
			}
			return true, ""
		}})

	// ------------------------------------------------------------------ bitmaps
	add(&c12Entry{name: "SetBit", kv: "SetBit", weight: 4, doc: "SetBit(key,offset,value) -> int (previous bit)",
		gen: func(g *c12Gen) []any {
			v := g.r.Intn(2)
			if g.r.Intn(15) == 0 {
				v = 2
			}
			return c12R(g.key("string"), int64(g.r.Intn(20)), v)
		},
		ref: func(x *c12X, a []any) ([]any, error) {
			v, err := x.cli.SetBit(x.ctx, c12s(a, 0), c12i64(a, 1), c12i(a, 2)).Result()
			return c12R(int(v)), err
		}})
	add(&c12Entry{name: "GetBit", kv: "GetBit", doc: "GetBit(key,offset) -> int",
		gen: func(g *c12Gen) []any { return c12R(g.key("string"), int64(g.r.Intn(24))) },
		ref: func(x *c12X, a []any) ([]any, error) {
			v, err := x.cli.GetBit(x.ctx, c12s(a, 0), c12i64(a, 1)).Result()
			return c12R(int(v)), err
		}})
	add(&c12Entry{name: "BitCount", doc: "BitCount(key,&BitCount{Start,End}) -> int64",
		gen: func(g *c12Gen) []any { return c12R(g.key("string"), g.idx(), g.idx()) },
		ref: func(x *c12X, a []any) ([]any, error) {
			v, err := x.cli.BitCount(x.ctx, c12s(a, 0), &red.BitCount{Start: c12i64(a, 1), End: c12i64(a, 2)}).Result()
			return c12R(v), err
		}})
	add(&c12Entry{name: "BitPos", doc: "BitPos(key,bit,start,end) -> int64",
		gen: func(g *c12Gen) []any { return c12R(g.key("string"), int64(g.r.Intn(2)), g.idx(), g.idx()) },
		ref: func(x *c12X, a []any) ([]any, error) {
			v, err := x.cli.BitPos(x.ctx, c12s(a, 0), c12i64(a, 1), c12i64(a, 2), c12i64(a, 3)).Result()
			return c12R(v), err
		}})
	for _, d := range []struct {
		n string
		f func(x *c12X, dest string, ks []string) *red.IntCmd
	}{
		{"BitOpAnd", func(x *c12X, d string, ks []string) *red.IntCmd { return x.cli.BitOpAnd(x.ctx, d, ks...) }},
		{"BitOpOr", func(x *c12X, d string, ks []string) *red.IntCmd { return x.cli.BitOpOr(x.ctx, d, ks...) }},
		{"BitOpXor", func(x *c12X, d string, ks []string) *red.IntCmd { return x.cli.BitOpXor(x.ctx, d, ks...) }},
	} {
		d := d
		add(&c12Entry{name: d.n, doc: d.n + "(dest,keys...) -> int64",
			gen: func(g *c12Gen) []any { return c12R(g.key("string"), g.keysN("string", 1, 3)) },
			ref: func(x *c12X, a []any) ([]any, error) {
				v, err := d.f(x, c12s(a, 0), c12ss(a, 1)).Result()
				return c12R(v), err
			}})
	}
	add(&c12Entry{name: "BitOpNot", doc: "BitOpNot(dest,key) -> int64",
		gen: func(g *c12Gen) []any { return c12R(g.key("string"), g.key("string")) },
		ref: func(x *c12X, a []any) ([]any, error) {
			v, err := x.cli.BitOpNot(x.ctx, c12s(a, 0), c12s(a, 1)).Result()
			return c12R(v), err
		}})

	// ------------------------------------------------------------------ hashes
	add(&c12Entry{name: "HSet", kv: "HSet", weight: 7, doc: "HSet(key,field,value).Err()",
		gen: func(g *c12Gen) []any { return c12R(g.key("hash"), g.field(), g.val()) },
		ref: func(x *c12X, a []any) ([]any, error) {
			return nil, x.cli.HSet(x.ctx, c12s(a, 0), c12s(a, 1), c12s(a, 2)).Err()
		}})
	add(&c12Entry{name: "HSetNX", kv: "HSetNx", weight: 4, doc: "HSetNX(key,field,value) -> bool",
		gen: func(g *c12Gen) []any { return c12R(g.key("hash"), g.field(), g.val()) },
		ref: func(x *c12X, a []any) ([]any, error) {
			v, err := x.cli.HSetNX(x.ctx, c12s(a, 0), c12s(a, 1), c12s(a, 2)).Result()
			return c12R(v), err
		}})
	add(&c12Entry{name: "HMSet", kv: "HMSet", weight: 4, doc: "HMSet(key, field->value pairs).Err()",
		gen: func(g *c12Gen) []any {
			m := map[string]string{}
			n := 1 + g.r.Intn(3)
			if g.r.Intn(15) == 0 {
				n = 0
			}
			for i := 0; i < n; i++ {
				m[g.field()] = g.val()
			}
			return c12R(g.key("hash"), m)
		},
		ref: func(x *c12X, a []any) ([]any, error) {
			m := a[1].(map[string]string)
			fs := make([]string, 0, len(m))
			for f := range m {
				fs = append(fs, f)
			}
			sort.Strings(fs)
			var flat []any
			for _, f := range fs {
				flat = append(flat, f, m[f])
			}
			return nil, x.cli.HMSet(x.ctx, c12s(a, 0), flat...).Err()
		}})
	add(&c12Entry{name: "HGet", kv: "HGet", weight: 4, doc: "HGet(key,field) -> string | redis.Nil",
		gen: func(g *c12Gen) []any { return c12R(g.key("hash"), g.field()) },
		ref: func(x *c12X, a []any) ([]any, error) {
			v, err := x.cli.HGet(x.ctx, c12s(a, 0), c12s(a, 1)).Result()
			return c12R(v), err
		}})
	add(&c12Entry{name: "HMGet", kv: "HMGet", doc: "HMGet(key,fields...) -> []string, missing -> \"\"",
		gen: func(g *c12Gen) []any {
			n := 1 + g.r.Intn(3)
			fs := make([]string, n)
			for i := range fs {
				fs[i] = g.field()
			}
			return c12R(g.key("hash"), fs)
		},
		ref: func(x *c12X, a []any) ([]any, error) {
			v, err := x.cli.HMGet(x.ctx, c12s(a, 0), c12ss(a, 1)...).Result()
			return c12R(c12Strs(v)), err
		}})
	add(&c12Entry{name: "HGetAll", kv: "HGetAll", doc: "HGetAll(key) -> map[string]string",
		gen: func(g *c12Gen) []any { return c12R(g.key("hash")) },
		ref: func(x *c12X, a []any) ([]any, error) {
			v, err := x.cli.HGetAll(x.ctx, c12s(a, 0)).Result()
			return c12R(v), err
		}})
	add(&c12Entry{name: "HKeys", kv: "HKeys", multi: true, doc: "HKeys(key) -> []string",
		gen: func(g *c12Gen) []any { return c12R(g.key("hash")) },
		ref: func(x *c12X, a []any) ([]any, error) {
			v, err := x.cli.HKeys(x.ctx, c12s(a, 0)).Result()
			return c12R(v), err
		}})
	add(&c12Entry{name: "HVals", kv: "HVals", multi: true, doc: "HVals(key) -> []string",
		gen: func(g *c12Gen) []any { return c12R(g.key("hash")) },
		ref: func(x *c12X, a []any) ([]any, error) {
			v, err := x.cli.HVals(x.ctx, c12s(a, 0)).Result()
			return c12R(v), err
		}})
	add(&c12Entry{name: "HLen", kv: "HLen", doc: "HLen(key) -> int",
		gen: func(g *c12Gen) []any { return c12R(g.key("hash")) },
		ref: func(x *c12X, a []any) ([]any, error) {
			v, err := x.cli.HLen(x.ctx, c12s(a, 0)).Result()
			return c12R(int(v)), err
		}})
	add(&c12Entry{name: "HExists", kv: "HExists", doc: "HExists(key,field) -> bool",
		gen: func(g *c12Gen) []any { return c12R(g.key("hash"), g.field()) },
		ref: func(x *c12X, a []any) ([]any, error) {
			v, err := x.cli.HExists(x.ctx, c12s(a, 0), c12s(a, 1)).Result()
			return c12R(v), err
		}})
	add(&c12Entry{name: "HIncrBy", kv: "HIncrBy", weight: 4, doc: "HIncrBy(key,field,n) -> int",
		gen: func(g *c12Gen) []any { return c12R(g.key("hash"), g.field(), int(g.small())) },
		ref: func(x *c12X, a []any) ([]any, error) {
			v, err := x.cli.HIncrBy(x.ctx, c12s(a, 0), c12s(a, 1), int64(c12i(a, 2))).Result()
			return c12R(int(v)), err
		}})
	add(&c12Entry{name: "HDel", weight: 4, doc: "HDel(key,fields...) -> bool (at least one field removed)",
		gen: func(g *c12Gen) []any {
			n := 1 + g.r.Intn(3)
			fs := make([]string, n)
			for i := range fs {
				fs[i] = g.field()
			}
			return c12R(g.key("hash"), fs)
		},
		ref: func(x *c12X, a []any) ([]any, error) {
			v, err := x.cli.HDel(x.ctx, c12s(a, 0), c12ss(a, 1)...).Result()
			return c12R(v > 0), err
		}})
	add(&c12Entry{kv: "HDel", weight: 4, doc: "HDel(key,field) -> bool (field removed)",
		gen: func(g *c12Gen) []any { return c12R(g.key("hash"), g.field()) },
		ref: func(x *c12X, a []any) ([]any, error) {
			v, err := x.cli.HDel(x.ctx, c12s(a, 0), c12s(a, 1)).Result()
			return c12R(v > 0), err
		}})
	add(&c12Entry{name: "HScan", multi: true, doc: "HScan(key,cursor,match,count) -> field/value list, cursor",
		gen: func(g *c12Gen) []any {
			return c12R(g.key("hash"), uint64(0), []string{"", "*", "f*"}[g.r.Intn(3)], int64(g.r.Intn(3)*10))
		},
		ref: func(x *c12X, a []any) ([]any, error) {
			ks, cur, err := x.cli.HScan(x.ctx, c12s(a, 0), c12u(a, 1), c12s(a, 2), c12i64(a, 3)).Result()
			return c12R(ks, cur), err
		}})

	// ------------------------------------------------------------------ lists
	for _, d := range []struct {
		n string
		f func(x *c12X, k string, vs []any) *red.IntCmd
	}{
		{"LPush", func(x *c12X, k string, vs []any) *red.IntCmd { return x.cli.LPush(x.ctx, k, vs...) }},
		{"RPush", func(x *c12X, k string, vs []any) *red.IntCmd { return x.cli.RPush(x.ctx, k, vs...) }},
	} {
		d := d
		add(&c12Entry{name: d.n, kv: d.n, weight: 7, doc: d.n + "(key,values...) -> int (new length)",
			gen: func(g *c12Gen) []any { return c12R(g.key("list"), g.shaped(1, 3)) },
			ref: func(x *c12X, a []any) ([]any, error) {
				v, err := d.f(x, c12s(a, 0), c12as(a, 1)).Result()
				return c12R(int(v)), err
			}})
	}
	for _, d := range []struct {
		n string
		f func(x *c12X, k string) *red.StringCmd
	}{
		{"LPop", func(x *c12X, k string) *red.StringCmd { return x.cli.LPop(x.ctx, k) }},
		{"RPop", func(x *c12X, k string) *red.StringCmd { return x.cli.RPop(x.ctx, k) }},
	} {
		d := d
		add(&c12Entry{name: d.n, kv: d.n, weight: 3, doc: d.n + "(key) -> string | redis.Nil",
			gen: func(g *c12Gen) []any { return c12R(g.key("list")) },
			ref: func(x *c12X, a []any) ([]any, error) { v, err := d.f(x, c12s(a, 0)).Result(); return c12R(v), err }})
	}
	add(&c12Entry{name: "LLen", kv: "LLen", doc: "LLen(key) -> int",
		gen: func(g *c12Gen) []any { return c12R(g.key("list")) },
		ref: func(x *c12X, a []any) ([]any, error) {
			v, err := x.cli.LLen(x.ctx, c12s(a, 0)).Result()
			return c12R(int(v)), err
		}})
	add(&c12Entry{name: "LIndex", kv: "LIndex", doc: "LIndex(key,index) -> string | redis.Nil",
		gen: func(g *c12Gen) []any { return c12R(g.key("list"), g.idx()) },
		ref: func(x *c12X, a []any) ([]any, error) {
			v, err := x.cli.LIndex(x.ctx, c12s(a, 0), c12i64(a, 1)).Result()
			return c12R(v), err
		}})
	add(&c12Entry{name: "LRange", kv: "LRange", weight: 4, doc: "LRange(key,start,stop) -> []string",
		gen: func(g *c12Gen) []any { return c12R(g.key("list"), int(g.idx()), int(g.idx())) },
		ref: func(x *c12X, a []any) ([]any, error) {
			v, err := x.cli.LRange(x.ctx, c12s(a, 0), int64(c12i(a, 1)), int64(c12i(a, 2))).Result()
			return c12R(v), err
		}})
	add(&c12Entry{name: "LRem", kv: "LRem", doc: "LRem(key,count,value) -> int",
		gen: func(g *c12Gen) []any { return c12R(g.key("list"), g.r.Intn(5)-2, g.member()) },
		ref: func(x *c12X, a []any) ([]any, error) {
			v, err := x.cli.LRem(x.ctx, c12s(a, 0), int64(c12i(a, 1)), c12s(a, 2)).Result()
			return c12R(int(v)), err
		}})
	add(&c12Entry{name: "LTrim", kv: "LTrim", weight: 2, doc: "LTrim(key,start,stop).Err()",
		gen: func(g *c12Gen) []any { return c12R(g.key("list"), g.idx(), g.idx()) },
		ref: func(x *c12X, a []any) ([]any, error) {
			return nil, x.cli.LTrim(x.ctx, c12s(a, 0), c12i64(a, 1), c12i64(a, 2)).Err()
		}})
	// blocking pops: 5 s server-side timeout is fixed by the wrapper, so they are
	// issued on non-empty lists (immediate) or wrong-type keys (immediate error)
	blpopGen := func(g *c12Gen) []any {
		if g.kv {
			return nil
		}
		if g.r.Intn(8) == 0 {
			for _, k := range g.keys {
				if g.mrB.Exists(k) && g.mrB.Type(k) != "list" {
					return c12R(k)
				}
			}
		}
		k := g.existing("list")
		if k == "" {
			return nil
		}
		return c12R(k)
	}
	add(&c12Entry{name: "BLPop", blocking: true, weight: 2, doc: "node.BLPop(5s,key) -> second element | redis.Nil",
		gen: blpopGen,
		ref: func(x *c12X, a []any) ([]any, error) {
			v, err := x.cli.BLPop(x.ctx, 5*time.Second, c12s(a, 0)).Result()
			if err != nil {
				return c12R(""), err
			}
			return c12R(v[1]), nil
		}})
	add(&c12Entry{name: "BLPopEx", blocking: true, weight: 2, doc: "node.BLPop(5s,key) -> second element, true | \"\", false, err",
		gen: blpopGen,
		ref: func(x *c12X, a []any) ([]any, error) {
			v, err := x.cli.BLPop(x.ctx, 5*time.Second, c12s(a, 0)).Result()
			if err != nil {
				return c12R("", false), err
			}
			return c12R(v[1], true), nil
		}})
	add(&c12Entry{name: "BLPopWithTimeout", blocking: true, weight: 2, doc: "node.BLPop(timeout,key) -> second element | redis.Nil on timeout",
		gen: func(g *c12Gen) []any {
			if !g.kv && g.blockEmpty != nil && *g.blockEmpty > 0 {
				for _, k := range g.keys { // times out on both sides: redis.Nil after 1 s
					if !g.mrB.Exists(k) {
						*g.blockEmpty--
						return c12R(time.Second, k)
					}
				}
			}
			a := blpopGen(g)
			if a == nil {
				return nil
			}
			return c12R(time.Duration(1+g.r.Intn(3))*time.Second, a[0])
		},
		ref: func(x *c12X, a []any) ([]any, error) {
			v, err := x.cli.BLPop(x.ctx, a[0].(time.Duration), c12s(a, 1)).Result()
			if err != nil {
				return c12R(""), err
			}
			return c12R(v[1]), nil
		}})

	// ------------------------------------------------------------------ sets
	add(&c12Entry{name: "SAdd", kv: "SAdd", weight: 7, doc: "SAdd(key,members...) -> int (added)",
		gen: func(g *c12Gen) []any { return c12R(g.key("set"), g.shaped(1, 4)) },
		ref: func(x *c12X, a []any) ([]any, error) {
			v, err := x.cli.SAdd(x.ctx, c12s(a, 0), c12as(a, 1)...).Result()
			return c12R(int(v)), err
		}})
	add(&c12Entry{name: "SRem", kv: "SRem", doc: "SRem(key,members...) -> int (removed)",
		gen: func(g *c12Gen) []any { return c12R(g.key("set"), g.shaped(1, 3)) },
		ref: func(x *c12X, a []any) ([]any, error) {
			v, err := x.cli.SRem(x.ctx, c12s(a, 0), c12as(a, 1)...).Result()
			return c12R(int(v)), err
		}})
	add(&c12Entry{name: "SCard", kv: "SCard", doc: "SCard(key) -> int64",
		gen: func(g *c12Gen) []any { return c12R(g.key("set")) },
		ref: func(x *c12X, a []any) ([]any, error) {
			v, err := x.cli.SCard(x.ctx, c12s(a, 0)).Result()
			return c12R(v), err
		}})
	add(&c12Entry{name: "SIsMember", kv: "SIsMember", doc: "SIsMember(key,member) -> bool",
		gen: func(g *c12Gen) []any { return c12R(g.key("set"), g.anys(1, 1)[0]) },
		ref: func(x *c12X, a []any) ([]any, error) {
			v, err := x.cli.SIsMember(x.ctx, c12s(a, 0), a[1]).Result()
			return c12R(v), err
		}})
	add(&c12Entry{name: "SMembers", kv: "SMembers", multi: true, doc: "SMembers(key) -> []string",
		gen: func(g *c12Gen) []any { return c12R(g.key("set")) },
		ref: func(x *c12X, a []any) ([]any, error) {
			v, err := x.cli.SMembers(x.ctx, c12s(a, 0)).Result()
			return c12R(v), err
		}})
	add(&c12Entry{name: "SPop", kv: "SPop", weight: 2,
		wire: func(a []any) [][]string { return [][]string{{"SPOP", c12s(a, 0)}} }, doc: "SPop(key) -> some member, removed | redis.Nil (membership/cardinality compared; the same member is then removed on side B)",
		gen: func(g *c12Gen) []any {
			k := g.key("set")
			if g.emptySet(k) {
				return nil
			}
			return c12R(k)
		},
		custom: func(x *c12X, a []any, got []any, gotErr error) (bool, string) {
			k := c12s(a, 0)
			before, berr := x.cli.SMembers(x.ctx, k).Result()
			if x.ctx.Err() != nil {
				if c12ErrClass(gotErr) != c12ErrClass(x.ctx.Err()) {
					return false, fmt.Sprintf("dead context: wrapper returned %s %s, go-redis gives %s", c12CanonAll(got), c12ErrClass(gotErr), c12ErrClass(x.ctx.Err()))
				}
				return true, ""
			}
			if berr != nil { // wrong type: SPOP must fail the same way
				_, perr := x.cli.SPop(x.ctx, k).Result()
				if c12ErrClass(gotErr) != c12ErrClass(perr) {
					return false, fmt.Sprintf("wrapper returned %s %s, go-redis SPop gives %s", c12CanonAll(got), c12ErrClass(gotErr), c12ErrClass(perr))
				}
				return true, ""
			}
			if len(before) == 0 {
				if gotErr != red.Nil {
					return false, fmt.Sprintf("empty/absent set: wrapper returned %s %s, go-redis SPop gives redis.Nil", c12CanonAll(got), c12ErrClass(gotErr))
				}
				return true, ""
			}
			if gotErr != nil {
				return false, fmt.Sprintf("set has members %q: wrapper returned error %s", before, c12ErrClass(gotErr))
			}
			mem, _ := got[0].(string)
			if !c12Contains(before, mem) {
				return false, fmt.Sprintf("wrapper popped %q which is not a member of %q", mem, before)
			}
			x.cli.SRem(x.ctx, k, mem) // keep side B in step; the per-command state comparison checks the removal on side A
			return true, ""
		}})
	add(&c12Entry{name: "SRandMember", kv: "SRandMember",
		wire: func(a []any) [][]string { return [][]string{{"SRANDMEMBER", c12s(a, 0), strconv.Itoa(c12i(a, 1))}} }, doc: "SRandMemberN(key,count) -> []string (length and membership compared; distinct when count>0)",
		gen: func(g *c12Gen) []any {
			k := g.key("set")
			if g.emptySet(k) {
				return nil
			}
			return c12R(k, g.r.Intn(9)-3)
		},
		custom: func(x *c12X, a []any, got []any, gotErr error) (bool, string) {
			k, n := c12s(a, 0), c12i(a, 1)
			want, werr := x.cli.SRandMemberN(x.ctx, k, int64(n)).Result()
			if c12ErrClass(gotErr) != c12ErrClass(werr) {
				return false, fmt.Sprintf("wrapper returned %s %s, go-redis SRandMemberN gives %s %s", c12CanonAll(got), c12ErrClass(gotErr), c12Canon(want), c12ErrClass(werr))
			}
			if werr != nil {
				return true, ""
			}
			g, _ := got[0].([]string)
			if len(g) != len(want) {
				return false, fmt.Sprintf("wrapper returned %d elements %q, go-redis SRandMemberN(%d) returns %d", len(g), g, n, len(want))
			}
			all, _ := x.cli.SMembers(x.ctx, k).Result()
			seen := map[string]bool{}
			for _, e := range g {
				if !c12Contains(all, e) {
					return false, fmt.Sprintf("wrapper returned %q which is not a member of %q", e, all)
				}
				if n > 0 && seen[e] {
					return false, fmt.Sprintf("count %d > 0 but element %q returned twice: %q", n, e, g)
				}
				seen[e] = true
			}
			return true, ""
		}})
	add(&c12Entry{name: "SScan", kv: "SScan", multi: true, doc: "SScan(key,cursor,match,count) -> members, cursor",
		gen: func(g *c12Gen) []any {
			return c12R(g.key("set"), uint64(0), []string{"", "*", "a*"}[g.r.Intn(3)], int64(g.r.Intn(3)*10))
		},
		ref: func(x *c12X, a []any) ([]any, error) {
			ks, cur, err := x.cli.SScan(x.ctx, c12s(a, 0), c12u(a, 1), c12s(a, 2), c12i64(a, 3)).Result()
			return c12R(ks, cur), err
		}})
	for _, d := range []struct {
		n string
		f func(x *c12X, ks []string) *red.StringSliceCmd
	}{
		{"SUnion", func(x *c12X, ks []string) *red.StringSliceCmd { return x.cli.SUnion(x.ctx, ks...) }},
		{"SDiff", func(x *c12X, ks []string) *red.StringSliceCmd { return x.cli.SDiff(x.ctx, ks...) }},
		{"SInter", func(x *c12X, ks []string) *red.StringSliceCmd { return x.cli.SInter(x.ctx, ks...) }},
	} {
		d := d
		add(&c12Entry{name: d.n, multi: true, doc: d.n + "(keys...) -> []string (first key is the minuend for SDiff)",
			gen: func(g *c12Gen) []any { return c12R(g.keysN("set", 1, 3)) },
			ref: func(x *c12X, a []any) ([]any, error) { v, err := d.f(x, c12ss(a, 0)).Result(); return c12R(v), err }})
	}
	for _, d := range []struct {
		n string
		f func(x *c12X, dest string, ks []string) *red.IntCmd
	}{
		{"SUnionStore", func(x *c12X, d string, ks []string) *red.IntCmd { return x.cli.SUnionStore(x.ctx, d, ks...) }},
		{"SDiffStore", func(x *c12X, d string, ks []string) *red.IntCmd { return x.cli.SDiffStore(x.ctx, d, ks...) }},
		{"SInterStore", func(x *c12X, d string, ks []string) *red.IntCmd { return x.cli.SInterStore(x.ctx, d, ks...) }},
	} {
		d := d
		add(&c12Entry{name: d.n, weight: 2, doc: d.n + "(dest,keys...) -> int",
			gen: func(g *c12Gen) []any { return c12R(g.anyKey(), g.keysN("set", 1, 3)) },
			ref: func(x *c12X, a []any) ([]any, error) {
				v, err := d.f(x, c12s(a, 0), c12ss(a, 1)).Result()
				return c12R(int(v)), err
			}})
	}

	// ------------------------------------------------------------------ sorted sets
	add(&c12Entry{name: "ZAdd", kv: "ZAdd", weight: 7, doc: "ZAdd(key,&Z{Score:float64(score),Member}) == 1 -> bool (new member)",
		gen: func(g *c12Gen) []any { return c12R(g.key("zset"), g.score(), g.member()) },
		ref: func(x *c12X, a []any) ([]any, error) {
			v, err := x.cli.ZAdd(x.ctx, c12s(a, 0), &red.Z{Score: float64(c12i64(a, 1)), Member: c12s(a, 2)}).Result()
			return c12R(v == 1), err
		}})
	add(&c12Entry{name: "ZAddFloat", kv: "ZAddFloat", weight: 5, doc: "ZAdd(key,&Z{Score,Member}) == 1 -> bool; the score is stored unrounded",
		gen: func(g *c12Gen) []any { return c12R(g.key("zset"), g.fscore(), g.member()) },
		ref: func(x *c12X, a []any) ([]any, error) {
			v, err := x.cli.ZAdd(x.ctx, c12s(a, 0), &red.Z{Score: c12f(a, 1), Member: c12s(a, 2)}).Result()
			return c12R(v == 1), err
		}})
	add(&c12Entry{name: "ZAdds", kv: "ZAdds", weight: 4, doc: "ZAdd(key, one Z per Pair...) -> int64 (added)",
		gen: func(g *c12Gen) []any {
			n := 1 + g.r.Intn(3)
			if g.r.Intn(15) == 0 {
				n = 0
			}
			ps := make([]redis.Pair, n)
			for i := range ps {
				ps[i] = redis.Pair{Member: g.member(), Score: g.score()}
			}
			return c12R(g.key("zset"), ps)
		},
		ref: func(x *c12X, a []any) ([]any, error) {
			var zs []*red.Z
			for _, p := range a[1].([]redis.Pair) {
				zs = append(zs, &red.Z{Score: float64(p.Score), Member: p.Member})
			}
			v, err := x.cli.ZAdd(x.ctx, c12s(a, 0), zs...).Result()
			return c12R(v), err
		}})
	add(&c12Entry{name: "ZCard", kv: "ZCard", doc: "ZCard(key) -> int",
		gen: func(g *c12Gen) []any { return c12R(g.key("zset")) },
		ref: func(x *c12X, a []any) ([]any, error) {
			v, err := x.cli.ZCard(x.ctx, c12s(a, 0)).Result()
			return c12R(int(v)), err
		}})
	add(&c12Entry{name: "ZCount", kv: "ZCount", doc: "ZCount(key, min=start, max=stop as decimal strings) -> int",
		gen: func(g *c12Gen) []any { return c12R(g.key("zset"), g.score(), g.score()) },
		ref: func(x *c12X, a []any) ([]any, error) {
			v, err := x.cli.ZCount(x.ctx, c12s(a, 0), c12itoa(c12i64(a, 1)), c12itoa(c12i64(a, 2))).Result()
			return c12R(int(v)), err
		}})
	add(&c12Entry{name: "ZIncrBy", kv: "ZIncrBy", weight: 4, doc: "ZIncrBy(key,float64(n),member) -> int64 (fraction dropped)",
		gen: func(g *c12Gen) []any { return c12R(g.key("zset"), g.small(), g.member()) },
		ref: func(x *c12X, a []any) ([]any, error) {
			v, err := x.cli.ZIncrBy(x.ctx, c12s(a, 0), float64(c12i64(a, 1)), c12s(a, 2)).Result()
			return c12R(int64(v)), err
		}})
	add(&c12Entry{name: "ZScore", kv: "ZScore", weight: 4, doc: "ZScore(key,member) -> int64 (fraction dropped) | redis.Nil",
		gen: func(g *c12Gen) []any { return c12R(g.key("zset"), g.member()) },
		ref: func(x *c12X, a []any) ([]any, error) {
			v, err := x.cli.ZScore(x.ctx, c12s(a, 0), c12s(a, 1)).Result()
			return c12R(int64(v)), err
		}})
	add(&c12Entry{name: "ZRank", kv: "ZRank", doc: "ZRank(key,member) -> int64 | redis.Nil",
		gen: func(g *c12Gen) []any { return c12R(g.key("zset"), g.member()) },
		ref: func(x *c12X, a []any) ([]any, error) {
			v, err := x.cli.ZRank(x.ctx, c12s(a, 0), c12s(a, 1)).Result()
			return c12R(v), err
		}})
	add(&c12Entry{name: "ZRevRank", kv: "ZRevRank", doc: "ZRevRank(key,member) -> int64 | redis.Nil",
		gen: func(g *c12Gen) []any { return c12R(g.key("zset"), g.member()) },
		ref: func(x *c12X, a []any) ([]any, error) {
			v, err := x.cli.ZRevRank(x.ctx, c12s(a, 0), c12s(a, 1)).Result()
			return c12R(v), err
		}})
	add(&c12Entry{name: "ZRem", kv: "ZRem", doc: "ZRem(key,members...) -> int",
		gen: func(g *c12Gen) []any { return c12R(g.key("zset"), g.shaped(1, 3)) },
		ref: func(x *c12X, a []any) ([]any, error) {
			v, err := x.cli.ZRem(x.ctx, c12s(a, 0), c12as(a, 1)...).Result()
			return c12R(int(v)), err
		}})
	add(&c12Entry{name: "ZRemRangeByScore", kv: "ZRemRangeByScore", weight: 2, doc: "ZRemRangeByScore(key, min=start, max=stop) -> int",
		gen: func(g *c12Gen) []any { return c12R(g.key("zset"), g.score(), g.score()) },
		ref: func(x *c12X, a []any) ([]any, error) {
			v, err := x.cli.ZRemRangeByScore(x.ctx, c12s(a, 0), c12itoa(c12i64(a, 1)), c12itoa(c12i64(a, 2))).Result()
			return c12R(int(v)), err
		}})
	add(&c12Entry{name: "ZRemRangeByRank", kv: "ZRemRangeByRank", weight: 2, doc: "ZRemRangeByRank(key,start,stop) -> int",
		gen: func(g *c12Gen) []any { return c12R(g.key("zset"), g.idx(), g.idx()) },
		ref: func(x *c12X, a []any) ([]any, error) {
			v, err := x.cli.ZRemRangeByRank(x.ctx, c12s(a, 0), c12i64(a, 1), c12i64(a, 2)).Result()
			return c12R(int(v)), err
		}})
	add(&c12Entry{name: "ZRange", kv: "ZRange", weight: 4, doc: "ZRange(key,start,stop) -> []string ascending",
		gen: func(g *c12Gen) []any { return c12R(g.key("zset"), g.idx(), g.idx()) },
		ref: func(x *c12X, a []any) ([]any, error) {
			v, err := x.cli.ZRange(x.ctx, c12s(a, 0), c12i64(a, 1), c12i64(a, 2)).Result()
			return c12R(v), err
		}})
	add(&c12Entry{name: "ZRevRange", kv: "ZRevRange", weight: 4, doc: "ZRevRange(key,start,stop) -> []string descending",
		gen: func(g *c12Gen) []any { return c12R(g.key("zset"), g.idx(), g.idx()) },
		ref: func(x *c12X, a []any) ([]any, error) {
			v, err := x.cli.ZRevRange(x.ctx, c12s(a, 0), c12i64(a, 1), c12i64(a, 2)).Result()
			return c12R(v), err
		}})
	add(&c12Entry{name: "ZRangeWithScores", kv: "ZRangeWithScores", weight: 4, doc: "ZRangeWithScores(key,start,stop) -> []Pair (int64 scores)",
		gen: func(g *c12Gen) []any { return c12R(g.key("zset"), g.idx(), g.idx()) },
		ref: func(x *c12X, a []any) ([]any, error) {
			v, err := x.cli.ZRangeWithScores(x.ctx, c12s(a, 0), c12i64(a, 1), c12i64(a, 2)).Result()
			return c12R(c12Pairs(v)), err
		}})
	add(&c12Entry{name: "ZRevRangeWithScores", kv: "ZRevRangeWithScores", weight: 4, doc: "ZRevRangeWithScores(key,start,stop) -> []Pair",
		gen: func(g *c12Gen) []any { return c12R(g.key("zset"), g.idx(), g.idx()) },
		ref: func(x *c12X, a []any) ([]any, error) {
			v, err := x.cli.ZRevRangeWithScores(x.ctx, c12s(a, 0), c12i64(a, 1), c12i64(a, 2)).Result()
			return c12R(c12Pairs(v)), err
		}})
	add(&c12Entry{name: "ZRangeByScoreWithScores", kv: "ZRangeByScoreWithScores", weight: 4, doc: "ZRangeByScoreWithScores(key,{Min:start,Max:stop}) -> []Pair ascending",
		gen: func(g *c12Gen) []any { return c12R(g.key("zset"), g.score(), g.score()) },
		ref: func(x *c12X, a []any) ([]any, error) {
			v, err := x.cli.ZRangeByScoreWithScores(x.ctx, c12s(a, 0), &red.ZRangeBy{Min: c12itoa(c12i64(a, 1)), Max: c12itoa(c12i64(a, 2))}).Result()
			return c12R(c12Pairs(v)), err
		}})
	add(&c12Entry{name: "ZRevRangeByScoreWithScores", kv: "ZRevRangeByScoreWithScores", weight: 4, doc: "ZRevRangeByScoreWithScores(key,{Min:start,Max:stop}) -> []Pair descending",
		gen: func(g *c12Gen) []any { return c12R(g.key("zset"), g.score(), g.score()) },
		ref: func(x *c12X, a []any) ([]any, error) {
			v, err := x.cli.ZRevRangeByScoreWithScores(x.ctx, c12s(a, 0), &red.ZRangeBy{Min: c12itoa(c12i64(a, 1)), Max: c12itoa(c12i64(a, 2))}).Result()
			return c12R(c12Pairs(v)), err
		}})
	limitGen := func(g *c12Gen) []any {
		return c12R(g.key("zset"), g.score(), g.score(), g.r.Intn(3), g.r.Intn(4)) // page 0..2, size 0..3
	}
	add(&c12Entry{name: "ZRangeByScoreWithScoresAndLimit", kv: "ZRangeByScoreWithScoresAndLimit", weight: 4,
		doc: "ZRANGEBYSCORE key start stop WITHSCORES LIMIT page*size size -> []Pair; size 0 -> empty page without a round trip",
		gen: limitGen,
		ref: func(x *c12X, a []any) ([]any, error) {
			page, size := c12i(a, 3), c12i(a, 4)
			if size == 0 {
				return c12R([]redis.Pair{}), nil
			}
			v, err := x.cli.ZRangeByScoreWithScores(x.ctx, c12s(a, 0), &red.ZRangeBy{Min: c12itoa(c12i64(a, 1)), Max: c12itoa(c12i64(a, 2)),
				Offset: int64(page) * int64(size), Count: int64(size)}).Result()
			return c12R(c12Pairs(v)), err
		}})
	add(&c12Entry{name: "ZRevRangeByScoreWithScoresAndLimit", kv: "ZRevRangeByScoreWithScoresAndLimit", weight: 4,
		doc: "ZREVRANGEBYSCORE key stop start WITHSCORES LIMIT page*size size -> []Pair; size 0 -> empty page without a round trip",
		gen: limitGen,
		ref: func(x *c12X, a []any) ([]any, error) {
			page, size := c12i(a, 3), c12i(a, 4)
			if size == 0 {
				return c12R([]redis.Pair{}), nil
			}
			v, err := x.cli.ZRevRangeByScoreWithScores(x.ctx, c12s(a, 0), &red.ZRangeBy{Min: c12itoa(c12i64(a, 1)), Max: c12itoa(c12i64(a, 2)),
				Offset: int64(page) * int64(size), Count: int64(size)}).Result()
			return c12R(c12Pairs(v)), err
		}})
	add(&c12Entry{name: "ZUnionStore", weight: 2, doc: "ZUnionStore(dest,&ZStore{Keys,Weights,Aggregate}) -> int64",
		gen: func(g *c12Gen) []any {
			ks := g.keysN("zset", 1, 3)
			st := &red.ZStore{Keys: ks}
			if g.r.Intn(2) == 0 {
				for range ks {
					st.Weights = append(st.Weights, float64(1+g.r.Intn(3)))
				}
			}
			st.Aggregate = []string{"", "SUM", "MIN", "MAX"}[g.r.Intn(4)]
			return c12R(g.anyKey(), st)
		},
		ref: func(x *c12X, a []any) ([]any, error) {
			in := a[1].(*red.ZStore)
			cp := &red.ZStore{Keys: append([]string(nil), in.Keys...), Weights: append([]float64(nil), in.Weights...), Aggregate: in.Aggregate}
			v, err := x.cli.ZUnionStore(x.ctx, c12s(a, 0), cp).Result()
			return c12R(v), err
		}})

	// ------------------------------------------------------------------ hyperloglog
	add(&c12Entry{name: "PFAdd", kv: "PFAdd", weight: 4, doc: "PFAdd(key,values...) -> bool (HLL altered)",
		gen: func(g *c12Gen) []any { return c12R(g.key("hll"), g.shaped(1, 3)) },
		ref: func(x *c12X, a []any) ([]any, error) {
			v, err := x.cli.PFAdd(x.ctx, c12s(a, 0), c12as(a, 1)...).Result()
			return c12R(v == 1), err
		}})
	add(&c12Entry{name: "PFCount", kv: "PFCount", doc: "PFCount(key) -> int64",
		gen: func(g *c12Gen) []any { return c12R(g.key("hll")) },
		ref: func(x *c12X, a []any) ([]any, error) {
			v, err := x.cli.PFCount(x.ctx, c12s(a, 0)).Result()
			return c12R(v), err
		}})
	add(&c12Entry{name: "PFMerge", weight: 2, doc: "PFMerge(dest,keys...).Err()",
		gen: func(g *c12Gen) []any { return c12R(g.key("hll"), g.keysN("hll", 1, 2)) },
		ref: func(x *c12X, a []any) ([]any, error) {
			return nil, x.cli.PFMerge(x.ctx, c12s(a, 0), c12ss(a, 1)...).Err()
		}})

	// ------------------------------------------------------------------ scripts
	evalArgs := func(g *c12Gen) (string, []any) {
		return c12Scripts[g.r.Intn(len(c12Scripts))], [][]any{{g.val()}, {int(g.small())}, {g.val(), "x"}, g.shaped(0, 3), g.shaped(0, 3)}[g.r.Intn(5)]
	}
	add(&c12Entry{name: "Eval", weight: 3, doc: "Eval(script,keys,args...) -> interface{} | redis.Nil",
		gen: func(g *c12Gen) []any {
			s, args := evalArgs(g)
			return c12R(s, []string{g.anyKey()}, args)
		},
		ref: func(x *c12X, a []any) ([]any, error) {
			v, err := x.cli.Eval(x.ctx, c12s(a, 0), c12ss(a, 1), c12as(a, 2)...).Result()
			return c12R(v), err
		}})
	add(&c12Entry{kv: "Eval", weight: 3, doc: "Eval(script,[]string{key},args...) on the key's shard -> interface{} | redis.Nil",
		gen: func(g *c12Gen) []any {
			s, args := evalArgs(g)
			return c12R(s, g.anyKey(), args)
		},
		ref: func(x *c12X, a []any) ([]any, error) {
			v, err := x.cli.Eval(x.ctx, c12s(a, 0), []string{c12s(a, 1)}, c12as(a, 2)...).Result()
			return c12R(v), err
		}})
	add(&c12Entry{name: "ScriptLoad", weight: 2, doc: "ScriptLoad(script) -> sha1 hex",
		gen: func(g *c12Gen) []any { return c12R(c12Scripts[g.r.Intn(len(c12Scripts))]) },
		ref: func(x *c12X, a []any) ([]any, error) {
			v, err := x.cli.ScriptLoad(x.ctx, c12s(a, 0)).Result()
			return c12R(v), err
		}})
	add(&c12Entry{name: "EvalSha", weight: 3, doc: "EvalSha(sha,keys,args...) -> interface{} | NOSCRIPT | redis.Nil",
		gen: func(g *c12Gen) []any {
			s := c12Scripts[g.r.Intn(len(c12Scripts))]
			if g.r.Intn(6) == 0 {
				s = c12NeverLoaded
			}
			_, args := evalArgs(g)
			return c12R(c12Sha(s), []string{g.anyKey()}, args)
		},
		ref: func(x *c12X, a []any) ([]any, error) {
			v, err := x.cli.EvalSha(x.ctx, c12s(a, 0), c12ss(a, 1), c12as(a, 2)...).Result()
			return c12R(v), err
		}})

	// ------------------------------------------------------------------ pipeline
	add(&c12Entry{name: "Pipelined", weight: 3, doc: "Pipelined(fn): same queued commands, same per-command results, same returned error",
		gen: func(g *c12Gen) []any {
			var p c12PipeSpec
			n := g.r.Intn(5)
			for i := 0; i < n; i++ {
				op := []string{"SET", "GET", "INCR", "RPUSH", "HSET", "ZADD", "EXPIRE", "LLEN"}[g.r.Intn(8)]
				want := map[string]string{"SET": "string", "GET": "string", "INCR": "string", "RPUSH": "list", "HSET": "hash", "ZADD": "zset", "LLEN": "list"}[op]
				k := g.anyKey()
				if want != "" {
					k = g.key(want)
				}
				p.Ops = append(p.Ops, [3]string{op, k, g.val()})
			}
			p.Fail = g.r.Intn(10) == 0
			return c12R(p)
		},
		prepare: func(x *c12X, a []any) ([]any, func(got []any, gotErr error) (bool, string)) {
			spec := a[0].(c12PipeSpec)
			var cmdsA []red.Cmder
			call := []any{spec.fn(x, &cmdsA)}
			return call, func(got []any, gotErr error) (bool, string) {
				var cmdsB []red.Cmder
				_, wantErr := x.cli.Pipelined(x.ctx, spec.fn(x, &cmdsB))
				ra, rb := c12CmdResults(cmdsA), c12CmdResults(cmdsB)
				if c12ErrClass(gotErr) != c12ErrClass(wantErr) || fmt.Sprint(ra) != fmt.Sprint(rb) {
					return false, fmt.Sprintf("wrapper: err=%s cmds=%q; go-redis Pipelined: err=%s cmds=%q", c12ErrClass(gotErr), ra, c12ErrClass(wantErr), rb)
				}
				return true, ""
			}
		}})

	// ------------------------------------------------------------------ geo
	geoLocs := []red.GeoLocation{
		{Name: "palermo", Longitude: 13.361389, Latitude: 38.115556},
		{Name: "catania", Longitude: 15.087269, Latitude: 37.502669},
		{Name: "rome", Longitude: 12.4964, Latitude: 41.9028},
		{Name: "bad", Longitude: 200, Latitude: 95},
	}
	geoNames := []string{"palermo", "catania", "rome", "nowhere"}
	add(&c12Entry{name: "GeoAdd", weight: 3, doc: "GeoAdd(key,locations...) -> int64",
		gen: func(g *c12Gen) []any {
			n := 1 + g.r.Intn(2)
			ls := make([]*redis.GeoLocation, n)
			for i := range ls {
				l := geoLocs[g.r.Intn(len(geoLocs)-1)]
				if g.r.Intn(12) == 0 {
					l = geoLocs[3]
				}
				ls[i] = &l
			}
			return c12R(g.key("zset"), ls)
		},
		ref: func(x *c12X, a []any) ([]any, error) {
			in := a[1].([]*redis.GeoLocation)
			cp := make([]*red.GeoLocation, len(in))
			for i, l := range in {
				c := *l
				cp[i] = &c
			}
			v, err := x.cli.GeoAdd(x.ctx, c12s(a, 0), cp...).Result()
			return c12R(v), err
		}})
	add(&c12Entry{name: "GeoDist", weight: 2, doc: "GeoDist(key,m1,m2,unit) -> float64 | redis.Nil",
		gen: func(g *c12Gen) []any {
			return c12R(g.key("zset"), geoNames[g.r.Intn(4)], geoNames[g.r.Intn(4)], []string{"m", "km", "mi", "ft", "parsec"}[g.r.Intn(5)])
		},
		ref: func(x *c12X, a []any) ([]any, error) {
			v, err := x.cli.GeoDist(x.ctx, c12s(a, 0), c12s(a, 1), c12s(a, 2), c12s(a, 3)).Result()
			return c12R(v), err
		}})
	add(&c12Entry{name: "GeoHash", weight: 1, doc: "GeoHash(key,members...) -> []string (GEOHASH is not implemented by miniredis: identical error expected)",
		gen: func(g *c12Gen) []any { return c12R(g.key("zset"), []string{geoNames[g.r.Intn(4)]}) },
		ref: func(x *c12X, a []any) ([]any, error) {
			v, err := x.cli.GeoHash(x.ctx, c12s(a, 0), c12ss(a, 1)...).Result()
			return c12R(v), err
		}})
	add(&c12Entry{name: "GeoPos", weight: 2, doc: "GeoPos(key,members...) -> []*GeoPos (nil for unknown members)",
		gen: func(g *c12Gen) []any {
			return c12R(g.key("zset"), []string{geoNames[g.r.Intn(4)], geoNames[g.r.Intn(4)]})
		},
		ref: func(x *c12X, a []any) ([]any, error) {
			v, err := x.cli.GeoPos(x.ctx, c12s(a, 0), c12ss(a, 1)...).Result()
			return c12R(v), err
		}})
	geoQuery := func(g *c12Gen) *redis.GeoRadiusQuery {
		return &redis.GeoRadiusQuery{Radius: []float64{50, 200, 1000}[g.r.Intn(3)], Unit: []string{"km", "mi"}[g.r.Intn(2)],
			WithCoord: g.r.Intn(2) == 0, WithDist: g.r.Intn(2) == 0, Count: g.r.Intn(3), Sort: []string{"", "ASC", "DESC"}[g.r.Intn(3)]}
	}
	add(&c12Entry{name: "GeoRadius", weight: 2, doc: "GeoRadius(key,lon,lat,query) -> []GeoLocation",
		gen: func(g *c12Gen) []any { return c12R(g.key("zset"), 15.0, 37.0, geoQuery(g)) },
		ref: func(x *c12X, a []any) ([]any, error) {
			q := *a[3].(*redis.GeoRadiusQuery)
			v, err := x.cli.GeoRadius(x.ctx, c12s(a, 0), c12f(a, 1), c12f(a, 2), &q).Result()
			return c12R(v), err
		}})
	add(&c12Entry{name: "GeoRadiusByMember", weight: 2, doc: "GeoRadiusByMember(key,member,query) -> []GeoLocation",
		gen: func(g *c12Gen) []any { return c12R(g.key("zset"), geoNames[g.r.Intn(4)], geoQuery(g)) },
		ref: func(x *c12X, a []any) ([]any, error) {
			q := *a[2].(*redis.GeoRadiusQuery)
			v, err := x.cli.GeoRadiusByMember(x.ctx, c12s(a, 0), c12s(a, 1), &q).Result()
			return c12R(v), err
		}})
	return T
}
