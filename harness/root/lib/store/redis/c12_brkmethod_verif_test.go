//go:build verif

package redis_test

// C12 — per-method breaker benignity: for EVERY method of the correspondence
// table, a fresh wrapper instance (redis.New / kv.New build a fresh breaker per
// instance) receives N consecutive calls that end in a benign outcome and nothing
// else — (a) the Ctx form with an already cancelled context, (b) for the methods
// that can yield redis.Nil, an absent key/member through the plain and the Ctx
// form — followed by a few ordinary commands. None of these calls may return
// breaker.ErrServiceUnavailable. Virtual clock: everything stays inside one
// breaker window, so ageing cannot hide recorded failures.

import (
	"context"
	"fmt"
	"sort"
	"strings"
	"testing"
	"time"

	red "github.com/go-redis/redis/v8"
	"github.com/gotid/god/lib/breaker"
	"github.com/gotid/god/lib/logx"
	"github.com/gotid/god/lib/store/redis"
	"github.com/gotid/god/lib/timex"
	"verif.local/vk"
)

const c12NilScript = `return redis.call('GET', KEYS[1])`

// c12NilArgs: argument tuples (per call index) whose outcome is redis.Nil on the
// server — absent key or member. Keyed by table entry (redis name, or "kv:"+name
// for kv-only entries). Get and GetSet swallow the Nil (outcome: zero value, nil).
// The blocking pops are not listed: they bypass the breaker by design and a Nil
// there costs a full server-side timeout.
var c12NilArgs = map[string]func(i int) []any{
	"Get":       func(i int) []any { return c12R("absent") },
	"GetSet":    func(i int) []any { return c12R(fmt.Sprintf("absent-%d", i), "v") }, // a new absent key each time
	"HGet":      func(i int) []any { return c12R("absent", "f") },
	"LPop":      func(i int) []any { return c12R("absent") },
	"RPop":      func(i int) []any { return c12R("absent") },
	"LIndex":    func(i int) []any { return c12R("absent", int64(0)) },
	"SPop":      func(i int) []any { return c12R("absent") },
	"ZScore":    func(i int) []any { return c12R("absent", "m") },
	"ZRank":     func(i int) []any { return c12R("absent", "m") },
	"ZRevRank":  func(i int) []any { return c12R("absent", "m") },
	"GeoDist":   func(i int) []any { return c12R("absent", "a", "b", "km") },
	"Eval":      func(i int) []any { return c12R(c12NilScript, []string{"absent"}, []any{}) },
	"kv:Eval":   func(i int) []any { return c12R(c12NilScript, "absent", []any{}) },
	"EvalSha":   func(i int) []any { return c12R(c12Sha(c12NilScript), []string{"absent"}, []any{}) },
	"Pipelined": func(i int) []any { return c12R(c12PipeSpec{Ops: [][3]string{{"GET", "absent", ""}}}) },
}

func c12EntryID(e *c12Entry) string {
	if e.name != "" {
		return e.name
	}
	return "kv:" + e.kv
}

// c12Populator is what both wrappers offer for seeding one key per type.
type c12Populator interface {
	Set(key, value string) error
	RPush(key string, values ...any) (int, error)
	HSet(key, field, value string) error
	SAdd(key string, values ...any) (int, error)
	ZAdd(key string, score int64, member string) (bool, error)
	PFAdd(key string, values ...any) (bool, error)
}

var c12BrkKeys = []string{"bs", "bl", "bh", "bset", "bz", "bhll", "babsent"}

func c12Populate(p c12Populator, cli *red.Client) error {
	ctx := context.Background()
	errs := []error{p.Set("bs", "7"), p.HSet("bh", "f1", "1")}
	_, e := p.RPush("bl", "a", "b")
	errs = append(errs, e)
	_, e = p.SAdd("bset", "a", "b")
	errs = append(errs, e)
	_, e = p.ZAdd("bz", 1, "a")
	errs = append(errs, e)
	_, e = p.PFAdd("bhll", "a")
	errs = append(errs, e)
	errs = append(errs, cli.Set(ctx, "bs", "7", 0).Err(), cli.HSet(ctx, "bh", "f1", "1").Err(), cli.RPush(ctx, "bl", "a", "b").Err(),
		cli.SAdd(ctx, "bset", "a", "b").Err(), cli.ZAdd(ctx, "bz", &red.Z{Score: 1, Member: "a"}).Err(), cli.PFAdd(ctx, "bhll", "a").Err())
	for _, e := range errs {
		if e != nil {
			return e
		}
	}
	return nil
}

func c12BreakerPerMethod(t *testing.T, kind string) {
	logx.Disable()
	m := vk.New(t, "C12", "per-method breaker benignity ("+kind+"): for every table method a fresh instance (fresh breaker) gets N consecutive calls with a cancelled context (Ctx form) and, where the command can answer redis.Nil, N consecutive absent-key calls (plain form and Ctx form separately), no successful call in between, then 6 ordinary commands; no call may return ErrServiceUnavailable; virtual clock keeps all calls in one breaker window")
	defer m.Done()
	timex.VerifFakeClock(time.Hour)
	defer timex.VerifRealClock()
	nShards := 1
	if kind == "kv" {
		nShards = 2
	}
	w, err := c12NewWorld(nShards)
	if err != nil {
		m.Inconclusive("cannot start miniredis: %v", err)
		return
	}
	defer w.close()
	w.reset()
	r := m.Rand("brk-per-method", kind)
	var side *c12Side
	var node redis.ClosableNode
	prefix := "C12:breaker"
	if kind == "kv" {
		side, _ = c12KVSide(w, r, 0)
		for len(side.servers) != nShards { // all shards in play
			side, _ = c12KVSide(w, r, 0)
		}
		prefix = "C12:kv:breaker"
	} else {
		side, _ = c12RedisSide(w, false)
		if node, err = redis.CreateBlockingNode(redis.New(w.shards[0].Addr(), redis.WithPass(w.pass))); err != nil {
			m.Inconclusive("CreateBlockingNode: %v", err)
			return
		}
		defer node.Close()
		side.node = node
	}
	pop, ok := side.rebuild().Interface().(c12Populator)
	if !ok {
		m.Inconclusive("%s wrapper does not offer the seeding methods", kind)
		return
	}
	if err := c12Populate(pop, w.cli); err != nil {
		m.Inconclusive("seeding the servers failed: %v", err)
		return
	}
	for _, c := range w.admin { // EvalSha needs the script on the server; loaded outside the wrapper
		c.ScriptLoad(context.Background(), c12NilScript)
	}
	g := &c12Gen{r: r, keys: c12BrkKeys, mrB: w.mrB, kv: kind == "kv"}
	n := vk.N(60, 300)
	cctx, cancel := context.WithCancel(context.Background())
	cancel()
	covered := map[string][]string{}
	var wantNil []string
	idx := 0

	// run issues n calls of one method on a fresh instance, then ordinary commands.
	run := func(e *c12Entry, method, flavour string, useCtx bool, ctx context.Context, args func(i int) []any, benign func(err error) bool) {
		idx++
		if !m.Only(idx) {
			return
		}
		scen := fmt.Sprintf("case=%d;wrapper=%s;method=%s;flavour=%s;calls=%d", idx, kind, method, flavour, n)
		m.Current(scen)
		obj := side.rebuild()
		sig := fmt.Sprintf("%s:tripped-by-%s:%s", prefix, flavour, method)
		benignSeen, other := 0, map[string]int{}
		for i := 0; i < n; i++ {
			a := args(i)
			if a == nil {
				continue
			}
			call := a
			if e.prepare != nil {
				call, _ = e.prepare(&c12X{ctx: ctx, cli: w.cli, mrB: w.mrB}, a)
			}
			if e.blocking {
				call = append([]any{node}, call...)
			}
			_, gotErr, sigErr := c12Invoke(obj, method, ctx, useCtx, call)
			timex.VerifAdvance(time.Millisecond)
			if sigErr != "" {
				m.Skip(fmt.Sprintf("%s.%s (%s): %s", kind, method, flavour, sigErr))
				return
			}
			m.Count("calls_"+flavour, 1)
			switch {
			case gotErr == breaker.ErrServiceUnavailable:
				m.Violate(sig, scen, "%s%s: call #%d of %d consecutive %s outcomes on a fresh instance was rejected by the breaker (ErrServiceUnavailable); %d benign outcomes before it", method, c12ArgStr(a), i+1, n, flavour, benignSeen)
				return
			case benign(gotErr):
				benignSeen++
			default:
				other[c12ErrClass(gotErr)]++
			}
		}
		// ordinary commands on the same instance must still be served
		for i := 0; i < 6; i++ {
			outs, e1, s1 := c12Invoke(obj, "Set", context.Background(), false, c12R("probe", "1"))
			if s1 == "" && e1 == nil {
				outs, e1, s1 = c12Invoke(obj, "Get", context.Background(), false, c12R("probe"))
			}
			if s1 != "" {
				m.Skip(kind + ": Set/Get probe not available: " + s1)
				break
			}
			if e1 == breaker.ErrServiceUnavailable {
				m.Violate(sig, scen, "after %d consecutive %s outcomes of %s (%d recognised as benign) an ordinary Set/Get on the same instance was rejected by the breaker", n, flavour, method, benignSeen)
				return
			}
			if e1 != nil || len(outs) != 1 || outs[0] != any("1") {
				m.Violate(prefix+":probe-failed-after-"+flavour+":"+method, scen, "ordinary Set/Get after the benign calls returned %v %v", outs, e1)
				return
			}
			m.Count("probe_commands_served", 1)
		}
		if benignSeen > 0 {
			covered[flavour] = append(covered[flavour], method)
		} else {
			m.Note("%s.%s: no %s outcome observed in %d calls (other outcomes %v); only the follow-up probes apply", kind, method, flavour, n, other)
		}
		m.Case(method+"/"+flavour, benignSeen > 0)
	}

	isCancel := func(err error) bool { return c12ErrClass(err) == "context.Canceled" }
	for _, e := range c12Entries(kind) {
		e := e
		base := e.name
		if kind == "kv" {
			base = e.kv
		}
		if !e.noCtx {
			run(e, base+"Ctx", "cancellation", true, cctx, func(i int) []any {
				for try := 0; try < 20; try++ {
					if a := e.gen(g); a != nil {
						return a
					}
				}
				return nil
			}, isCancel)
		}
		if na := c12NilArgs[c12EntryID(e)]; na != nil {
			okNil := func(err error) bool { return err == red.Nil }
			if base == "Get" || base == "GetSet" { // Nil swallowed: the benign outcome is a nil error
				okNil = func(err error) bool { return err == nil }
			}
			wantNil = append(wantNil, base)
			run(e, base, "redis.Nil", false, context.Background(), na, okNil)
			run(e, base+"Ctx", "redis.Nil", true, context.Background(), na, okNil)
		}
	}
	for fl, ms := range covered {
		sort.Strings(ms)
		m.Count("methods_covered_"+fl, int64(len(ms)))
		m.Extra("methods_covered_"+fl, strings.Join(ms, ","))
	}
	var miss []string
	for _, b := range wantNil {
		if !c12In(covered["redis.Nil"], b) || !c12In(covered["redis.Nil"], b+"Ctx") {
			miss = append(miss, b)
		}
	}
	if len(miss) > 0 {
		sort.Strings(miss)
		m.Note("%s: Nil-capable methods without an observed redis.Nil outcome in both forms: %s", kind, strings.Join(miss, ","))
	}
	m.Sample(map[string]any{"wrapper": kind, "calls_per_method_and_flavour": n,
		"methods_covered_cancellation": len(covered["cancellation"]), "methods_covered_redis.Nil": len(covered["redis.Nil"])})
}

func TestVerifC12BreakerPerMethodRedis(t *testing.T) { c12BreakerPerMethod(t, "redis") }
func TestVerifC12BreakerPerMethodKV(t *testing.T)    { c12BreakerPerMethod(t, "kv") }
