//go:build verif

package redis_test

// C12 — connection failure per method: with both servers closed, every method of
// redis.Redis (plain form, fresh instance = fresh breaker) must report a
// connection-level error exactly where the equivalent go-redis call does (not
// nil, not redis.Nil, not a breaker rejection on the first failure) with the same
// (zero) results. Error texts carry the server address and are not compared.

import (
	"context"
	"fmt"
	"reflect"
	"testing"

	red "github.com/go-redis/redis/v8"
	"github.com/gotid/god/lib/breaker"
	"github.com/gotid/god/lib/logx"
	"github.com/gotid/god/lib/store/redis"
	"verif.local/vk"
)

func c12ConnLevel(err error) bool {
	return err != nil && err != red.Nil && err != breaker.ErrServiceUnavailable && c12ErrClass(err) != "context.Canceled"
}

func TestVerifC12Outage(t *testing.T) {
	logx.Disable()
	m := vk.New(t, "C12", "server outage: servers A and B closed; every redis.Redis method (plain form, fresh instance) and the equivalent go-redis call issued once: wrapper must return a connection-level error iff go-redis does, with the same results; Ping -> false")
	defer m.Done()
	w, err := c12NewWorld(1)
	if err != nil {
		m.Inconclusive("cannot start miniredis: %v", err)
		return
	}
	defer w.close()
	w.reset()
	side, _ := c12RedisSide(w, false)
	node, err := redis.CreateBlockingNode(redis.New(w.shards[0].Addr(), redis.WithPass(w.pass)))
	if err != nil {
		m.Inconclusive("CreateBlockingNode: %v", err)
		return
	}
	defer node.Close()
	pop := side.rebuild().Interface().(c12Populator)
	if err := c12Populate(pop, w.cli); err != nil {
		m.Inconclusive("seeding the servers failed: %v", err)
		return
	}
	g := &c12Gen{r: m.Rand("outage"), keys: c12BrkKeys, mrB: w.mrB}
	type planned struct {
		e    *c12Entry
		args []any
	}
	var plan []planned
	for _, e := range c12Entries("redis") {
		for try := 0; try < 30; try++ {
			if a := e.gen(g); a != nil {
				if c12IdlePipe(a) {
					continue // an empty pipeline / a failing fn never reaches the server
				}
				plan = append(plan, planned{e, a})
				break
			}
		}
	}
	addrA := w.shards[0].Addr()
	w.shards[0].Close()
	w.mrB.Close()
	connErrs, refOK := 0, 0
	for i, p := range plan {
		e := p.e
		if !m.Only(i + 1) {
			continue
		}
		scen := fmt.Sprintf("case=%d;outage;method=%s%s", i+1, e.name, c12ArgStr(p.args))
		m.Current(scen)
		x := &c12X{ctx: context.Background(), cli: w.cli, mrB: w.mrB, addrA: addrA}
		call := p.args
		if e.prepare != nil {
			call, _ = e.prepare(x, p.args)
		}
		if e.blocking {
			call = append([]any{node}, p.args...)
		}
		var want []any
		var wantErr error
		done := make(chan struct{})
		simple := e.ref != nil && e.custom == nil && e.prepare == nil
		go func() { // both sides retry with back-off: run them side by side
			defer close(done)
			if simple {
				want, wantErr = e.ref(x, p.args)
			}
		}()
		var obj reflect.Value = side.rebuild()
		got, gotErr, sigErr := c12Invoke(obj, e.name, x.ctx, false, call)
		<-done
		if sigErr != "" {
			m.Skip("outage: " + sigErr)
			continue
		}
		m.Count("calls_during_outage", 1)
		sig := "C12:outage:" + e.name
		switch {
		case e.name == "String":
		case e.name == "Ping":
			if len(got) != 1 || got[0] != any(false) {
				m.Violate(sig+":value", scen, "Ping() with the server closed returned %s, want false", c12CanonAll(got))
			}
		case !simple:
			// random-member commands / pipelines: only the error class of the wrapper is checked
			if !c12ConnLevel(gotErr) {
				m.Violate(sig+":error", scen, "server closed: wrapper returned %s %s, want a connection-level error", c12CanonAll(got), c12ErrClass(gotErr))
			} else {
				connErrs++
			}
		case wantErr == nil:
			refOK++ // the table's call does not reach the server (empty page)
			if gotErr != nil || c12CanonAll(got) != c12CanonAll(want) {
				m.Violate(sig+":value", scen, "server closed: wrapper returned %s %s, go-redis side gives %s ok", c12CanonAll(got), c12ErrClass(gotErr), c12CanonAll(want))
			}
		case !c12ConnLevel(wantErr):
			m.Inconclusive("outage: reference call for %s returned %v instead of a connection error", e.name, wantErr)
		case !c12ConnLevel(gotErr):
			m.Violate(sig+":error", scen, "server closed: wrapper returned %s %s, go-redis (%s) gives a connection-level error (%v)", c12CanonAll(got), c12ErrClass(gotErr), e.doc, wantErr)
		default:
			connErrs++
			g2, w2 := got, want
			if e.multi {
				g2, w2 = c12SortedCopy(got), c12SortedCopy(want)
			}
			if c12CanonAll(g2) != c12CanonAll(w2) {
				m.Violate(sig+":value", scen, "server closed: wrapper returned %s with the error, go-redis gives %s", c12CanonAll(got), c12CanonAll(want))
			}
		}
		m.Case(e.name, true)
	}
	m.Count("methods_with_connection_error_on_both_sides", int64(connErrs))
	m.Count("methods_not_reaching_the_server", int64(refOK))
	m.Sample(map[string]any{"methods_called_during_outage": len(plan), "connection_errors_on_both_sides": connErrs})
}

// c12IdlePipe: a generated Pipelined tuple whose function queues nothing or fails before Exec.
func c12IdlePipe(a []any) bool {
	if len(a) == 0 {
		return false
	}
	sp, ok := a[0].(c12PipeSpec)
	return ok && (len(sp.Ops) == 0 || sp.Fail)
}
