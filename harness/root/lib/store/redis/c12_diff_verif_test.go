//go:build verif

package redis_test

// C12 — test functions: differential histories for redis.Redis and kv.Store,
// and the breaker clause.

import (
	"context"
	"fmt"
	"math/rand"
	"reflect"
	"sort"
	"strings"
	"testing"
	"time"

	"github.com/alicebob/miniredis/v2"
	red "github.com/go-redis/redis/v8"
	"github.com/gotid/god/lib/breaker"
	"github.com/gotid/god/lib/logx"
	"github.com/gotid/god/lib/store/kv"
	"github.com/gotid/god/lib/store/redis"
	"github.com/gotid/god/lib/timex"
	"verif.local/vk"
)

type c12Pick struct {
	e       *c12Entry
	form    c12Form
	ctxMode int // context form: 0 live, 1 already cancelled, 2 deadline already expired
}

// c12Plan: weighted random choice plus a round-robin cursor over every
// (method, form) so that coverage of the whole API does not depend on luck.
type c12Plan struct {
	entries []*c12Entry
	cum     []int
	total   int
	rr      []c12Pick
	cursor  int
	stall   int
}

func c12NewPlan(entries []*c12Entry) *c12Plan {
	p := &c12Plan{entries: entries}
	for _, e := range entries {
		p.total += e.weight
		p.cum = append(p.cum, p.total)
		p.rr = append(p.rr, c12Pick{e, c12Plain, 0})
		if !e.noCtx {
			p.rr = append(p.rr, c12Pick{e, c12Ctx, 0}, c12Pick{e, c12Ctx, 1})
		}
	}
	return p
}

func (p *c12Plan) random(r *rand.Rand) c12Pick {
	x := r.Intn(p.total)
	i := sort.SearchInts(p.cum, x+1)
	f := c12Form(r.Intn(2))
	mode := 0
	if f == c12Ctx {
		switch x := r.Intn(50); {
		case x < 2:
			mode = 1
		case x == 2:
			mode = 2
		}
	}
	return c12Pick{p.entries[i], f, mode}
}

func c12Keys(r *rand.Rand) []string {
	perm := r.Perm(40)[:6]
	ks := make([]string, 6)
	for i, p := range perm {
		ks[i] = fmt.Sprintf("k%d", p)
	}
	return ks
}

// c12RunHistory runs one generated history. It returns whether the history was
// non-trivial (commands were compared and the keyspace was not empty at some point).
func c12RunHistory(m *vk.M, idx int, kind string, w *c12World, side *c12Side, header string, plan *c12Plan, st *c12Stats, r *rand.Rand, blockEmpty *int) (h *c12Hist, nontrivial bool) {
	w.reset()
	h = &c12Hist{m: m, idx: idx, side: side, w: w, st: st, header: header}
	if kind == "kv" {
		h.prefix, h.eprefix, h.wprefix = "C12:kv:diff", "C12:kv:effect", "C12:kv:wire"
	} else {
		h.prefix, h.eprefix, h.wprefix = "C12:diff", "C12:effect", "C12:wire"
	}
	h.g = &c12Gen{r: r, keys: c12Keys(r), mrB: w.mrB, kv: kind == "kv", blockEmpty: blockEmpty}
	h.header += ";keys=" + strings.Join(h.g.keys, ",")
	m.Current(h.desc())
	nops := 50 + r.Intn(251)
	maxKeys := 0
	// histories are self-contained (replayable alone): the round-robin cursor starts at an offset derived from idx
	plan.cursor, plan.stall = (idx*13)%len(plan.rr), 0
	for i := 0; i < nops && !h.dead; i++ {
		if r.Intn(100) < 3 {
			h.fastForward([]time.Duration{time.Second, 2 * time.Second, 10 * time.Second, time.Hour}[r.Intn(4)])
			continue
		}
		var pk c12Pick
		fromRR := r.Intn(100) < 15
		if fromRR {
			pk = plan.rr[plan.cursor%len(plan.rr)]
		} else {
			pk = plan.random(r)
		}
		ok := h.step(pk.e, pk.form, pk.ctxMode)
		if fromRR {
			if ok || plan.stall > 40 {
				plan.cursor++
				plan.stall = 0
			} else {
				plan.stall++
			}
		}
		if n := len(w.mrB.Keys()); n > maxKeys {
			maxKeys = n
		}
	}
	if !h.dead {
		h.finalKeyspace()
	}
	return h, len(h.log) > 10 && maxKeys > 0
}

func c12Report(m *vk.M, kind string, t reflect.Type, entries []*c12Entry, st *c12Stats) {
	names, noCtx := map[string]bool{}, map[string]bool{}
	for _, e := range entries {
		n := e.name
		if kind == "kv" {
			n = e.kv
		}
		names[n] = true
		if e.noCtx {
			noCtx[n] = true
		}
	}
	uncovered, missing, total := c12Coverage(t, names, noCtx)
	m.Extra("wrapper_methods_found_by_reflection", total)
	m.Extra("methods_without_table_entry", uncovered)
	m.Extra("table_entries_without_method", missing)
	if len(uncovered) > 0 {
		m.Note("%s: methods of the wrapper NOT covered by the table (not compared): %s", kind, strings.Join(uncovered, ","))
	} else {
		m.Note("%s: every exported method found by reflection (%d) has a table entry", kind, total)
	}
	for _, n := range missing {
		m.Skip(fmt.Sprintf("%s.%s: in the table but not found on the wrapper", kind, n))
	}
	for n, why := range st.sigSkipped {
		m.Skip(fmt.Sprintf("%s.%s: %s", kind, n, why))
	}
	calls := map[string]int64{}
	var zero []string
	for n := range names {
		forms := []string{n}
		if !noCtx[n] {
			forms = append(forms, n+"Ctx")
		}
		for _, f := range forms {
			calls[f] = st.calls[f]
			m.Count("calls."+f, st.calls[f])
			if st.calls[f] == 0 && st.sigSkipped[f] == "" && !c12In(missing, f) {
				zero = append(zero, f)
			}
		}
	}
	m.Extra("calls_per_method", calls)
	m.Extra("cancelled_context_calls_per_ctx_method", st.cancelled)
	var noCancel []string
	for f := range calls {
		if strings.HasSuffix(f, "Ctx") && st.cancelled[f] == 0 {
			noCancel = append(noCancel, f)
		}
	}
	sort.Strings(noCancel)
	if len(noCancel) > 0 {
		m.Note("%s: Ctx methods never called with a cancelled context in this run: %s", kind, strings.Join(noCancel, ","))
	}
	m.Extra("unsupported_by_miniredis_calls_per_method", st.unsupported)
	for k, v := range st.kinds {
		m.Count(k, v)
	}
	sort.Strings(zero)
	if len(zero) > 0 {
		m.Inconclusive("%s: methods never called in this run: %s", kind, strings.Join(zero, ","))
	}
}

func c12In(l []string, s string) bool {
	for _, x := range l {
		if x == s {
			return true
		}
	}
	return false
}

func c12Entries(kind string) []*c12Entry {
	var out []*c12Entry
	for _, e := range c12Table() {
		if (kind == "redis" && e.name != "") || (kind == "kv" && e.kv != "") {
			out = append(out, e)
		}
	}
	return out
}

func c12Differential(t *testing.T, kind string, nHist int, rule string) {
	logx.Disable()
	m := vk.New(t, "C12", rule)
	defer m.Done()
	nShards := 1
	if kind == "kv" {
		nShards = 4
	}
	entries := c12Entries(kind)
	plan := c12NewPlan(entries)
	st := c12NewStats()
	var w *c12World
	var node, cnode redis.ClosableNode
	clusterOK := false
	defer redis.SetSlowThreshold(100 * time.Millisecond)
	open := func() bool {
		var err error
		if w, err = c12NewWorld(nShards); err != nil {
			m.Inconclusive("cannot start miniredis: %v", err)
			return false
		}
		if kind == "redis" {
			if node, err = redis.CreateBlockingNode(redis.New(w.shards[0].Addr(), redis.WithPass(w.pass))); err != nil {
				m.Inconclusive("CreateBlockingNode: %v", err)
				return false
			}
			// configuration Type=cluster: usable only if the cluster client works against a single miniredis
			// (decided with the RAW go-redis cluster client on B, never with the wrapper under test)
			if e := w.ccli.Set(context.Background(), "c12-cluster-probe", "1", 0).Err(); e == nil {
				if cnode, err = redis.CreateBlockingNode(redis.New(w.shards[0].Addr(), redis.WithCluster(), redis.WithPass(w.pass))); err == nil {
					clusterOK = true
				}
			} else if !clusterOK {
				m.Skip(fmt.Sprintf("Type=cluster histories: go-redis ClusterClient does not work against miniredis (%v)", e))
			}
		}
		return true
	}
	closeW := func() {
		if node != nil {
			node.Close()
			node = nil
		}
		if cnode != nil {
			cnode.Close()
			cnode = nil
		}
		w.close()
	}
	if !open() {
		return
	}
	defer func() { closeW() }()
	for idx := 1; idx <= nHist; idx++ {
		r := m.Rand(kind, idx)
		blockEmpty := 0 // one blocking pop on an empty list (1 s) in each of the first few histories
		if idx <= vk.N(2, 16) {
			blockEmpty = 1
		}
		if !m.Only(idx) {
			continue
		}
		var side *c12Side
		header := "wrapper=redis.Redis"
		if kind == "kv" {
			var cfg string
			boundary := 0
			if idx <= 2 { // histories 1 and 2: smallest valid weights
				boundary = idx
			}
			side, cfg = c12KVSide(w, r, boundary)
			header = "wrapper=kv.Store;" + cfg
		} else if clusterOK && idx%8 == 0 { // the cluster client costs 3 round trips per command against miniredis
			side, _ = c12RedisSide(w, true)
			side.node = cnode
			header = "wrapper=redis.Redis(Type=cluster)"
			st.kinds["histories_type_cluster"]++
		} else {
			side, _ = c12RedisSide(w, false)
			side.node = node
		}
		// every third history with slow-call threshold 0: every command takes the slow-log path of the hook
		if idx%3 == 0 {
			redis.SetSlowThreshold(0)
			header += ";slow-threshold=0"
			st.kinds["histories_all_commands_slow_logged"]++
		} else {
			redis.SetSlowThreshold(100 * time.Millisecond)
		}
		t0 := time.Now()
		h, nontrivial := c12RunHistory(m, idx, kind, w, side, header, plan, st, r, &blockEmpty)
		cls := "wall_ms_histories_plain" // evidence only, never part of a verdict
		if side.cluster {
			cls = "wall_ms_histories_type_cluster"
		}
		st.kinds[cls] += time.Since(t0).Milliseconds()
		m.Case(vk.Digest(h.header, strings.Join(h.log, "|")), nontrivial)
		if kind == "kv" {
			st.kinds[fmt.Sprintf("kv_histories_with_%d_shards", len(side.servers))]++
		}
		if m.WantSample() && (idx%37 == 1 || h.viols > 0) {
			first := h.log
			if len(first) > 12 {
				first = first[:12]
			}
			m.Sample(map[string]any{"history": idx, "config": h.header, "commands": len(h.log), "first_ops": first,
				"violations": h.viols, "keys_on_side_B_at_end": len(w.mrB.Keys())})
		}
		w.wmu.Lock()
		st.kinds["foreign_commands_from_other_processes_ignored"] += w.foreign
		w.foreign = 0
		w.wmu.Unlock()
		if h.viols > 0 {
			// script caches / connections may be out of step after a divergence: fresh servers
			closeW()
			if !open() {
				return
			}
		}
		if idx%50 == 0 {
			m.Progress()
		}
	}
	var typ reflect.Type
	if kind == "kv" {
		typ = reflect.TypeOf((*kv.Store)(nil)).Elem()
	} else {
		typ = reflect.TypeOf((*redis.Redis)(nil))
	}
	c12Report(m, kind, typ, entries, st)
}

// TestVerifC12Redis: redis.Redis on miniredis A vs raw go-redis on miniredis B.
func TestVerifC12Redis(t *testing.T) {
	c12Differential(t, "redis", vk.N(220, 6000),
		"twin-server differential: every exported command method of redis.Redis (plain and Ctx form; every Ctx method also with an already cancelled context) vs the go-redis call of the hand-written table; seeded histories of 50-300 commands over 6 keys (type-aware key choice, 12% wrong-type), fast-forwards; results compared after the documented conversion, the alphabet's keys (type,value,TTL) after every command, the whole keyspace after every history; non-trivial = >10 compared commands and a non-empty keyspace")
}

// TestVerifC12KV: kv.Store over 1..4 miniredis shards vs raw go-redis on one miniredis.
func TestVerifC12KV(t *testing.T) {
	c12Differential(t, "kv", vk.N(120, 3000),
		"twin differential: every method of kv.Store (plain and Ctx) over 1-4 shards with random weights vs go-redis on ONE server; union of shards compared with the single server after every command (alphabet keys) and every history (all keys); a key present on two shards is a violation; multi-key Del must remove every named key")
}

// ---------------------------------------------------------------------------
// breaker clause

// TestVerifC12Breaker: redis.Nil and context cancellation never trip the
// per-address breaker; connection failures do.
func TestVerifC12Breaker(t *testing.T) {
	logx.Disable()
	m := vk.New(t, "C12", "breaker clause: N Nil-returning calls and N cancelled-context calls on one instance never yield ErrServiceUnavailable (virtual clock: all inside one breaker window), a normal call still succeeds afterwards; then on a fresh instance with 20 accepted calls the server is closed: connection failures are observed and a breaker rejection must appear within 100 failures + 60 further calls")
	defer m.Done()
	timex.VerifFakeClock(time.Hour)
	defer timex.VerifRealClock()

	mr, err := miniredis.Run()
	if err != nil {
		m.Inconclusive("cannot start miniredis: %v", err)
		return
	}
	defer mr.Close()
	n := vk.N(10000, 60000)

	// ---- phase 1: redis.Nil
	r := redis.New(mr.Addr())
	_ = r.Set("present", "1")
	nilCalls := []struct {
		name string
		f    func(i int) error
	}{
		{"HGet", func(i int) error { _, e := r.HGet("nohash", "f"); return e }},
		{"LPop", func(i int) error { _, e := r.LPop("nolist"); return e }},
		{"ZScore", func(i int) error { _, e := r.ZScoreCtx(context.Background(), "nozset", "m"); return e }},
		{"ZRank", func(i int) error { _, e := r.ZRank("nozset", "m"); return e }},
		{"LIndex", func(i int) error { _, e := r.LIndex("nolist", 3); return e }},
		{"Eval", func(i int) error { _, e := r.Eval(`return redis.call('GET', KEYS[1])`, []string{"nokey"}); return e }},
	}
	scen := func(phase string, i int) string { return fmt.Sprintf("case=1;phase=%s;call=%d", phase, i) }
	m.Current(scen("nil", 0))
	bad := false
	for i := 0; i < n && !bad; i++ {
		c := nilCalls[i%len(nilCalls)]
		e := c.f(i)
		switch {
		case e == red.Nil:
			m.Count("nil_results", 1)
		case e == breaker.ErrServiceUnavailable:
			m.Violate("C12:breaker:tripped-by-redis.Nil", scen("nil", i), "call #%d (%s on an absent key) was rejected by the breaker after %d redis.Nil results", i, c.name, i)
			bad = true
		default:
			m.Violate("C12:breaker:nil-call-unexpected-result", scen("nil", i), "call #%d (%s on an absent key) returned %v, want redis.Nil", i, c.name, e)
			bad = true
		}
		if i%100 == 99 {
			timex.VerifAdvance(10 * time.Millisecond)
		}
	}
	m.Case("nil-phase", !bad)

	// ---- phase 2: cancelled contexts (same instance, same window; a fresh one if phase 1 already tripped it)
	if bad {
		r = redis.New(mr.Addr())
	}
	cctx, cancel := context.WithCancel(context.Background())
	cancel()
	cancCalls := []struct {
		name string
		f    func() error
	}{
		{"GetCtx", func() error { _, e := r.GetCtx(cctx, "present"); return e }},
		{"SetCtx", func() error { return r.SetCtx(cctx, "present", "2") }},
		{"HGetAllCtx", func() error { _, e := r.HGetAllCtx(cctx, "nohash"); return e }},
		{"ZAddCtx", func() error { _, e := r.ZAddCtx(cctx, "z", 1, "m"); return e }},
		{"PipelinedCtx", func() error {
			return r.PipelinedCtx(cctx, func(p redis.Pipeliner) error { p.Incr(cctx, "present"); return nil })
		}},
	}
	m.Current(scen("cancel", 0))
	bad2 := false
	for i := 0; i < n && !bad2; i++ {
		c := cancCalls[i%len(cancCalls)]
		e := c.f()
		switch {
		case e == context.Canceled:
			m.Count("cancelled_results", 1)
		case e == breaker.ErrServiceUnavailable:
			m.Violate("C12:breaker:tripped-by-cancellation", scen("cancel", i), "call #%d (%s with a cancelled context) was rejected by the breaker after %d context.Canceled results", i, c.name, i)
			bad2 = true
		default:
			m.Violate("C12:breaker:cancelled-call-unexpected-result", scen("cancel", i), "call #%d (%s with a cancelled context) returned %v, want context.Canceled", i, c.name, e)
			bad2 = true
		}
		if i%100 == 99 {
			timex.VerifAdvance(10 * time.Millisecond)
		}
	}
	if !bad && !bad2 {
		for i := 0; i < 50; i++ { // and the instance still serves
			if v, e := r.Get("present"); e != nil || v != "1" {
				m.Violate("C12:breaker:not-serving-after-nil-and-cancel", scen("after", i), "Get after the Nil/cancel phases returned %q, %v", v, e)
				break
			}
			m.Count("served_after_nil_and_cancel", 1)
		}
	}
	m.Case("cancel-phase", !bad2)

	// ---- phase 3: connection failures on a fresh instance (fresh breaker)
	mr2, err := miniredis.Run()
	if err != nil {
		m.Inconclusive("cannot start miniredis: %v", err)
		return
	}
	r2 := redis.New(mr2.Addr())
	for i := 0; i < 20; i++ {
		if e := r2.Set("k", "v"); e != nil {
			m.Inconclusive("warm-up call failed: %v", e)
			mr2.Close()
			return
		}
	}
	mr2.Close()
	m.Current(scen("connfail", 0))
	failures, rejections, firstRejectionAfter, calls := 0, 0, -1, 0
	others := map[string]int{}
	for calls < 2000 {
		if failures >= 100 && rejections == 0 && calls >= failures+60 {
			break
		}
		if rejections >= 20 {
			break
		}
		_, e := r2.Get("k")
		calls++
		switch {
		case e == breaker.ErrServiceUnavailable:
			rejections++
			if firstRejectionAfter < 0 {
				firstRejectionAfter = failures
			}
		case e == nil:
			others["nil"]++
		case e == red.Nil || e == context.Canceled:
			others[e.Error()]++
		default:
			failures++ // dial / EOF errors: connection-level
			if failures == 1 {
				m.Note("first connection-level error after closing the server: %v", e)
			}
		}
		timex.VerifAdvance(time.Millisecond)
	}
	m.Count("connection_failures", int64(failures))
	m.Count("breaker_rejections", int64(rejections))
	m.Count("calls_against_closed_server", int64(calls))
	m.Extra("connection_failures_before_first_rejection", firstRejectionAfter)
	switch {
	case failures < 16:
		m.Inconclusive("only %d connection failures observed against the closed server (other results %v)", failures, others)
	case rejections == 0:
		m.Violate("C12:breaker:not-tripped-by-connection-failures", scen("connfail", calls), "%d connection failures in %d calls (20 accepted before) and no breaker rejection", failures, calls)
	}
	m.Case("connfail-phase", failures > 0 && rejections > 0)
	m.Sample(map[string]any{"phase1_nil_calls": n, "phase2_cancelled_calls": n, "phase3_connection_failures": failures,
		"phase3_rejections": rejections, "failures_before_first_rejection": firstRejectionAfter})
}
