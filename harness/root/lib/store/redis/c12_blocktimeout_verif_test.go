//go:build verif

package redis_test

// C12 — blocking pops on an EMPTY list: the server-side timeout expires (5 s fixed
// for BLPop/BLPopEx, the caller's 1 s for BLPopWithTimeout) and go-redis reports
// redis.Nil; the wrapper must report the same (BLPopEx: "", false, redis.Nil). All
// six entry points run at the same time, each on its own blocking node from
// CreateBlockingNode, next to the equivalent go-redis call on side B.

import (
	"context"
	"fmt"
	"reflect"
	"sync"
	"testing"
	"time"

	"github.com/gotid/god/lib/logx"
	"github.com/gotid/god/lib/store/redis"
	"verif.local/vk"
)

func TestVerifC12BlockingTimeout(t *testing.T) {
	logx.Disable()
	m := vk.New(t, "C12", "blocking pops on an empty list, all entry points concurrently (BLPop, BLPopEx: 5 s; BLPopWithTimeout: 1 s; plain and Ctx): result, error class (redis.Nil) and the command on the wire equal to go-redis BLPop with the same timeout; list still absent afterwards")
	defer m.Done()
	w, err := c12NewWorld(1)
	if err != nil {
		m.Inconclusive("cannot start miniredis: %v", err)
		return
	}
	defer w.close()
	w.reset()
	r := redis.New(w.shards[0].Addr(), redis.WithPass(w.pass))
	type job struct {
		e      *c12Entry
		method string
		useCtx bool
		args   []any
		key    string
	}
	var jobs []job
	for _, e := range c12Entries("redis") {
		if !e.blocking {
			continue
		}
		for _, useCtx := range []bool{false, true} {
			meth := e.name
			if useCtx {
				meth += "Ctx"
			}
			key := "empty-" + meth
			a := c12R(key)
			if e.name == "BLPopWithTimeout" {
				a = c12R(time.Second, key)
			}
			jobs = append(jobs, job{e, meth, useCtx, a, key})
		}
	}
	type res struct {
		got, want       []any
		gotErr, wantErr error
		sigErr          string
	}
	results := make([]res, len(jobs))
	var wg sync.WaitGroup
	w.wireReset()
	for i, j := range jobs {
		node, err := redis.CreateBlockingNode(r)
		if err != nil {
			m.Inconclusive("CreateBlockingNode: %v", err)
			return
		}
		defer node.Close()
		wg.Add(2)
		go func(i int, j job) {
			defer wg.Done()
			results[i].got, results[i].gotErr, results[i].sigErr = c12Invoke(reflect.ValueOf(r), j.method, context.Background(), j.useCtx, append([]any{node}, j.args...))
		}(i, j)
		go func(i int, j job) {
			defer wg.Done()
			results[i].want, results[i].wantErr = j.e.ref(&c12X{ctx: context.Background(), cli: w.cli, mrB: w.mrB}, j.args)
		}(i, j)
	}
	if !vk.Within(40*time.Second, wg.Wait) {
		m.Inconclusive("blocking pops did not return within 40 s (5 s server-side timeout)")
		return
	}
	wa, wb := w.wireTake()
	pick := func(cs [][]string, key string) (out [][]string) {
		for _, c := range cs {
			if len(c) > 1 && c[1] == key {
				out = append(out, c)
			}
		}
		return
	}
	for i, j := range jobs {
		x := results[i]
		scen := fmt.Sprintf("case=%d;blocking-timeout;%s%s on an empty list", i+1, j.method, c12ArgStr(j.args))
		if x.sigErr != "" {
			m.Skip("blocking timeout: " + x.sigErr)
			continue
		}
		m.Count("blocking_timeouts_compared", 1)
		gc, wc := c12ErrClass(x.gotErr), c12ErrClass(x.wantErr)
		switch {
		case wc != "redis.Nil":
			m.Inconclusive("reference BLPop for %s returned %s %s, expected redis.Nil after the timeout", j.method, c12CanonAll(x.want), wc)
		case gc != wc:
			m.Violate("C12:diff:"+j.e.name+":nil-handling", scen, "timeout on an empty list: wrapper returned %s %s, go-redis (%s) gives %s %s", c12CanonAll(x.got), gc, j.e.doc, c12CanonAll(x.want), wc)
		case c12CanonAll(x.got) != c12CanonAll(x.want):
			m.Violate("C12:diff:"+j.e.name+":value", scen, "timeout on an empty list: wrapper returned %s, go-redis gives %s", c12CanonAll(x.got), c12CanonAll(x.want))
		}
		if sa, sb := c12WireStr(pick(wa, j.key)), c12WireStr(pick(wb, j.key)); sa != sb {
			m.Violate("C12:wire:"+j.e.name, scen, "the wrapper put %s on the wire, go-redis puts %s", sa, sb)
		}
		if w.shards[0].Exists(j.key) || w.mrB.Exists(j.key) {
			m.Violate("C12:effect:"+j.e.name+":presence", scen, "key %q exists after a timed-out blocking pop", j.key)
		}
		m.Case(j.method, true)
	}
	m.Sample(map[string]any{"entry_points": len(jobs), "all_returned_redis.Nil_on_side_B": true})
}
