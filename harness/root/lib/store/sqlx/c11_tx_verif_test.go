//go:build verif

package sqlx_test

// C11, transaction half: Transact / TransactCtx (sqlx.Conn and sqlc.CachedConn) run
// on the recording driver. For every transaction the oracle takes what the body
// really did (returned nil / returned an error / panicked — recorded inside the body)
// and what reached the driver (Begin / Commit / Rollback events, faults injected) and
// checks the statement's table: nil result <=> exactly one successful Commit and no
// Rollback; anything else exactly one Rollback and no Commit (or one failed Commit
// whose error is returned; or neither when Begin itself failed); the body's error
// comes back (errors.Is) unless Rollback failed too; a panic never becomes nil.

import (
	"context"
	"database/sql"
	"database/sql/driver"
	"errors"
	"fmt"
	"io"
	"sync/atomic"
	"testing"
	"time"

	"github.com/DATA-DOG/go-sqlmock"
	"github.com/gotid/god/lib/breaker"
	"github.com/gotid/god/lib/store/sqlc"
	"github.com/gotid/god/lib/store/sqlx"
	"verif.local/vk"
)

type c11TxCase struct {
	API           string `json:"api"`     // sqlx.Transact sqlx.TransactCtx sqlc.Transact sqlc.TransactCtx
	N             int    `json:"n"`       // statements the body would run
	Outcome       string `json:"outcome"` // nil error panic-error panic-string panic-runtime
	K             int    `json:"k"`       // statements run before the outcome (== N for nil)
	Kinds         string `json:"kinds"`   // one letter per statement: e(xec) q(uery) p(repared exec) r(prepared query); x y z w = exec / query / prepared exec / prepared query whose arguments do not match the placeholders (fails in sqlx before the driver)
	BeginFault    bool   `json:"begin_fault,omitempty"`
	StmtFault     int    `json:"stmt_fault"`         // -1 none, else 0-based ordinal of the failing statement
	Reaction      string `json:"reaction,omitempty"` // propagate swallow panic notfound-continue: what the body does with a statement error
	// CtxMode (TransactCtx only): "" live context | cancelled-before the call | cancelled-by-body just
	// before the body returns or panics | deadline-in-body: a 1 ms deadline the body waits out first
	CtxMode   string `json:"ctx,omitempty"`
	// ErrKind: which error value the body returns / panics with ("" = the harness' own error);
	// sentinels the library itself treats specially must come back like any other error
	ErrKind   string `json:"err,omitempty"`
	// TermErrKind: which error value the injected Commit / Rollback fault returns ("" = the
	// harness' own error); a failed Commit must surface whatever its value
	TermErrKind string `json:"term_err,omitempty"`
	PrepFault bool   `json:"prep_fault,omitempty"` // the fault of statement StmtFault (a prepared statement) hits Prepare, not the execution
	IterFault     bool   `json:"iter_fault,omitempty"` // the fault of statement StmtFault (a single-row query) hits the fetch of its first row, not the call
	CommitFault   bool   `json:"commit_fault,omitempty"`
	RollbackFault bool   `json:"rollback_fault,omitempty"`
}

// c11TxObs is what was observed for one transaction.
type c11TxObs struct {
	bodyCalls  int
	bodyKind   string // "nil" "error" "panic" ("" = body never finished/ran)
	bodyErr    error
	bodyPanic  error // the error value the body panicked with, if it was one
	termFault  [2]error // the values armed for a Commit / Rollback fault (nil = none armed)
	res        error
	panicked   bool
	pv         any
	events     []c11Event // driver events of this transaction only
	stmtErrors int
	// single-row query whose first-row fetch failed at the driver: what the body was told
	iterAsNotFound bool
	iterSwallowed  bool
	nilStmt        bool // a Prepare on the session returned (nil, nil)
	faultSwallowed string // a statement during which the driver injected a fault returned nil
	// context handed to TransactCtx: done before the call / done when the body finished
	ctxDoneBefore bool
	ctxDone       bool
	asyncWaited   bool
}

// c11AsyncWaitSpent: the (single) generous wait for an asynchronous rollback has timed out once
// in this process; later transactions are judged on what is there when the call returns.
var c11AsyncWaitSpent atomic.Bool

var (
	c11ErrBody = errors.New("c11: body error")

	c11ErrCommitFault   = errors.New("c11 fault commit")
	c11ErrRollbackFault = errors.New("c11 fault rollback")
	c11TermErrKinds     = []string{"sql.ErrTxDone", "sql.ErrConnDone", "driver.ErrBadConn", "context.Canceled", "context.DeadlineExceeded", "sql.ErrNoRows", "io.EOF", "wrapped(sql.ErrTxDone)", "wrapped(driver.ErrBadConn)"}
	c11WrappedBadConn   = fmt.Errorf("c11: network: %w", driver.ErrBadConn)

	c11ErrKinds    = []string{"sql.ErrTxDone", "sql.ErrNoRows", "sql.ErrConnDone", "context.Canceled", "context.DeadlineExceeded", "breaker.ErrServiceUnavailable", "driver.ErrBadConn", "io.EOF", "wrapped(sql.ErrTxDone)", "wrapped(sql.ErrNoRows)", "wrapped(context.Canceled)"}
	c11ErrKindVals = map[string]error{
		"":                              c11ErrBody,
		"sql.ErrTxDone":                 sql.ErrTxDone,
		"sql.ErrNoRows":                 sql.ErrNoRows,
		"sql.ErrConnDone":               sql.ErrConnDone,
		"context.Canceled":              context.Canceled,
		"context.DeadlineExceeded":      context.DeadlineExceeded,
		"breaker.ErrServiceUnavailable": breaker.ErrServiceUnavailable,
		"driver.ErrBadConn":             driver.ErrBadConn,
		"io.EOF":                        io.EOF,
		"wrapped(sql.ErrTxDone)":        fmt.Errorf("c11: step 3 failed: %w", sql.ErrTxDone),
		"wrapped(sql.ErrNoRows)":        fmt.Errorf("c11: lookup: %w", sql.ErrNoRows),
		"wrapped(context.Canceled)":     fmt.Errorf("c11: aborted: %w", context.Canceled),
	}
)

func c11Call(api string, conn sqlx.Conn, ctx context.Context, body func(context.Context, sqlx.Session) error) error {
	switch api {
	case "sqlx.Transact":
		return conn.Transact(func(s sqlx.Session) error { return body(context.Background(), s) })
	case "sqlx.TransactCtx":
		return conn.TransactCtx(ctx, body)
	case "sqlc.Transact":
		return sqlc.NewConnWithCache(conn, nil).Transact(func(s sqlx.Session) error { return body(context.Background(), s) })
	default:
		return sqlc.NewConnWithCache(conn, nil).TransactCtx(ctx, body)
	}
}

// c11RunStmt runs statement kind k through the session and returns its error.
func c11RunStmt(ctx context.Context, s sqlx.Session, kind byte, i int) error {
	switch kind {
	case 'e':
		if i%2 == 0 {
			_, err := s.Exec("update t set v = ? where id = ?", "x'y", i)
			return err
		}
		_, err := s.ExecCtx(ctx, "delete from t where id = :1", i)
		return err
	case 'q':
		var v int64
		if i%2 == 0 {
			return s.QueryRow(&v, "select c from t where id = ?", i)
		}
		return s.QueryRowCtx(ctx, &v, "select c from t")
	case 'x':
		_, err := s.Exec("update t set v = ? where id = ?", i)
		return err
	case 'y':
		var v int64
		return s.QueryRowCtx(ctx, &v, "select c from t where id = ? and k = ?", i)
	case 'z':
		st, err := s.Prepare("insert into t(v, w) values (?, ?)")
		if err != nil {
			return err
		}
		if st == nil {
			return c11ErrNilStmtTx
		}
		defer st.Close()
		_, err = st.ExecCtx(ctx, i)
		return err
	case 'w':
		st, err := s.PrepareCtx(ctx, "select c from t where a = ? and b = ?")
		if err != nil {
			return err
		}
		if st == nil {
			return c11ErrNilStmtTx
		}
		defer st.Close()
		var v int64
		return st.QueryRow(&v, i)
	case 'p':
		st, err := s.Prepare("insert into t(v) values (?)")
		if err != nil {
			return err
		}
		if st == nil {
			return c11ErrNilStmtTx
		}
		defer st.Close()
		_, err = st.Exec(i)
		return err
	default:
		st, err := s.PrepareCtx(ctx, "select c from t where id > ?")
		if err != nil {
			return err
		}
		if st == nil {
			return c11ErrNilStmtTx
		}
		defer st.Close()
		var vs []int64
		return st.QueryRows(&vs, i)
	}
}

// c11ErrNilStmtTx: the transaction session's Prepare returned a nil statement and a nil error.
var c11ErrNilStmtTx = errors.New("c11: session.Prepare returned (nil, nil)")

// c11RunTx runs one transaction described by c on conn/rec and returns the observation.
func c11RunTx(c c11TxCase, conn sqlx.Conn, rec *c11Rec) c11TxObs {
	return c11RunTxWith(c, rec, func(ctx context.Context, body func(context.Context, sqlx.Session) error) error {
		return c11Call(c.API, conn, ctx, body)
	})
}

// c11RunTxWith is c11RunTx with the entry point supplied by the caller.
func c11RunTxWith(c c11TxCase, rec *c11Rec, call func(context.Context, func(context.Context, sqlx.Session) error) error) c11TxObs {
	var o c11TxObs
	start := len(rec.snapshot())
	cctx, cancel := context.Background(), context.CancelFunc(func() {})
	switch c.CtxMode {
	case "cancelled-before":
		cctx, cancel = context.WithCancel(context.Background())
		cancel()
	case "cancelled-by-body":
		cctx, cancel = context.WithCancel(context.Background())
	case "deadline-in-body":
		cctx, cancel = context.WithTimeout(context.Background(), time.Millisecond)
	}
	defer cancel()
	o.ctxDoneBefore = cctx.Err() != nil
	if c.CommitFault {
		o.termFault[0] = c11TermErr(c.TermErrKind, "commit")
	}
	if c.RollbackFault {
		o.termFault[1] = c11TermErr(c.TermErrKind, "rollback")
	}
	body := func(ctx context.Context, s sqlx.Session) (err error) {
		o.bodyCalls++
		o.bodyKind, o.bodyErr = "panic", nil // overwritten on every normal return
		if c.CtxMode == "deadline-in-body" {
			<-cctx.Done() // the deadline passes while the body is at work (certain to fire: no verdict depends on when)
		}
		defer func() {
			if c.CtxMode == "cancelled-by-body" {
				cancel()
			}
			o.ctxDone = cctx.Err() != nil
		}()
		for i := 0; i < c.K; i++ {
			hitBefore := rec.faultsHit()
			e := c11RunStmt(ctx, s, c.Kinds[i], i)
			if e == nil && rec.faultsHit() > hitBefore {
				// the driver failed a call of this statement (Exec / Query / Prepare / row fetch)
				// and the session told the body "nil": the body cannot keep its side of
				// "commit iff the function returns nil"
				o.faultSwallowed = fmt.Sprintf("statement #%d (%c)", i, c.Kinds[i])
			}
			if errors.Is(e, c11ErrNilStmtTx) {
				o.nilStmt = true
			}
			if c.IterFault && i == c.StmtFault {
				o.iterSwallowed = e == nil
				o.iterAsNotFound = errors.Is(e, sqlx.ErrNotFound)
			}
			if e != nil {
				o.stmtErrors++
				switch c.Reaction {
				case "notfound-continue": // "does not exist yet, go on"; anything else aborts
					if !errors.Is(e, sqlx.ErrNotFound) {
						o.bodyKind, o.bodyErr = "error", e
						return e
					}
				case "propagate":
					o.bodyKind, o.bodyErr = "error", e
					return e
				case "panic":
					o.bodyPanic = e
					panic(e)
				}
			}
		}
		switch c.Outcome {
		case "nil":
			o.bodyKind = "nil"
			return nil
		case "error":
			o.bodyKind, o.bodyErr = "error", c11ErrKindVals[c.ErrKind]
			return o.bodyErr
		case "panic-error":
			o.bodyPanic = c11ErrKindVals[c.ErrKind]
			panic(o.bodyPanic)
		case "panic-string":
			panic("c11: boom")
		default:
			var mp map[string]int
			mp["x"] = 1 // runtime error: assignment to entry in nil map
			return nil
		}
	}
	o.pv, o.panicked = vk.Recover(func() { o.res = call(cctx, body) })
	o.events = rec.snapshot()[start:]
	if o.ctxDone && !c11AsyncWaitSpent.Load() {
		// An implementation that binds the transaction to the context (BeginTx) lets database/sql
		// roll it back from another goroutine once the context is done; give that rollback a
		// generous chance to reach the driver before judging "no Rollback".
		b, bf := c11CountEv(o.events, "begin")
		cm, _ := c11CountEv(o.events, "commit")
		rb, _ := c11CountEv(o.events, "rollback")
		if b == 1 && bf == 0 && cm == 0 && rb == 0 {
			o.asyncWaited = true
			if !vk.WaitUntil(20*time.Second, func() bool {
				n, _ := c11CountEv(rec.snapshot()[start:], "rollback")
				return n > 0
			}) {
				c11AsyncWaitSpent.Store(true)
			}
			o.events = rec.snapshot()[start:]
		}
	}
	return o
}

func c11CountEv(evs []c11Event, kind string) (n, failed int) {
	for _, e := range evs {
		if e.Kind == kind {
			n++
			if e.Err != "" {
				failed++
			}
		}
	}
	return
}

// c11JudgeTx applies the oracle. It returns the outcome class for the evidence and
// whether a violation was recorded.
func c11JudgeTx(m *vk.M, desc string, o c11TxObs) (class string, violated bool) {
	begins, beginFailed := c11CountEv(o.events, "begin")
	commits, commitFailed := c11CountEv(o.events, "commit")
	rollbacks, rollbackFailed := c11CountEv(o.events, "rollback")
	v := func(sig, format string, a ...any) (string, bool) {
		if o.ctxDone || o.ctxDoneBefore {
			sig += ":ctx-done" // the context given to TransactCtx was cancelled / past its deadline
		}
		m.Violate(sig, desc, "%s\n  result=%v panicked=%v panic=%v body=%s bodyErr=%v bodyCalls=%d\n  driver events: %s",
			fmt.Sprintf(format, a...), o.res, o.panicked, o.pv, o.bodyKind, o.bodyErr, o.bodyCalls, c11Trace(o.events))
		return sig, true
	}
	if begins == 0 && o.bodyCalls == 0 && !o.panicked && errors.Is(o.res, breaker.ErrServiceUnavailable) {
		return "breaker-rejected", false // nothing was started: outside the transaction table
	}
	if begins == 0 && o.bodyCalls == 0 && o.ctxDoneBefore && !o.panicked && o.res != nil && commits+rollbacks == 0 {
		return "begin-refused:ctx-done", false // like a failed Begin: neither Commit nor Rollback
	}
	if begins != 1 {
		return v("C11:tx:begin-count", "%d Begin calls reached the driver for one Transact", begins)
	}
	if beginFailed == 1 {
		switch {
		case o.panicked:
			return v("C11:tx:begin-failed:panicked", "Begin failed and Transact panicked")
		case o.res == nil:
			return v("C11:tx:begin-failed:returned-nil", "Begin failed but Transact returned nil")
		case commits+rollbacks > 0:
			return v("C11:tx:begin-failed:terminated", "Begin failed but %d Commit / %d Rollback reached the driver", commits, rollbacks)
		}
		return "begin-failed", false
	}
	if o.bodyCalls != 1 {
		return v("C11:tx:body-calls", "transaction began but the supplied function ran %d times", o.bodyCalls)
	}
	if o.faultSwallowed != "" && !o.iterSwallowed {
		return v("C11:tx:stmt:driver-error-swallowed", "%s: the driver returned an error for a call of this statement inside the transaction, the session reported nil to the body", o.faultSwallowed)
	}
	if o.nilStmt {
		return v("C11:tx:stmt:prepare-returned-nil-statement", "Prepare on the transaction session returned a nil statement together with a nil error: the body cannot run its statement and cannot tell why")
	}
	if o.iterAsNotFound {
		return v("C11:tx:stmt:iteration-error-reported-as-ErrNotFound", "the driver failed while fetching the first row of a single-row query in the transaction session; the body was told ErrNotFound (empty result)")
	}
	if o.iterSwallowed {
		return v("C11:tx:stmt:iteration-error-swallowed", "the driver failed while fetching the first row of a single-row query in the transaction session; the body was told nil")
	}
	cid := -1
	for _, e := range o.events {
		if e.Kind == "begin" {
			cid = e.Conn
		} else if e.Conn != cid {
			return v("C11:tx:statement-outside-transaction", "event %s ran on connection %d, the transaction is on connection %d", e.Kind, e.Conn, cid)
		}
	}
	// sql.ErrTxDone in the result, although neither the body nor a done context produced it, means
	// the library called Commit / Rollback on a transaction it had already ended: the transaction
	// was terminated twice at the *sql.Tx level (database/sql forwards only the first to the driver)
	if !o.ctxDone && !o.panicked && errors.Is(o.res, sql.ErrTxDone) && !errors.Is(o.bodyErr, sql.ErrTxDone) && !errors.Is(o.bodyPanic, sql.ErrTxDone) &&
		!(commitFailed == 1 && errors.Is(o.termFault[0], sql.ErrTxDone)) && !(rollbackFailed == 1 && errors.Is(o.termFault[1], sql.ErrTxDone)) {
		return v("C11:tx:"+o.bodyKind+"-body:terminated-twice", "the result wraps sql.ErrTxDone (%d Commit / %d Rollback reached the driver): a second Commit/Rollback was issued on the finished transaction", commits, rollbacks)
	}
	switch o.bodyKind {
	case "nil":
		switch {
		case o.panicked:
			return v("C11:tx:nil-body:panicked", "body returned nil but Transact panicked")
		case o.ctxDone && commits == 0 && rollbacks == 1 && o.res != nil:
			// the context was done when the body returned: refusing to commit is legitimate as
			// long as the caller is told and the transaction is rolled back exactly once
			return "nil-body:ctx-done:rolled-back", false
		case rollbacks > 0:
			return v("C11:tx:nil-body:rolled-back", "body returned nil but %d Rollback reached the driver", rollbacks)
		case commits == 0:
			return v("C11:tx:nil-body:not-committed", "body returned nil but no Commit reached the driver")
		case commits > 1:
			return v("C11:tx:nil-body:commit-twice", "body returned nil and %d Commits reached the driver", commits)
		case commitFailed == 1 && o.res == nil:
			return v("C11:tx:nil-body:commit-error-lost", "Commit failed but Transact returned nil")
		case commitFailed == 1 && o.termFault[0] != nil && !errors.Is(o.res, o.termFault[0]):
			return v("C11:tx:nil-body:commit-error-replaced", "Commit failed with %v but Transact returned a different error", o.termFault[0])
		case commitFailed == 1 && o.termFault[0] == nil && !c11IsMsg(o.res, "c11 fault commit"):
			return v("C11:tx:nil-body:commit-error-replaced", "Commit failed but Transact returned a different error")
		case commitFailed == 0 && o.res != nil:
			return v("C11:tx:nil-body:spurious-error", "body returned nil, Commit succeeded, but Transact returned an error")
		}
		if commitFailed == 1 {
			return "nil-body:commit-failed", false
		}
		if o.ctxDone {
			return "nil-body:committed:ctx-done", false
		}
		return "nil-body:committed", false
	case "error":
		switch {
		case o.panicked:
			return v("C11:tx:error-body:panicked", "body returned an error but Transact panicked")
		case commits > 0:
			return v("C11:tx:error-body:committed", "body returned an error but %d Commit reached the driver", commits)
		case rollbacks == 0:
			return v("C11:tx:error-body:no-rollback", "body returned an error but no Rollback reached the driver")
		case rollbacks > 1:
			return v("C11:tx:error-body:rollback-twice", "body returned an error and %d Rollbacks reached the driver", rollbacks)
		case o.res == nil:
			return v("C11:tx:error-body:returned-nil", "body returned an error but Transact returned nil")
		case rollbackFailed == 0 && !o.ctxDone && !errors.Is(o.res, o.bodyErr):
			return v("C11:tx:error-body:error-replaced", "body returned %v, Rollback succeeded, Transact returned a different error", o.bodyErr)
		}
		if rollbackFailed == 1 {
			return "error-body:rollback-failed", false
		}
		if o.ctxDone {
			return "error-body:rolled-back:ctx-done", false
		}
		return "error-body:rolled-back", false
	case "panic":
		switch {
		case commits > 0:
			return v("C11:tx:panic-body:committed", "body panicked but %d Commit reached the driver", commits)
		case !o.panicked && o.res == nil:
			return v("C11:tx:panic-body:swallowed-as-nil", "body panicked, Transact returned nil (%d Rollback, %d Commit reached the driver): the caller cannot tell, the transaction is left open", rollbacks, commits)
		case rollbacks == 0:
			return v("C11:tx:panic-body:no-rollback", "body panicked and the caller learnt of it, but no Rollback reached the driver")
		case rollbacks > 1:
			return v("C11:tx:panic-body:rollback-twice", "body panicked and %d Rollbacks reached the driver", rollbacks)
		}
		if o.ctxDone {
			return "panic-body:rolled-back:ctx-done", false
		}
		if o.panicked {
			return "panic-body:rolled-back:re-panicked", false
		}
		return "panic-body:rolled-back:error", false
	}
	return v("C11:tx:body-calls", "body outcome not recorded")
}

// c11TermErr is the error value an injected Commit / Rollback fault returns.
func c11TermErr(kind, op string) error {
	switch kind {
	case "":
		if op == "commit" {
			return c11ErrCommitFault
		}
		return c11ErrRollbackFault
	case "wrapped(driver.ErrBadConn)":
		return c11WrappedBadConn
	}
	return c11ErrKindVals[kind]
}

func c11IsMsg(err error, prefix string) bool {
	for e := err; e != nil; e = errors.Unwrap(e) {
		if len(e.Error()) >= len(prefix) && e.Error()[:len(prefix)] == prefix {
			return true
		}
	}
	return false
}

func c11ArmFaults(rec *c11Rec, c c11TxCase, base map[string]int) {
	if c.BeginFault {
		rec.fault("begin", base["begin"], errors.New("c11 fault begin"))
	}
	if c.StmtFault >= 0 && c.PrepFault {
		n := 0
		for _, k := range c.Kinds[:c.StmtFault] {
			if k == 'p' || k == 'r' || k == 'z' || k == 'w' {
				n++
			}
		}
		rec.fault("prepare", base["prepare"]+n, fmt.Errorf("c11 fault prepare#%d", c.StmtFault))
	} else if c.StmtFault >= 0 && c.IterFault {
		rec.iterFault(base["stmt"]+c.StmtFault, 0)
	} else if c.StmtFault >= 0 {
		rec.fault("stmt", base["stmt"]+c.StmtFault, fmt.Errorf("c11 fault stmt#%d", c.StmtFault))
	}
	if c.CommitFault {
		rec.fault("commit", base["commit"], c11TermErr(c.TermErrKind, "commit"))
	}
	if c.RollbackFault {
		rec.fault("rollback", base["rollback"], c11TermErr(c.TermErrKind, "rollback"))
	}
}

func c11Kinds(n, shift int) string {
	const all = "eqpr"
	b := make([]byte, n)
	for i := range b {
		b[i] = all[(i+shift)%4]
	}
	return string(b)
}

// c11TxTable enumerates the complete body-outcome x fault table.
func c11TxTable() []c11TxCase {
	var out []c11TxCase
	apis := []string{"sqlx.Transact", "sqlx.TransactCtx", "sqlc.Transact", "sqlc.TransactCtx"}
	outcomes := []string{"nil", "error", "panic-error", "panic-string", "panic-runtime"}
	for ai, api := range apis {
		for n := 0; n <= 3; n++ {
			for _, oc := range outcomes {
				k0 := 0
				if oc == "nil" {
					k0 = n
				}
				for k := k0; k <= n; k++ {
					base := c11TxCase{API: api, N: n, Outcome: oc, K: k, Kinds: c11Kinds(n, n+ai), StmtFault: -1}
					if k == k0 && n <= 1 {
						c := base
						c.BeginFault = true
						out = append(out, c)
					}
					for sf := -1; sf < k; sf++ {
						reactions := []string{""}
						if sf >= 0 {
							reactions = []string{"propagate", "swallow", "panic"}
						}
						for _, re := range reactions {
							for _, cf := range []bool{false, true} {
								for _, rf := range []bool{false, true} {
									c := base
									c.StmtFault, c.Reaction, c.CommitFault, c.RollbackFault = sf, re, cf, rf
									out = append(out, c)
								}
							}
						}
						if sf >= 0 && (base.Kinds[sf] == 'p' || base.Kinds[sf] == 'r') {
							// the statement's Prepare fails at the driver
							for _, re := range []string{"propagate", "swallow"} {
								for _, rf := range []bool{false, true} {
									c := base
									c.StmtFault, c.Reaction, c.RollbackFault, c.PrepFault = sf, re, rf, true
									out = append(out, c)
								}
							}
						}
						if sf >= 0 && base.Kinds[sf] == 'q' {
							// the same statement fails while its first row is fetched (driver.Rows.Next)
							for _, re := range []string{"propagate", "notfound-continue"} {
								for _, cf := range []bool{false, true} {
									for _, rf := range []bool{false, true} {
										c := base
										c.StmtFault, c.Reaction, c.CommitFault, c.RollbackFault, c.IterFault = sf, re, cf, rf, true
										out = append(out, c)
									}
								}
							}
						}
					}
				}
			}
		}
	}
	// body errors drawn from the values the library (or database/sql, or the breaker) treats specially
	for ai, api := range apis {
		for _, oc := range []string{"error", "panic-error"} {
			for n := 0; n <= 1; n++ {
				for k := 0; k <= n; k++ {
					for _, kind := range c11ErrKinds {
						for _, rf := range []bool{false, true} {
							out = append(out, c11TxCase{API: api, N: n, Outcome: oc, K: k, Kinds: c11Kinds(n, ai), StmtFault: -1, ErrKind: kind, RollbackFault: rf})
						}
					}
				}
			}
		}
	}
	// Commit / Rollback faults whose value is one the library, database/sql or the breaker treat specially
	for ai, api := range apis {
		for n := 0; n <= 1; n++ {
			for _, oc := range []string{"nil", "error", "panic-string"} {
				k0 := 0
				if oc == "nil" {
					k0 = n
				}
				for k := k0; k <= n; k++ {
					for _, kind := range c11TermErrKinds {
						out = append(out, c11TxCase{API: api, N: n, Outcome: oc, K: k, Kinds: c11Kinds(n, ai+1), StmtFault: -1, CommitFault: true, RollbackFault: true, TermErrKind: kind})
					}
				}
			}
		}
	}
	// context dimension (TransactCtx entry points, bodies of n <= 2 statements)
	base := len(out)
	for _, mode := range []string{"cancelled-before", "cancelled-by-body", "deadline-in-body"} {
		for _, c := range out[:base] {
			if c.N > 2 || (c.API != "sqlx.TransactCtx" && c.API != "sqlc.TransactCtx") {
				continue
			}
			c.CtxMode = mode
			out = append(out, c)
		}
	}
	return out
}

// TestVerifC11TxTable walks the complete, finite table: body outcome in {nil, error,
// panic(error), panic(string), runtime panic} at every statement position k <= n <= 3
// x fault in {none, Begin, statement j < k with body reaction propagate/swallow/panic,
// first-row fetch of a single-row query j < k with reaction propagate/notfound-continue}
// x Commit fault x Rollback fault x the four public entry points.
func TestVerifC11TxTable(t *testing.T) {
	m := vk.New(t, "C11", "complete table: entry point {sqlx,sqlc}.{Transact,TransactCtx} x body of n<=3 statements (exec/query/prepared) x outcome {nil,error,panic(error),panic(string),runtime panic} at every position k<=n (for n<=1 the error / panic value also drawn from sql.ErrTxDone, sql.ErrNoRows, sql.ErrConnDone, context.Canceled, context.DeadlineExceeded, breaker.ErrServiceUnavailable, driver.ErrBadConn, io.EOF and %w-wrapped variants) x driver fault {none, Begin, statement j<k with body reaction propagate|swallow|panic, first-row fetch (driver.Rows.Next) of single-row query j<k with body reaction propagate|continue-on-ErrNotFound} x Commit fault x Rollback fault (for n<=1 the fault value also drawn from sql.ErrTxDone, sql.ErrConnDone, driver.ErrBadConn, context.Canceled, context.DeadlineExceeded, sql.ErrNoRows, io.EOF and %w-wrapped variants); for TransactCtx and n<=2 additionally x context {cancelled before the call, cancelled by the body just before it returns/panics, 1 ms deadline that expires during the body}; on a recording database/sql driver; oracle per transaction: nil <=> one successful Commit and no Rollback, otherwise one Rollback and no Commit (one failed Commit returned; neither if Begin failed), body error returned unless Rollback failed too, panic never nil, a failed first-row fetch is reported to the body as an error that is not ErrNotFound; non-trivial = a transaction reached the driver")
	defer m.Done()
	table := c11TxTable()
	classes := map[string]int64{}
	for i, c := range table {
		idx := i + 1
		if !m.Only(idx) {
			continue
		}
		desc := fmt.Sprintf("case=%d;%s", idx, vk.JSON(c))
		m.Current(desc)
		rec := c11NewRec()
		db, closeDB, err := c11Open(rec)
		if err != nil {
			m.Inconclusive("case %d: cannot open recording driver: %v", idx, err)
			return
		}
		c11ArmFaults(rec, c, map[string]int{})
		conn := sqlx.NewConnFromDB(db)
		o := c11RunTx(c, conn, rec)
		class, _ := c11JudgeTx(m, desc, o)
		inUse := db.Stats().InUse
		closeDB()
		classes[class]++
		b, _ := c11CountEv(o.events, "begin")
		cm, _ := c11CountEv(o.events, "commit")
		rb, _ := c11CountEv(o.events, "rollback")
		ex, _ := c11CountEv(o.events, "exec")
		qu, _ := c11CountEv(o.events, "query")
		m.Count("ev_begin", int64(b))
		m.Count("ev_commit", int64(cm))
		m.Count("ev_rollback", int64(rb))
		m.Count("ev_exec", int64(ex))
		m.Count("ev_query", int64(qu))
		m.Count("faults_injected", int64(rec.faultsHit()))
		m.Count("body_"+o.bodyKind, 1)
		if inUse > 0 {
			m.Count("connections_left_in_use_after_transact", int64(inUse))
		}
		m.Case(vk.Digest(vk.JSON(c)), b > 0)
		if m.WantSample() && idx%601 == 7 {
			m.Sample(map[string]any{"case": c, "result": fmt.Sprint(o.res), "panicked": o.panicked, "events": c11Trace(o.events), "class": class})
		}
		if idx%500 == 0 {
			m.Progress()
		}
	}
	for k, n := range classes {
		m.Count("class_"+k, n)
	}
	m.Extra("exhaustive_fault_table", true)
	m.Extra("exhaustive", true)
	m.Extra("table_size", len(table))
}

// TestVerifC11TxSqlmock cross-checks the simplest rows of the table on a second,
// independent driver (go-sqlmock with strict expectation order).
func TestVerifC11TxSqlmock(t *testing.T) {
	m := vk.New(t, "C11", "sqlmock cross-check: body {nil, error, panic(error), panic(string)} after one Exec x {Transact, TransactCtx}; sqlmock expects Begin, Exec, then Commit (nil body) or Rollback (otherwise); oracle = ExpectationsWereMet + result class")
	defer m.Done()
	c11Setup()
	idx := 0
	for _, api := range []string{"sqlx.Transact", "sqlx.TransactCtx", "sqlc.Transact"} {
		for _, oc := range []string{"nil", "error", "panic-error", "panic-string"} {
			idx++
			if !m.Only(idx) {
				continue
			}
			desc := fmt.Sprintf("case=%d;{\"driver\":\"sqlmock\",\"api\":%q,\"outcome\":%q}", idx, api, oc)
			m.Current(desc)
			db, mock, err := sqlmock.New()
			if err != nil {
				m.Inconclusive("sqlmock.New: %v", err)
				return
			}
			mock.ExpectBegin()
			mock.ExpectExec("update t").WillReturnResult(sqlmock.NewResult(1, 1))
			if oc == "nil" {
				mock.ExpectCommit()
			} else {
				mock.ExpectRollback()
			}
			var res error
			pv, panicked := vk.Recover(func() {
				res = c11Call(api, sqlx.NewConnFromDB(db), context.Background(), func(ctx context.Context, s sqlx.Session) error {
					if _, e := s.Exec("update t set v = 1"); e != nil {
						return e
					}
					switch oc {
					case "nil":
						return nil
					case "error":
						return c11ErrBody
					case "panic-error":
						panic(c11ErrBody)
					}
					panic("c11: boom")
				})
			})
			unmet := mock.ExpectationsWereMet()
			_ = db.Close()
			m.Count("sqlmock_transactions", 1)
			switch {
			case oc == "nil" && (res != nil || panicked || unmet != nil):
				m.Violate("C11:tx:nil-body:not-committed", desc, "sqlmock: result=%v panicked=%v unmet=%v", res, panicked, unmet)
			case oc == "error" && (panicked || unmet != nil):
				m.Violate("C11:tx:error-body:no-rollback", desc, "sqlmock: result=%v panicked=%v unmet=%v", res, panicked, unmet)
			case oc == "error" && !errors.Is(res, c11ErrBody):
				m.Violate("C11:tx:error-body:error-replaced", desc, "sqlmock: result=%v", res)
			case oc != "nil" && oc != "error" && !panicked && res == nil:
				m.Violate("C11:tx:panic-body:swallowed-as-nil", desc, "sqlmock: body panicked, Transact returned nil; unmet expectations: %v", unmet)
			case oc != "nil" && oc != "error" && unmet != nil:
				m.Violate("C11:tx:panic-body:no-rollback", desc, "sqlmock: result=%v panicked=%v panic=%v unmet=%v", res, panicked, pv, unmet)
			}
			m.Case(vk.Digest(api, oc), true)
			if oc == "panic-error" && api == "sqlx.Transact" {
				m.Sample(map[string]any{"driver": "sqlmock", "api": api, "outcome": oc, "result": fmt.Sprint(res), "panicked": panicked, "unmet": fmt.Sprint(unmet)})
			}
		}
	}
}

// TestVerifC11TxHistories: seeded histories of several transactions on ONE sqlx.Conn
// (one breaker, one pool): longer bodies, random fault placement, every transaction
// judged on its own slice of driver events.
func TestVerifC11TxHistories(t *testing.T) {
	m := vk.New(t, "C11", "seeded histories: 2-6 consecutive transactions (every 40th history: a storm of 40 failing ones that opens the breaker) on one sqlx.Conn / one *sql.DB, bodies of 0-6 statements incl. prepared ones, statements rejected by sqlx before the driver, Prepare faults and first-row fetch faults, random outcome, random Begin/statement/Commit/Rollback faults and body reactions; each transaction judged with the table oracle on its own driver events; a breaker rejection that starts nothing is outside the table; non-trivial = history reached the driver")
	defer m.Done()
	n := vk.N(400, 30000)
	r := m.Rand("histories")
	apis := []string{"sqlx.Transact", "sqlx.TransactCtx", "sqlc.Transact", "sqlc.TransactCtx"}
	outcomes := []string{"nil", "nil", "error", "panic-error", "panic-string", "panic-runtime"}
	reactions := []string{"propagate", "propagate", "swallow", "panic"}
	classes := map[string]int64{}
	for idx := 1; idx <= n; idx++ {
		ntx := 2 + r.Intn(5)
		hist := make([]c11TxCase, ntx)
		for i := range hist {
			nst := r.Intn(7)
			c := c11TxCase{API: apis[r.Intn(4)], N: nst, Outcome: outcomes[r.Intn(len(outcomes))], StmtFault: -1}
			kinds := make([]byte, nst)
			for j := range kinds {
				kinds[j] = "eqpr"[r.Intn(4)]
				if r.Intn(12) == 0 {
					kinds[j] = "xyzw"[r.Intn(4)]
				}
			}
			c.Reaction = reactions[r.Intn(len(reactions))] // also applies to statements that fail by themselves (x y z)
			c.Kinds = string(kinds)
			c.K = nst
			if c.Outcome != "nil" {
				c.K = r.Intn(nst + 1)
			}
			if r.Intn(12) == 0 {
				c.BeginFault = true
			}
			if c.K > 0 && r.Intn(3) == 0 {
				c.StmtFault = r.Intn(c.K)
				c.Reaction = reactions[r.Intn(len(reactions))]
				if k := c.Kinds[c.StmtFault]; (k == 'p' || k == 'r') && r.Intn(2) == 0 {
					c.PrepFault = true
				}
				if c.Kinds[c.StmtFault] == 'q' && r.Intn(2) == 0 {
					c.IterFault = true
					c.Reaction = []string{"propagate", "notfound-continue"}[r.Intn(2)]
				}
			}
			if (c.API == "sqlx.TransactCtx" || c.API == "sqlc.TransactCtx") && r.Intn(3) == 0 {
				c.CtxMode = []string{"cancelled-before", "cancelled-by-body", "deadline-in-body"}[r.Intn(3)]
			}
			if r.Intn(3) == 0 {
				c.ErrKind = c11ErrKinds[r.Intn(len(c11ErrKinds))]
			}
			if r.Intn(3) == 0 {
				c.TermErrKind = c11TermErrKinds[r.Intn(len(c11TermErrKinds))]
			}
			c.CommitFault = r.Intn(4) == 0
			c.RollbackFault = r.Intn(4) == 0
			hist[i] = c
		}
		if idx%40 == 0 {
			// failure storm: enough consecutive failed transactions on one Conn to open its breaker
			storm := make([]c11TxCase, 40)
			for i := range storm {
				storm[i] = c11TxCase{API: apis[i%4], N: 1, K: 1, Kinds: "e", Outcome: []string{"error", "nil", "panic-string"}[i%3], StmtFault: -1}
				if i%3 == 1 {
					storm[i].CommitFault = true
				}
			}
			hist = storm
		}
		if !m.Only(idx) {
			continue
		}
		desc := fmt.Sprintf("case=%d;%s", idx, vk.JSON(hist))
		m.Current(desc)
		rec := c11NewRec()
		db, closeDB, err := c11Open(rec)
		if err != nil {
			m.Inconclusive("case %d: cannot open recording driver: %v", idx, err)
			return
		}
		conn := sqlx.NewConnFromDB(db)
		reached := false
		for i, c := range hist {
			rec.mu.Lock()
			base := map[string]int{}
			for k, v := range rec.calls {
				base[k] = v
			}
			// faults armed for an earlier transaction but never reached must not leak into this one
			rec.faults = map[string]map[int]error{}
			rec.iter = nil
			rec.mu.Unlock()
			c11ArmFaults(rec, c, base)
			o := c11RunTx(c, conn, rec)
			class, violated := c11JudgeTx(m, fmt.Sprintf("%s;tx=%d", desc, i), o)
			classes[class]++
			m.Count("transactions", 1)
			m.Count("driver_events", int64(len(o.events)))
			if len(o.events) > 0 {
				reached = true
			}
			if violated {
				break
			}
		}
		m.Count("faults_injected", int64(rec.faultsHit()))
		closeDB()
		m.Case(vk.Digest(vk.JSON(hist)), reached)
		if m.WantSample() && idx%97 == 1 {
			m.Sample(map[string]any{"history": hist, "events": c11Trace(rec.snapshot())})
		}
		if idx%200 == 0 {
			m.Progress()
		}
	}
	for k, v := range classes {
		m.Count("class_"+k, v)
	}
}
