//go:build verif

package sqlx_test

// C11, remaining entry points of the anchored files (coverage-driven): every Conn
// constructor (incl. the lazily opened ones and providers that cannot connect), RawDB,
// destinations that cannot receive a row (documented errors, no panic, no silent
// success), and slices of the whole workload under every combination of the logging switches.

import (
	"context"
	"database/sql"
	"database/sql/driver"
	"errors"
	"fmt"
	"testing"
	"time"

	"github.com/gotid/god/lib/store/cache"
	"github.com/gotid/god/lib/store/redis"
	"github.com/gotid/god/lib/store/sqlc"
	"github.com/gotid/god/lib/store/sqlx"
	"verif.local/vk"
)

type c11Pair struct {
	Name string `db:"name"`
	ID   int64  `db:"id"`
}

// c11Facade unifies sqlx.Conn and sqlc.CachedConn for the constructor sweep.
type c11Facade struct {
	name     string
	transact func(context.Context, func(context.Context, sqlx.Session) error) error
	queryRow func(v any, q string, args ...any) error
	queryAll func(v any, q string, args ...any) error
	exec     func(q string, args ...any) (sql.Result, error)
	prepare  func(q string) (sqlx.StmtSession, error)
	rawDB    func() (*sql.DB, error)
}

func c11FacadeOfConn(name string, cn sqlx.Conn, ctx bool) c11Facade {
	f := c11Facade{name: name, queryRow: cn.QueryRow, queryAll: cn.QueryRows, exec: cn.Exec, prepare: cn.Prepare, rawDB: cn.RawDB}
	if ctx {
		f.transact = func(cx context.Context, b func(context.Context, sqlx.Session) error) error { return cn.TransactCtx(cx, b) }
	} else {
		f.transact = func(_ context.Context, b func(context.Context, sqlx.Session) error) error {
			return cn.Transact(func(s sqlx.Session) error { return b(c11Bg, s) })
		}
	}
	return f
}

func c11FacadeOfCached(name string, cc sqlc.CachedConn, cn sqlx.Conn, ctx bool) c11Facade {
	f := c11Facade{name: name, queryRow: cc.QueryRowNoCache, queryAll: cc.QueryRowsNoCache, exec: cc.ExecNoCache, prepare: cn.Prepare, rawDB: cn.RawDB}
	if ctx {
		f.transact = func(cx context.Context, b func(context.Context, sqlx.Session) error) error { return cc.TransactCtx(cx, b) }
		f.queryRow = func(v any, q string, a ...any) error { return cc.QueryRowNoCacheCtx(c11Bg, v, q, a...) }
		f.queryAll = func(v any, q string, a ...any) error { return cc.QueryRowsNoCacheCtx(c11Bg, v, q, a...) }
		f.exec = func(q string, a ...any) (sql.Result, error) { return cc.ExecNoCacheCtx(c11Bg, q, a...) }
	} else {
		f.transact = func(_ context.Context, b func(context.Context, sqlx.Session) error) error {
			return cc.Transact(func(s sqlx.Session) error { return b(c11Bg, s) })
		}
	}
	return f
}

// TestVerifC11Constructors: the transaction table's core rows and a permuted-column
// mapping through every way of obtaining a connection object.
func TestVerifC11Constructors(t *testing.T) {
	m := vk.New(t, "C11", "sweep: {sqlx.NewConnFromDB, sqlx.NewConn (database opened lazily by the connection manager), sqlc.NewConnWithCache, sqlc.NewNodeConn, sqlc.NewConn} x {plain, Ctx} x body {nil, nil+Commit fault, error, error+Rollback fault, panic, failing statement} judged with the table oracle, + QueryRow/QueryRows of a tagged struct with permuted columns, RawDB, Exec pass-through (counted); providers that cannot connect {unknown driver, NewMySQL with an unparsable DSN, unknown DSN}: Transact must return an error without running the body, queries and Prepare must return an error; non-trivial = always")
	defer m.Done()
	c11Setup()
	idx := 0
	lazyRedis := redis.New("127.0.0.1:1") // never dialled: no cached form is used on it
	for _, ctor := range []string{"sqlx.NewConnFromDB", "sqlx.NewConn", "sqlc.NewConnWithCache", "sqlc.NewNodeConn", "sqlc.NewConn"} {
		for _, ctx := range []bool{false, true} {
			build := func() (c11Facade, *c11Rec, *sql.DB, func()) {
				rec := c11NewRec()
				var cn sqlx.Conn
				var db *sql.DB
				closeFn := func() {}
				if ctor == "sqlx.NewConn" {
					cn = sqlx.NewConn(c11DriverName, c11RegisterDSN(rec))
				} else {
					var err error
					db, closeFn, err = c11Open(rec)
					if err != nil {
						m.Inconclusive("open: %v", err)
						return c11Facade{}, nil, nil, nil
					}
					cn = sqlx.NewConnFromDB(db)
				}
				switch ctor {
				case "sqlc.NewConnWithCache":
					return c11FacadeOfCached(ctor, sqlc.NewConnWithCache(cn, c11PassCache{}), cn, ctx), rec, db, closeFn
				case "sqlc.NewNodeConn":
					return c11FacadeOfCached(ctor, sqlc.NewNodeConn(cn, lazyRedis), cn, ctx), rec, db, closeFn
				case "sqlc.NewConn":
					conf := cache.Config{{Config: redis.Config{Host: "127.0.0.1:1", Type: redis.NodeType}, Weight: 100}}
					return c11FacadeOfCached(ctor, sqlc.NewConn(cn, conf), cn, ctx), rec, db, closeFn
				}
				return c11FacadeOfConn(ctor, cn, ctx), rec, db, closeFn
			}
			// transactions
			for _, tc := range []c11TxCase{
				{N: 1, K: 1, Kinds: "e", Outcome: "nil", StmtFault: -1},
				{N: 1, K: 1, Kinds: "q", Outcome: "nil", StmtFault: -1, CommitFault: true},
				{N: 2, K: 1, Kinds: "pe", Outcome: "error", StmtFault: -1},
				{N: 1, K: 0, Kinds: "e", Outcome: "error", StmtFault: -1, RollbackFault: true},
				{N: 1, K: 1, Kinds: "r", Outcome: "panic-string", StmtFault: -1},
				{N: 2, K: 2, Kinds: "eq", Outcome: "nil", StmtFault: 1, Reaction: "propagate"},
				{N: 2, K: 2, Kinds: "eq", Outcome: "nil", StmtFault: 1, Reaction: "notfound-continue", IterFault: true},
				{N: 0, K: 0, Outcome: "nil", StmtFault: -1, BeginFault: true},
				{N: 1, K: 1, Kinds: "e", Outcome: "error", StmtFault: -1, CtxMode: "cancelled-by-body"},
				{N: 1, K: 1, Kinds: "e", Outcome: "nil", StmtFault: -1, CtxMode: "deadline-in-body"},
				{N: 1, K: 0, Kinds: "e", Outcome: "panic-error", StmtFault: -1, CtxMode: "cancelled-before"},
			} {
				if tc.CtxMode != "" && !ctx {
					continue // Transact has no context
				}
				idx++
				tc.API = fmt.Sprintf("%s ctx=%v", ctor, ctx)
				if !m.Only(idx) {
					continue
				}
				f, rec, _, closeFn := build()
				if rec == nil {
					return
				}
				desc := fmt.Sprintf("case=%d;%s", idx, vk.JSON(tc))
				m.Current(desc)
				c11ArmFaults(rec, tc, map[string]int{})
				o := c11RunTxWith(tc, rec, f.transact)
				class, _ := c11JudgeTx(m, desc, o)
				closeFn()
				m.Count("tx_"+class, 1)
				m.Count("driver_events", int64(len(o.events)))
				m.Case(vk.Digest(desc), len(o.events) > 0)
			}
			// mapping + RawDB + Exec
			idx++
			if !m.Only(idx) {
				continue
			}
			f, rec, db, closeFn := build()
			if rec == nil {
				return
			}
			desc := fmt.Sprintf("case=%d;{\"ctor\":%q,\"ctx\":%v,\"what\":\"mapping\"}", idx, ctor, ctx)
			m.Current(desc)
			rec.results = []c11Result{
				{Cols: []string{"id", "extra", "name"}, Rows: [][]driver.Value{{int64(11), nil, "eleven"}}},
				{Cols: []string{"id", "name"}, Rows: [][]driver.Value{{int64(1), "one"}, {[]byte("2"), []byte("two")}}},
				{Cols: []string{"id", "name"}},
			}
			var one, none c11Pair
			var many []*c11Pair
			var e1, e2, e3 error
			pv, panicked := vk.Recover(func() {
				e1 = f.queryRow(&one, "select * from t where id = ?", 11)
				e2 = f.queryAll(&many, "select * from t")
				e3 = f.queryRow(&none, "select * from t where id = ?", 404)
			})
			sig := "C11:orm:ctor:" + ctor + ":"
			switch {
			case panicked:
				m.Violate(sig+"panic", desc, "panic: %v", pv)
			case e1 != nil || e2 != nil:
				m.Violate(sig+"unexpected-error", desc, "QueryRow: %v, QueryRows: %v", e1, e2)
			case one != (c11Pair{Name: "eleven", ID: 11}):
				m.Violate(sig+"wrong-value", desc, "QueryRow copied %+v, want {eleven 11}", one)
			case len(many) != 2 || many[0] == nil || many[1] == nil || *many[0] != (c11Pair{"one", 1}) || *many[1] != (c11Pair{"two", 2}):
				m.Violate(sig+"wrong-value", desc, "QueryRows copied %d elements: %+v", len(many), many)
			case !errors.Is(e3, sqlx.ErrNotFound):
				m.Violate(sig+"empty-result-not-ErrNotFound", desc, "empty result: %v", e3)
			default:
				m.Count("mappings_checked", 3)
			}
			// RawDB hands out the database the connection works on: a statement on it reaches the same driver
			if raw, err := f.rawDB(); err != nil || raw == nil {
				m.Violate("C11:conn:rawdb:error", desc, "RawDB: db=%v err=%v", raw, err)
			} else {
				if db != nil && raw != db {
					m.Violate("C11:conn:rawdb:different-db", desc, "RawDB returned another *sql.DB than the one the Conn was built from")
				}
				before, _ := rec.count("exec")
				_, _ = raw.Exec("update t set v = 1")
				if after, _ := rec.count("exec"); after != before+1 {
					m.Violate("C11:conn:rawdb:different-db", desc, "a statement on RawDB() did not reach the connection's driver")
				}
			}
			// pass-through forms outside the statement: only counted
			if res, err := f.exec("update t set v = ? where id = ?", "v", 1); err == nil && res != nil {
				m.Count("exec_passthrough_ok", 1)
			}
			if st, err := f.prepare("select * from t"); err == nil {
				_ = st.Close()
			}
			if ctor == "sqlc.NewConnWithCache" {
				cc := sqlc.NewConnWithCache(sqlx.NewConnFromDB(db), c11PassCache{})
				_, _ = cc.Exec(func(cn sqlx.Conn) (sql.Result, error) { return cn.Exec("delete from t") }, "k1", "k2")
				_ = cc.SetCache("k", 1)
				_ = cc.GetCache("k", new(int))
				_ = cc.DelCache("k")
				m.Count("sqlc_cache_passthrough_calls", 4)
			}
			closeFn()
			m.Case(vk.Digest(desc), true)
		}
	}
	// providers that cannot produce a connection
	for _, bad := range []string{"unknown-driver", "mysql-unparsable-dsn", "unknown-dsn", "unknown-dsn-second-use"} {
		idx++
		if !m.Only(idx) {
			continue
		}
		desc := fmt.Sprintf("case=%d;{\"provider\":%q}", idx, bad)
		m.Current(desc)
		var cn sqlx.Conn
		switch bad {
		case "unknown-driver":
			cn = sqlx.NewConn("c11-no-such-driver", "c11-nowhere")
		case "mysql-unparsable-dsn":
			cn = sqlx.NewMySQL("c11 this is not a DSN")
		default:
			cn = sqlx.NewConn(c11DriverName, "c11-dsn-nobody-registered") // second use: the manager's one-time ping is over
		}
		ran := 0
		var terr, qerr, perr, xerr, rerr error
		var dest c11Pair
		pv, panicked := vk.Recover(func() {
			terr = cn.Transact(func(sqlx.Session) error { ran++; return nil })
			qerr = cn.QueryRow(&dest, "select * from t")
			_, perr = cn.Prepare("select * from t")
			_, xerr = cn.Exec("delete from t")
			_, rerr = cn.RawDB()
		})
		switch {
		case panicked:
			m.Violate("C11:tx:no-connection:panic", desc, "panic: %v", pv)
		case ran > 0:
			m.Violate("C11:tx:no-connection:body-ran", desc, "no connection could be obtained but the transaction body ran (%d times); Transact=%v", ran, terr)
		case terr == nil:
			m.Violate("C11:tx:no-connection:returned-nil", desc, "no connection could be obtained, nothing was committed, Transact returned nil")
		case qerr == nil:
			m.Violate("C11:orm:no-connection:returned-nil", desc, "no connection could be obtained but QueryRow returned nil (dest %+v)", dest)
		case perr == nil:
			m.Violate("C11:orm:no-connection:prepare-returned-nil", desc, "no connection could be obtained but Prepare returned nil")
		}
		m.Count("no_connection_errors_seen", 3)
		m.Note("provider %s: Transact=%v | Exec err=%v | RawDB err=%v", bad, terr, xerr != nil, rerr != nil)
		m.Case(vk.Digest(desc), true)
	}
}

// destinations for TestVerifC11BadDest
type c11Unexported struct {
	ID   int64
	name string
}

type c11UnexportedTagged struct {
	ID   int64  `db:"id"`
	name string `db:"name"`
}

type c11UnexportedPtr struct {
	ID   int64
	name *string
}

// TestVerifC11BadDest: a destination that cannot receive a row must produce an error
// (never a panic, never nil) on a NON-empty result, on every path.
func TestVerifC11BadDest(t *testing.T) {
	m := vk.New(t, "C11", "sweep: destination {non-pointer struct, non-pointer int, untyped nil, typed nil pointer, *map, *chan, *any, *func, slice for a single-row query, non-slice for a multi-row query, slice of maps, slice of slices} x {QueryRow, QueryRows} x {strict, Partial} x {conn, tx session, prepared statement, sqlc NoCache} on a 2-row 2-column result: the call must return an error and not panic; struct with an unexported plain field: no panic (an error or skipping the field are both accepted); counted only: *time.Time, *sql.NullString, *[]byte, []time.Time, struct with an unexported pointer field; non-trivial = always")
	defer m.Done()
	c11Setup()
	var nilInt *int64
	var nilStruct *c11Pair
	type destCase struct {
		name   string
		mk     func() any
		rowOK  bool // usable with the single-row calls => not a bad destination there
		rowsOK bool
	}
	bad := []destCase{
		{"struct-value", func() any { return c11Pair{} }, false, false},
		{"int-value", func() any { return 7 }, false, false},
		{"untyped-nil", func() any { return nil }, false, false},
		{"nil-int-pointer", func() any { return nilInt }, false, false},
		{"nil-struct-pointer", func() any { return nilStruct }, false, false},
		{"map-pointer", func() any { return &map[string]any{} }, false, false},
		{"chan-pointer", func() any { c := make(chan int); return &c }, false, false},
		{"any-pointer", func() any { var a any; return &a }, false, false},
		{"func-pointer", func() any { var f func(); return &f }, false, false},
		{"slice-pointer", func() any { return &[]c11Pair{} }, false, true},
		{"struct-pointer", func() any { return &c11Pair{} }, true, false},
		{"int-pointer", func() any { return new(int64) }, true, false},
		{"slice-of-maps", func() any { return &[]map[string]any{} }, false, false},
		{"slice-of-slices", func() any { return &[][]int64{} }, false, false},
		{"slice-of-chan-pointers", func() any { return &[]*chan int{} }, false, false},
	}
	noPanicOnly := []destCase{
		{"unexported-field", func() any { return &c11Unexported{} }, true, false},
		{"unexported-field-tagged", func() any { return &c11UnexportedTagged{} }, true, false},
		{"slice-unexported-field", func() any { return &[]c11Unexported{} }, false, true},
	}
	counted := []destCase{
		{"time-pointer", func() any { return &time.Time{} }, true, false},
		{"nullstring-pointer", func() any { return &sql.NullString{} }, true, false},
		{"bytes-pointer", func() any { return &[]byte{} }, true, true},
		{"slice-of-time", func() any { return &[]time.Time{} }, false, true},
		{"unexported-pointer-field", func() any { return &c11UnexportedPtr{} }, true, false},
	}
	idx := 0
	run := func(group string, d destCase) {
		for _, method := range []string{"row", "rows"} {
			if group == "bad" && ((method == "row" && d.rowOK) || (method == "rows" && d.rowsOK)) {
				continue
			}
			if group != "bad" && ((method == "row" && !d.rowOK) || (method == "rows" && !d.rowsOK)) {
				continue
			}
			for _, strict := range []bool{true, false} {
				for _, path := range []string{"conn", "tx", "stmt", "sqlc"} {
					idx++
					if !m.Only(idx) {
						continue
					}
					c := c11OrmCase{Shape: "bad-dest", Method: method, Strict: strict, Path: path, Ctx: idx%2 == 0, IterFault: -1, BadRow: -1}
					if group == "counted" {
						c.Path = "conn"
					}
					desc := fmt.Sprintf("case=%d;{\"dest\":%q,\"method\":%q,\"strict\":%v,\"path\":%q}", idx, d.name, method, strict, c.Path)
					m.Current(desc)
					rec := c11NewRec()
					rec.results = []c11Result{{Cols: []string{"id", "name"}, Rows: [][]driver.Value{{int64(1), "one"}, {int64(2), "two"}}}}
					db, closeDB, err := c11Open(rec)
					if err != nil {
						m.Inconclusive("open: %v", err)
						return
					}
					var qerr error
					pv, panicked := vk.Recover(func() { qerr = c11Query(&c, sqlx.NewConnFromDB(db), d.mk()) })
					closeDB()
					what := "error"
					if panicked {
						what = "panic"
					} else if qerr == nil {
						what = "nil"
					}
					m.Count(group+":"+d.name+":"+what, 1)
					mode := map[bool]string{true: "strict", false: "partial"}[strict]
					switch {
					case group == "counted":
					case panicked:
						m.Violate("C11:orm:bad-dest:"+d.name+":"+method+":panic", desc, "mode=%s panic: %v", mode, pv)
					case group == "bad" && qerr == nil:
						m.Violate("C11:orm:bad-dest:"+d.name+":"+method+":accepted", desc, "mode=%s: a 2-row result was 'copied' into this destination with a nil error", mode)
					}
					m.Case(vk.Digest(desc), true)
				}
			}
		}
	}
	for _, d := range bad {
		run("bad", d)
	}
	for _, d := range noPanicOnly {
		run("nopanic", d)
	}
	for _, d := range counted {
		run("counted", d)
	}
	m.Note("counted only (no verdict): top-level *time.Time / *sql.NullString / *[]byte / []time.Time destinations and structs with an unexported POINTER field (the mapper treats them as plain structs / allocates through reflection)")
}

// TestVerifC11LogSwitches re-runs slices of the transaction table and of the seeded
// row-mapping cases under every reachable combination of the statement-logging switches
// (default; DisableStmtLog; DisableLog = nil guard) x slow threshold {default, 0 = every
// statement is "slow"}: commit/rollback, what the body is told about a failed statement and
// the mapping must not depend on them. The switches are restored afterwards.
func TestVerifC11LogSwitches(t *testing.T) {
	m := vk.New(t, "C11", "for each of {stmt+slow log on, DisableStmtLog, DisableLog} x slow threshold {500ms, 0}: every 6th case of the transaction table (a different residue per configuration) + 250 (thorough 8000) seeded row-mapping cases, same oracles incl. 'a statement whose driver call failed returns an error to the body'; switches restored afterwards; non-trivial = as in the original tests")
	defer m.Done()
	c11Setup()
	table := c11TxTable()
	idx := 0
	cfg := 0
	for _, sw := range []struct {
		name       string
		stmt, slow bool
	}{{"default", true, true}, {"DisableStmtLog", false, true}, {"DisableLog", false, false}} {
		for _, thr := range []time.Duration{500 * time.Millisecond, 0} {
			restore := sqlx.C11SetLogSwitches(sw.stmt, sw.slow, thr)
			name := fmt.Sprintf("%s/slow>%v", sw.name, thr)
			for i, c := range table {
				if i%6 != cfg {
					continue
				}
				idx++
				if !m.Only(idx) {
					continue
				}
				desc := fmt.Sprintf("case=%d;{\"log\":%q,\"tx\":%s}", idx, name, vk.JSON(c))
				m.Current(desc)
				rec := c11NewRec()
				db, closeDB, err := c11Open(rec)
				if err != nil {
					restore()
					m.Inconclusive("open: %v", err)
					return
				}
				c11ArmFaults(rec, c, map[string]int{})
				o := c11RunTx(c, sqlx.NewConnFromDB(db), rec)
				class, _ := c11JudgeTx(m, desc, o)
				closeDB()
				m.Count(sw.name+":tx_"+class, 1)
				m.Count(sw.name+":faults_injected", int64(rec.faultsHit()))
				m.Case(vk.Digest(desc), len(o.events) > 0)
			}
			r := m.Rand("logswitch-orm", cfg)
			n := vk.N(250, 8000)
			for j := 1; j <= n; j++ {
				idx++
				c := c11GenOrmCase(r)
				if !m.Only(idx) {
					continue
				}
				st := c11RunOrm(m, idx, &c)
				if st.class == "inconclusive" {
					restore()
					return
				}
				m.Count(sw.name+":orm_fields_compared", int64(st.fields))
				m.Case(vk.Digest(name, vk.JSON(c)), st.fields > 0 || st.class == "row:ErrNotFound")
			}
			restore()
			cfg++
		}
	}
	m.Sample(map[string]any{"configurations": cfg, "cases": idx})
}
