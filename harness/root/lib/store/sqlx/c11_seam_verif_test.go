//go:build verif

package sqlx

// C11, in-package seam: transactOnConn with a counting `trans` (the beginnable seam the
// package's own tx_test.go uses). database/sql forwards only the FIRST Commit/Rollback of
// a *sql.Tx to the driver, so a duplicated termination is invisible to the recording
// driver; here every Commit()/Rollback() call the epilogue makes is counted directly.
// This is the only C11 file that touches unexported identifiers (transactOnConn, trans,
// beginnable, Session embedding; logSQL / logSlowSQL / slowThreshold for C11SetLogSwitches).

import (
	"context"
	"database/sql"
	"errors"
	"fmt"
	"testing"
	"time"

	"verif.local/vk"
)

// C11SetLogSwitches puts the package's statement-logging switches (what DisableStmtLog /
// DisableLog / SetSlowThreshold set, none of which can be undone through the public API)
// into the given state and returns a function that restores the previous one.
func C11SetLogSwitches(stmtLog, slowLog bool, threshold time.Duration) (restore func()) {
	ps, pl, pt := logSQL.True(), logSlowSQL.True(), slowThreshold.Load()
	logSQL.Set(stmtLog)
	logSlowSQL.Set(slowLog)
	slowThreshold.Set(threshold)
	return func() {
		logSQL.Set(ps)
		logSlowSQL.Set(pl)
		slowThreshold.Set(pt)
	}
}

type c11SeamTx struct {
	Session              // nil: the bodies of this test never touch the session
	commits, rollbacks   int
	commitErr, rollbkErr error
}

func (t *c11SeamTx) Commit() error   { t.commits++; return t.commitErr }
func (t *c11SeamTx) Rollback() error { t.rollbacks++; return t.rollbkErr }

func TestVerifC11SeamTerminationCalls(t *testing.T) {
	m := vk.New(t, "C11", "complete table at the beginnable seam: transactOnConn x body {nil, error (own, sql.ErrTxDone, sql.ErrNoRows, context.Canceled), panic(error), panic(string), runtime panic} x Commit error x Rollback error x context {live, cancelled} + failing begin; oracle: calls made on the transaction object: nil body => Commit()==1, Rollback()==0; otherwise Rollback()==1, Commit()==0; begin failed => none and a non-nil result; non-trivial = always")
	defer m.Done()
	bodyErrs := map[string]error{"own": errors.New("c11 seam: body error"), "sql.ErrTxDone": sql.ErrTxDone, "sql.ErrNoRows": sql.ErrNoRows, "context.Canceled": context.Canceled}
	type sc struct {
		Outcome  string `json:"outcome"`
		Err      string `json:"err,omitempty"`
		CommitE  bool   `json:"commit_err,omitempty"`
		RollbkE  bool   `json:"rollback_err,omitempty"`
		Ctx      string `json:"ctx,omitempty"`
		BeginErr bool   `json:"begin_err,omitempty"`
	}
	var cases []sc
	for _, ctx := range []string{"", "cancelled"} {
		for _, ce := range []bool{false, true} {
			for _, re := range []bool{false, true} {
				cases = append(cases, sc{Outcome: "nil", CommitE: ce, RollbkE: re, Ctx: ctx})
				for _, k := range []string{"own", "sql.ErrTxDone", "sql.ErrNoRows", "context.Canceled"} {
					cases = append(cases, sc{Outcome: "error", Err: k, CommitE: ce, RollbkE: re, Ctx: ctx})
					cases = append(cases, sc{Outcome: "panic-error", Err: k, CommitE: ce, RollbkE: re, Ctx: ctx})
				}
				cases = append(cases, sc{Outcome: "panic-string", CommitE: ce, RollbkE: re, Ctx: ctx})
				cases = append(cases, sc{Outcome: "panic-runtime", CommitE: ce, RollbkE: re, Ctx: ctx})
			}
		}
		cases = append(cases, sc{Outcome: "nil", BeginErr: true, Ctx: ctx})
	}
	for i, c := range cases {
		idx := i + 1
		if !m.Only(idx) {
			continue
		}
		desc := fmt.Sprintf("case=%d;%s", idx, vk.JSON(c))
		m.Current(desc)
		tx := &c11SeamTx{}
		if c.CommitE {
			tx.commitErr = errors.New("c11 seam: commit failed")
		}
		if c.RollbkE {
			tx.rollbkErr = errors.New("c11 seam: rollback failed")
		}
		beginErr := errors.New("c11 seam: begin failed")
		begin := func(*sql.DB) (trans, error) {
			if c.BeginErr {
				return nil, beginErr
			}
			return tx, nil
		}
		ctx, cancel := context.WithCancel(context.Background())
		if c.Ctx == "cancelled" {
			cancel()
		}
		ran := 0
		var res error
		pv, panicked := vk.Recover(func() {
			res = transactOnConn(ctx, nil, begin, func(context.Context, Session) error {
				ran++
				switch c.Outcome {
				case "nil":
					return nil
				case "error":
					return bodyErrs[c.Err]
				case "panic-error":
					panic(bodyErrs[c.Err])
				case "panic-string":
					panic("c11 seam: boom")
				}
				var mp map[string]int
				mp["x"] = 1
				return nil
			})
		})
		cancel()
		m.Count("commit_calls", int64(tx.commits))
		m.Count("rollback_calls", int64(tx.rollbacks))
		v := func(sig, f string, a ...any) {
			m.Violate(sig, desc, "%s\n  Commit() calls=%d Rollback() calls=%d result=%v panicked=%v (%v) body ran %d times", fmt.Sprintf(f, a...), tx.commits, tx.rollbacks, res, panicked, pv, ran)
		}
		kind := "panic"
		if c.Outcome == "nil" || c.Outcome == "error" {
			kind = c.Outcome
		}
		switch {
		case c.BeginErr:
			if res == nil || panicked || ran > 0 || tx.commits+tx.rollbacks > 0 {
				v("C11:tx:seam:begin-failed", "begin failed: want a non-nil result, no body, no termination call")
			}
		case ran != 1:
			v("C11:tx:seam:body-calls", "the body ran %d times", ran)
		case kind == "nil" && c.Ctx == "cancelled" && tx.commits == 0 && tx.rollbacks == 1 && res != nil && !panicked:
			// refusing to commit under a cancelled context is legitimate if the caller is told
			m.Count("nil_body_refused_on_cancelled_ctx", 1)
		case kind == "nil" && (tx.commits != 1 || tx.rollbacks != 0):
			v("C11:tx:seam:nil-body:termination-calls", "body returned nil: want exactly one Commit() and no Rollback() on the transaction")
		case kind == "nil" && !panicked && c.CommitE != (res != nil):
			v("C11:tx:seam:nil-body:result", "body returned nil: the result must be the Commit error (nil if it succeeded)")
		case kind != "nil" && tx.commits != 0:
			v("C11:tx:seam:"+kind+"-body:committed", "body did not return nil but Commit() was called")
		case kind != "nil" && tx.rollbacks != 1:
			v("C11:tx:seam:"+kind+"-body:rollback-calls", "body did not return nil: want exactly one Rollback() on the transaction, got %d", tx.rollbacks)
		case kind != "nil" && !panicked && res == nil:
			v("C11:tx:seam:"+kind+"-body:returned-nil", "body did not return nil but the result is nil")
		}
		m.Case(vk.Digest(desc), true)
		if idx == 7 || idx == 19 {
			m.Sample(map[string]any{"case": c, "commit_calls": tx.commits, "rollback_calls": tx.rollbacks, "result": fmt.Sprint(res), "panicked": panicked})
		}
	}
	m.Extra("exhaustive", true)
}
