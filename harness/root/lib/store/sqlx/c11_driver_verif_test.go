//go:build verif

package sqlx_test

// C11 — recording database/sql driver for the SQL-session monitors (DESIGN.md §3 C11).
// The driver is registered as "c11rec"; the DSN names a recorder which logs every
// Begin / Prepare / Exec / Query / Commit / Rollback that reaches the driver level,
// injects per-call faults and serves scripted result sets with arbitrary columns.
// Everything is observed at the public API of lib/store/sqlx and lib/store/sqlc
// (external test package), the boundary named by the property.

import (
	"context"
	"database/sql"
	"database/sql/driver"
	"errors"
	"fmt"
	"io"
	"os"
	"strings"
	"sync"

	"github.com/gotid/god/lib/logx"
	"verif.local/vk"
)

const c11DriverName = "c11rec"

var c11Bg = context.Background()

type c11Event struct {
	Kind string `json:"k"` // begin prepare exec query commit rollback
	Conn int    `json:"c"`
	Err  string `json:"e,omitempty"`
}

func (e c11Event) String() string {
	if e.Err != "" {
		return fmt.Sprintf("%s@%d!%s", e.Kind, e.Conn, e.Err)
	}
	return fmt.Sprintf("%s@%d", e.Kind, e.Conn)
}

type c11Result struct {
	Cols []string
	Rows [][]driver.Value
	// row-iteration faults: driver.Rows.Next fails (non-EOF) when asked for row FailRow
	// (FailRow == len(Rows): instead of the final io.EOF); Rows.Close fails with CloseErr.
	Fail     bool
	FailRow  int
	CloseErr error
}

// c11Rec is one recorder (= one logical database).
type c11Rec struct {
	mu      sync.Mutex
	events  []c11Event
	calls   map[string]int           // fault class -> calls so far
	faults  map[string]map[int]error // fault class (begin prepare stmt commit rollback) -> 0-based call -> error
	hit     int                      // faults actually injected
	results []c11Result              // served to successive queries, then the default
	repeat  bool                     // serve results[0] to every query instead of consuming it
	iter    map[int]int              // statement ordinal (class "stmt") -> row whose fetch fails
	conns   int
}

var (
	c11Recs sync.Map // dsn -> *c11Rec
	c11Once sync.Once
)

func c11Setup() {
	c11Once.Do(func() {
		sql.Register(c11DriverName, c11Driver{})
		logx.Disable() // the statement logger stays active (sqlx guard), only the sink is muted
	})
}

func c11NewRec() *c11Rec {
	return &c11Rec{calls: map[string]int{}, faults: map[string]map[int]error{}}
}

// c11Open opens a fresh *sql.DB on the recorder; closeFn closes it and forgets the DSN.
func c11Open(rec *c11Rec) (db *sql.DB, closeFn func(), err error) {
	c11Setup()
	dsn := fmt.Sprintf("c11-%d", vk.Seq())
	c11Recs.Store(dsn, rec)
	db, err = sql.Open(c11DriverName, dsn)
	if err != nil {
		c11Recs.Delete(dsn)
		return nil, func() {}, err
	}
	return db, func() {
		_ = db.Close()
		c11Recs.Delete(dsn)
	}, nil
}

// c11RegisterDSN makes rec reachable under a fresh DSN (for constructors that open the
// database themselves) and returns the DSN.
func c11RegisterDSN(rec *c11Rec) string {
	c11Setup()
	dsn := fmt.Sprintf("c11-lazy-%d-%d", os.Getpid(), vk.Seq())
	c11Recs.Store(dsn, rec)
	return dsn
}

func (r *c11Rec) fault(class string, call int, err error) {
	r.mu.Lock()
	if r.faults[class] == nil {
		r.faults[class] = map[int]error{}
	}
	r.faults[class][call] = err
	r.mu.Unlock()
}

// step records an event of the given kind and returns the injected error, if any.
func (r *c11Rec) step(kind, class string, conn int) error {
	_, err := r.stepN(kind, class, conn)
	return err
}

// iterFault arms a row-iteration fault for the statement with the given ordinal.
func (r *c11Rec) iterFault(stmtOrdinal, row int) {
	r.mu.Lock()
	if r.iter == nil {
		r.iter = map[int]int{}
	}
	r.iter[stmtOrdinal] = row
	r.mu.Unlock()
}

// rowsFor returns the result for the query with statement ordinal n.
func (r *c11Rec) rowsFor(n, conn int) *c11Rows {
	res := r.nextResult()
	r.mu.Lock()
	if row, ok := r.iter[n]; ok {
		res.Fail, res.FailRow = true, row
	}
	r.mu.Unlock()
	return &c11Rows{res: res, rec: r, conn: conn}
}

// note records an event outside the call counters (row-iteration / close faults).
func (r *c11Rec) note(kind string, conn int, err error) {
	r.mu.Lock()
	r.events = append(r.events, c11Event{Kind: kind, Conn: conn, Err: err.Error()})
	r.hit++
	r.mu.Unlock()
}

// stepN is step that also returns the 0-based ordinal of the call within its class.
func (r *c11Rec) stepN(kind, class string, conn int) (int, error) {
	r.mu.Lock()
	defer r.mu.Unlock()
	var err error
	ord := -1
	if class != "" {
		n := r.calls[class]
		ord = n
		r.calls[class] = n + 1
		if f, ok := r.faults[class][n]; ok {
			err = f
			r.hit++
		}
	}
	ev := c11Event{Kind: kind, Conn: conn}
	if err != nil {
		ev.Err = err.Error()
	}
	r.events = append(r.events, ev)
	return ord, err
}

func (r *c11Rec) snapshot() []c11Event {
	r.mu.Lock()
	defer r.mu.Unlock()
	return append([]c11Event(nil), r.events...)
}

func (r *c11Rec) faultsHit() int {
	r.mu.Lock()
	defer r.mu.Unlock()
	return r.hit
}

func (r *c11Rec) count(kind string) (n, failed int) {
	r.mu.Lock()
	defer r.mu.Unlock()
	for _, e := range r.events {
		if e.Kind == kind {
			n++
			if e.Err != "" {
				failed++
			}
		}
	}
	return
}

func c11Trace(evs []c11Event) string {
	parts := make([]string, len(evs))
	for i, e := range evs {
		parts[i] = e.String()
	}
	return strings.Join(parts, " ")
}

func (r *c11Rec) nextResult() c11Result {
	r.mu.Lock()
	defer r.mu.Unlock()
	if len(r.results) > 0 {
		res := r.results[0]
		if !r.repeat {
			r.results = r.results[1:]
		}
		return res
	}
	return c11Result{Cols: []string{"c"}, Rows: [][]driver.Value{{int64(7)}}}
}

// ---- database/sql/driver plumbing ------------------------------------------------

type c11Driver struct{}

func (c11Driver) Open(dsn string) (driver.Conn, error) {
	v, ok := c11Recs.Load(dsn)
	if !ok {
		return nil, fmt.Errorf("c11rec: unknown dsn %q", dsn)
	}
	rec := v.(*c11Rec)
	rec.mu.Lock()
	rec.conns++
	id := rec.conns
	rec.mu.Unlock()
	return &c11Conn{rec: rec, id: id}, nil
}

type c11Conn struct {
	rec *c11Rec
	id  int
}

func (c *c11Conn) Prepare(query string) (driver.Stmt, error) {
	if err := c.rec.step("prepare", "prepare", c.id); err != nil {
		return nil, err
	}
	return &c11Stmt{c: c}, nil
}

func (c *c11Conn) Close() error { return nil }

func (c *c11Conn) Begin() (driver.Tx, error) {
	if err := c.rec.step("begin", "begin", c.id); err != nil {
		return nil, err
	}
	return &c11Tx{c: c}, nil
}

func (c *c11Conn) ExecContext(_ context.Context, _ string, _ []driver.NamedValue) (driver.Result, error) {
	if err := c.rec.step("exec", "stmt", c.id); err != nil {
		return nil, err
	}
	return driver.RowsAffected(1), nil
}

func (c *c11Conn) QueryContext(_ context.Context, _ string, _ []driver.NamedValue) (driver.Rows, error) {
	n, err := c.rec.stepN("query", "stmt", c.id)
	if err != nil {
		return nil, err
	}
	return c.rec.rowsFor(n, c.id), nil
}

type c11Tx struct{ c *c11Conn }

func (t *c11Tx) Commit() error   { return t.c.rec.step("commit", "commit", t.c.id) }
func (t *c11Tx) Rollback() error { return t.c.rec.step("rollback", "rollback", t.c.id) }

type c11Stmt struct{ c *c11Conn }

func (s *c11Stmt) Close() error  { return nil }
func (s *c11Stmt) NumInput() int { return -1 }
func (s *c11Stmt) Exec(_ []driver.Value) (driver.Result, error) {
	if err := s.c.rec.step("exec", "stmt", s.c.id); err != nil {
		return nil, err
	}
	return driver.RowsAffected(1), nil
}
func (s *c11Stmt) Query(_ []driver.Value) (driver.Rows, error) {
	n, err := s.c.rec.stepN("query", "stmt", s.c.id)
	if err != nil {
		return nil, err
	}
	return s.c.rec.rowsFor(n, s.c.id), nil
}

type c11Rows struct {
	res    c11Result
	i      int
	rec    *c11Rec
	conn   int
	closed bool
}

// c11ErrFetch is what a failing driver.Rows.Next returns.
var c11ErrFetch = errors.New("c11 fault next: connection reset while fetching row")

func (r *c11Rows) Columns() []string { return r.res.Cols }
func (r *c11Rows) Close() error {
	if r.res.CloseErr != nil && !r.closed {
		r.closed = true
		r.rec.note("rows-close", r.conn, r.res.CloseErr)
		return r.res.CloseErr
	}
	return nil
}
func (r *c11Rows) Next(dest []driver.Value) error {
	if r.res.Fail && r.i == r.res.FailRow {
		r.i = len(r.res.Rows) + 1 // the cursor is dead
		r.rec.note("next", r.conn, c11ErrFetch)
		return c11ErrFetch
	}
	if r.i >= len(r.res.Rows) {
		return io.EOF
	}
	copy(dest, r.res.Rows[r.i])
	r.i++
	return nil
}
