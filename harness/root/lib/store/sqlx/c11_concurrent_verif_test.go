//go:build verif

package sqlx_test

// C11 — row mapping under overlapping queries (DESIGN.md §3 C11, "a query result is copied
// into the destination by column name"). All other C11 cases are single-goroutine; here
// 8-16 goroutines map results into DISTINCT tagged struct types at the same time, after
// (and between) multi-row queries whose Scan failed. The first column of every result is
// a gate column (a field type implementing sql.Scanner): in the first query of each
// goroutine it waits until every goroutine of the round is inside Rows.Scan (or has
// already returned), i.e. all callers sit between "scan arguments built" and "row
// scanned" together; in later queries it yields the processor. The expected rows are
// built before the result set is encoded. Verdict: a query that must succeed returns no
// error and exactly its rows. Nothing is asserted about the provoked failures themselves.
// It lives in the external test package because it uses the recording driver (c11rec).

import (
	"database/sql/driver"
	"fmt"
	"math/rand"
	"reflect"
	"runtime"
	"strings"
	"sync"
	"sync/atomic"
	"testing"
	"time"

	"github.com/gotid/god/lib/store/sqlx"
	"verif.local/vk"
)

// ---- gate column -----------------------------------------------------------------

type c11cRound struct {
	n        int
	mu       sync.Mutex
	seen     map[int]bool
	arrived  int
	inScan   int
	released chan struct{}
}

func (r *c11cRound) arrive(gid int, inScan bool) {
	r.mu.Lock()
	if !r.seen[gid] {
		r.seen[gid] = true
		r.arrived++
		if inScan {
			r.inScan++
		}
		if r.arrived == r.n {
			close(r.released)
		}
	}
	r.mu.Unlock()
}

var (
	c11cRounds   sync.Map // int64 -> *c11cRound
	c11cWatchdog atomic.Int64
)

// c11cGate is the type of the first field of every destination struct.
type c11cGate struct{ S string }

func (g *c11cGate) Scan(src any) error {
	var s string
	switch v := src.(type) {
	case string:
		s = v
	case []byte:
		s = string(v)
	default:
		s = fmt.Sprint(src)
	}
	g.S = s
	var rid int64
	var gid int
	if n, _ := fmt.Sscanf(s, "b:%d:%d:", &rid, &gid); n == 2 {
		if v, ok := c11cRounds.Load(rid); ok {
			r := v.(*c11cRound)
			r.arrive(gid, true)
			select {
			case <-r.released:
			case <-time.After(30 * time.Second): // watchdog only, never a verdict
				c11cWatchdog.Add(1)
			}
		}
		return nil
	}
	runtime.Gosched()
	return nil
}

// ---- destination types -----------------------------------------------------------

type c11cT0 struct {
	G    c11cGate `db:"g"`
	Name string   `db:"name"`
	Age  int64    `db:"age"`
}
type c11cT1 struct {
	G     c11cGate `db:"g"`
	Title string   `db:"title"`
	Price float64  `db:"price"`
	Stock int64    `db:"stock"`
}
type c11cT2 struct {
	G  c11cGate `db:"g"`
	Id int64    `db:"id"`
	Ok bool     `db:"ok"`
}
type c11cT3 struct {
	G    c11cGate `db:"g"`
	City string   `db:"city"`
	Zip  string   `db:"zip"`
	Lat  float64  `db:"lat"`
	Lng  float64  `db:"lng"`
}
type c11cT4 struct {
	G    c11cGate `db:"g"`
	Code int64    `db:"code"`
	Msg  string   `db:"msg"`
}
type c11cT5 struct {
	G c11cGate `db:"g"`
	A int64    `db:"a"`
	B int64    `db:"b"`
	C int64    `db:"c"`
	D int64    `db:"d"`
	E int64    `db:"e"`
}
type c11cT6 struct {
	G      c11cGate `db:"g"`
	User   string   `db:"user"`
	Score  int64    `db:"score"`
	Active bool     `db:"active"`
}
type c11cT7 struct {
	G   c11cGate `db:"g"`
	Key string   `db:"key"`
	Val string   `db:"val"`
	Ver int64    `db:"ver"`
	W   float64  `db:"w"`
}

// c11cFail is the destination of the provoked failures (no gate).
type c11cFail struct {
	Name string `db:"name"`
	Age  int64  `db:"age"`
}

func c11cS(v driver.Value) string {
	if v == nil {
		return ""
	}
	return v.(string)
}
func c11cI(v driver.Value) int64 {
	if v == nil {
		return 0
	}
	return v.(int64)
}
func c11cF(v driver.Value) float64 {
	if v == nil {
		return 0
	}
	return v.(float64)
}
func c11cB(v driver.Value) bool {
	if v == nil {
		return false
	}
	return v.(bool)
}

const (
	c11cFormRows = iota
	c11cFormRowsPartial
	c11cFormRowsPtr
	c11cFormRow
	c11cFormRowPartial
	c11cForms
)

var c11cFormNames = []string{"QueryRows/[]T", "QueryRowsPartial/[]T", "QueryRows/[]*T", "QueryRow/T", "QueryRowPartial/T"}

type c11cJob struct {
	name  string
	cols  []string // without the gate column
	kinds string   // one of s i f b per column
	run   func(conn sqlx.Conn, form int, q string) (any, error)
	want  func(gates []string, vals [][]driver.Value) any // vals[i] in cols order, nil = column not sent
}

func c11cJobOf[T any](name string, cols []string, kinds string, mk func(g string, v []driver.Value) T) c11cJob {
	return c11cJob{
		name: name, cols: cols, kinds: kinds,
		run: func(conn sqlx.Conn, form int, q string) (any, error) {
			switch form {
			case c11cFormRows:
				var d []T
				err := conn.QueryRows(&d, q)
				return d, err
			case c11cFormRowsPartial:
				var d []T
				err := conn.QueryRowsPartial(&d, q)
				return d, err
			case c11cFormRowsPtr:
				var d []*T
				err := conn.QueryRows(&d, q)
				out := make([]T, 0, len(d))
				for _, p := range d {
					if p != nil {
						out = append(out, *p)
					} else {
						out = append(out, *new(T))
					}
				}
				return out, err
			case c11cFormRow:
				var d T
				err := conn.QueryRow(&d, q)
				return []T{d}, err
			default:
				var d T
				err := conn.QueryRowPartial(&d, q)
				return []T{d}, err
			}
		},
		want: func(gates []string, vals [][]driver.Value) any {
			out := make([]T, 0, len(vals))
			for i := range vals {
				out = append(out, mk(gates[i], vals[i]))
			}
			return out
		},
	}
}

var c11cJobs = []c11cJob{
	c11cJobOf("T0", []string{"name", "age"}, "si", func(g string, v []driver.Value) c11cT0 {
		return c11cT0{c11cGate{g}, c11cS(v[0]), c11cI(v[1])}
	}),
	c11cJobOf("T1", []string{"title", "price", "stock"}, "sfi", func(g string, v []driver.Value) c11cT1 {
		return c11cT1{c11cGate{g}, c11cS(v[0]), c11cF(v[1]), c11cI(v[2])}
	}),
	c11cJobOf("T2", []string{"id", "ok"}, "ib", func(g string, v []driver.Value) c11cT2 {
		return c11cT2{c11cGate{g}, c11cI(v[0]), c11cB(v[1])}
	}),
	c11cJobOf("T3", []string{"city", "zip", "lat", "lng"}, "ssff", func(g string, v []driver.Value) c11cT3 {
		return c11cT3{c11cGate{g}, c11cS(v[0]), c11cS(v[1]), c11cF(v[2]), c11cF(v[3])}
	}),
	c11cJobOf("T4", []string{"code", "msg"}, "is", func(g string, v []driver.Value) c11cT4 {
		return c11cT4{c11cGate{g}, c11cI(v[0]), c11cS(v[1])}
	}),
	c11cJobOf("T5", []string{"a", "b", "c", "d", "e"}, "iiiii", func(g string, v []driver.Value) c11cT5 {
		return c11cT5{c11cGate{g}, c11cI(v[0]), c11cI(v[1]), c11cI(v[2]), c11cI(v[3]), c11cI(v[4])}
	}),
	c11cJobOf("T6", []string{"user", "score", "active"}, "sib", func(g string, v []driver.Value) c11cT6 {
		return c11cT6{c11cGate{g}, c11cS(v[0]), c11cI(v[1]), c11cB(v[2])}
	}),
	c11cJobOf("T7", []string{"key", "val", "ver", "w"}, "ssif", func(g string, v []driver.Value) c11cT7 {
		return c11cT7{c11cGate{g}, c11cS(v[0]), c11cS(v[1]), c11cI(v[2]), c11cF(v[3])}
	}),
}

// ---- planned query ---------------------------------------------------------------

type c11cQuery struct {
	form int
	res  c11Result
	want any
	desc string
}

// c11cPlan builds query k of goroutine gid (job j) in round rid. barrier: the gate of the
// first row waits for the whole round.
func c11cPlan(r *rand.Rand, j c11cJob, rid int64, gid, k int, barrier bool) c11cQuery {
	form := r.Intn(c11cForms)
	nrows := 1
	if form <= c11cFormRowsPtr {
		nrows = 1 + r.Intn(4)
	}
	partial := form == c11cFormRowsPartial || form == c11cFormRowPartial
	drop := -1
	if partial && r.Intn(2) == 0 {
		drop = r.Intn(len(j.cols))
	}
	perm := r.Perm(len(j.cols))
	cols := []string{"g"} // the gate column is sent first so that it is scanned first
	for _, ci := range perm {
		if ci != drop {
			cols = append(cols, j.cols[ci])
		}
	}
	var gates []string
	var vals [][]driver.Value
	var rows [][]driver.Value
	for i := 0; i < nrows; i++ {
		g := fmt.Sprintf("y:%d:%d:%d:%d", rid, gid, k, i)
		if barrier && i == 0 {
			g = fmt.Sprintf("b:%d:%d:%d", rid, gid, k)
		}
		v := make([]driver.Value, len(j.cols))
		for ci, col := range j.cols {
			if ci == drop {
				continue
			}
			switch j.kinds[ci] {
			case 's':
				v[ci] = fmt.Sprintf("%s.%s.r%d.g%d.q%d.%d.%d", j.name, col, rid, gid, k, i, r.Intn(1000000))
			case 'i':
				v[ci] = int64(gid+1)*1000000000 + int64(k)*10000000 + int64(i)*1000000 + r.Int63n(999999) + 1
			case 'f':
				v[ci] = float64(gid+1)*1000 + float64(r.Intn(999)) + 0.5
			case 'b':
				v[ci] = (gid+k+i+ci)%2 == 0
			}
		}
		row := []driver.Value{g}
		for _, ci := range perm {
			if ci != drop {
				row = append(row, v[ci])
			}
		}
		gates, vals, rows = append(gates, g), append(vals, v), append(rows, row)
	}
	return c11cQuery{
		form: form,
		res:  c11Result{Cols: cols, Rows: rows},
		want: j.want(gates, vals),
		desc: fmt.Sprintf("goroutine=%d;type=%s;query=%d;form=%s;cols=%s;rows=%d;barrier=%v", gid, j.name, k, c11cFormNames[form], strings.Join(cols, ","), nrows, barrier),
	}
}

// c11cProvoke runs k multi-row struct queries whose Scan fails (NULL or text into an int64
// field at row 0..2). Only counted; nothing is asserted about them.
func c11cProvoke(m *vk.M, r *rand.Rand, k int) {
	for i := 0; i < k; i++ {
		bad := r.Intn(3)
		var rows [][]driver.Value
		for x := 0; x < bad; x++ {
			rows = append(rows, []driver.Value{fmt.Sprintf("ok%d", x), int64(x + 1)})
		}
		if r.Intn(2) == 0 {
			rows = append(rows, []driver.Value{"null-age", nil})
		} else {
			rows = append(rows, []driver.Value{"text-age", "abc"})
		}
		rows = append(rows, []driver.Value{"after", int64(9)})
		rec := c11NewRec()
		rec.results = []c11Result{{Cols: []string{"name", "age"}, Rows: rows}}
		db, closeDB, err := c11Open(rec)
		if err != nil {
			m.Inconclusive("cannot open recording driver: %v", err)
			return
		}
		conn := sqlx.NewConnFromDB(db)
		var qerr error
		variant := r.Intn(3)
		_, panicked := vk.Recover(func() {
			switch variant {
			case 0:
				var d []c11cFail
				qerr = conn.QueryRows(&d, "select name, age from t")
			case 1:
				var d []c11cFail
				qerr = conn.QueryRowsPartial(&d, "select name, age from t")
			default:
				var d []*c11cFail
				qerr = conn.QueryRows(&d, "select name, age from t")
			}
		})
		closeDB()
		switch {
		case panicked:
			m.Count("provoked_scan_failure_panicked", 1)
		case qerr != nil:
			m.Count("provoked_scan_failure_reported", 1)
		default:
			m.Count("provoked_scan_failure_returned_nil", 1)
		}
	}
}

type c11cFinding struct{ sig, scenario, detail string }

func TestVerifC11Concurrent(t *testing.T) {
	m := vk.New(t, "C11", "overlapping QueryRow/QueryRows calls into distinct tagged struct types, after and between multi-row queries whose Scan failed: every query that must succeed returns nil and exactly its own rows (by column name)")
	defer m.Done()

	rounds := vk.N(60, 1500)
	const perG = 4 // queries per goroutine and round; the first one meets the barrier
	fr := m.Rand("provoke")
	c11cProvoke(m, fr, 4)

	for round := 0; round < rounds; round++ {
		if !m.Only(round) {
			continue
		}
		r := m.Rand("round", round)
		n := 8 + r.Intn(9)
		rid := vk.Seq()
		rd := &c11cRound{n: n, seen: map[int]bool{}, released: make(chan struct{})}
		c11cRounds.Store(rid, rd)
		scen := fmt.Sprintf("case=%d;goroutines=%d;queries-each=%d", round, n, perG)
		m.Current(scen)

		// plan everything (expected rows first), open one recorder + connection per goroutine
		off := r.Intn(len(c11cJobs))
		plans := make([][]c11cQuery, n)
		conns := make([]sqlx.Conn, n)
		closers := make([]func(), 0, n)
		forms := make([]int, 0, n*perG)
		opened := true
		for g := 0; g < n; g++ {
			j := c11cJobs[(off+g)%len(c11cJobs)]
			rec := c11NewRec()
			for k := 0; k < perG; k++ {
				q := c11cPlan(r, j, rid, g, k, k == 0)
				plans[g] = append(plans[g], q)
				rec.results = append(rec.results, q.res)
				forms = append(forms, q.form)
			}
			db, closeDB, err := c11Open(rec)
			if err != nil {
				m.Inconclusive("case %d: cannot open recording driver: %v", round, err)
				opened = false
				break
			}
			closers = append(closers, closeDB)
			conns[g] = sqlx.NewConnFromDB(db)
		}
		if !opened {
			for _, c := range closers {
				c()
			}
			c11cRounds.Delete(rid)
			continue
		}

		var wg sync.WaitGroup
		var fmu sync.Mutex
		var findings []c11cFinding
		var okQueries atomic.Int64
		start := make(chan struct{})
		for g := 0; g < n; g++ {
			wg.Add(1)
			go func(g int) {
				defer wg.Done()
				<-start
				for k, q := range plans[g] {
					var got any
					var err error
					j := c11cJobs[(off+g)%len(c11cJobs)]
					pv, panicked := vk.Recover(func() {
						got, err = j.run(conns[g], q.form, fmt.Sprintf("select * from %s where r=%d and q=%d", j.name, round, k))
					})
					if k == 0 {
						rd.arrive(g, false) // never leave the others waiting for a caller that is already back
					}
					var f *c11cFinding
					switch {
					case panicked:
						f = &c11cFinding{"C11:concurrent:panic", q.desc, fmt.Sprintf("the query panicked: %v", pv)}
					case err != nil:
						f = &c11cFinding{"C11:concurrent:unexpected-error", q.desc, fmt.Sprintf("a well-formed result for this destination was answered with an error: %v", err)}
					case !reflect.DeepEqual(got, q.want):
						f = &c11cFinding{"C11:concurrent:wrong-value", q.desc, fmt.Sprintf("got %+v, want %+v", got, q.want)}
					}
					if f != nil {
						fmu.Lock()
						findings = append(findings, *f)
						fmu.Unlock()
						return // this caller's scenario ends at its first deviation
					}
					okQueries.Add(1)
				}
			}(g)
		}
		close(start)
		wg.Wait()
		for _, c := range closers {
			c()
		}
		c11cRounds.Delete(rid)

		rd.mu.Lock()
		inScan := rd.inScan
		rd.mu.Unlock()
		m.Count("rounds", 1)
		m.Count("queries_matching_expected_rows", okQueries.Load())
		m.Count("callers_inside_scan_at_the_barrier", int64(inScan))
		m.Max("max_callers_inside_scan_together", int64(inScan))
		if inScan >= 2 {
			m.Count("rounds_with_overlap", 1)
		}
		m.Case(vk.Digest(round, n, off, forms), inScan >= 2)
		if round < 3 && m.WantSample() {
			m.Sample(map[string]any{"case": round, "goroutines": n, "inside_scan_together": inScan,
				"queries_ok": okQueries.Load(), "first_query": plans[0][0].desc})
		}
		if round%20 == 19 {
			m.Progress()
		}

		if len(findings) > 0 {
			seen := map[string]bool{}
			for _, f := range findings {
				if !seen[f.sig] {
					seen[f.sig] = true
					m.Violate(f.sig, scen+";"+f.scenario, "%s (after %d provoked multi-row Scan failures; %d callers were inside Rows.Scan together)", f.detail, 4+3*round, inScan)
				}
			}
			break // shared state in the mapper is now suspect: later rounds would only cascade
		}

		// further scan failures between the rounds
		c11cProvoke(m, fr, 3)
	}
	if w := c11cWatchdog.Load(); w > 0 {
		m.Inconclusive("the barrier watchdog fired %d times (a caller neither reached Scan nor returned within 30 s)", w)
	}
}
