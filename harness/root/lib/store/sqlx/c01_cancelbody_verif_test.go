//go:build verif

package sqlx

// C01 — a client cancels its request WHILE the body of TransactCtx runs (round 13, seeded change C01-r13-2).
// The benign table cancels nothing during a transaction: its bodies just return the scripted error. Here the
// body itself cancels the context it was given, stays in the transaction for a moment (so that anything the
// library or database/sql attached to that context has time to act on the transaction), and then returns what
// a real body returns in that situation: the context's error, either read from the context or reported by a
// statement run on the session after the cancellation. Both are context.Canceled, which the statement lists
// among the outcomes that never move a breaker towards open.
//
// Verdict (no wall-clock in it; the pause only gives a defect time to show): on every conn flavour the conn's
// acceptable-predicate answers true for each of these calls, the protected function ran, and after a long run
// of nothing but such cancellations a healthy ExecCtx on the same conn is not rejected.

import (
	"context"
	"fmt"
	"testing"
	"time"

	"github.com/gotid/god/lib/breaker"
	"github.com/gotid/god/lib/logx"
	"github.com/gotid/god/lib/stat"
	"github.com/gotid/god/lib/timex"
	"verif.local/vk"
)

func TestVerifC01SQLCancelInsideBody(t *testing.T) {
	m := vk.New(t, "C01", "sqlx TransactCtx over the scripted driver, real breaker behind the transparent spy, virtual clock frozen: per conn flavour {plain, accept option set, NewMySQL} x body form {returns ctx.Err() after cancelling its own context, returns the error of a session ExecCtx issued after the cancellation, cancels and then lets a nested helper return context.Canceled after a longer stay} a run of cancelled transactions; each must be judged benign by the conn's predicate with the protected function run, and a healthy ExecCtx afterwards must not be rejected; non-trivial = the body observed its context as cancelled")
	defer m.Done()
	logx.Disable()
	stat.SetReporter(nil)
	timex.VerifFakeClock(1000*time.Hour + time.Duration(m.Rand("clock-cancelbody").Int63n(int64(time.Hour))))
	defer timex.VerifRealClock()
	per := vk.N(40, 300)
	forms := []string{"ctx-err", "exec-after-cancel", "long-stay"}
	idx := 0
	for _, flavour := range []string{"plain", "custom-accept", "mysql"} {
		for _, form := range forms {
			idx++
			if !m.Only(idx) {
				continue
			}
			desc := fmt.Sprintf("case=%d;flavour=%s body=%s calls=%d", idx, flavour, form, per)
			m.Current(desc)
			e := c01NewEnv(flavour)
			if e == nil {
				m.Inconclusive("case %d: conn flavour %s is not a *commonConn", idx, flavour)
				continue
			}
			sawCancelled, bad := 0, false
			for i := 0; i < per && !bad; i++ {
				ctx, cancel := context.WithCancel(context.Background())
				ran0, ver0 := e.spy.ran, e.spy.verdicts
				got := e.conn.TransactCtx(ctx, func(c context.Context, s Session) error {
					cancel()
					stay := 2 * time.Millisecond
					if form == "long-stay" {
						stay = 8 * time.Millisecond
					}
					time.Sleep(stay) // real time on purpose: room for whatever watches the context
					if c.Err() != nil {
						sawCancelled++
					}
					if form == "exec-after-cancel" {
						if _, xerr := s.ExecCtx(c, "update t set a = 1"); xerr != nil {
							return xerr
						}
					}
					return c.Err()
				})
				cancel()
				switch {
				case got == breaker.ErrServiceUnavailable:
					m.Violate("C01:benign:sqlx:cancel-inside-TransactCtx:rejected", desc, "call #%d was rejected by the breaker after %d transactions whose only outcome was the client's own cancellation", i, i)
					bad = true
				case e.spy.ran != ran0+1:
					m.Violate("C01:benign:sqlx:cancel-inside-TransactCtx:protected-function-not-run", desc, "call #%d: the protected function ran %d times", i, e.spy.ran-ran0)
					bad = true
				case e.spy.verdicts != ver0+1 || !e.spy.lastAcc:
					m.Violate("C01:benign:sqlx:cancel-inside-TransactCtx:counted-as-failure", desc, "call #%d: the body returned context.Canceled after the client cancelled; the conn's predicate was asked %d times and answered %v for the error %q (caller saw %q)", i, e.spy.verdicts-ver0, e.spy.lastAcc, fmt.Sprint(e.spy.lastErr), fmt.Sprint(got))
					bad = true
				}
				m.Count("cancelled_inside_transaction", 1)
			}
			if !bad {
				if _, xerr := e.conn.ExecCtx(context.Background(), "update t set a = 1"); xerr != nil {
					m.Violate("C01:benign:sqlx:cancel-inside-TransactCtx:healthy-call-after", desc, "a healthy ExecCtx after %d cancelled transactions returned %q", per, fmt.Sprint(xerr))
				}
			}
			m.Case(vk.Digest(desc), sawCancelled > 0)
		}
	}
}
