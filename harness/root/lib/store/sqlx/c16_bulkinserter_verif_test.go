//go:build verif

package sqlx

// C16 — the BulkInserter container on top of PeriodicalExecutor: every inserted
// row reaches the database exactly once, in the order its inserter added it,
// at most maxBulkRows rows per statement, whichever trigger flushes it
// (row threshold, Flush, UpdateOrDelete, UpdateStmt).

import (
	"database/sql"
	"fmt"
	"regexp"
	"runtime"
	"strconv"
	"sync"
	"testing"
	"time"

	"verif.local/vk"
)

type c16Conn struct {
	Conn  // unused methods
	mu    sync.Mutex
	stmts []string
}

func (c *c16Conn) Exec(query string, args ...any) (sql.Result, error) {
	c.mu.Lock()
	c.stmts = append(c.stmts, query)
	c.mu.Unlock()
	return nil, nil
}

var c16RowRe = regexp.MustCompile(`\((\d+), (\d+)\)`)

func TestVerifC16BulkInserterRace(t *testing.T) {
	m := vk.New(t, "C16", "BulkInserter: 2-8 goroutines insert 200-1500 unique rows (adder, seq) each, interleaved with Flush / UpdateOrDelete; all executed INSERT statements are parsed back: every row exactly once, per-adder order inside a statement, <= 1000 rows per statement; under the race detector")
	defer m.Done()
	c16BulkRun(m, vk.N(25, 500), false)
}

// TestVerifC16BulkInserterUpdateStmt: the same history oracle while one more goroutine keeps calling
// UpdateStmt (flush + statement swap) and SetResultHandler against the inserters. It runs WITHOUT the
// race detector: on the unchanged tree UpdateStmt writes dbInserter.stmt under the executor lock while
// a batch already handed to the flusher reads it in Execute (a race on the statement text, outside C16);
// the statement installed here has the same text, so whichever version a batch reads is the same one.
func TestVerifC16BulkInserterUpdateStmt(t *testing.T) {
	m := vk.New(t, "C16", "BulkInserter: 2-8 goroutines insert 200-1500 unique rows each while another goroutine calls UpdateStmt (same statement text) and SetResultHandler in a loop and inserters Flush / UpdateOrDelete now and then; every row must reach Exec exactly once, in per-adder order inside a statement, <= 1000 rows per statement; plain build")
	defer m.Done()
	c16BulkRun(m, vk.N(40, 600), true)
}

func c16BulkRun(m *vk.M, n int, withStmt bool) {
	r := m.Rand("bulk")
	for idx := 1; idx <= n; idx++ {
		if !m.Only(idx) {
			continue
		}
		adders := 2 + r.Intn(7)
		per := 200 + r.Intn(1301)
		desc := fmt.Sprintf("case=%d;adders=%d rows_per_adder=%d", idx, adders, per)
		conn := &c16Conn{}
		bi, err := NewBulkInserter(conn, "insert into t (adder, seq) values (?, ?)")
		if err != nil {
			m.Inconclusive("NewBulkInserter: %v", err)
			return
		}
		var wg sync.WaitGroup
		seeds := make([]int64, adders)
		for i := range seeds {
			seeds[i] = r.Int63()
		}
		var flushes, updates int64
		var cmu sync.Mutex
		for a := 0; a < adders; a++ {
			wg.Add(1)
			go func(a int) {
				defer wg.Done()
				rr := m.Rand("bulk-adder", idx, a, seeds[a])
				for s := 0; s < per; s++ {
					if err := bi.Insert(a, s); err != nil {
						m.Violate("C16:bulkinserter:insert-error", desc, "Insert(%d,%d): %v", a, s, err)
						return
					}
					switch x := rr.Intn(400); {
					case x == 0:
						bi.Flush()
						cmu.Lock()
						flushes++
						cmu.Unlock()
					case x == 1:
						bi.UpdateOrDelete(func() {})
						cmu.Lock()
						updates++
						cmu.Unlock()
					}
				}
			}(a)
		}
		stop := make(chan struct{})
		stmtDone := make(chan struct{})
		var stmtCalls int64
		if withStmt {
			go func() {
				defer close(stmtDone)
				for {
					select {
					case <-stop:
						return
					default:
					}
					if err := bi.UpdateStmt("insert into t (adder, seq) values (?, ?)"); err != nil {
						m.Violate("C16:bulkinserter:updatestmt-error", desc, "UpdateStmt: %v", err)
						return
					}
					stmtCalls++
					if stmtCalls%3 == 0 {
						bi.SetResultHandler(func(sql.Result, error) {})
					}
					runtime.Gosched()
				}
			}()
		} else {
			close(stmtDone)
		}
		finished := vk.Within(60*time.Second, wg.Wait)
		close(stop)
		if finished && !vk.Within(30*time.Second, func() { <-stmtDone }) {
			m.Violate("C16:bulkinserter:hang", desc, "UpdateStmt did not return within 30 s\n%s", vk.Stacks()[:3000])
			return
		}
		m.Count("updatestmt_calls", stmtCalls)
		if !finished {
			m.Violate("C16:bulkinserter:hang", desc, "inserters did not finish within 60 s\n%s", vk.Stacks()[:3000])
			return
		}
		if !vk.Within(30*time.Second, func() { bi.Flush(); bi.executor.Wait() }) {
			m.Violate("C16:bulkinserter:hang", desc, "final Flush+Wait did not return within 30 s\n%s", vk.Stacks()[:3000])
			return
		}
		conn.mu.Lock()
		stmts := append([]string(nil), conn.stmts...)
		conn.mu.Unlock()
		seen := map[[2]int]int{}
		maxRows := 0
		for _, st := range stmts {
			rows := c16RowRe.FindAllStringSubmatch(st, -1)
			if len(rows) > maxRows {
				maxRows = len(rows)
			}
			if len(rows) > maxBulkRows {
				m.Violate("C16:bulkinserter:statement-over-max-rows", desc, "one statement carries %d rows, limit %d", len(rows), maxBulkRows)
			}
			last := map[int]int{}
			for _, row := range rows {
				a, _ := strconv.Atoi(row[1])
				s, _ := strconv.Atoi(row[2])
				seen[[2]int{a, s}]++
				if prev, ok := last[a]; ok && s != prev+1 {
					m.Violate("C16:bulkinserter:order", desc, "adder %d: row %d follows row %d inside one statement", a, s, prev)
				}
				last[a] = s
			}
		}
		lost, dup := 0, 0
		for a := 0; a < adders; a++ {
			for s := 0; s < per; s++ {
				switch c := seen[[2]int{a, s}]; {
				case c == 0:
					lost++
				case c > 1:
					dup++
				}
			}
		}
		if lost > 0 {
			m.Violate("C16:bulkinserter:lost", desc, "%d of %d inserted rows never reached Exec (statements %d)", lost, adders*per, len(stmts))
		}
		if dup > 0 {
			m.Violate("C16:bulkinserter:duplicate", desc, "%d rows were executed more than once", dup)
		}
		if len(seen) > adders*per {
			m.Violate("C16:bulkinserter:phantom", desc, "%d distinct rows executed, %d inserted", len(seen), adders*per)
		}
		m.Count("rows_inserted", int64(adders*per))
		m.Count("statements_executed", int64(len(stmts)))
		m.Count("explicit_flushes", flushes)
		m.Count("update_calls", updates)
		m.Max("max_rows_in_one_statement", int64(maxRows))
		m.Case(vk.Digest(desc), len(stmts) > 1)
		if m.WantSample() {
			m.Sample(map[string]any{"scenario": desc, "statements": len(stmts), "max_rows_per_statement": maxRows})
		}
	}
}
