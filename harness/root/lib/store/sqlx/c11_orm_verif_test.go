//go:build verif

package sqlx_test

// C11, row-mapping half: QueryRow / QueryRows (/Partial, /Ctx; on the connection, in a
// transaction session, through a prepared statement) against scripted result sets of
// the recording driver. Destination shapes are generated with reflect.StructOf
// (fully tagged, untagged incl. embedded structs / embedded pointers, pointer fields,
// sql.Null*, time.Time, []byte; slices of values / of pointers; primitives). The
// reference is built the other way round: an expected Go value per field is drawn
// first, then encoded as a driver value (native or text protocol); the expected field
// content is therefore known without re-implementing the mapper.

import (
	"bytes"
	"context"
	"database/sql"
	"database/sql/driver"
	"errors"
	"fmt"
	"math"
	"math/rand"
	"reflect"
	"strconv"
	"strings"
	"sync"
	"testing"
	"time"

	"github.com/gotid/god/lib/store/sqlc"
	"github.com/gotid/god/lib/store/sqlx"
	"verif.local/vk"
)

type c11FieldSpec struct {
	Name   string         `json:"name"`
	Tag    string         `json:"tag,omitempty"`
	Kind   string         `json:"kind,omitempty"`
	Emb    *c11StructSpec `json:"emb,omitempty"`
	EmbPtr bool           `json:"emb_ptr,omitempty"`
}

type c11StructSpec struct {
	Fields []c11FieldSpec `json:"fields"`
}

type c11Leaf struct {
	Path []int
	Kind string
	Col  string // column name from the db tag ("" = untagged)
	Name string
}

var c11LeafTypes = map[string]reflect.Type{
	"int": reflect.TypeOf(int(0)), "int8": reflect.TypeOf(int8(0)), "int16": reflect.TypeOf(int16(0)),
	"int32": reflect.TypeOf(int32(0)), "int64": reflect.TypeOf(int64(0)),
	"uint": reflect.TypeOf(uint(0)), "uint8": reflect.TypeOf(uint8(0)), "uint16": reflect.TypeOf(uint16(0)),
	"uint32": reflect.TypeOf(uint32(0)), "uint64": reflect.TypeOf(uint64(0)),
	"float32": reflect.TypeOf(float32(0)), "float64": reflect.TypeOf(float64(0)),
	"string": reflect.TypeOf(""), "bool": reflect.TypeOf(false),
	"bytes": reflect.TypeOf([]byte(nil)), "time": reflect.TypeOf(time.Time{}),
	"nullstring": reflect.TypeOf(sql.NullString{}), "nullint64": reflect.TypeOf(sql.NullInt64{}),
	"nullfloat64": reflect.TypeOf(sql.NullFloat64{}), "nullbool": reflect.TypeOf(sql.NullBool{}),
	"myint": reflect.TypeOf(C11MyInt(0)), "mystr": reflect.TypeOf(C11MyStr("")), "myfloat": reflect.TypeOf(C11MyFloat(0)),
}

// named types (Kind int64 / string / float32)
type (
	C11MyInt   int64
	C11MyStr   string
	C11MyFloat float32
)

var (
	c11PlainKinds = []string{"int", "int8", "int16", "int32", "int64", "uint", "uint8", "uint16", "uint32", "uint64", "float32", "float64", "string", "bool", "myint", "mystr", "myfloat"}
	c11AllKinds   = append(append([]string{}, c11PlainKinds...),
		"bytes", "time", "nullstring", "nullint64", "nullfloat64", "nullbool",
		"*int64", "*string", "*float64", "*bool", "*int32", "*time", "*uint16", "**int64", "**string", "*myint",
		"int64", "string", "string", "int") // a few repeated: the common ones
)

func c11KindType(kind string) reflect.Type {
	t := c11LeafTypes[c11BaseKind(kind)]
	for i := 0; i < len(kind) && kind[i] == '*'; i++ {
		t = reflect.PointerTo(t)
	}
	return t
}

func c11BaseKind(kind string) string { return strings.TrimLeft(kind, "*") }

func c11Numeric(kind string) bool {
	b := c11BaseKind(kind)
	return strings.HasPrefix(b, "int") || strings.HasPrefix(b, "uint") || strings.HasPrefix(b, "float") || b == "myint" || b == "myfloat"
}

func c11Nullable(kind string) bool { return strings.HasPrefix(kind, "null") }

func c11BuildType(s c11StructSpec) reflect.Type {
	fs := make([]reflect.StructField, 0, len(s.Fields))
	for _, f := range s.Fields {
		sf := reflect.StructField{Name: f.Name}
		if f.Tag != "" {
			sf.Tag = reflect.StructTag(`db:"` + f.Tag + `"`)
		}
		if f.Emb != nil {
			t := c11BuildType(*f.Emb)
			if f.EmbPtr {
				t = reflect.PointerTo(t)
			}
			sf.Type, sf.Anonymous = t, true
		} else {
			sf.Type = c11KindType(f.Kind)
		}
		fs = append(fs, sf)
	}
	return reflect.StructOf(fs)
}

// c11Leaves flattens the spec depth-first in declaration order.
func c11Leaves(s c11StructSpec, prefix []int) []c11Leaf {
	var out []c11Leaf
	for i, f := range s.Fields {
		p := append(append([]int{}, prefix...), i)
		if f.Emb != nil {
			out = append(out, c11Leaves(*f.Emb, p)...)
			continue
		}
		col := f.Tag
		if j := strings.IndexByte(col, ','); j >= 0 {
			col = col[:j]
		}
		out = append(out, c11Leaf{Path: p, Kind: f.Kind, Col: col, Name: f.Name})
	}
	return out
}

// c11Nav walks to a leaf; an invalid Value means a nil embedded pointer on the way.
func c11Nav(v reflect.Value, path []int) reflect.Value {
	for _, i := range path {
		if v.Kind() == reflect.Ptr {
			if v.IsNil() {
				return reflect.Value{}
			}
			v = v.Elem()
		}
		v = v.Field(i)
	}
	return v
}

type c11Val struct {
	Exp  any          // value of the base type; nil = database NULL
	Drv  driver.Value // what the driver hands to database/sql
	Text string       // printable form for the scenario description
}

var c11Strings = []string{"", "a", "hello", "it's", "日本語", "x y z", "NULL", "0", "-1", "tab\there", "ünï", "quote\"d"}

func c11TextOrNative(r *rand.Rand, native driver.Value, text string) driver.Value {
	switch r.Intn(4) {
	case 0:
		return []byte(text)
	case 1:
		return text
	}
	return native
}

func c11GenInt(r *rand.Rand, bits int) int64 {
	lo, hi := int64(-1)<<(bits-1), int64(1)<<(bits-1)-1
	switch r.Intn(6) {
	case 0:
		return lo
	case 1:
		return hi
	case 2:
		return 0
	}
	if bits == 64 {
		return r.Int63() - r.Int63()
	}
	return lo + r.Int63n(hi-lo+1)
}

func c11GenUint(r *rand.Rand, bits int) uint64 {
	hi := uint64(math.MaxUint64)
	if bits < 64 {
		hi = uint64(1)<<bits - 1
	}
	switch r.Intn(6) {
	case 0:
		return hi
	case 1:
		return 0
	}
	if bits == 64 {
		return r.Uint64()
	}
	return uint64(r.Int63n(int64(hi) + 1))
}

// c11GenVal draws an expected value for a leaf kind and its driver encoding.
func c11GenVal(r *rand.Rand, kind string, null bool) c11Val {
	base := c11BaseKind(kind)
	if null {
		return c11Val{Exp: nil, Drv: nil, Text: "NULL"}
	}
	mk := func(exp any, drv driver.Value) c11Val {
		return c11Val{Exp: exp, Drv: drv, Text: fmt.Sprintf("%T(%v)", drv, drv)}
	}
	switch base {
	case "int", "int8", "int16", "int32", "int64", "myint":
		bits := map[string]int{"int": 64, "int8": 8, "int16": 16, "int32": 32, "int64": 64, "myint": 64}[base]
		x := c11GenInt(r, bits)
		exp := reflect.ValueOf(x).Convert(c11LeafTypes[base]).Interface()
		return mk(exp, c11TextOrNative(r, x, strconv.FormatInt(x, 10)))
	case "uint", "uint8", "uint16", "uint32", "uint64":
		bits := map[string]int{"uint": 64, "uint8": 8, "uint16": 16, "uint32": 32, "uint64": 64}[base]
		x := c11GenUint(r, bits)
		exp := reflect.ValueOf(x).Convert(c11LeafTypes[base]).Interface()
		text := strconv.FormatUint(x, 10)
		if x > math.MaxInt64 {
			return mk(exp, []byte(text))
		}
		return mk(exp, c11TextOrNative(r, int64(x), text))
	case "float32", "myfloat":
		f := float32(r.NormFloat64() * 1000)
		if r.Intn(5) == 0 {
			f = float32(r.Intn(100))
		}
		if base == "myfloat" {
			return mk(C11MyFloat(f), c11TextOrNative(r, float64(f), strconv.FormatFloat(float64(f), 'g', -1, 32)))
		}
		return mk(f, c11TextOrNative(r, float64(f), strconv.FormatFloat(float64(f), 'g', -1, 32)))
	case "float64":
		f := r.NormFloat64() * 1e6
		if r.Intn(5) == 0 {
			f = float64(r.Intn(100))
		}
		return mk(f, c11TextOrNative(r, f, strconv.FormatFloat(f, 'g', -1, 64)))
	case "string", "mystr":
		s := c11Strings[r.Intn(len(c11Strings))]
		var exp any = s
		if base == "mystr" {
			exp = C11MyStr(s)
		}
		if r.Intn(2) == 0 {
			return mk(exp, []byte(s))
		}
		return mk(exp, s)
	case "bool":
		b := r.Intn(2) == 0
		switch r.Intn(4) {
		case 0:
			if b {
				return mk(b, int64(1))
			}
			return mk(b, int64(0))
		case 1:
			return mk(b, []byte(strconv.FormatBool(b)))
		}
		return mk(b, b)
	case "bytes":
		n := r.Intn(6)
		b := make([]byte, n)
		for i := range b {
			b[i] = byte(r.Intn(256))
		}
		if r.Intn(3) == 0 {
			return mk(b, string(b))
		}
		return mk(b, append([]byte{}, b...))
	case "time":
		tm := time.Unix(int64(r.Intn(2_000_000_000)), int64(r.Intn(1000))*1000).UTC()
		return mk(tm, tm)
	case "nullstring":
		s := c11Strings[r.Intn(len(c11Strings))]
		return mk(sql.NullString{String: s, Valid: true}, c11TextOrNative(r, s, s))
	case "nullint64":
		x := c11GenInt(r, 64)
		return mk(sql.NullInt64{Int64: x, Valid: true}, c11TextOrNative(r, x, strconv.FormatInt(x, 10)))
	case "nullfloat64":
		f := float64(r.Intn(1_000_000)) / 64
		return mk(sql.NullFloat64{Float64: f, Valid: true}, f)
	case "nullbool":
		b := r.Intn(2) == 0
		return mk(sql.NullBool{Bool: b, Valid: true}, b)
	}
	panic("c11: unknown kind " + kind)
}

// c11LeafEqual compares a destination field with the expected value (nil = the field
// must still hold its zero value; a nil pointer and a pointer to zero both count).
func c11LeafEqual(kind string, got reflect.Value, exp any) (bool, string) {
	base := c11BaseKind(kind)
	bt := c11LeafTypes[base]
	if exp == nil {
		exp = reflect.Zero(bt).Interface()
	}
	var g any
	switch {
	case !got.IsValid():
		g = reflect.Zero(bt).Interface()
	case got.Kind() == reflect.Ptr:
		for got.Kind() == reflect.Ptr && !got.IsNil() {
			got = got.Elem()
		}
		if got.Kind() == reflect.Ptr {
			g = reflect.Zero(bt).Interface()
		} else {
			g = got.Interface()
		}
	default:
		g = got.Interface()
	}
	var ok bool
	switch base {
	case "bytes":
		ok = bytes.Equal(g.([]byte), exp.([]byte))
	case "time":
		ok = g.(time.Time).Equal(exp.(time.Time))
	default:
		ok = reflect.DeepEqual(g, exp)
	}
	if ok {
		return true, ""
	}
	return false, fmt.Sprintf("got %T(%v), want %T(%v)", g, g, exp, exp)
}

type c11Col struct {
	Name string `json:"name"`
	Leaf int    `json:"leaf"` // index of the leaf this column must land in, -1 = none
	Kind string `json:"kind"` // kind used to draw the values
}

type c11OrmCase struct {
	Shape   string         `json:"shape"`          // tagged untagged mixed prim
	Spec    *c11StructSpec `json:"spec,omitempty"` // struct shapes
	Prim    string         `json:"prim,omitempty"`
	Method  string         `json:"method"` // row rows
	ElemPtr bool           `json:"elem_ptr,omitempty"`
	Strict  bool           `json:"strict"`
	Ctx     bool           `json:"ctx,omitempty"`
	Path    string         `json:"path"` // conn tx stmt txstmt (statement prepared on the transaction session) rawtx sqlc sqlc-cached sqlc-index
	// IterFault k >= 0: driver.Rows.Next fails (non-EOF) when row k is fetched (k == number of
	// rows: instead of the end of the result); -1 none. CloseFault: driver.Rows.Close fails.
	IterFault  int  `json:"iter_fault"`
	CloseFault bool `json:"close_fault,omitempty"`
	PrepFault  bool `json:"prep_fault,omitempty"` // path stmt: the driver's Prepare fails
	// Prefill: the destination slice of a multi-row query already holds that many elements
	// before the call (a paging loop that keeps appending into one slice)
	Prefill int `json:"prefill,omitempty"`
	// BadRow >= 0: the value of column BadCol in that row is text that cannot be converted
	// into the (numeric) field it lands in
	BadRow int `json:"bad_row"`
	BadCol int `json:"bad_col,omitempty"`
	Arg     bool           `json:"arg,omitempty"`
	Cols    []c11Col       `json:"cols"`
	Rows    [][]string     `json:"rows"` // printable
	vals    [][]c11Val
	// facts derived by the generator (the oracle's inputs)
	Unspecified string `json:"unspecified,omitempty"` // reason why no verdict is drawn
	Permuted    bool   `json:"permuted,omitempty"`
}

// db tag / column spellings: the column is always spelled exactly like the tag (the statement
// says "by column name"; whether matching may also be case-insensitive is left open, so no two
// names differ only by case and no case-variant of a tag is ever offered as a column)
var c11ColNames = []string{"id", "name", "age", "score", "created_at", "flag", "data", "note", "k", "v", "user_id", "amount",
	"userId", "UserName", "CREATED", "Total_Amount9", "x1Y", "camelCaseCol", "UPPER_SNAKE", "MixedCase_2", "Z", "orderID"}

func c11GenStruct(r *rand.Rand, shape string) c11StructSpec {
	n := 1 + r.Intn(6)
	var s c11StructSpec
	names := r.Perm(len(c11ColNames))
	kindPool := c11AllKinds
	for i := 0; i < n; i++ {
		f := c11FieldSpec{Name: fmt.Sprintf("F%d", i), Kind: kindPool[r.Intn(len(kindPool))]}
		if shape == "tagged" || shape == "mixed" {
			f.Tag = c11ColNames[names[i]]
			if r.Intn(5) == 0 {
				f.Tag += ",opt"
			}
		}
		s.Fields = append(s.Fields, f)
	}
	if shape == "tagged" && r.Intn(12) == 0 {
		// db:"-": a field no column is ever generated for
		pos := r.Intn(len(s.Fields) + 1)
		fs := append([]c11FieldSpec{}, s.Fields[:pos]...)
		fs = append(fs, c11FieldSpec{Name: "Dash", Tag: "-", Kind: "int64"})
		s.Fields = append(fs, s.Fields[pos:]...)
	}
	switch shape {
	case "untagged":
		if r.Intn(5) < 2 {
			s = c11AddEmbedded(r, s, false, 1+r.Intn(2))
		}
	case "mixed":
		if r.Intn(2) == 0 {
			// fully tagged outer fields + an embedded struct whose fields are tagged
			s = c11AddEmbedded(r, s, true, 1)
		} else {
			// one field without a tag among tagged ones
			s.Fields[r.Intn(len(s.Fields))].Tag = ""
			if len(s.Fields) == 1 {
				s.Fields = append(s.Fields, c11FieldSpec{Name: "G0", Kind: "int64", Tag: "zz"})
			}
		}
	}
	return s
}

func c11AddEmbedded(r *rand.Rand, s c11StructSpec, tagged bool, depth int) c11StructSpec {
	var inner c11StructSpec
	m := 1 + r.Intn(3)
	for i := 0; i < m; i++ {
		f := c11FieldSpec{Name: fmt.Sprintf("E%d_%d", depth, i), Kind: c11AllKinds[r.Intn(len(c11AllKinds))]}
		if tagged {
			f.Tag = fmt.Sprintf("emb_%d", i)
		}
		inner.Fields = append(inner.Fields, f)
	}
	if depth > 1 {
		inner = c11AddEmbedded(r, inner, tagged, depth-1)
	}
	emb := c11FieldSpec{Name: fmt.Sprintf("Emb%d", depth), Emb: &inner, EmbPtr: r.Intn(2) == 0}
	pos := r.Intn(len(s.Fields) + 1)
	fs := append([]c11FieldSpec{}, s.Fields[:pos]...)
	fs = append(fs, emb)
	fs = append(fs, s.Fields[pos:]...)
	s.Fields = fs
	return s
}

func c11GenOrmCase(r *rand.Rand) c11OrmCase {
	var c c11OrmCase
	switch x := r.Intn(100); {
	case x < 45:
		c.Shape = "tagged"
	case x < 80:
		c.Shape = "untagged"
	case x < 88:
		c.Shape = "mixed"
	default:
		c.Shape = "prim"
	}
	c.Method = []string{"row", "rows"}[r.Intn(2)]
	c.ElemPtr = r.Intn(2) == 0
	c.Strict = r.Intn(2) == 0
	c.Ctx = r.Intn(2) == 0
	c.Path = []string{"conn", "conn", "tx", "stmt", "sqlc", "tx", "stmt", "rawtx", "sqlc-cached", "sqlc-index", "txstmt", "txstmt"}[r.Intn(12)]
	c.BadRow = -1
	if c.Method == "rows" && r.Intn(3) == 0 {
		c.Prefill = 1 + r.Intn(3)
	}
	c.Arg = r.Intn(2) == 0
	nrows := 0
	switch x := r.Intn(20); {
	case x < 3:
		nrows = 0
	case x < 10:
		nrows = 1
	default:
		nrows = 2 + r.Intn(4)
	}
	c.IterFault = -1
	if r.Intn(6) == 0 {
		c.IterFault = r.Intn(nrows + 1)
		if r.Intn(2) == 0 {
			c.IterFault = 0
		}
	}
	c.CloseFault = r.Intn(25) == 0
	if c.Shape == "prim" {
		c.Prim = c11PlainKinds[r.Intn(len(c11PlainKinds))]
		c.Cols = []c11Col{{Name: "c", Leaf: 0, Kind: c.Prim}}
	} else {
		spec := c11GenStruct(r, c.Shape)
		c.Spec = &spec
		leaves := c11Leaves(spec, nil)
		switch c.Shape {
		case "tagged", "mixed":
			var cols []c11Col
			drop := r.Intn(5) < 2
			for i, l := range leaves {
				if (drop && r.Intn(5) < 2) || l.Col == "-" {
					continue
				}
				name := l.Col
				if name == "" {
					name = strings.ToLower(l.Name)
				}
				cols = append(cols, c11Col{Name: name, Leaf: i, Kind: l.Kind})
			}
			for i, nx := 0, r.Intn(4)*r.Intn(2); i < nx; i++ {
				cols = append(cols, c11Col{Name: fmt.Sprintf("x%d", i), Leaf: -1, Kind: c11AllKinds[r.Intn(len(c11AllKinds))]})
			}
			if len(cols) == 0 {
				cols = append(cols, c11Col{Name: "x9", Leaf: -1, Kind: "int64"})
			}
			if r.Intn(4) != 0 {
				r.Shuffle(len(cols), func(i, j int) { cols[i], cols[j] = cols[j], cols[i] })
			}
			last := -1
			for _, col := range cols {
				if col.Leaf >= 0 {
					if col.Leaf < last {
						c.Permuted = true
					}
					last = col.Leaf
				}
			}
			for i, col := range cols {
				if col.Leaf >= 0 && col.Leaf != i {
					c.Permuted = true // an extra column shifts the positions
				}
			}
			c.Cols = cols
			if c.Shape == "mixed" {
				c.Unspecified = "mixed-tags"
			}
		case "untagged":
			ncols := len(leaves)
			switch x := r.Intn(20); {
			case x < 5 && len(leaves) > 1:
				ncols = 1 + r.Intn(len(leaves)-1)
			case x >= 17:
				ncols = len(leaves) + 1 + r.Intn(2)
				c.Unspecified = "untagged-more-columns-than-fields"
			}
			// column names carry no meaning for an untagged destination: use the field
			// names of OTHER positions half of the time
			perm := r.Perm(ncols)
			for i := 0; i < ncols; i++ {
				col := c11Col{Name: fmt.Sprintf("c%d", perm[i]), Leaf: -1, Kind: "int64"}
				if r.Intn(2) == 0 && perm[i] < len(leaves) {
					col.Name = strings.ToLower(leaves[perm[i]].Name)
				}
				if i < len(leaves) {
					col.Leaf, col.Kind = i, leaves[i].Kind
				}
				c.Cols = append(c.Cols, col)
			}
		}
	}
	for i := 0; i < nrows; i++ {
		var row []c11Val
		var text []string
		for _, col := range c.Cols {
			null := false
			switch {
			case col.Leaf < 0:
				null = r.Intn(4) == 0
			case c11Nullable(col.Kind):
				null = r.Intn(3) == 0
			case c.Shape != "prim" && r.Intn(60) == 0:
				null = true
				if c.Unspecified == "" {
					c.Unspecified = "null-into-non-nullable-field"
				}
			}
			v := c11GenVal(r, col.Kind, null)
			if null && c11Nullable(col.Kind) {
				v.Exp = reflect.Zero(c11LeafTypes[col.Kind]).Interface()
			}
			row = append(row, v)
			text = append(text, v.Text)
		}
		c.vals = append(c.vals, row)
		c.Rows = append(c.Rows, text)
	}
	if nrows > 0 && r.Intn(12) == 0 {
		var cand []int
		for j, col := range c.Cols {
			if col.Leaf >= 0 && c11Numeric(col.Kind) {
				cand = append(cand, j)
			}
		}
		if len(cand) > 0 {
			c.BadRow, c.BadCol = r.Intn(nrows), cand[r.Intn(len(cand))]
			if r.Intn(2) == 0 {
				c.BadRow = 0
			}
			bad := []driver.Value{"c11-not-a-number", []byte("12x"), "", "1e"}[r.Intn(4)]
			c.vals[c.BadRow][c.BadCol] = c11Val{Exp: nil, Drv: bad, Text: fmt.Sprintf("BAD %T(%q)", bad, bad)}
			c.Rows[c.BadRow][c.BadCol] = c.vals[c.BadRow][c.BadCol].Text
		}
	}
	c.PrepFault = (c.Path == "stmt" || c.Path == "txstmt") && r.Intn(15) == 0
	if c.Method == "rows" && strings.HasPrefix(c.Path, "sqlc-") {
		c.Path = "sqlc" // the cached forms are single-row
	}
	if c.IterFault >= 0 && c.Method == "rows" && c.Unspecified == "" {
		// the statement is silent about a multi-row result whose iteration fails part-way
		c.Unspecified = "rows-iteration-fault"
	}
	if c.Unspecified != "" {
		c.Path = "conn" // a panic in an unspecified case must not run into the transaction defect
	}
	c.PrepFault = c.PrepFault && (c.Path == "stmt" || c.Path == "txstmt")
	return c
}

// c11Query runs the case's query through the chosen path and method.
func c11Query(c *c11OrmCase, conn sqlx.Conn, dest any) error {
	q := "select * from t"
	var args []any
	if c.Arg {
		q += " where owner = ? and tag = ?"
		args = []any{int64(42), "o'k"}
	}
	onSession := func(s sqlx.Session) error {
		switch {
		case c.Method == "row" && c.Strict && !c.Ctx:
			return s.QueryRow(dest, q, args...)
		case c.Method == "row" && c.Strict:
			return s.QueryRowCtx(c11Bg, dest, q, args...)
		case c.Method == "row" && !c.Ctx:
			return s.QueryRowPartial(dest, q, args...)
		case c.Method == "row":
			return s.QueryRowPartialCtx(c11Bg, dest, q, args...)
		case c.Strict && !c.Ctx:
			return s.QueryRows(dest, q, args...)
		case c.Strict:
			return s.QueryRowsCtx(c11Bg, dest, q, args...)
		case !c.Ctx:
			return s.QueryRowsPartial(dest, q, args...)
		}
		return s.QueryRowsPartialCtx(c11Bg, dest, q, args...)
	}
	switch c.Path {
	case "rawtx":
		// a transaction the caller began on the raw *sql.DB, wrapped by NewSessionFromTx
		raw, err := conn.RawDB()
		if err != nil {
			return err
		}
		tx, err := raw.Begin()
		if err != nil {
			return err
		}
		defer tx.Rollback()
		return onSession(sqlx.NewSessionFromTx(tx))
	case "sqlc-cached":
		cc := sqlc.NewConnWithCache(conn, c11PassCache{})
		if c.Ctx {
			return cc.QueryRowCtx(c11Bg, dest, "c11:key", func(_ context.Context, cn sqlx.Conn, v any) error {
				dest = v
				return onSession(cn)
			})
		}
		return cc.QueryRow(dest, "c11:key", func(cn sqlx.Conn, v any) error {
			dest = v
			return onSession(cn)
		})
	case "sqlc-index":
		cc := sqlc.NewConnWithCache(conn, c11PassCache{})
		keyer := func(primary any) string { return fmt.Sprint("c11:pk:", primary) }
		if c.Ctx {
			return cc.QueryRowIndexCtx(c11Bg, dest, "c11:idx", keyer,
				func(_ context.Context, cn sqlx.Conn, v any) (any, error) { dest = v; return 1, onSession(cn) },
				func(_ context.Context, cn sqlx.Conn, v, _ any) error { dest = v; return onSession(cn) })
		}
		return cc.QueryRowIndex(dest, "c11:idx", keyer,
			func(cn sqlx.Conn, v any) (any, error) { dest = v; return 1, onSession(cn) },
			func(cn sqlx.Conn, v, _ any) error { dest = v; return onSession(cn) })
	case "tx":
		return conn.Transact(onSession)
	case "sqlc":
		cc := sqlc.NewConnWithCache(conn, nil)
		switch {
		case c.Method == "row" && c.Strict && !c.Ctx:
			return cc.QueryRowNoCache(dest, q, args...)
		case c.Method == "row" && c.Strict:
			return cc.QueryRowNoCacheCtx(c11Bg, dest, q, args...)
		case c.Method == "rows" && c.Strict && !c.Ctx:
			return cc.QueryRowsNoCache(dest, q, args...)
		case c.Method == "rows" && c.Strict:
			return cc.QueryRowsNoCacheCtx(c11Bg, dest, q, args...)
		}
		return onSession(conn) // sqlc has no Partial variants
	case "txstmt":
		return conn.Transact(func(s sqlx.Session) error {
			var st sqlx.StmtSession
			var err error
			if c.Ctx {
				st, err = s.PrepareCtx(c11Bg, q)
			} else {
				st, err = s.Prepare(q)
			}
			if err != nil {
				return err
			}
			if st == nil {
				return c11ErrNilStmt
			}
			defer st.Close()
			return c11StmtQuery(c, st, dest, args)
		})
	case "stmt":
		st, err := conn.Prepare(q)
		if err != nil {
			return err
		}
		if st == nil {
			return c11ErrNilStmt
		}
		defer st.Close()
		return c11StmtQuery(c, st, dest, args)
	}
	return onSession(conn)
}

// c11ErrNilStmt: Prepare returned a nil statement together with a nil error.
var c11ErrNilStmt = errors.New("c11: Prepare returned (nil, nil)")

func c11StmtQuery(c *c11OrmCase, st sqlx.StmtSession, dest any, args []any) error {
	{
		switch {
		case c.Method == "row" && c.Strict && !c.Ctx:
			return st.QueryRow(dest, args...)
		case c.Method == "row" && c.Strict:
			return st.QueryRowCtx(c11Bg, dest, args...)
		case c.Method == "row" && !c.Ctx:
			return st.QueryRowPartial(dest, args...)
		case c.Method == "row":
			return st.QueryRowPartialCtx(c11Bg, dest, args...)
		case c.Strict && !c.Ctx:
			return st.QueryRows(dest, args...)
		case c.Strict:
			return st.QueryRowsCtx(c11Bg, dest, args...)
		case !c.Ctx:
			return st.QueryRowsPartial(dest, args...)
		}
		return st.QueryRowsPartialCtx(c11Bg, dest, args...)
	}
}

// c11CheckStruct compares one destination struct with the expected row.
func c11CheckStruct(c *c11OrmCase, leaves []c11Leaf, sv reflect.Value, row []c11Val) (ok bool, compared int, diff string) {
	exp := make([]any, len(leaves)) // nil = untouched
	for j, col := range c.Cols {
		if col.Leaf >= 0 {
			exp[col.Leaf] = row[j].Exp
		}
	}
	for i, l := range leaves {
		got := c11Nav(sv, l.Path)
		compared++
		if eq, d := c11LeafEqual(l.Kind, got, exp[i]); !eq {
			src := "no column for it: must stay zero"
			for j, col := range c.Cols {
				if col.Leaf == i {
					src = fmt.Sprintf("column #%d %q = %s", j, col.Name, row[j].Text)
				}
			}
			return false, compared, fmt.Sprintf("field %s (leaf %d, %s, tag %q): %s; %s", l.Name, i, l.Kind, l.Col, d, src)
		}
	}
	return true, compared, ""
}

type c11OrmStats struct {
	prefilled    bool
	fields, rows int
	class        string
}

// c11RunOrm executes one case and applies the oracle.
func c11RunOrm(m *vk.M, idx int, c *c11OrmCase) (st c11OrmStats) {
	desc := fmt.Sprintf("case=%d;%s", idx, vk.JSON(c))
	m.Current(desc)
	// destination
	var elemT reflect.Type
	var leaves []c11Leaf
	if c.Shape == "prim" {
		elemT = c11LeafTypes[c.Prim]
	} else {
		var bt reflect.Type
		if pv, bad := vk.Recover(func() { bt = c11BuildType(*c.Spec) }); bad {
			m.Count("structof_rejected_shape", 1)
			st.class = "skipped:structof:" + fmt.Sprint(pv)
			return
		}
		elemT = bt
		leaves = c11Leaves(*c.Spec, nil)
	}
	var dest reflect.Value
	if c.Method == "row" {
		dest = reflect.New(elemT)
	} else if c.ElemPtr {
		dest = reflect.New(reflect.SliceOf(reflect.PointerTo(elemT)))
	} else {
		dest = reflect.New(reflect.SliceOf(elemT))
	}
	for i := 0; c.Method == "rows" && i < c.Prefill; i++ {
		el := reflect.New(elemT) // earlier page: zero-valued elements
		if !c.ElemPtr {
			el = el.Elem()
		}
		dest.Elem().Set(reflect.Append(dest.Elem(), el))
	}
	// scripted result
	rec := c11NewRec()
	res := c11Result{}
	for _, col := range c.Cols {
		res.Cols = append(res.Cols, col.Name)
	}
	for _, row := range c.vals {
		dr := make([]driver.Value, len(row))
		for j, v := range row {
			dr[j] = v.Drv
		}
		res.Rows = append(res.Rows, dr)
	}
	if c.IterFault >= 0 {
		res.Fail, res.FailRow = true, c.IterFault
	}
	if c.CloseFault {
		res.CloseErr = errors.New("c11 fault rows-close")
	}
	rec.results = []c11Result{res}
	// the index form may legitimately query twice (index lookup, then primary lookup when the
	// cache did not keep the row): every query of the case sees the same scripted result
	rec.repeat = c.Path == "sqlc-index"
	if c.PrepFault {
		rec.fault("prepare", 0, errors.New("c11 fault prepare"))
	}
	db, closeDB, err := c11Open(rec)
	if err != nil {
		m.Inconclusive("case %d: cannot open recording driver: %v", idx, err)
		st.class = "inconclusive"
		return
	}
	defer closeDB()
	conn := sqlx.NewConnFromDB(db)
	var qerr error
	pv, panicked := vk.Recover(func() { qerr = c11Query(c, conn, dest.Interface()) })
	if c.PrepFault {
		// the statement could not be prepared: nothing was queried, nothing can have been copied
		switch {
		case panicked:
			m.Violate("C11:orm:stmt:prepare-error:panic", desc, "Prepare failed at the driver and the prepared-statement query panicked: %v", pv)
			st.class = "violation"
		case qerr == nil || errors.Is(qerr, c11ErrNilStmt):
			m.Violate("C11:orm:stmt:prepare-error-swallowed", desc, "Prepare failed at the driver but the prepared-statement query returned nil")
			st.class = "violation"
		default:
			st.class = "stmt:prepare-error-returned"
		}
		return
	}
	if q, _ := rec.count("query"); q != 1 && !(q == 0 && qerr != nil && !panicked) && !(q == 2 && c.Path == "sqlc-index") {
		// (a call that fails before it reaches the driver is judged by the oracle below:
		// wherever a copy is expected its error is an unexpected-error violation)
		m.Inconclusive("case %d: %d queries reached the driver (want 1); err=%v", idx, q, qerr)
		st.class = "inconclusive"
		return
	}

	nrows, ncols, nleaves := len(c.vals), len(c.Cols), len(leaves)
	mode := "partial"
	if c.Strict {
		mode = "strict"
	}
	sigBase := fmt.Sprintf("C11:orm:%s:%s:%s:", c.Shape, c.Method, mode)

	if c.Unspecified != "" {
		// not asserted (DESIGN: "Not asserted"): record what the implementation does
		what := "error"
		switch {
		case panicked:
			what = "panic"
		case qerr == nil:
			what = "nil"
			if c.Unspecified == "mixed-tags" && nrows > 0 && ncols > 0 {
				first := dest.Elem()
				if c.Method == "rows" {
					if first.Len() == 0 {
						what = "nil-empty"
					} else {
						first = reflect.Indirect(first.Index(0))
					}
				}
				if what == "nil" {
					if ok, _, _ := c11CheckStruct(c, leaves, first, c.vals[0]); ok {
						what = "nil-by-name"
					} else {
						what = "nil-not-by-name"
					}
				}
			}
		}
		if nrows == 0 {
			what = "empty-result"
		}
		if c.Unspecified == "rows-iteration-fault" {
			what = "error"
			switch {
			case panicked:
				what = "panic"
			case qerr == nil:
				got := dest.Elem().Len()
				if got >= c.Prefill+0 && got > nrows {
					got -= c.Prefill
				}
				what = fmt.Sprintf("nil-with-%d-of-%d-rows", got, nrows)
				if got < nrows {
					what = "nil-truncated-slice"
				}
			}
		}
		m.Count("unspecified:"+c.Unspecified+":"+what, 1)
		st.class = "unspecified:" + c.Unspecified
		return
	}

	violate := func(problem, format string, a ...any) {
		m.Violate(sigBase+problem, desc, "%s\n  err=%v panicked=%v panic=%v path=%s cols=%d leaves=%d rows=%d", fmt.Sprintf(format, a...), qerr, panicked, pv, c.Path, ncols, nleaves, nrows)
		st.class = "violation"
	}
	if panicked {
		violate("panic", "the query panicked")
		return
	}
	if errors.Is(qerr, c11ErrNilStmt) {
		m.Violate("C11:orm:"+c.Path+":prepare-returned-nil-statement", desc, "Prepare succeeded at the driver but the session returned a nil statement and a nil error: nothing can be queried through it")
		st.class = "violation"
		return
	}
	isStruct := c.Shape != "prim"
	ndash := 0
	for _, l := range leaves {
		if l.Col == "-" {
			ndash++
		}
	}
	// a db:"-" field may or may not count as a destination field
	fewerMaybe := isStruct && c.Strict && ncols < nleaves
	fewer := isStruct && c.Strict && ncols < nleaves-ndash
	missingNames := false
	if isStruct && c.Strict && c.Shape == "tagged" {
		have := map[int]bool{}
		for _, col := range c.Cols {
			if col.Leaf >= 0 {
				have[col.Leaf] = true
			}
		}
		missingNames = len(have) < nleaves
	}

	// --- faults while the result is being read
	if c.Method == "row" && c.IterFault == 0 {
		// the fetch of the first row failed at the driver: the result is not "empty"
		switch {
		case qerr == nil:
			m.Violate("C11:orm:row:iteration-error-swallowed", desc, "driver.Rows.Next failed on the first row (%v) but the single-row query returned nil; path=%s shape=%s mode=%s", c11ErrFetch, c.Path, c.Shape, mode)
			st.class = "violation"
		case errors.Is(qerr, sqlx.ErrNotFound):
			m.Violate("C11:orm:row:iteration-error-reported-as-ErrNotFound", desc, "driver.Rows.Next failed on the first row (%v, result scripted with %d rows) but the single-row query reported ErrNotFound (= empty result); path=%s shape=%s mode=%s", c11ErrFetch, nrows, c.Path, c.Shape, mode)
			st.class = "violation"
		case errors.Is(qerr, c11ErrFetch):
			st.class = "row:fetch-fault:driver-error-returned"
		default:
			st.class = "row:fetch-fault:other-error"
		}
		return
	}
	if qerr != nil && (c.CloseFault || c.IterFault > 0) && !(nrows > 0 && errors.Is(qerr, sqlx.ErrNotFound)) && !(fewer && nrows > 0) {
		// a failing Rows.Close / a failing fetch behind the row that was asked for may or
		// may not be surfaced; surfacing it as an error (not as "empty") is legitimate
		if errors.Is(qerr, c11ErrFetch) || strings.Contains(qerr.Error(), "c11 fault rows-close") {
			st.class = "late-read-fault:surfaced"
			return
		}
	}

	// --- a value that cannot be converted into its field
	if c.BadRow >= 0 && (c.BadRow == 0 || c.Method == "rows") && (c.IterFault < 0 || c.IterFault > c.BadRow) {
		if qerr == nil {
			violate("unconvertible-value-accepted", "row %d column #%d carries %s for a %s field, the query returned nil", c.BadRow, c.BadCol, c.Rows[c.BadRow][c.BadCol], c.Cols[c.BadCol].Kind)
			return
		}
		st.class = "error:unconvertible-value"
		return
	}

	// --- expected errors
	switch {
	case c.Method == "row" && nrows == 0:
		if qerr == nil {
			violate("empty-result-not-ErrNotFound", "single-row query on an empty result returned nil")
			return
		}
		if !errors.Is(qerr, sqlx.ErrNotFound) && !fewerMaybe {
			violate("empty-result-not-ErrNotFound", "single-row query on an empty result returned %v, want ErrNotFound", qerr)
			return
		}
		st.class = "row:ErrNotFound"
		return
	case fewer && nrows > 0:
		if qerr == nil {
			violate("fewer-columns-accepted", "strict mode: %d columns for %d destination fields returned nil (partially filled destination)", ncols, nleaves)
			return
		}
		if errors.Is(qerr, sqlx.ErrNotMatchDestination) {
			st.class = "strict:ErrNotMatchDestination"
		} else {
			st.class = "strict:other-error"
		}
		return
	case qerr != nil && (missingNames || fewerMaybe):
		st.class = "strict:error-on-missing-column-names"
		return
	case qerr != nil:
		violate("unexpected-error", "query must succeed")
		return
	}

	// --- expected content
	if c.Method == "row" {
		sv := dest.Elem()
		if !isStruct {
			if eq, d := c11LeafEqual(c.Prim, sv, c.vals[0][0].Exp); !eq {
				violate("wrong-value", "primitive destination: %s", d)
				return
			}
			st.fields, st.rows, st.class = 1, 1, "row:copied"
			return
		}
		ok, n, diff := c11CheckStruct(c, leaves, sv, c.vals[0])
		st.fields = n
		if !ok {
			violate("wrong-value", "%s", diff)
			return
		}
		st.rows, st.class = 1, "row:copied"
		return
	}
	sl := dest.Elem()
	// a destination that already held elements may be appended to or replaced: the rows of
	// this result are the last nrows elements either way
	if sl.Len() != nrows && sl.Len() != c.Prefill+nrows {
		violate("row-count", "result has %d rows, destination slice (%d elements before the call) has %d elements", nrows, c.Prefill, sl.Len())
		return
	}
	off := sl.Len() - nrows
	if c.Prefill > 0 {
		st.prefilled = true
	}
	for i := 0; i < nrows; i++ {
		ev := sl.Index(off + i)
		if c.ElemPtr {
			if ev.IsNil() {
				violate("wrong-value", "row %d: nil element pointer", i)
				return
			}
			ev = ev.Elem()
		}
		if !isStruct {
			if eq, d := c11LeafEqual(c.Prim, ev, c.vals[i][0].Exp); !eq {
				violate("wrong-value", "row %d: primitive element: %s", i, d)
				return
			}
			st.fields++
			continue
		}
		ok, n, diff := c11CheckStruct(c, leaves, ev, c.vals[i])
		st.fields += n
		if !ok {
			violate("wrong-value", "row %d: %s", i, diff)
			return
		}
	}
	st.rows = nrows
	if nrows == 0 {
		st.class = "rows:empty"
	} else {
		st.class = "rows:copied"
	}
	return
}

// TestVerifC11Orm: seeded destination shapes x result sets.
func TestVerifC11Orm(t *testing.T) {
	m := vk.New(t, "C11", "seeded cases: destination {fully db-tagged struct, untagged struct incl. embedded structs/pointers up to depth 2, primitive} built with reflect.StructOf over 27 field kinds (ints, uints, floats, string, bool, []byte, time.Time, sql.Null*, pointers) x {QueryRow, QueryRows into []T / []*T} x {strict, Partial} x {plain, Ctx} x {connection, transaction session, prepared statement, sqlc NoCache} x destination slice {empty, already holding 1-3 elements} x result set {0, 1, 2-5 rows; columns permuted, dropped, unknown extras; NULLs; native and text encodings; driver.Rows.Next failing at row k; Rows.Close failing}; oracle: a single-row query whose first-row fetch failed returns an error that is not ErrNotFound; every field equals the value of its column (by tag name / by position), fields without a column stay zero, empty single-row result => ErrNotFound, strict with fewer columns than fields => error; non-trivial = a verdict was drawn from a non-empty result or an error path")
	defer m.Done()
	n := vk.N(4000, 300000)
	r := m.Rand("orm")
	classes := map[string]int64{}
	shapes := map[string]int64{}
	sampled := map[string]bool{}
	for idx := 1; idx <= n; idx++ {
		c := c11GenOrmCase(r)
		if !m.Only(idx) {
			continue
		}
		st := c11RunOrm(m, idx, &c)
		if st.class == "inconclusive" {
			return
		}
		classes[st.class]++
		shapes[c.Shape+":"+c.Method+":"+c.Path]++
		m.Count("fields_compared", int64(st.fields))
		m.Count("rows_copied", int64(st.rows))
		if st.prefilled {
			m.Count("results_copied_into_non_empty_slice", 1)
		}
		if c.Prefill > 0 && st.class == "strict:ErrNotMatchDestination" {
			m.Count("strict_rejections_with_non_empty_slice", 1)
		}
		if c.Permuted && (st.class == "row:copied" || st.class == "rows:copied") {
			m.Count("permuted_column_results_copied", 1)
		}
		nontrivial := !strings.HasPrefix(st.class, "unspecified") && !strings.HasPrefix(st.class, "skipped") && st.class != "rows:empty"
		m.Case(vk.Digest(vk.JSON(c)), nontrivial)
		key := c.Shape + "/" + st.class
		if m.WantSample() && !sampled[key] && nontrivial && idx > 20 {
			sampled[key] = true
			m.Sample(map[string]any{"case": c, "observed": st.class, "fields_compared": st.fields})
		}
		if idx%1000 == 0 {
			m.Progress()
		}
	}
	for k, v := range classes {
		m.Count("class_"+k, v)
	}
	for k, v := range shapes {
		m.Count("shape_"+k, v)
	}
	m.Note("not asserted, only counted (unspecified:*): untagged destination with more columns than fields; NULL into a non-nullable field; structs mixing tagged and untagged/embedded fields; multi-row query whose iteration fails at row k (rows-iteration-fault: the current code returns nil with the rows fetched so far)")
}

// ---- a few hand-declared destination types (no reflect.StructOf involved) ----------

type C11Inner struct {
	A int64
	B string
}

type C11Deep struct {
	*C11Inner
	C float64
}

type c11StaticUntagged struct {
	ID int64
	C11Deep
	Name *string
	OK   bool
}

type c11StaticTagged struct {
	Name  string         `db:"name"`
	ID    uint32         `db:"id"`
	Score *float64       `db:"totalScore"`
	Note  sql.NullString `db:"note,omitempty"`
	At    time.Time      `db:"CREATED_AT"`
}

// TestVerifC11OrmStatic: declared struct types, every column permutation.
func TestVerifC11OrmStatic(t *testing.T) {
	m := vk.New(t, "C11", "declared types: tagged 5-field struct under all 120 column permutations x {QueryRow, QueryRows []T, []*T; slices empty or already holding an earlier page} x {strict, partial} (+ one unknown column, + one dropped column); untagged struct with nested embedded pointer under positional columns (full, prefix); non-trivial = values compared")
	defer m.Done()
	c11Setup()
	at := time.Unix(1_600_000_000, 0).UTC()
	type colv struct {
		name string
		v    driver.Value
	}
	base := []colv{{"name", "ann"}, {"id", int64(7)}, {"totalScore", 2.5}, {"note", nil}, {"CREATED_AT", at}}
	check := func(got c11StaticTagged, has map[string]bool) string {
		var wName string
		var wID uint32
		var wScore float64
		var wAt time.Time
		if has["name"] {
			wName = "ann"
		}
		if has["id"] {
			wID = 7
		}
		if has["totalScore"] {
			wScore = 2.5
		}
		if has["CREATED_AT"] {
			wAt = at
		}
		score := 0.0
		if got.Score != nil {
			score = *got.Score
		}
		switch {
		case got.Name != wName:
			return fmt.Sprintf("Name=%q want %q", got.Name, wName)
		case got.ID != wID:
			return fmt.Sprintf("ID=%d want %d", got.ID, wID)
		case score != wScore:
			return fmt.Sprintf("Score=%v want %v", score, wScore)
		case got.Note.Valid || got.Note.String != "":
			return fmt.Sprintf("Note=%+v want NULL", got.Note)
		case !got.At.Equal(wAt):
			return fmt.Sprintf("At=%v want %v", got.At, wAt)
		}
		return ""
	}
	idx := 0
	perm := []int{0, 1, 2, 3, 4}
	var perms [][]int
	var gen func(k int)
	gen = func(k int) {
		if k == len(perm) {
			perms = append(perms, append([]int{}, perm...))
			return
		}
		for i := k; i < len(perm); i++ {
			perm[k], perm[i] = perm[i], perm[k]
			gen(k + 1)
			perm[k], perm[i] = perm[i], perm[k]
		}
	}
	gen(0)
	for pi, p := range perms {
		for variant := 0; variant < 3; variant++ { // 0 exact, 1 + unknown column, 2 one column dropped
			for _, method := range []string{"row", "rows", "rowsptr"} {
				for _, strict := range []bool{true, false} {
					idx++
					if !m.Only(idx) {
						continue
					}
					var res c11Result
					var row []driver.Value
					has := map[string]bool{}
					for j, k := range p {
						if variant == 2 && j == pi%5 {
							continue
						}
						res.Cols = append(res.Cols, base[k].name)
						row = append(row, base[k].v)
						has[base[k].name] = true
						if variant == 1 && j == pi%5 {
							res.Cols = append(res.Cols, "unknown_col")
							row = append(row, []byte("zzz"))
						}
					}
					res.Rows = [][]driver.Value{row, row}
					desc := fmt.Sprintf("case=%d;{\"static\":\"tagged\",\"cols\":%q,\"method\":%q,\"strict\":%v}", idx, res.Cols, method, strict)
					m.Current(desc)
					rec := c11NewRec()
					rec.results = []c11Result{res}
					db, closeDB, err := c11Open(rec)
					if err != nil {
						m.Inconclusive("open: %v", err)
						return
					}
					conn := sqlx.NewConnFromDB(db)
					var one c11StaticTagged
					var many []c11StaticTagged
					var manyp []*c11StaticTagged
					if pi%2 == 1 { // second page of a paging loop: the slices are not empty
						many = append(many, c11StaticTagged{Name: "earlier"}, c11StaticTagged{Name: "page"})
						manyp = append(manyp, &c11StaticTagged{Name: "earlier"})
					}
					var qerr error
					pv, panicked := vk.Recover(func() {
						switch {
						case method == "row" && strict:
							qerr = conn.QueryRow(&one, "select 1")
						case method == "row":
							qerr = conn.QueryRowPartial(&one, "select 1")
						case method == "rows" && strict:
							qerr = conn.QueryRows(&many, "select 1")
						case method == "rows":
							qerr = conn.QueryRowsPartial(&many, "select 1")
						case strict:
							qerr = conn.QueryRows(&manyp, "select 1")
						default:
							qerr = conn.QueryRowsPartial(&manyp, "select 1")
						}
					})
					closeDB()
					mode := map[bool]string{true: "strict", false: "partial"}[strict]
					sig := fmt.Sprintf("C11:orm:static-tagged:%s:%s:", strings.TrimSuffix(method, "ptr"), mode)
					switch {
					case panicked:
						m.Violate(sig+"panic", desc, "panic: %v", pv)
					case variant == 2 && strict:
						if qerr == nil {
							m.Violate(sig+"fewer-columns-accepted", desc, "4 columns for 5 fields accepted in strict mode")
						}
						m.Count("strict_rejections", 1)
					case qerr != nil:
						m.Violate(sig+"unexpected-error", desc, "err=%v", qerr)
					default:
						var gots []c11StaticTagged
						switch method {
						case "row":
							gots = []c11StaticTagged{one}
						case "rows":
							gots = many
						default:
							for _, p := range manyp {
								if p != nil {
									gots = append(gots, *p)
								}
							}
						}
						if method != "row" && len(gots) > 2 && pi%2 == 1 {
							gots = gots[len(gots)-2:] // appended behind the earlier page
						}
						if method != "row" && len(gots) != 2 {
							m.Violate(sig+"row-count", desc, "2 rows, %d elements", len(gots))
							break
						}
						for _, g := range gots {
							if d := check(g, has); d != "" {
								m.Violate(sig+"wrong-value", desc, "field mismatch: %s (dest %+v)", d, g)
								break
							}
							m.Count("structs_compared", 1)
						}
					}
					m.Case(vk.Digest(desc), true)
				}
			}
		}
	}
	// untagged, embedded pointer inside embedded struct: leaves ID, A, B, C, Name, OK
	full := []driver.Value{int64(5), int64(-6), []byte("bee"), 1.25, "nm", true}
	for ncols := 1; ncols <= 6; ncols++ {
		for _, strict := range []bool{true, false} {
			idx++
			if !m.Only(idx) {
				continue
			}
			res := c11Result{Rows: [][]driver.Value{full[:ncols]}}
			for i := 0; i < ncols; i++ {
				res.Cols = append(res.Cols, []string{"ok", "name", "c", "b", "a", "id"}[i]) // names deliberately reversed
			}
			desc := fmt.Sprintf("case=%d;{\"static\":\"untagged\",\"ncols\":%d,\"strict\":%v}", idx, ncols, strict)
			m.Current(desc)
			rec := c11NewRec()
			rec.results = []c11Result{res}
			db, closeDB, err := c11Open(rec)
			if err != nil {
				m.Inconclusive("open: %v", err)
				return
			}
			var got c11StaticUntagged
			var qerr error
			pv, panicked := vk.Recover(func() {
				if strict {
					qerr = sqlx.NewConnFromDB(db).QueryRow(&got, "select 1")
				} else {
					qerr = sqlx.NewConnFromDB(db).QueryRowPartial(&got, "select 1")
				}
			})
			closeDB()
			mode := map[bool]string{true: "strict", false: "partial"}[strict]
			sig := "C11:orm:static-untagged:row:" + mode + ":"
			switch {
			case panicked:
				m.Violate(sig+"panic", desc, "panic: %v", pv)
			case strict && ncols < 6:
				if qerr == nil {
					m.Violate(sig+"fewer-columns-accepted", desc, "%d columns for 6 fields accepted in strict mode: %+v", ncols, got)
				}
				m.Count("strict_rejections", 1)
			case qerr != nil:
				m.Violate(sig+"unexpected-error", desc, "err=%v", qerr)
			default:
				var a int64
				var b string
				if got.C11Inner != nil {
					a, b = got.A, got.B
				}
				name := ""
				if got.Name != nil {
					name = *got.Name
				}
				act := []any{got.ID, a, b, got.C, name, got.OK}
				exp := []any{int64(5), int64(-6), "bee", 1.25, "nm", true}
				zero := []any{int64(0), int64(0), "", 0.0, "", false}
				for i := range act {
					w := zero[i]
					if i < ncols {
						w = exp[i]
					}
					if act[i] != w {
						m.Violate(sig+"wrong-value", desc, "leaf %d: got %v want %v (dest %+v)", i, act[i], w, got)
						break
					}
				}
				m.Count("structs_compared", 1)
			}
			m.Case(vk.Digest(desc), true)
		}
	}
	m.Sample(map[string]any{"tagged_type": "Name string `db:name`; ID uint32 `db:id`; Score *float64 `db:totalScore`; Note sql.NullString `db:note,omitempty`; At time.Time `db:CREATED_AT`", "permutations": len(perms), "cases": idx})
}

// TestVerifC11RowFetchFault: deterministic sweep of every single-row entry point with a
// driver fault on the fetch of the FIRST row (driver.Rows.Next returns a non-EOF error):
// the result is not empty, so the call must fail with something that is not ErrNotFound.
// Control rows: the same entry point on a truly empty result (=> ErrNotFound) and on an
// intact one-row result (=> value copied).
func TestVerifC11RowFetchFault(t *testing.T) {
	m := vk.New(t, "C11", "complete sweep: single-row entry point {conn, tx session, prepared statement, sqlc NoCache} x {strict, Partial} x {plain, Ctx} x destination {primitive, tagged struct, untagged struct} x scripted rows {0,1,3} x {first-row fetch fails at the driver, intact}; oracle: fetch fault => error, not ErrNotFound; empty => ErrNotFound; intact => first row copied; non-trivial = always")
	defer m.Done()
	r := m.Rand("fetch")
	idx := 0
	classes := map[string]int64{}
	for _, path := range []string{"conn", "tx", "stmt", "sqlc"} {
		for _, strict := range []bool{true, false} {
			for _, ctx := range []bool{false, true} {
				for _, shape := range []string{"prim", "tagged", "untagged"} {
					for _, nrows := range []int{0, 1, 3} {
						for _, fault := range []int{0, -1} {
							idx++
							c := c11OrmCase{Shape: shape, Method: "row", Strict: strict, Ctx: ctx, Path: path, Arg: idx%2 == 0, IterFault: fault, BadRow: -1}
							if shape == "prim" {
								c.Prim = c11PlainKinds[idx%len(c11PlainKinds)]
								c.Cols = []c11Col{{Name: "c", Leaf: 0, Kind: c.Prim}}
							} else {
								spec := c11StructSpec{Fields: []c11FieldSpec{{Name: "F0", Kind: "int64"}, {Name: "F1", Kind: "string"}, {Name: "F2", Kind: "*float64"}}}
								order := []int{0, 1, 2}
								if shape == "tagged" {
									spec.Fields[0].Tag, spec.Fields[1].Tag, spec.Fields[2].Tag = "id", "userName", "SCORE_2"
									order = []int{2, 0, 1}
								}
								c.Spec = &spec
								for _, li := range order {
									name := spec.Fields[li].Tag
									if name == "" {
										name = fmt.Sprintf("c%d", li)
									}
									c.Cols = append(c.Cols, c11Col{Name: name, Leaf: li, Kind: spec.Fields[li].Kind})
								}
							}
							for i := 0; i < nrows; i++ {
								var row []c11Val
								var text []string
								for _, col := range c.Cols {
									v := c11GenVal(r, col.Kind, false)
									row, text = append(row, v), append(text, v.Text)
								}
								c.vals, c.Rows = append(c.vals, row), append(c.Rows, text)
							}
							if !m.Only(idx) {
								continue
							}
							st := c11RunOrm(m, idx, &c)
							if st.class == "inconclusive" {
								return
							}
							classes[st.class]++
							m.Case(vk.Digest(vk.JSON(c)), true)
							if fault == 0 && nrows == 1 && shape == "tagged" && strict && !ctx {
								m.Sample(map[string]any{"case": c, "observed": st.class})
							}
						}
					}
				}
			}
		}
	}
	for k, v := range classes {
		m.Count("class_"+k, v)
	}
	m.Extra("exhaustive", true)
}

// c11PassCache is a cache.Cache that never holds anything: every Take runs the query.
type c11PassCache struct{}

func (c11PassCache) Del(...string) error                                      { return nil }
func (c11PassCache) DelCtx(context.Context, ...string) error                  { return nil }
func (c11PassCache) Get(string, any) error                                    { return sql.ErrNoRows }
func (c11PassCache) GetCtx(context.Context, string, any) error                { return sql.ErrNoRows }
func (c11PassCache) IsNotFound(err error) bool                                { return err == sql.ErrNoRows }
func (c11PassCache) Set(string, any) error                                    { return nil }
func (c11PassCache) SetCtx(context.Context, string, any) error                { return nil }
func (c11PassCache) SetWithExpire(string, any, time.Duration) error           { return nil }
func (c11PassCache) SetWithExpireCtx(context.Context, string, any, time.Duration) error {
	return nil
}
func (c11PassCache) Take(val any, _ string, query func(any) error) error { return query(val) }
func (c11PassCache) TakeCtx(_ context.Context, val any, _ string, query func(any) error) error {
	return query(val)
}
func (c11PassCache) TakeWithExpire(val any, _ string, query func(any, time.Duration) error) error {
	return query(val, time.Minute)
}
func (c11PassCache) TakeWithExpireCtx(_ context.Context, val any, _ string, query func(any, time.Duration) error) error {
	return query(val, time.Minute)
}

// ---- distinct struct types that share one name ----------------------------------------
// Function-local types declared in different functions all print as "sqlx_test.row"
// (reflect.Type.String is only package-name qualified), their embedded local types as
// "sqlx_test.Inner". What a query does with a destination must depend on that destination's
// type alone — its fields, tags, embedded structs — never on which other type of the same
// name was mapped earlier or is being mapped concurrently.

var c11RowCols = map[string]driver.Value{"id": int64(41), "first": "Ada", "last": "Lovelace", "age": int64(36), "n": int64(-7), "extra": []byte("zz")}

type c11LocalQuery func(dest any) error

// c11Local describes one local type: its columns (tag names, or the positional column
// order for an untagged type) and a runner that queries into it (or a slice of it) and
// renders every element as column -> field value.
type c11Local struct {
	name   string
	tagged bool
	cols   []string
	run    func(q c11LocalQuery, many bool) ([]map[string]any, error)
}

func c11LocalA(q c11LocalQuery, many bool) ([]map[string]any, error) {
	type row struct {
		First string `db:"first"`
		Last  string `db:"last"`
	}
	got := make([]row, 1)
	var err error
	if many {
		got = nil
		err = q(&got)
	} else {
		err = q(&got[0])
	}
	var out []map[string]any
	for _, g := range got {
		out = append(out, map[string]any{"first": g.First, "last": g.Last})
	}
	return out, err
}

func c11LocalB(q c11LocalQuery, many bool) ([]map[string]any, error) {
	type row struct {
		Last  string `db:"last"`
		First string `db:"first"`
	}
	got := make([]row, 1)
	var err error
	if many {
		got = nil
		err = q(&got)
	} else {
		err = q(&got[0])
	}
	var out []map[string]any
	for _, g := range got {
		out = append(out, map[string]any{"first": g.First, "last": g.Last})
	}
	return out, err
}

func c11LocalC(q c11LocalQuery, many bool) ([]map[string]any, error) {
	type row struct {
		ID    int64  `db:"id"`
		Last  string `db:"last"`
		Age   int    `db:"age"`
		First string `db:"first"`
	}
	got := make([]row, 1)
	var err error
	if many {
		got = nil
		err = q(&got)
	} else {
		err = q(&got[0])
	}
	var out []map[string]any
	for _, g := range got {
		out = append(out, map[string]any{"id": g.ID, "last": g.Last, "age": int64(g.Age), "first": g.First})
	}
	return out, err
}

func c11LocalD(q c11LocalQuery, many bool) ([]map[string]any, error) {
	type row struct {
		N     int64  `db:"n"`
		First string `db:"first"`
	}
	got := []*row{{}}
	var err error
	if many {
		got = nil
		err = q(&got)
	} else {
		err = q(got[0])
	}
	var out []map[string]any
	for _, g := range got {
		if g == nil {
			g = &row{N: -999}
		}
		out = append(out, map[string]any{"n": g.N, "first": g.First})
	}
	return out, err
}

func c11LocalE(q c11LocalQuery, many bool) ([]map[string]any, error) {
	type row struct {
		First string `db:"last"` // same field names as A, tags crossed
		Last  string `db:"first"`
	}
	got := make([]row, 1)
	var err error
	if many {
		got = nil
		err = q(&got)
	} else {
		err = q(&got[0])
	}
	var out []map[string]any
	for _, g := range got {
		out = append(out, map[string]any{"last": g.First, "first": g.Last})
	}
	return out, err
}

func c11LocalF(q c11LocalQuery, many bool) ([]map[string]any, error) {
	type row struct { // A plus one field
		First string `db:"first"`
		Last  string `db:"last"`
		Age   int64  `db:"age"`
	}
	got := make([]row, 1)
	var err error
	if many {
		got = nil
		err = q(&got)
	} else {
		err = q(&got[0])
	}
	var out []map[string]any
	for _, g := range got {
		out = append(out, map[string]any{"first": g.First, "last": g.Last, "age": g.Age})
	}
	return out, err
}

func c11LocalG(q c11LocalQuery, many bool) ([]map[string]any, error) {
	type row struct { // untagged: by position
		ID    int64
		First string
	}
	got := make([]row, 1)
	var err error
	if many {
		got = nil
		err = q(&got)
	} else {
		err = q(&got[0])
	}
	var out []map[string]any
	for _, g := range got {
		out = append(out, map[string]any{"id": g.ID, "first": g.First})
	}
	return out, err
}

func c11LocalH(q c11LocalQuery, many bool) ([]map[string]any, error) {
	type Inner struct {
		First string
		Last  string
	}
	type row struct { // untagged with an embedded local struct: 4 positional leaves
		ID int64
		Inner
		Age int64
	}
	got := make([]row, 1)
	var err error
	if many {
		got = nil
		err = q(&got)
	} else {
		err = q(&got[0])
	}
	var out []map[string]any
	for _, g := range got {
		out = append(out, map[string]any{"id": g.ID, "first": g.First, "last": g.Last, "age": g.Age})
	}
	return out, err
}

func c11LocalI(q c11LocalQuery, many bool) ([]map[string]any, error) {
	type Inner struct { // another "Inner": one field
		Last string
	}
	type row struct { // 3 positional leaves: last, id, n
		*Inner
		ID int64
		N  int64
	}
	got := make([]row, 1)
	var err error
	if many {
		got = nil
		err = q(&got)
	} else {
		err = q(&got[0])
	}
	var out []map[string]any
	for _, g := range got {
		last := ""
		if g.Inner != nil {
			last = g.Last
		}
		out = append(out, map[string]any{"last": last, "id": g.ID, "n": g.N})
	}
	return out, err
}

var c11Locals = []c11Local{
	{"A", true, []string{"first", "last"}, c11LocalA},
	{"B", true, []string{"last", "first"}, c11LocalB},
	{"C", true, []string{"id", "last", "age", "first"}, c11LocalC},
	{"D", true, []string{"n", "first"}, c11LocalD},
	{"E", true, []string{"last", "first"}, c11LocalE},
	{"F", true, []string{"first", "last", "age"}, c11LocalF},
	{"G", false, []string{"id", "first"}, c11LocalG},
	{"H", false, []string{"id", "first", "last", "age"}, c11LocalH},
	{"I", false, []string{"last", "id", "n"}, c11LocalI},
}

type c11LocalCase struct {
	Type   string   `json:"local_type"`
	Many   bool     `json:"many"`
	Strict bool     `json:"strict"`
	Cols   []string `json:"cols"`
}

func c11GenLocalCase(r *rand.Rand) (c11Local, c11LocalCase) {
	l := c11Locals[r.Intn(len(c11Locals))]
	c := c11LocalCase{Type: l.name, Many: r.Intn(2) == 0, Strict: r.Intn(2) == 0}
	if l.tagged {
		names := []string{"id", "first", "last", "age", "n", "extra"}
		perm := r.Perm(len(names))
		k := len(names)
		if r.Intn(2) == 0 {
			k = 1 + r.Intn(len(names)) // fewer columns: some in, some out of the type's tags
		}
		for _, pi := range perm[:k] {
			c.Cols = append(c.Cols, names[pi])
		}
	} else {
		k := len(l.cols)
		if r.Intn(2) == 0 {
			k = 1 + r.Intn(len(l.cols))
		}
		c.Cols = append(c.Cols, l.cols[:k]...) // positional prefix, never more columns than fields
	}
	return l, c
}

// c11RunLocalCase runs one case and judges it from the type's own description only.
func c11RunLocalCase(m *vk.M, idx int, l c11Local, c c11LocalCase) bool {
	desc := fmt.Sprintf("case=%d;%s", idx, vk.JSON(c))
	var res c11Result
	var row []driver.Value
	present := map[string]bool{}
	for _, name := range c.Cols {
		res.Cols = append(res.Cols, name)
		row = append(row, c11RowCols[name])
		present[name] = true
	}
	res.Rows = [][]driver.Value{row, row}
	rec := c11NewRec()
	rec.results = []c11Result{res}
	db, closeDB, err := c11Open(rec)
	if err != nil {
		m.Inconclusive("open: %v", err)
		return false
	}
	conn := sqlx.NewConnFromDB(db)
	q := func(dest any) error {
		switch {
		case c.Many && c.Strict:
			return conn.QueryRows(dest, "select * from people")
		case c.Many:
			return conn.QueryRowsPartial(dest, "select * from people")
		case c.Strict:
			return conn.QueryRow(dest, "select * from people")
		}
		return conn.QueryRowPartial(dest, "select * from people")
	}
	var got []map[string]any
	var qerr error
	pv, panicked := vk.Recover(func() { got, qerr = l.run(q, c.Many) })
	closeDB()
	mode := map[bool]string{true: "strict", false: "partial"}[c.Strict]
	sig := "C11:orm:same-name-types:" + l.name + ":" + mode + ":"
	missing := 0
	for _, name := range l.cols {
		if !present[name] {
			missing++
		}
	}
	switch {
	case panicked:
		m.Violate(sig+"panic", desc, "panic: %v", pv)
	case c.Strict && len(c.Cols) < len(l.cols):
		if qerr == nil {
			m.Violate(sig+"fewer-columns-accepted", desc, "strict: %d columns for this type's %d fields returned nil (dest %v)", len(c.Cols), len(l.cols), got)
		} else {
			m.Count("strict_rejections", 1)
		}
	case qerr != nil && c.Strict && l.tagged && missing > 0:
		m.Count("strict_error_on_missing_names", 1) // legitimate either way
	case qerr != nil:
		m.Violate(sig+"unexpected-error", desc, "this type has %d fields, the result %d columns: %v", len(l.cols), len(c.Cols), qerr)
	case c.Many && len(got) != 2:
		m.Violate(sig+"row-count", desc, "2 rows, %d elements", len(got))
	default:
		for _, g := range got {
			for _, name := range l.cols {
				var want any
				switch c11RowCols[name].(type) {
				case int64:
					want = int64(0)
				default:
					want = ""
				}
				if present[name] {
					want = c11RowCols[name]
				}
				if g[name] != want {
					m.Violate(sig+"wrong-value", desc, "field for column %q = %v, want %v (dest %v)", name, g[name], want, g)
					return true
				}
			}
			m.Count("structs_checked_"+l.name, 1)
		}
	}
	return true
}

// TestVerifC11SameNameTypes: the nine local `row` types interleaved in one process, first
// sequentially in seeded order, then from 8 goroutines at once.
func TestVerifC11SameNameTypes(t *testing.T) {
	m := vk.New(t, "C11", "nine distinct function-local struct types that all print as sqlx_test.row (tagged: different field order / tag order / crossed tags / 2, 3 and 4 fields; untagged: 2 fields, embedded local struct Inner (4 leaves), embedded *Inner of another shape (3 leaves)) x {QueryRow, QueryRows} x {strict, partial} x result columns {all six in seeded order, seeded subset; positional prefix for untagged}: seeded alternating sequence, then the same generator from 8 goroutines concurrently; oracle from the destination type alone: its fields get its columns, strict with fewer columns than ITS field count => error, otherwise no error; non-trivial = always")
	defer m.Done()
	c11Setup()
	r := m.Rand("same-name")
	n := vk.N(600, 40000)
	idx := 0
	for i := 0; i < n; i++ {
		idx++
		l, c := c11GenLocalCase(r)
		if !m.Only(idx) {
			continue
		}
		m.Current(fmt.Sprintf("case=%d;%s", idx, vk.JSON(c)))
		if !c11RunLocalCase(m, idx, l, c) {
			return
		}
		m.Case(vk.Digest(vk.JSON(c)), true)
		if idx == 3 {
			m.Sample(map[string]any{"case": c, "reflect_name": "sqlx_test.row"})
		}
	}
	// concurrent phase: verdicts are per call and depend on the destination type only
	const workers = 8
	per := vk.N(100, 5000)
	var wg sync.WaitGroup
	for g := 0; g < workers; g++ {
		wg.Add(1)
		go func(g int) {
			defer wg.Done()
			rg := m.Rand("same-name-concurrent", g)
			for j := 0; j < per; j++ {
				id := 1_000_000*(g+1) + j
				l, c := c11GenLocalCase(rg)
				if !m.Only(id) {
					continue
				}
				if !c11RunLocalCase(m, id, l, c) {
					return
				}
				m.Case(vk.Digest("conc", vk.JSON(c)), true)
				m.Count("concurrent_calls", 1)
			}
		}(g)
	}
	wg.Wait()
}
