//go:build verif

package sqlx

// C01 — benign-outcome table of the SQL integration (DESIGN.md §3 C01 (f)).
// A commonConn from NewConnFromDB over a scripted database/sql driver; its real
// breaker is kept and only wrapped by a transparent spy that notes whether the
// protected function ran and what the conn's acceptable-predicate answered.
// Rows: path (Exec / QueryRow / Transact) x outcome, each on a fresh conn.

import (
	"context"
	"database/sql"
	"database/sql/driver"
	"errors"
	"fmt"
	"io"
	"testing"
	"time"

	"github.com/gotid/god/lib/breaker"
	"github.com/gotid/god/lib/logx"
	"github.com/gotid/god/lib/stat"
	"github.com/gotid/god/lib/timex"
	"verif.local/vk"
)

// ---- scripted driver (sequential use only)

type c01Script struct{ err error }

type c01Connector struct{ s *c01Script }

func (c c01Connector) Connect(context.Context) (driver.Conn, error) { return &c01DConn{s: c.s}, nil }
func (c c01Connector) Driver() driver.Driver                        { return c01Drv{} }

type c01Drv struct{}

func (c01Drv) Open(string) (driver.Conn, error) { return nil, errors.New("c01: use the connector") }

type c01DConn struct{ s *c01Script }

func (c *c01DConn) Prepare(string) (driver.Stmt, error) { return nil, errors.New("c01: no prepare") }
func (c *c01DConn) Close() error                        { return nil }
func (c *c01DConn) Begin() (driver.Tx, error)           { return c01Tx{}, nil }
func (c *c01DConn) ExecContext(ctx context.Context, q string, a []driver.NamedValue) (driver.Result, error) {
	if c.s.err != nil {
		return nil, c.s.err
	}
	return driver.RowsAffected(1), nil
}
func (c *c01DConn) QueryContext(ctx context.Context, q string, a []driver.NamedValue) (driver.Rows, error) {
	if c.s.err != nil {
		return nil, c.s.err
	}
	return &c01Rows{left: 1}, nil
}

type c01Tx struct{}

func (c01Tx) Commit() error   { return nil }
func (c01Tx) Rollback() error { return nil }

type c01Rows struct{ left int }

func (r *c01Rows) Columns() []string { return []string{"v"} }
func (r *c01Rows) Close() error      { return nil }
func (r *c01Rows) Next(dest []driver.Value) error {
	if r.left == 0 {
		return io.EOF
	}
	r.left--
	dest[0] = int64(7)
	return nil
}

// ---- transparent spy around the conn's real breaker

type c01Spy struct {
	breaker.Breaker
	ran      int
	verdicts int
	lastErr  error
	lastAcc  bool
}

func (s *c01Spy) DoWithAcceptable(req func() error, acc breaker.Acceptable) error {
	return s.Breaker.DoWithAcceptable(func() error {
		s.ran++
		return req()
	}, func(err error) bool {
		s.verdicts++
		s.lastErr = err
		s.lastAcc = acc(err)
		return s.lastAcc
	})
}

type c01Outcome struct {
	name   string
	err    error
	benign bool
}

var c01Custom = errors.New("c01: error accepted by the conn's custom accept option")

func TestVerifC01SQLBenignTable(t *testing.T) {
	m := vk.New(t, "C01", "sqlx conn (NewConnFromDB over a scripted driver, real breaker behind a transparent spy, virtual clock frozen): rows path {Exec, QueryRow, Transact} x outcome; benign {nil, sql.ErrNoRows, sql.ErrTxDone, context.Canceled, custom-accepted error when the accept option is set, not-found scan result} x150 => predicate true every time, protected function always runs; failing {driver error, io.ErrUnexpectedEOF, context.DeadlineExceeded, custom error without the option} x400 => predicate false, at least one call short-circuited with ErrServiceUnavailable; 10000 mixed benign outcomes on one conn => 0 rejections; non-trivial = row completed (benign) / rejected (failing)")
	defer m.Done()
	logx.Disable()
	stat.SetReporter(nil)
	timex.VerifFakeClock(1000*time.Hour + time.Duration(m.Rand("clock").Int63n(int64(time.Hour))))
	defer timex.VerifRealClock()
	r := m.Rand("sql")
	perBenign := vk.N(150, 2000)
	perBad := vk.N(400, 4000)

	boom := errors.New("c01: driver: connection reset")
	outcomes := []c01Outcome{
		{"nil", nil, true},
		{"ErrNoRows", sql.ErrNoRows, true},
		{"ErrTxDone", sql.ErrTxDone, true},
		{"context.Canceled", context.Canceled, true},
		{"custom-accepted", c01Custom, true},
		{"driver-error", boom, false},
		{"unexpected-EOF", io.ErrUnexpectedEOF, false},
		{"context.DeadlineExceeded", context.DeadlineExceeded, false},
		{"custom-not-accepted", c01Custom, false},
	}
	type env struct {
		conn   Conn
		spy    *c01Spy
		script *c01Script
	}
	newEnv := func(withAccept bool) *env {
		e := &env{script: &c01Script{}}
		db := sql.OpenDB(c01Connector{s: e.script})
		cc, ok := NewConnFromDB(db).(*commonConn)
		if !ok {
			return nil
		}
		if withAccept {
			cc.accept = func(err error) bool { return err == c01Custom }
		}
		e.spy = &c01Spy{Breaker: cc.brk}
		cc.brk = e.spy
		e.conn = cc
		return e
	}
	// call performs one operation on path with the scripted outcome; returns the error the caller sees
	call := func(e *env, path string, err error) error {
		switch path {
		case "Exec":
			e.script.err = err
			_, got := e.conn.ExecCtx(context.Background(), "update t set a = 1")
			return got
		case "QueryRow":
			e.script.err = err
			var v int64
			return e.conn.QueryRowCtx(context.Background(), &v, "select v from t")
		default:
			e.script.err = nil
			return e.conn.TransactCtx(context.Background(), func(context.Context, Session) error { return err })
		}
	}
	idx := 0
	var benignRows [][2]any
	for _, path := range []string{"Exec", "QueryRow", "Transact"} {
		for _, oc := range outcomes {
			idx++
			withAccept := oc.name == "custom-accepted"
			e := newEnv(withAccept)
			if e == nil {
				m.Skip("NewConnFromDB no longer returns *commonConn: SQL table skipped")
				return
			}
			label := path + ":" + oc.name
			desc := fmt.Sprintf("case=%d;%s with outcome %s on a fresh conn", idx, path, oc.name)
			if oc.benign {
				if !withAccept {
					benignRows = append(benignRows, [2]any{path, oc.err})
				}
				okRow := true
				for i := 0; i < perBenign; i++ {
					before, vb := e.spy.ran, e.spy.verdicts
					got := call(e, path, oc.err)
					m.Count("calls_benign", 1)
					if e.spy.ran == before {
						m.Violate("C01:benign:sql:"+label+":rejected", desc, "call #%d short-circuited (%v) after only %s outcomes", i, got, oc.name)
						okRow = false
						break
					}
					if e.spy.verdicts > vb && !e.spy.lastAcc {
						m.Violate("C01:benign:sql:"+label+":predicate", desc, "the conn's acceptable-predicate answered false for %v", e.spy.lastErr)
						okRow = false
						break
					}
				}
				m.Case("benign-"+label, okRow)
				continue
			}
			rej, first := 0, -1
			bad := false
			for i := 0; i < perBad; i++ {
				before, vb := e.spy.ran, e.spy.verdicts
				got := call(e, path, oc.err)
				m.Count("calls_failing", 1)
				if e.spy.ran > before && got == breaker.ErrServiceUnavailable {
					m.Violate("C01:reject:req-ran", desc, "call #%d ran the protected function and still returned ErrServiceUnavailable", i)
					bad = true
					break
				}
				if e.spy.ran == before {
					rej++
					if first < 0 {
						first = i
					}
					if got != breaker.ErrServiceUnavailable {
						m.Violate("C01:reject:sql:wrong-error", desc, "short-circuited call #%d returned %v", i, got)
						bad = true
						break
					}
					continue
				}
				if e.spy.verdicts > vb && e.spy.lastAcc {
					m.Violate("C01:nonbenign:sql:"+label+":predicate", desc, "the conn's acceptable-predicate answered true for %v", e.spy.lastErr)
					bad = true
					break
				}
			}
			m.Count("calls_rejected", int64(rej))
			if !bad && rej == 0 {
				m.Violate("C01:nonbenign:sql:"+label+":never-cut-off", desc, "%d consecutive %s outcomes and the statement ran every time", perBad, oc.name)
			}
			m.Case("failing-"+label, rej > 0)
			if oc.name == "driver-error" {
				m.Sample(map[string]any{"scenario": fmt.Sprintf("%s: %s x%d", path, oc.name, perBad), "short_circuited": rej, "first_at_call": first})
			}
		}
	}
	// not-found scan result (driver returns zero rows): QueryRow's own scan error is benign
	{
		e := newEnv(false)
		okRow := true
		for i := 0; i < perBenign; i++ {
			before := e.spy.ran
			e.script.err = nil
			var v struct{ A, B int64 } // one column into two fields: scan error (not a driver error)
			got := e.conn.QueryRowCtx(context.Background(), &v, "select v from t")
			m.Count("calls_benign", 1)
			if e.spy.ran == before {
				m.Violate("C01:benign:sql:QueryRow:scan-error:rejected", "case=90;QueryRow whose scanner fails", "call #%d short-circuited (%v) after only scanner errors", i, got)
				okRow = false
				break
			}
		}
		m.Case("benign-scan-error", okRow)
	}
	// mixed
	{
		e := newEnv(false)
		n := vk.N(10000, 100000)
		for i := 0; i < n; i++ {
			row := benignRows[r.Intn(len(benignRows))]
			var err error
			if row[1] != nil {
				err = row[1].(error)
			}
			before := e.spy.ran
			got := call(e, row[0].(string), err)
			m.Count("calls_benign_mixed", 1)
			if e.spy.ran == before {
				m.Violate("C01:benign:sql:mixed:rejected", "case=100;mixed benign outcomes on one conn", "call #%d (%s, %v) short-circuited (%v)", i, row[0], err, got)
				break
			}
		}
		m.Case("mixed-benign", true)
	}
}
