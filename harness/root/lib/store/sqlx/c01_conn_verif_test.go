//go:build verif

package sqlx

// C01 — benign-outcome table of the SQL integration (DESIGN.md §3 C01 (f)).
// A commonConn from NewConnFromDB over a scripted database/sql driver; its real
// breaker is kept and only wrapped by a transparent spy that notes whether the
// protected function ran and what the conn's acceptable-predicate answered.
// Rows: conn flavour (plain / accept option set / NewMySQL) x every entry point
// that goes through the conn's breaker x outcome, each on a fresh conn. The
// built-in benign set must stay benign on conns that carry a custom accept
// function (the option extends the set, it does not replace it).

import (
	"context"
	"database/sql"
	"database/sql/driver"
	"errors"
	"fmt"
	"io"
	"testing"
	"time"

	"github.com/go-sql-driver/mysql"
	"github.com/gotid/god/lib/breaker"
	"github.com/gotid/god/lib/logx"
	"github.com/gotid/god/lib/stat"
	"github.com/gotid/god/lib/timex"
	"verif.local/vk"
)

// ---- scripted driver (sequential use only)

type c01Script struct {
	err       error
	provErr   error // when set the conn's provider fails (no database handle)
	commitErr error // what the driver's Commit reports
}

type c01Connector struct{ s *c01Script }

func (c c01Connector) Connect(context.Context) (driver.Conn, error) { return &c01DConn{s: c.s}, nil }
func (c c01Connector) Driver() driver.Driver                        { return c01Drv{} }

type c01Drv struct{}

func (c01Drv) Open(string) (driver.Conn, error) { return nil, errors.New("c01: use the connector") }

type c01DConn struct{ s *c01Script }

func (c *c01DConn) Prepare(string) (driver.Stmt, error) {
	if c.s.err != nil {
		return nil, c.s.err
	}
	return c01Stmt{}, nil
}
func (c *c01DConn) Close() error              { return nil }
func (c *c01DConn) Begin() (driver.Tx, error) { return c01Tx{s: c.s}, nil }
func (c *c01DConn) ExecContext(ctx context.Context, q string, a []driver.NamedValue) (driver.Result, error) {
	if c.s.err != nil {
		return nil, c.s.err
	}
	return driver.RowsAffected(1), nil
}
func (c *c01DConn) QueryContext(ctx context.Context, q string, a []driver.NamedValue) (driver.Rows, error) {
	if c.s.err != nil {
		return nil, c.s.err
	}
	return &c01Rows{left: 1}, nil
}

type c01Stmt struct{}

func (c01Stmt) Close() error                               { return nil }
func (c01Stmt) NumInput() int                              { return -1 }
func (c01Stmt) Exec([]driver.Value) (driver.Result, error) { return driver.RowsAffected(1), nil }
func (c01Stmt) Query([]driver.Value) (driver.Rows, error)  { return &c01Rows{left: 1}, nil }

type c01Tx struct{ s *c01Script }

func (t c01Tx) Commit() error { return t.s.commitErr }
func (c01Tx) Rollback() error { return nil }

type c01Rows struct{ left int }

func (r *c01Rows) Columns() []string { return []string{"v"} }
func (r *c01Rows) Close() error      { return nil }
func (r *c01Rows) Next(dest []driver.Value) error {
	if r.left == 0 {
		return io.EOF
	}
	r.left--
	dest[0] = int64(7)
	return nil
}

// ---- transparent spy around the conn's real breaker

type c01Spy struct {
	breaker.Breaker
	ran      int
	verdicts int
	lastErr  error
	lastAcc  bool
}

func (s *c01Spy) DoWithAcceptable(req func() error, acc breaker.Acceptable) error {
	return s.Breaker.DoWithAcceptable(func() error {
		s.ran++
		return req()
	}, func(err error) bool {
		s.verdicts++
		s.lastErr = err
		s.lastAcc = acc(err)
		return s.lastAcc
	})
}

type c01Outcome struct {
	name   string
	err    error
	benign bool
	txOnly bool // outcome of Transact's own Commit: only on Transact / TransactCtx
}

var c01Custom = errors.New("c01: error accepted by the conn's custom accept option")

var c01ProvErr = errors.New("c01: provider cannot open the database")

// outcomes produced by Transact's own Commit (the body returns nil)
var (
	c01CommitEarly  = errors.New("c01: body commits the transaction itself; Transact's Commit reports sql.ErrTxDone")
	c01CommitTxDone = errors.New("c01: the driver's Commit reports sql.ErrTxDone")
	c01CommitFail   = errors.New("c01: the driver's Commit fails")
	c01CommitBoom   = errors.New("c01: driver: commit failed, connection lost")
	// set when the Session handed to the body offers no Commit (row cannot be driven)
	c01NoCommitter bool
)

// c01TxBody builds the Transact body and arms the scripted driver for a commit outcome.
func c01TxBody(e *c01Env, err error) func(Session) error {
	e.script.commitErr = nil
	switch err {
	case c01CommitEarly:
		return func(s Session) error {
			c, ok := s.(interface{ Commit() error })
			if !ok {
				c01NoCommitter = true
				return nil
			}
			return c.Commit()
		}
	case c01CommitTxDone:
		e.script.commitErr = sql.ErrTxDone
		return func(Session) error { return nil }
	case c01CommitFail:
		e.script.commitErr = c01CommitBoom
		return func(Session) error { return nil }
	}
	return func(Session) error { return err }
}

type c01Env struct {
	conn   *commonConn
	spy    *c01Spy
	script *c01Script
}

// c01NewEnv builds a fresh conn of the given flavour over the scripted driver.
func c01NewEnv(flavour string) *c01Env {
	e := &c01Env{script: &c01Script{}}
	db := sql.OpenDB(c01Connector{s: e.script})
	var cc *commonConn
	switch flavour {
	case "mysql":
		// the constructor this package offers for MySQL wires the driver-specific accept itself;
		// only the provider is redirected to the scripted driver
		c, ok := NewMySQL("c01:c01@tcp(127.0.0.1:1)/c01").(*commonConn)
		if !ok {
			return nil
		}
		c.provider = func() (*sql.DB, error) { return db, nil }
		c.onError = func(error) {}
		cc = c
	default:
		c, ok := NewConnFromDB(db).(*commonConn)
		if !ok {
			return nil
		}
		if flavour == "custom-accept" {
			c.accept = func(err error) bool { return err == c01Custom }
		}
		cc = c
	}
	orig := cc.provider
	cc.provider = func() (*sql.DB, error) {
		if e.script.provErr != nil {
			return nil, e.script.provErr
		}
		return orig()
	}
	e.spy = &c01Spy{Breaker: cc.brk}
	cc.brk = e.spy
	e.conn = cc
	return e
}

var c01Paths = []string{
	"Exec", "ExecCtx", "Prepare", "PrepareCtx",
	"QueryRow", "QueryRowCtx", "QueryRowPartial", "QueryRowPartialCtx",
	"QueryRows", "QueryRowsCtx", "QueryRowsPartial", "QueryRowsPartialCtx",
	"Transact", "TransactCtx",
}

// c01Call performs one operation through the entry point path with the scripted
// outcome and returns the error the caller sees.
func c01Call(e *c01Env, path string, err error) error {
	ctx := context.Background()
	e.script.err = err
	e.script.provErr = nil
	if err == c01ProvErr {
		e.script.provErr = err
	}
	var v int64
	var vs []int64
	const q = "select v from t"
	switch path {
	case "Exec":
		_, got := e.conn.Exec("update t set a = 1")
		return got
	case "ExecCtx":
		_, got := e.conn.ExecCtx(ctx, "update t set a = 1")
		return got
	case "Prepare", "PrepareCtx":
		var st StmtSession
		var got error
		if path == "Prepare" {
			st, got = e.conn.Prepare(q)
		} else {
			st, got = e.conn.PrepareCtx(ctx, q)
		}
		if got == nil && st != nil {
			_ = st.Close()
		}
		return got
	case "QueryRow":
		return e.conn.QueryRow(&v, q)
	case "QueryRowCtx":
		return e.conn.QueryRowCtx(ctx, &v, q)
	case "QueryRowPartial":
		return e.conn.QueryRowPartial(&v, q)
	case "QueryRowPartialCtx":
		return e.conn.QueryRowPartialCtx(ctx, &v, q)
	case "QueryRows":
		return e.conn.QueryRows(&vs, q)
	case "QueryRowsCtx":
		return e.conn.QueryRowsCtx(ctx, &vs, q)
	case "QueryRowsPartial":
		return e.conn.QueryRowsPartial(&vs, q)
	case "QueryRowsPartialCtx":
		return e.conn.QueryRowsPartialCtx(ctx, &vs, q)
	case "Transact":
		e.script.err = nil
		return e.conn.Transact(c01TxBody(e, err))
	default:
		e.script.err = nil
		body := c01TxBody(e, err)
		return e.conn.TransactCtx(ctx, func(_ context.Context, s Session) error { return body(s) })
	}
}

func TestVerifC01SQLBenignTable(t *testing.T) {
	m := vk.New(t, "C01", "sqlx conn over a scripted driver, real breaker behind a transparent spy, virtual clock frozen. Rows: conn flavour {plain NewConnFromDB, accept option set, NewMySQL (constructor-wired mysql accept)} x entry point {Exec, Prepare, QueryRow, QueryRowPartial, QueryRows, QueryRowsPartial, Transact and their Ctx forms} x outcome, each on a fresh conn. Benign on EVERY flavour {nil, sql.ErrNoRows, sql.ErrTxDone, context.Canceled; on Transact/TransactCtx also sql.ErrTxDone reported by Transact's own Commit because the body already committed or the driver says so} plus what the flavour's own accept declares benign (custom error / MySQL 1062) x150 => predicate true every time and the protected function always runs; failing {driver error, io.ErrUnexpectedEOF, context.DeadlineExceeded, provider cannot open the database, driver Commit error, error the flavour does not accept} x400 => predicate false and at least one call short-circuited with ErrServiceUnavailable; 10000 mixed benign outcomes over all entry points on one conn per flavour => 0 rejections; non-trivial = row completed (benign) / rejected (failing)")
	defer m.Done()
	logx.Disable()
	stat.SetReporter(nil)
	timex.VerifFakeClock(1000*time.Hour + time.Duration(m.Rand("clock").Int63n(int64(time.Hour))))
	defer timex.VerifRealClock()
	r := m.Rand("sql")
	perBenign := vk.N(150, 1000)
	perBad := vk.N(400, 2000)

	boom := errors.New("c01: driver: connection reset")
	dup := &mysql.MySQLError{Number: 1062, Message: "c01 duplicate entry"}
	tooMany := &mysql.MySQLError{Number: 1040, Message: "c01 too many connections"}
	common := []c01Outcome{
		{"nil", nil, true, false},
		{"ErrNoRows", sql.ErrNoRows, true, false},
		{"ErrTxDone", sql.ErrTxDone, true, false},
		{"context.Canceled", context.Canceled, true, false},
		{"driver-error", boom, false, false},
		{"unexpected-EOF", io.ErrUnexpectedEOF, false, false},
		{"context.DeadlineExceeded", context.DeadlineExceeded, false, false},
		{"provider-error", c01ProvErr, false, false},
		// Transact's own Commit reports the benign sql.ErrTxDone (body finished the transaction / driver says so)
		{"commit-ErrTxDone-body-committed-early", c01CommitEarly, true, true},
		{"commit-ErrTxDone-from-driver", c01CommitTxDone, true, true},
		{"commit-driver-error", c01CommitFail, false, true},
	}
	extra := map[string][]c01Outcome{
		"plain":         {{"custom-not-accepted", c01Custom, false, false}},
		"custom-accept": {{"custom-accepted", c01Custom, true, false}, {"mysql-1062-not-accepted", dup, false, false}},
		"mysql":         {{"mysql-1062-duplicate-entry", dup, true, false}, {"mysql-1040", tooMany, false, false}, {"custom-not-accepted", c01Custom, false, false}},
	}
	idx := 0
	for _, flavour := range []string{"plain", "custom-accept", "mysql"} {
		outcomes := append(append([]c01Outcome(nil), common...), extra[flavour]...)
		var benignErrs []error
		for _, path := range c01Paths {
			for _, oc := range outcomes {
				idx++
				if !m.Only(idx) {
					continue
				}
				if oc.txOnly && path != "Transact" && path != "TransactCtx" {
					continue
				}
				e := c01NewEnv(flavour)
				if e == nil {
					m.Skip("sqlx constructors no longer return *commonConn: SQL table skipped")
					return
				}
				if flavour != "plain" && e.conn.accept == nil {
					m.Skip("flavour " + flavour + " carries no accept function in this tree")
				}
				label := flavour + ":" + path + ":" + oc.name
				desc := fmt.Sprintf("case=%d;%s conn, %s with outcome %s on a fresh conn", idx, flavour, path, oc.name)
				if oc.benign {
					if path == c01Paths[0] || (oc.txOnly && path == "Transact") {
						benignErrs = append(benignErrs, oc.err)
					}
					okRow := true
					for i := 0; i < perBenign; i++ {
						before, vb := e.spy.ran, e.spy.verdicts
						got := c01Call(e, path, oc.err)
						m.Count("calls_benign_"+flavour, 1)
						if c01NoCommitter {
							m.Skip("the Session handed to a Transact body offers no Commit: row " + label + " skipped")
							c01NoCommitter = false
							break
						}
						if oc.txOnly {
							m.Count("transactions_whose_commit_reported_ErrTxDone", 1)
						}
						if e.spy.ran == before {
							m.Violate("C01:benign:sql:"+label+":dropped", desc, "call #%d short-circuited (%v) after only %s outcomes", i, got, oc.name)
							okRow = false
							break
						}
						if e.spy.verdicts > vb && !e.spy.lastAcc {
							m.Violate("C01:benign:sql:"+label+":predicate", desc, "the conn's acceptable-predicate answered false for %v: a benign outcome is recorded as a failure", e.spy.lastErr)
							okRow = false
							break
						}
					}
					m.Case("benign-"+label, okRow)
					continue
				}
				rej, first := 0, -1
				bad := false
				for i := 0; i < perBad; i++ {
					before, vb := e.spy.ran, e.spy.verdicts
					got := c01Call(e, path, oc.err)
					m.Count("calls_failing_"+flavour, 1)
					if e.spy.ran > before && got == breaker.ErrServiceUnavailable {
						m.Violate("C01:reject:req-ran", desc, "call #%d ran the protected function and still returned ErrServiceUnavailable", i)
						bad = true
						break
					}
					if e.spy.ran == before {
						rej++
						if first < 0 {
							first = i
						}
						if got != breaker.ErrServiceUnavailable {
							m.Violate("C01:reject:sql:wrong-error", desc, "short-circuited call #%d returned %v", i, got)
							bad = true
							break
						}
						continue
					}
					if e.spy.verdicts > vb && e.spy.lastAcc {
						m.Violate("C01:nonbenign:sql:"+label+":predicate", desc, "the conn's acceptable-predicate answered true for %v", e.spy.lastErr)
						bad = true
						break
					}
				}
				m.Count("calls_rejected_"+flavour, int64(rej))
				if !bad && rej == 0 {
					m.Violate("C01:nonbenign:sql:"+label+":never-cut-off", desc, "%d consecutive %s outcomes and the statement ran every time", perBad, oc.name)
				}
				m.Case("failing-"+label, rej > 0)
				if oc.name == "driver-error" && (path == "Exec" || path == "TransactCtx") {
					m.Sample(map[string]any{"scenario": fmt.Sprintf("%s conn, %s: %s x%d", flavour, path, oc.name, perBad), "short_circuited": rej, "first_at_call": first})
				}
			}
		}
		// informational only (NOT asserted: the statement leaves a composite "body error + rollback error" open):
		// the body rolls the transaction back itself and returns sql.ErrNoRows, so Transact's own Rollback reports ErrTxDone
		if flavour == "plain" && m.Only(3000) {
			e := c01NewEnv(flavour)
			got := e.conn.Transact(func(s Session) error {
				if rb, ok := s.(interface{ Rollback() error }); ok {
					_ = rb.Rollback()
				}
				return sql.ErrNoRows
			})
			m.Note("not asserted: body rolled back early and returned sql.ErrNoRows => Transact returned %q, conn predicate answered %v", fmt.Sprint(got), e.spy.lastAcc)
		}
		// scan error (one column into a two-field struct): QueryRow's own scanner error is benign
		if m.Only(1000 + len(flavour)) {
			e := c01NewEnv(flavour)
			okRow := true
			for i := 0; i < perBenign; i++ {
				before := e.spy.ran
				e.script.err = nil
				var v struct{ A, B int64 }
				got := e.conn.QueryRowCtx(context.Background(), &v, "select v from t")
				m.Count("calls_benign_"+flavour, 1)
				if e.spy.ran == before {
					m.Violate("C01:benign:sql:"+flavour+":QueryRowCtx:scan-error:dropped", fmt.Sprintf("case=%d;QueryRow whose scanner fails", 1000+len(flavour)), "call #%d short-circuited (%v) after only scanner errors", i, got)
					okRow = false
					break
				}
			}
			m.Case("benign-scan-error-"+flavour, okRow)
		}
		// mixed benign outcomes over all entry points on one conn
		if m.Only(2000+len(flavour)) && len(benignErrs) > 0 {
			e := c01NewEnv(flavour)
			n := vk.N(10000, 100000)
			for i := 0; i < n; i++ {
				path := c01Paths[r.Intn(len(c01Paths))]
				err := benignErrs[r.Intn(len(benignErrs))]
				if err == c01CommitEarly || err == c01CommitTxDone {
					path = []string{"Transact", "TransactCtx"}[r.Intn(2)]
				}
				before := e.spy.ran
				got := c01Call(e, path, err)
				m.Count("calls_benign_mixed_"+flavour, 1)
				if e.spy.ran == before {
					m.Violate("C01:benign:sql:"+flavour+":mixed:dropped", fmt.Sprintf("case=%d;mixed benign outcomes on one %s conn", 2000+len(flavour), flavour), "call #%d (%s, %v) short-circuited (%v) although every outcome so far was benign", i, path, err, got)
					break
				}
			}
			m.Case("mixed-benign-"+flavour, true)
		}
		// sustained mix of benign and failing outcomes below the trip threshold over all entry points
		for _, share := range []int{10, 30} {
			if !m.Only(4000+share) || len(benignErrs) == 0 {
				continue
			}
			e := c01NewEnv(flavour)
			n := vk.N(3000, 20000)
			var acc, tot int64
			okRow := true
			for i := 0; i < n; i++ {
				path := c01Paths[r.Intn(len(c01Paths))]
				err := benignErrs[r.Intn(len(benignErrs))]
				if r.Intn(100) < share {
					err = []error{boom, io.ErrUnexpectedEOF, context.DeadlineExceeded, c01ProvErr}[r.Intn(4)]
				} else if err == c01CommitEarly || err == c01CommitTxDone {
					path = []string{"Transact", "TransactCtx"}[r.Intn(2)]
				}
				must := 2*(tot-5) <= 3*acc
				before, vb := e.spy.ran, e.spy.verdicts
				got := c01Call(e, path, err)
				m.Count("calls_mixed_success_failure_"+flavour, 1)
				if e.spy.ran == before {
					if must {
						m.Violate("C01:mixed:sql:"+flavour+":rejected-below-threshold", fmt.Sprintf("case=%d;%d%% failing outcomes among benign ones on one %s conn", 4000+share, share, flavour), "call #%d (%s, %v) short-circuited (%v) although the %d admitted calls so far were judged %d acceptable / %d not by the conn's own predicate, i.e. total-5 <= 1.5*successes", i, path, err, got, tot, acc, tot-acc)
						okRow = false
						break
					}
					continue
				}
				if e.spy.verdicts > vb {
					tot++
					if e.spy.lastAcc {
						acc++
					}
				}
			}
			m.Case(fmt.Sprint("mixed-success-failure-", flavour, share, okRow), okRow && tot > acc)
		}
	}
}
