//go:build verif

package kv

// C13 — placement through kv.New: a key written through the store must land on
// the miniredis shard that the reference ring (murmur3 over addr+i, weight% of
// 100 virtual nodes) predicts, and be read back through the store.

import (
	"fmt"
	"sort"
	"strconv"
	"testing"

	"github.com/alicebob/miniredis/v2"
	"github.com/gotid/god/lib/store/cache"
	"github.com/gotid/god/lib/store/redis"
	"github.com/spaolacci/murmur3"
	"verif.local/vk"
)

func c13Predict(addrs []string, weights []int, key string) int {
	type pos struct {
		h uint64
		n int
	}
	var ring []pos
	for n, a := range addrs {
		for i := 0; i < 100*weights[n]/100 && i < 100; i++ {
			ring = append(ring, pos{murmur3.Sum64([]byte(a + strconv.Itoa(i))), n})
		}
	}
	sort.Slice(ring, func(i, j int) bool { return ring[i].h < ring[j].h })
	h := murmur3.Sum64([]byte(key))
	i := sort.Search(len(ring), func(i int) bool { return ring[i].h >= h })
	if i == len(ring) {
		i = 0
	}
	return ring[i].n
}

func TestVerifC13KvPlacement(t *testing.T) {
	m := vk.New(t, "C13", "kv.New over 1-4 miniredis shards with weights from {0,10,50,100}: 150 keys written through the store, shard holding each key compared with the reference ring; read back through the store")
	defer m.Done()
	n := vk.N(25, 400)
	r := m.Rand("kv")
	var placed int64
	for idx := 1; idx <= n; idx++ {
		if !m.Only(idx) {
			continue
		}
		ns := 1 + r.Intn(4)
		var servers []*miniredis.Miniredis
		var conf Config
		var addrs []string
		var weights []int
		for i := 0; i < ns; i++ {
			s, err := miniredis.Run()
			if err != nil {
				m.Inconclusive("miniredis: %v", err)
				return
			}
			servers = append(servers, s)
			w := []int{0, 10, 50, 100, 100}[r.Intn(5)]
			if i == 0 {
				w = 100
			}
			addrs = append(addrs, s.Addr())
			weights = append(weights, w)
			conf = append(conf, cache.NodeConfig{Config: redis.Config{Host: s.Addr(), Type: redis.NodeType}, Weight: w})
		}
		desc := fmt.Sprintf("case=%d;addrs=%v weights=%v", idx, addrs, weights)
		store := New(conf)
		perShard := make([]int, ns)
		for k := 0; k < 150; k++ {
			key := fmt.Sprintf("c13-%d-%d", idx, k)
			if err := store.Set(key, "v"+key); err != nil {
				m.Violate("C13:kv-set-error", desc, "Set(%q): %v", key, err)
				break
			}
			want := c13Predict(addrs, weights, key)
			holders := []int{}
			for i, s := range servers {
				if s.Exists(key) {
					holders = append(holders, i)
				}
			}
			if len(holders) != 1 || holders[0] != want {
				m.Violate("C13:kv-key-on-unexpected-shard", desc, "key %q is held by shards %v, reference ring predicts shard %d", key, holders, want)
				break
			}
			if weights[want] == 0 {
				m.Violate("C13:weight-zero-node-owns-keys", desc, "key %q placed on a weight-0 shard", key)
			}
			perShard[want]++
			placed++
			if v, err := store.Get(key); err != nil || v != "v"+key {
				m.Violate("C13:kv-read-back-mismatch", desc, "Get(%q)=(%q,%v)", key, v, err)
				break
			}
		}
		for _, s := range servers {
			s.Close()
		}
		m.Case(vk.Digest(desc), ns > 1)
		if m.WantSample() {
			m.Sample(map[string]any{"scenario": desc, "keys_per_shard": perShard})
		}
	}
	m.Count("keys_placed_and_checked", placed)
}
