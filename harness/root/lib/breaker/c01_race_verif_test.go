//go:build verif

package breaker

// C01 — schedule-independent clauses under -race (DESIGN.md §3 C01, workload
// paragraph): 32 goroutines on 3 named breakers. Checked per call: a call whose
// req did not run is a proper rejection (ErrServiceUnavailable returned / given
// to the fallback once), an admitted call never sees the fallback, panics are
// re-raised unchanged. Checked at quiescence of every phase: outcomes recorded ==
// admitted calls (history() vs. counters), Get(name) identity, and no rejection at
// all in phases that only add successes to a window already below the threshold.
// The clock is virtual; phases are arranged so that no outcome can age out
// half-way (either everything recorded so far is provably inside the 40-bucket
// window for the whole phase, or everything is provably outside before it starts).

import (
	"fmt"
	"math/rand"
	"runtime"
	"sync"
	"sync/atomic"
	"testing"
	"time"

	"github.com/gotid/god/lib/timex"
	"verif.local/vk"
)

type c01RaceBrk struct {
	name         string
	b            Breaker
	acc, tot     int64 // model at quiescence
	okN, failN   int64 // atomics, current phase
	rejN         int64
	mustAdmitAll bool
}

// c01RaceCall performs one call and checks the per-call clauses. It reports
// whether the call was admitted and, if so, whether a success must have been recorded.
func c01RaceCall(m *vk.M, desc string, b Breaker, name string, kind string, named bool, out string, id int) (admitted, success, ok bool) {
	if kind == "allow" {
		var pr Promise
		var err error
		if named {
			pr, err = Get(name).Allow()
		} else {
			pr, err = b.Allow()
		}
		if err != nil {
			if err != ErrServiceUnavailable {
				m.Violate("C01:reject:wrong-error", desc, "Allow rejected with %v", err)
				return false, false, false
			}
			return false, false, true
		}
		if pr == nil {
			m.Violate("C01:admit:nil-promise", desc, "Allow returned nil promise and nil error")
			return false, false, false
		}
		if out == "ok" {
			pr.Accept()
			return true, true, true
		}
		pr.Reject(c01Reasons[id%len(c01Reasons)])
		return true, false, true
	}
	var ranReq, ranFb int
	var fbErr, reqErr error
	pv := &c01PanicVal{id: id}
	req := func() error {
		ranReq++
		switch out {
		case "aerr":
			reqErr = c01ErrBenign
		case "uerr":
			reqErr = c01ErrBad
		case "unavail":
			reqErr = ErrServiceUnavailable
		case "panic":
			panic(pv)
		}
		return reqErr
	}
	fb := func(err error) error {
		ranFb++
		fbErr = err
		return c01ErrFallback
	}
	acc := c01Pred("std")
	eff := Acceptable(func(err error) bool { return err == nil })
	hasFb := false
	var ret error
	pval, panicked := vk.Recover(func() {
		switch kind {
		case "do":
			if named {
				ret = Do(name, req)
			} else {
				ret = b.Do(req)
			}
		case "doacc":
			eff = acc
			if named {
				ret = DoWithAcceptable(name, req, acc)
			} else {
				ret = b.DoWithAcceptable(req, acc)
			}
		case "dofb":
			hasFb = true
			if named {
				ret = DoWithFallback(name, req, fb)
			} else {
				ret = b.DoWithFallback(req, fb)
			}
		default:
			hasFb = true
			eff = acc
			if named {
				ret = DoWithFallbackAcceptable(name, req, fb, acc)
			} else {
				ret = b.DoWithFallbackAcceptable(req, fb, acc)
			}
		}
	})
	if ranReq > 1 {
		m.Violate("C01:admit:req-ran-twice", desc, "req ran %d times", ranReq)
		return false, false, false
	}
	if ranReq == 0 {
		switch {
		case panicked:
			m.Violate("C01:reject:panicked", desc, "rejected call panicked: %v", pval)
		case hasFb && ranFb == 0:
			m.Violate("C01:reject:fallback-not-run", desc, "%s rejected but fallback did not run (returned %v)", kind, ret)
		case hasFb && ranFb > 1:
			m.Violate("C01:reject:fallback-ran-twice", desc, "fallback ran %d times", ranFb)
		case hasFb && fbErr != ErrServiceUnavailable:
			m.Violate("C01:reject:fallback-wrong-error", desc, "fallback received %v", fbErr)
		case !hasFb && ret != ErrServiceUnavailable:
			m.Violate("C01:reject:wrong-error", desc, "%s did not run req and returned %v", kind, ret)
		default:
			return false, false, true
		}
		return false, false, false
	}
	if out == "unavail" && ranFb > 0 {
		m.Violate("C01:admit:fallback-ran:req-returned-unavailable", desc, "%s: req ran and returned ErrServiceUnavailable itself; the fallback ran %d times and the caller got %v", kind, ranFb, ret)
		return true, false, false
	}
	if ranFb > 0 || (!panicked && ret == ErrServiceUnavailable && reqErr != ErrServiceUnavailable) {
		m.Violate("C01:reject:req-ran", desc, "%s ran the protected function and then treated the call as rejected (fallback ran %d times, returned %v)", kind, ranFb, ret)
		return true, false, false
	}
	if out == "panic" {
		if !panicked {
			m.Violate("C01:panic:swallowed", desc, "req panicked but %s returned %v", kind, ret)
			return true, false, false
		}
		if got, isPv := pval.(*c01PanicVal); !isPv || got != pv {
			m.Violate("C01:panic:value-changed", desc, "recovered %v instead of the value req panicked with", pval)
			return true, false, false
		}
		return true, false, true
	}
	if panicked {
		m.Violate("C01:admit:unexpected-panic", desc, "%s panicked with %v although req returned %v", kind, pval, reqErr)
		return true, false, false
	}
	return true, eff(reqErr), true
}

func TestVerifC01Race(t *testing.T) {
	m := vk.New(t, "C01", "-race: 32 goroutines x 30 calls per phase on 3 named breakers (all Do*/Allow kinds, direct and via package-level named forms, fresh names created concurrently every 8th phase), phase regimes only-success / only-failure / mixed, optional concurrent clock advancer (<= 2 s per phase); per-call rejection/fallback/panic clauses; at quiescence history() == outcomes of admitted calls; no rejection in success-only phases starting below the threshold; Get(name) identity; non-trivial = the phase saw both admissions and rejections")
	defer m.Done()
	if c01SkipIfStuck(m) {
		return
	}
	defer c01SetupClock(m)()
	const G = 32
	const callsPerG = 30
	phases := vk.N(120, 1500)
	r := m.Rand("race")
	kinds := []string{"do", "doacc", "dofb", "dofbacc", "allow"}
	brks := make([]*c01RaceBrk, 3)
	var oldest time.Duration // start of the earliest phase whose outcomes may still be in some window
	haveOutcomes := false
	got := make([][3]Breaker, G)
	for ph := 1; ph <= phases; ph++ {
		// ---- plan (all PRNG draws happen regardless of the replay filter)
		rotate := ph%8 == 1
		dmax := time.Duration(0)
		if r.Intn(10) < 4 {
			dmax = time.Duration(1 + r.Int63n(int64(2*time.Second)))
		}
		regime := []string{"succ", "fail", "fail", "mixed", "mixed"}[r.Intn(5)]
		pf := []int{10, 40, 60, 70, 90}[r.Intn(5)]
		flush := r.Intn(100) < 12
		small := time.Duration(r.Int63n(int64(700 * time.Millisecond)))
		seeds := make([]int64, G)
		for i := range seeds {
			seeds[i] = r.Int63()
		}
		if rotate {
			for i := range brks {
				brks[i] = &c01RaceBrk{name: fmt.Sprintf("%s#race%d#%d", c01Names[r.Intn(len(c01Names))], ph, i)}
			}
			// windows of retired breakers no longer matter
			haveOutcomes = false
			for g := range got {
				got[g] = [3]Breaker{}
			}
		}
		now := timex.Now()
		if haveOutcomes {
			if !flush && now+small+dmax-oldest >= 9500*time.Millisecond {
				small = 0
				if now+dmax-oldest >= 9500*time.Millisecond {
					flush = true
				}
			}
			if flush {
				timex.VerifAdvance(10250*time.Millisecond + small)
				haveOutcomes = false
				for _, b := range brks {
					b.acc, b.tot = 0, 0
				}
				m.Count("phases_after_full_ageing", 1)
			} else {
				timex.VerifAdvance(small)
			}
		} else {
			timex.VerifAdvance(small)
		}
		t0 := timex.Now()
		for _, b := range brks {
			b.mustAdmitAll = regime == "succ" && c01MustAdmit(b.acc, b.tot)
			atomic.StoreInt64(&b.okN, 0)
			atomic.StoreInt64(&b.failN, 0)
			atomic.StoreInt64(&b.rejN, 0)
		}
		desc := fmt.Sprintf("case=%d;phase regime=%s pf=%d advancer=%v rotate=%v model-before=%v", ph, regime, pf, dmax, rotate, []int64{brks[0].acc, brks[0].tot, brks[1].acc, brks[1].tot, brks[2].acc, brks[2].tot})
		m.Current(desc)
		v0 := m.ViolCount()

		// ---- run
		var wg sync.WaitGroup
		done := make(chan struct{})
		for g := 0; g < G; g++ {
			wg.Add(1)
			go func(g int) {
				defer wg.Done()
				lr := rand.New(rand.NewSource(seeds[g]))
				for c := 0; c < callsPerG; c++ {
					bi := lr.Intn(3)
					rb := brks[bi]
					inst := Get(rb.name)
					if got[g][bi] == nil {
						got[g][bi] = inst
					} else if got[g][bi] != inst {
						m.Violate("C01:registry:identity", desc, "goroutine %d: Get(%q) returned a different instance than before", g, rb.name)
						return
					}
					kind := kinds[lr.Intn(len(kinds))]
					bad := false
					switch regime {
					case "fail":
						bad = true
					case "mixed":
						bad = lr.Intn(100) < pf
					}
					out := "ok"
					if bad {
						out = []string{"uerr", "uerr", "panic", "unavail"}[lr.Intn(4)]
						if kind == "allow" {
							out = "uerr"
						}
						if (kind == "do" || kind == "dofb") && lr.Intn(3) == 0 {
							out = "aerr" // not acceptable under the default predicate
						}
					} else if (kind == "doacc" || kind == "dofbacc") && lr.Intn(2) == 0 {
						out = "aerr"
					}
					admitted, success, ok := c01RaceCall(m, desc, inst, rb.name, kind, lr.Intn(2) == 0, out, g*1000+c)
					if !ok {
						return
					}
					switch {
					case !admitted:
						atomic.AddInt64(&rb.rejN, 1)
						if rb.mustAdmitAll {
							m.Violate("C01:race:reject:below-threshold", desc, "breaker %q: rejected in a phase that only adds successes to a window with accepts=%d total=%d", rb.name, rb.acc, rb.tot)
							return
						}
					case success:
						atomic.AddInt64(&rb.okN, 1)
					default:
						atomic.AddInt64(&rb.failN, 1)
					}
				}
			}(g)
		}
		var awg sync.WaitGroup
		if dmax > 0 {
			awg.Add(1)
			go func(seed int64) {
				defer awg.Done()
				lr := rand.New(rand.NewSource(seed))
				left := dmax
				for left > 0 {
					select {
					case <-done:
						return
					default:
					}
					d := time.Duration(1 + lr.Int63n(int64(dmax)/8+1))
					if d > left {
						d = left
					}
					timex.VerifAdvance(d)
					left -= d
					runtime.Gosched()
				}
			}(seeds[0] ^ 0x5bd1e995)
			m.Count("phases_with_concurrent_clock_advance", 1)
		}
		if !vk.Within(c01Watchdog, wg.Wait) {
			close(done)
			c01ReportHang(m, desc)
			return
		}
		close(done)
		awg.Wait()

		if m.ViolCount() > v0 {
			break
		}
		// ---- quiescence
		var admittedPh, rejectedPh int64
		t1 := timex.Now()
		for bi, rb := range brks {
			ok, fail, rej := atomic.LoadInt64(&rb.okN), atomic.LoadInt64(&rb.failN), atomic.LoadInt64(&rb.rejN)
			admittedPh += ok + fail
			rejectedPh += rej
			rb.acc += ok
			rb.tot += ok + fail
			m.Count("admitted", ok+fail)
			m.Count("rejected", rej)
			m.Count("recorded_success_expected", ok)
			m.Count("recorded_failure_expected", fail)
			if rb.tot > 0 && !haveOutcomes {
				haveOutcomes = true
				oldest = t0
			}
			var first Breaker
			for g := 0; g < G; g++ {
				if got[g][bi] == nil {
					continue
				}
				if first == nil {
					first = got[g][bi]
				} else if got[g][bi] != first {
					m.Violate("C01:registry:identity", desc, "Get(%q) handed different instances to concurrent goroutines", rb.name)
				}
			}
			if first == nil {
				continue
			}
			rb.b = first
			m.Count("identity_checks", 1)
			if gb := c01Inner(first); gb != nil {
				ra, rt := gb.history()
				m.Count("quiescent_history_comparisons", 1)
				if ra != rb.acc || rt != rb.tot {
					sub := "misclassified"
					if rt < rb.tot {
						sub = "missing"
					} else if rt > rb.tot {
						sub = "extra"
					}
					m.Violate("C01:race:accounting:"+sub, desc, "breaker %q at quiescence (virtual time moved %v during the phase): history() = (accepts %d, total %d), admitted calls recorded by the harness = (successes %d, total %d)", rb.name, t1-t0, ra, rt, rb.acc, rb.tot)
				}
			}
		}
		if m.ViolCount() > v0 {
			break
		}
		m.Count("phases", 1)
		m.Count("phases_"+regime, 1)
		m.Case(vk.Digest(ph, regime, admittedPh, rejectedPh), admittedPh > 0 && rejectedPh > 0)
		if m.WantSample() && ph%23 == 2 {
			m.Sample(map[string]any{"phase": ph, "regime": regime, "fail_percent_if_mixed": pf, "clock_moved_during_phase": (t1 - t0).String(), "admitted": admittedPh, "rejected": rejectedPh, "model_after": []int64{brks[0].acc, brks[0].tot, brks[1].acc, brks[1].tot, brks[2].acc, brks[2].tot}})
		}
	}
	lock.Lock()
	for n := range breakers {
		delete(breakers, n)
	}
	lock.Unlock()
}
