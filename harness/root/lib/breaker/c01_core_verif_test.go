//go:build verif

package breaker

// C01 — circuit breaker monitor, core part (DESIGN.md §3 C01).
//
// The real breaker (New / Get(name) / package-level Do*) runs on the virtual
// clock of lib/timex. A reference model (per breaker: outcomes per 250 ms bucket
// counted from the breaker's birth, 40 buckets visible) is run side by side:
//   (a) model says total-5 <= 1.5*accepts  => the call must be admitted;
//   (b) a call whose req did not run is a rejection: ErrServiceUnavailable is
//       returned / handed to the fallback exactly once, nothing is recorded;
//   (c) an admitted call records exactly one outcome (success iff the
//       acceptable-predicate in effect accepts the error; panic = failure and the
//       panic value is re-raised unchanged);
//   (d) googleBreaker.history() equals the model before and after every step;
//   (e) rejection frequency of rejectable calls vs. the model's drop ratio
//       (fixed sample = all rejectable calls of the run, martingale bound).
// The individual random decision of a rejectable call is never asserted.

import (
	"errors"
	"fmt"
	"math"
	"math/rand"
	"os"
	"strings"
	"testing"
	"time"

	"github.com/gotid/god/lib/logx"
	"github.com/gotid/god/lib/stat"
	"github.com/gotid/god/lib/timex"
	"verif.local/vk"
)

const (
	c01Bucket  = 250 * time.Millisecond // statement: 10 s trailing window, 40 buckets
	c01Buckets = 40
)

var (
	c01ErrBenign   = errors.New("c01: error the caller's predicate accepts")
	c01ErrBad      = errors.New("c01: error the caller's predicate does not accept")
	c01ErrFallback = errors.New("c01: fallback result")
)

type c01PanicVal struct{ id int }

// c01Reasons: boundary family of Promise.Reject reasons.
var c01Reasons = []string{"c01 reason", "", " ", "\n", strings.Repeat("长原因 ", 2000), "\x00\xff not utf-8", "503 Service Unavailable"}

// ---------------------------------------------------------------- adapter

// c01Inner digs the googleBreaker out of a Breaker built by New (the only place
// where unexported structure is relied upon).
func c01Inner(b Breaker) *googleBreaker {
	cb, ok := b.(*circuitBreaker)
	if !ok {
		return nil
	}
	lt, ok := cb.throttle.(loggedThrottle)
	if !ok {
		return nil
	}
	gb, _ := lt.internalThrottle.(*googleBreaker)
	return gb
}

func c01Forget(names ...string) {
	lock.Lock()
	for _, n := range names {
		delete(breakers, n)
	}
	lock.Unlock()
}

func c01Quiet() {
	stat.SetReporter(nil)
	logx.Disable()
}

// ---------------------------------------------------------------- liveness guard

// c01Watchdog bounds one scenario (a history, a phase) that takes milliseconds on
// a healthy tree. Generous because the machine is shared.
const c01Watchdog = 45 * time.Second

// c01Stuck is set once an entry point of the registry was seen not to return;
// later tests of the same process do not start (they would block on the same lock).
var c01Stuck bool

// c01ReportHang classifies a fired watchdog: goroutines parked inside the named
// registry's own functions (Get / NoBreakerFor / the package-level Do* forms) on
// its lock are the witness of "Get(name) / Do(name, ...) never returns".
func c01ReportHang(m *vk.M, desc string) {
	c01Stuck = true
	var parked []string
	for _, fn := range []string{"lib/breaker.Get(", "lib/breaker.NoBreakerFor(", "lib/breaker.do("} {
		for _, b := range vk.GoroutinesIn(fn) {
			if strings.Contains(b, "sync.(*RWMutex)") || strings.Contains(b, "sync.(*Mutex)") || strings.Contains(b, "semacquire") {
				parked = append(parked, b)
			}
		}
	}
	if len(parked) == 0 {
		// a Do* / Allow / Accept / Reject of a breaker that never returns: goroutines parked on a
		// lock inside the library's own call path (not in the harness)
		var inCall []string
		for _, fn := range []string{"lib/breaker.loggedThrottle.", "lib/breaker.(*googleBreaker).", "lib/breaker.(*circuitBreaker).", "lib/breaker.promiseWithReason.", "lib/breaker.(*errorWindow).", "lib/collection.(*RollingWindow)."} {
			for _, b := range vk.GoroutinesIn(fn) {
				if strings.Contains(b, "sync.(*RWMutex)") || strings.Contains(b, "sync.(*Mutex)") || strings.Contains(b, "semacquire") {
					inCall = append(inCall, b)
				}
			}
		}
		if len(inCall) > 0 {
			dump := inCall[0]
			m.Violate("C01:call:hang", desc, "a call through the breaker (Do*/Allow/Accept/Reject) did not return within %v (it takes microseconds on a healthy tree); %d goroutine(s) parked on a lock inside the breaker's call path, first:\n%s", c01Watchdog, len(inCall), dump)
			return
		}
	}
	if len(parked) > 0 {
		dump := strings.Join(parked, "\n\n")
		m.Violate("C01:registry:hang", desc, "a call into the named registry did not return within %v (it takes microseconds on a healthy tree); %d goroutine(s) parked on the registry lock:\n%s", c01Watchdog, len(parked), dump)
		return
	}
	m.Inconclusive("scenario did not finish within %v and no goroutine is parked in the registry (%s)", c01Watchdog, desc)
}

// c01Guarded runs f under the watchdog, recovering a panic of f.
func c01Guarded(m *vk.M, desc string, f func()) (any, bool, bool) {
	var pval any
	var panicked bool
	ok := vk.Within(c01Watchdog, func() { pval, panicked = vk.Recover(f) })
	if !ok {
		c01ReportHang(m, desc)
		return nil, false, true
	}
	return pval, panicked, false
}

func c01SkipIfStuck(m *vk.M) bool {
	if c01Stuck {
		m.Note("not started: an earlier test of this process found the registry lock stuck (C01:registry:hang)")
	}
	return c01Stuck
}

// ---------------------------------------------------------------- model

type c01Slot struct {
	id       int64
	acc, tot int64
}

type c01Model struct {
	birth time.Duration
	ring  [64]c01Slot
}

func (md *c01Model) bucketOf(now time.Duration) int64 { return int64((now - md.birth) / c01Bucket) }

func (md *c01Model) add(now time.Duration, success bool) {
	id := md.bucketOf(now)
	s := &md.ring[id%64]
	if s.id != id {
		*s = c01Slot{id: id}
	}
	s.tot++
	if success {
		s.acc++
	}
}

func (md *c01Model) window(now time.Duration) (acc, tot int64) {
	nb := md.bucketOf(now)
	for id := nb - (c01Buckets - 1); id <= nb; id++ {
		if id < 0 {
			continue
		}
		s := &md.ring[id%64]
		if s.id == id {
			acc += s.acc
			tot += s.tot
		}
	}
	return
}

// mustAdmit: statement clause "rejects only when (total-5) exceeds 1.5 x successes".
func c01MustAdmit(acc, tot int64) bool { return 2*(tot-5) <= 3*acc }

// c01DropRatio is the reference rejection probability (SRE book eq. 21-1 with K=1.5, protection 5).
func c01DropRatio(acc, tot int64) float64 {
	return math.Max(0, (float64(tot-5)-1.5*float64(acc))/float64(tot+1))
}

// ---------------------------------------------------------------- scenario

type c01Step struct {
	B     int           `json:"b"`               // breaker index within the history
	Kind  string        `json:"k"`               // do doacc dofb dofbacc allow resolve
	Named bool          `json:"n,omitempty"`     // through the package-level named form
	Out   string        `json:"o,omitempty"`     // ok aerr uerr panic
	Pred  string        `json:"p,omitempty"`     // std all none (for *acc kinds)
	Adv   time.Duration `json:"adv,omitempty"`   // clock advance before the step
	In    time.Duration `json:"in,omitempty"`    // clock advance while req runs
	Defer bool          `json:"defer,omitempty"` // allow: resolve the promise in a later step
	Edge  int           `json:"edge,omitempty"`  // 1: advance to the next bucket boundary -1ns, 2: exactly to it
}

type c01Pending struct {
	p   Promise
	out string
}

type c01Brk struct {
	name    string
	b       Breaker
	gb      *googleBreaker
	md      c01Model
	pending []c01Pending
}

type c01Band struct {
	n, r   int64
	sp, sv float64
}

type c01Stats struct {
	all   c01Band
	bands [3]c01Band // p < .15, .15 <= p < .6, p >= .6
}

func (s *c01Stats) record(p float64, rejected bool) {
	bi := 1
	if p < 0.15 {
		bi = 0
	} else if p >= 0.6 {
		bi = 2
	}
	for _, b := range []*c01Band{&s.all, &s.bands[bi]} {
		b.n++
		b.sp += p
		b.sv += p * (1 - p)
		if rejected {
			b.r++
		}
	}
}

// c01StatCheck: S = R - sum(p) is a martingale with increments in [-1,1] and
// predictable variance sv. Threshold 8*sqrt(sv)+25 dominates the Freedman bound
// for 1e-12 at every sv (and is wider than the 6 sigma of the design entry).
func c01StatCheck(m *vk.M, label string, b c01Band, minN int64) {
	if b.n < minN {
		m.Note("statistical clause %s: only %d rejectable calls (< %d), not evaluated", label, b.n, minN)
		return
	}
	dev := float64(b.r) - b.sp
	thr := 8*math.Sqrt(b.sv) + 25
	m.Note("statistical clause %s: rejectable=%d rejected=%d expected=%.1f sigma=%.1f deviation=%.1f threshold=%.1f", label, b.n, b.r, b.sp, math.Sqrt(b.sv), dev, thr)
	m.Count("stat_clause_evaluated", 1)
	desc := fmt.Sprintf("all rejectable calls of the run, band %s", label)
	if dev < -thr {
		m.Violate("C01:stat:rejection-frequency:too-few", desc, "band %s: %d rejections over %d rejectable calls, model drop ratio predicts %.1f (sigma %.1f): deviation %.1f beyond -%.1f", label, b.r, b.n, b.sp, math.Sqrt(b.sv), dev, thr)
	} else if dev > thr {
		m.Violate("C01:stat:rejection-frequency:too-many", desc, "band %s: %d rejections over %d rejectable calls, model drop ratio predicts %.1f (sigma %.1f): deviation %.1f beyond +%.1f", label, b.r, b.n, b.sp, math.Sqrt(b.sv), dev, thr)
	}
}

type c01Run struct {
	m     *vk.M
	stats *c01Stats
	idx   int
	trace []string // last steps, for the witness
	// per history observations
	rejected, admitted, aged int64
}

func (r *c01Run) desc(step int) string {
	t := r.trace
	if len(t) > 25 {
		t = t[len(t)-25:]
	}
	return fmt.Sprintf("case=%d;step=%d;last steps (oldest first): %s", r.idx, step, strings.Join(t, " | "))
}

func c01Pred(name string) Acceptable {
	switch name {
	case "all":
		return func(error) bool { return true }
	case "none":
		return func(error) bool { return false }
	default:
		return func(err error) bool { return err == nil || err == c01ErrBenign }
	}
}

// exec runs one step against the real breaker and the model. false = a violation
// was recorded (the caller abandons the history).
func (r *c01Run) exec(step int, hb *c01Brk, st c01Step) bool {
	m := r.m
	switch st.Edge {
	case 1, 2:
		now := timex.Now()
		next := hb.md.birth + time.Duration(hb.md.bucketOf(now)+1)*c01Bucket
		d := next - now
		if st.Edge == 1 {
			d--
		}
		if d > 0 {
			timex.VerifAdvance(d)
		}
		m.Count("advance_to_bucket_edge", 1)
	default:
		if st.Adv > 0 {
			timex.VerifAdvance(st.Adv)
			m.Count("advance", 1)
		}
	}
	now := timex.Now()
	a0, t0 := hb.md.window(now)
	r.trace = append(r.trace, fmt.Sprintf("#%d t=%v b%d %s", step, now-hb.md.birth, st.B, vk.JSON(st)))
	if len(r.trace) > 60 {
		r.trace = append([]string(nil), r.trace[len(r.trace)-30:]...)
	}
	if hb.gb != nil {
		ra, rt := hb.gb.history()
		m.Count("history_comparisons", 1)
		if ra != a0 || rt != t0 {
			m.Violate("C01:window:ageing", r.desc(step), "after advancing the clock to birth+%v history() = (accepts %d, total %d), model of the trailing 40 buckets = (%d, %d)", now-hb.md.birth, ra, rt, a0, t0)
			return false
		}
	}

	if st.Kind == "resolve" {
		if len(hb.pending) == 0 {
			return true
		}
		p := hb.pending[0]
		hb.pending = hb.pending[1:]
		return r.resolve(step, hb, p, now, a0, t0)
	}

	must := c01MustAdmit(a0, t0)
	p := c01DropRatio(a0, t0)
	if must {
		m.Count("calls_in_must_admit_state", 1)
	} else {
		m.Count("calls_in_rejectable_state", 1)
	}
	sub := "mixed-window"
	if t0 == 0 {
		sub = "empty-window"
	} else if a0 == t0 {
		sub = "only-successes"
	}

	if st.Kind == "allow" {
		var pr Promise
		var err error
		if st.Named {
			pr, err = Get(hb.name).Allow()
		} else {
			pr, err = hb.b.Allow()
		}
		m.Count("call_allow", 1)
		if err != nil {
			r.rejected++
			m.Count("rejected", 1)
			if !must {
				r.stats.record(p, true)
			}
			if must {
				m.Violate("C01:reject:below-threshold:"+sub, r.desc(step), "Allow rejected (%v) although window has accepts=%d total=%d, i.e. total-5 <= 1.5*accepts", err, a0, t0)
				return false
			}
			if err != ErrServiceUnavailable {
				m.Violate("C01:reject:wrong-error", r.desc(step), "Allow rejected with %v, want ErrServiceUnavailable", err)
				return false
			}
			return r.compare(step, hb, "rejected-allow", timex.Now(), "C01:reject:outcome-recorded")
		}
		r.admitted++
		m.Count("admitted", 1)
		if !must {
			r.stats.record(p, false)
		}
		if pr == nil {
			m.Violate("C01:admit:nil-promise", r.desc(step), "Allow returned nil promise and nil error")
			return false
		}
		if st.Defer {
			hb.pending = append(hb.pending, c01Pending{p: pr, out: st.Out})
			m.Count("promise_deferred", 1)
			// nothing may have been recorded yet
			return r.compare(step, hb, "allow-pending", timex.Now(), "C01:accounting:promise-pending")
		}
		if st.In > 0 {
			timex.VerifAdvance(st.In)
		}
		return r.resolve(step, hb, c01Pending{p: pr, out: st.Out}, timex.Now(), a0, t0)
	}

	// Do* forms
	var ranReq, ranFb int
	var fbErr, reqErr error
	pv := &c01PanicVal{id: step}
	req := func() error {
		ranReq++
		if st.In > 0 {
			timex.VerifAdvance(st.In)
		}
		switch st.Out {
		case "ok":
			reqErr = nil
		case "aerr":
			reqErr = c01ErrBenign
		case "uerr":
			reqErr = c01ErrBad
		case "unavail": // the protected function itself fails with the breaker's sentinel (e.g. a nested open breaker)
			reqErr = ErrServiceUnavailable
		case "panic":
			panic(pv)
		}
		return reqErr
	}
	fb := func(err error) error {
		ranFb++
		fbErr = err
		return c01ErrFallback
	}
	acc := c01Pred(st.Pred)
	eff := Acceptable(func(err error) bool { return err == nil }) // predicate in effect
	hasFb := false
	var ret error
	pval, panicked := vk.Recover(func() {
		switch st.Kind {
		case "do":
			if st.Named {
				ret = Do(hb.name, req)
			} else {
				ret = hb.b.Do(req)
			}
		case "doacc":
			eff = acc
			if st.Named {
				ret = DoWithAcceptable(hb.name, req, acc)
			} else {
				ret = hb.b.DoWithAcceptable(req, acc)
			}
		case "dofb":
			hasFb = true
			if st.Named {
				ret = DoWithFallback(hb.name, req, fb)
			} else {
				ret = hb.b.DoWithFallback(req, fb)
			}
		case "dofbacc":
			hasFb = true
			eff = acc
			if st.Named {
				ret = DoWithFallbackAcceptable(hb.name, req, fb, acc)
			} else {
				ret = hb.b.DoWithFallbackAcceptable(req, fb, acc)
			}
		}
	})
	m.Count("call_"+st.Kind, 1)
	if st.Named {
		m.Count("call_via_named_registry", 1)
	}
	now2 := timex.Now()

	if ranReq > 1 {
		m.Violate("C01:admit:req-ran-twice", r.desc(step), "req ran %d times in one call", ranReq)
		return false
	}
	if ranReq == 0 {
		// ---- rejected
		r.rejected++
		m.Count("rejected", 1)
		if !must {
			r.stats.record(p, true)
		}
		if must {
			m.Violate("C01:reject:below-threshold:"+sub, r.desc(step), "%s did not run req (returned %v) although the window has accepts=%d total=%d, i.e. total-5 <= 1.5*accepts", st.Kind, ret, a0, t0)
			return false
		}
		if panicked {
			m.Violate("C01:reject:panicked", r.desc(step), "rejected call panicked with %v", pval)
			return false
		}
		if hasFb {
			m.Count("rejected_with_fallback", 1)
			switch {
			case ranFb == 0:
				m.Violate("C01:reject:fallback-not-run", r.desc(step), "%s rejected the call but the fallback did not run (returned %v)", st.Kind, ret)
				return false
			case ranFb > 1:
				m.Violate("C01:reject:fallback-ran-twice", r.desc(step), "fallback ran %d times", ranFb)
				return false
			case fbErr != ErrServiceUnavailable:
				m.Violate("C01:reject:fallback-wrong-error", r.desc(step), "fallback received %v, want ErrServiceUnavailable", fbErr)
				return false
			}
		} else if ret != ErrServiceUnavailable {
			m.Violate("C01:reject:wrong-error", r.desc(step), "%s did not run req and returned %v, want ErrServiceUnavailable", st.Kind, ret)
			return false
		}
		return r.compare(step, hb, "rejected-"+st.Kind, now2, "C01:reject:outcome-recorded")
	}

	// ---- admitted (req ran once)
	r.admitted++
	m.Count("admitted", 1)
	m.Count("outcome_"+st.Out, 1)
	if !must {
		r.stats.record(p, false)
	}
	if st.Out == "unavail" {
		// req ran, so the call was admitted: the fallback is for rejected calls only and
		// the caller must see req's own error
		if ranFb > 0 {
			m.Violate("C01:admit:fallback-ran:req-returned-unavailable", r.desc(step), "%s: req ran and returned ErrServiceUnavailable itself; the fallback ran %d times (with %v) and the caller got %v", st.Kind, ranFb, fbErr, ret)
			return false
		}
		if !panicked && ret != ErrServiceUnavailable {
			m.Violate("C01:admit:req-error-replaced:req-returned-unavailable", r.desc(step), "%s: req ran and returned ErrServiceUnavailable, the caller got %v", st.Kind, ret)
			return false
		}
	}
	if ranFb > 0 || (!panicked && ret == ErrServiceUnavailable && reqErr != ErrServiceUnavailable) {
		m.Violate("C01:reject:req-ran", r.desc(step), "%s ran the protected function and then treated the call as rejected (fallback ran %d times with %v, returned %v)", st.Kind, ranFb, fbErr, ret)
		return false
	}
	success := false
	if st.Out == "panic" {
		m.Count("panics_injected", 1)
		if !panicked {
			m.Violate("C01:panic:swallowed", r.desc(step), "req panicked but %s returned normally with %v", st.Kind, ret)
			return false
		}
		if got, ok := pval.(*c01PanicVal); !ok || got != pv {
			m.Violate("C01:panic:value-changed", r.desc(step), "req panicked with %p, caller recovered %v", pv, pval)
			return false
		}
		m.Count("panics_reraised_identical", 1)
	} else {
		if panicked {
			m.Violate("C01:admit:unexpected-panic", r.desc(step), "%s panicked with %v although req returned %v", st.Kind, pval, reqErr)
			return false
		}
		success = eff(reqErr)
	}
	hb.md.add(now2, success)
	if success {
		m.Count("recorded_success_expected", 1)
	} else {
		m.Count("recorded_failure_expected", 1)
	}
	return r.compare(step, hb, st.Out, now2, "C01:accounting:"+st.Out)
}

func (r *c01Run) resolve(step int, hb *c01Brk, p c01Pending, now time.Duration, a0, t0 int64) bool {
	kind := "promise-accept"
	if p.out == "ok" {
		p.p.Accept()
		hb.md.add(now, true)
		r.m.Count("promise_accept", 1)
	} else {
		kind = "promise-reject"
		p.p.Reject(c01Reasons[step%len(c01Reasons)]) // the reason text must not matter for the accounting
		hb.md.add(now, false)
		r.m.Count("promise_reject", 1)
	}
	return r.compare(step, hb, kind, now, "C01:accounting:"+kind)
}

// compare checks history() against the model at virtual time now.
func (r *c01Run) compare(step int, hb *c01Brk, what string, now time.Duration, sig string) bool {
	if hb.gb == nil {
		return true
	}
	ma, mt := hb.md.window(now)
	ra, rt := hb.gb.history()
	r.m.Count("history_comparisons", 1)
	if ra == ma && rt == mt {
		return true
	}
	if strings.HasPrefix(sig, "C01:accounting") {
		switch {
		case rt < mt:
			sig += ":missing"
		case rt > mt:
			sig += ":extra"
		default:
			sig += ":misclassified"
		}
	}
	r.m.Violate(sig, r.desc(step), "after %s at birth+%v: history() = (accepts %d, total %d), model = (accepts %d, total %d)", what, now-hb.md.birth, ra, rt, ma, mt)
	return false
}

// ---------------------------------------------------------------- generators

var c01Advances = []time.Duration{
	time.Millisecond, 249 * time.Millisecond, 250 * time.Millisecond, 251 * time.Millisecond,
	time.Second, 9740 * time.Millisecond, 9750 * time.Millisecond, 9760 * time.Millisecond,
	9990 * time.Millisecond, 10 * time.Second, 10010 * time.Millisecond, time.Hour,
}

func c01GenAdvance(r *rand.Rand, regime int, st *c01Step) {
	x := r.Intn(1000)
	switch regime {
	case 0: // dense: many calls per bucket
		switch {
		case x < 700:
		case x < 900:
			st.Adv = time.Millisecond
		case x < 960:
			st.Adv = time.Duration(r.Int63n(int64(300 * time.Millisecond)))
		case x < 980:
			st.Edge = 1 + r.Intn(2)
		case x < 996:
			st.Adv = c01Advances[r.Intn(len(c01Advances)-1)]
		default:
			st.Adv = c01Advances[r.Intn(len(c01Advances))]
		}
	case 1: // bucket scale
		switch {
		case x < 300:
		case x < 450:
			st.Adv = time.Millisecond
		case x < 800:
			st.Adv = c01Advances[1+r.Intn(3)]
		case x < 900:
			st.Edge = 1 + r.Intn(2)
		case x < 960:
			st.Adv = time.Duration(r.Int63n(int64(2 * time.Second)))
		case x < 995:
			st.Adv = c01Advances[r.Intn(len(c01Advances)-1)]
		default:
			st.Adv = time.Hour
		}
	default: // sparse: seconds, window boundaries
		switch {
		case x < 200:
		case x < 500:
			st.Adv = time.Duration(r.Int63n(int64(3 * time.Second)))
		case x < 900:
			st.Adv = c01Advances[r.Intn(len(c01Advances)-1)]
		case x < 960:
			st.Edge = 1 + r.Intn(2)
		case x < 990:
			st.Adv = time.Duration(r.Int63n(int64(11 * time.Second)))
		default:
			st.Adv = time.Hour
		}
	}
}

var c01FailRates = []int{0, 0, 5, 30, 50, 58, 62, 66, 72, 80, 90, 97, 100, 100}

func c01GenHistory(r *rand.Rand) []c01Step {
	n := 200 + r.Intn(r.Intn(1801)+1)
	steps := make([]c01Step, 0, n)
	nb := 3
	for len(steps) < n {
		phase := 20 + r.Intn(400)
		fail := c01FailRates[r.Intn(len(c01FailRates))]
		regime := 0
		if x := r.Intn(10); x >= 8 {
			regime = 2
		} else if x >= 6 {
			regime = 1
		}
		focus := r.Intn(nb + 1) // nb = spread over all breakers
		for i := 0; i < phase && len(steps) < n; i++ {
			st := c01Step{B: focus}
			if focus == nb || r.Intn(10) == 0 {
				st.B = r.Intn(nb)
			}
			c01GenAdvance(r, regime, &st)
			bad := r.Intn(100) < fail
			switch x := r.Intn(100); {
			case x < 22:
				st.Kind = "do"
			case x < 44:
				st.Kind = "doacc"
			case x < 60:
				st.Kind = "dofb"
			case x < 76:
				st.Kind = "dofbacc"
			case x < 93:
				st.Kind = "allow"
			default:
				st.Kind = "resolve"
			}
			st.Named = r.Intn(3) == 0
			if st.Kind == "allow" {
				st.Out = "ok"
				if bad {
					st.Out = "uerr"
				}
				st.Defer = r.Intn(4) == 0
			} else if st.Kind != "resolve" {
				st.Pred = "std"
				if x := r.Intn(40); x == 0 {
					st.Pred = "all"
				} else if x == 1 {
					st.Pred = "none"
				}
				if bad {
					st.Out = "uerr"
					if r.Intn(6) == 0 {
						st.Out = "panic"
					}
				} else {
					st.Out = "ok"
					if r.Intn(3) == 0 {
						st.Out = "aerr" // success only under an accepting predicate; failure for Do/DoWithFallback
					}
				}
			}
			if st.Kind != "allow" && st.Kind != "resolve" && r.Intn(12) == 0 {
				if bad {
					st.Out = "unavail"
					if (st.Kind == "doacc" || st.Kind == "dofbacc") && r.Intn(4) == 0 {
						st.Pred = "all" // acceptable error under an accept-all predicate
					}
				} else if st.Kind == "doacc" || st.Kind == "dofbacc" {
					st.Out, st.Pred = "unavail", "all"
				}
			}
			if r.Intn(25) == 0 {
				st.In = c01Advances[r.Intn(6)]
			}
			steps = append(steps, st)
		}
	}
	return steps
}

var c01Names = []string{"svc", "GET://a/b", "名字/方法", "x y\tz", strings.Repeat("n", 300), "a", "rpc:///target/pkg.Svc/Method"}

// c01NewBreakers creates the breakers of one history at unaligned births:
// index 0 anonymous via New(), the others via the named registry.
func c01NewBreakers(m *vk.M, r *rand.Rand, tag string, n int) ([]*c01Brk, []string) {
	var out []*c01Brk
	var names []string
	for i := 0; i < n; i++ {
		timex.VerifAdvance(time.Duration(r.Int63n(int64(time.Second))))
		hb := &c01Brk{}
		if i == 0 {
			hb.md.birth = timex.Now()
			hb.b = New()
			hb.name = hb.b.Name()
			// make the anonymous breaker reachable for the named forms too? no: New() is unregistered by design
		} else {
			hb.name = fmt.Sprintf("%s#%s#%d", c01Names[r.Intn(len(c01Names))], tag, i)
			// round 13: the second named breaker of a history differs from the first one only by letter case or
			// by a surrounding blank. These are different names ("for every breaker name"): a registry that folds
			// them onto one breaker makes one name's failures cut off the other.
			if i >= 2 && len(names) > 0 {
				prev := names[len(names)-1]
				switch up := strings.ToUpper(prev); {
				case up != prev && i%2 == 0 && len(tag)%2 == 1:
					hb.name = up
				case len(tag)%3 == 0:
					hb.name = " " + prev
				default:
					hb.name = prev + " "
				}
			}
			hb.md.birth = timex.Now()
			hb.b = Get(hb.name)
			names = append(names, hb.name)
		}
		hb.gb = c01Inner(hb.b)
		out = append(out, hb)
	}
	return out, names
}

func c01SetupClock(m *vk.M) func() {
	c01Quiet()
	start := 1000*time.Hour + time.Duration(m.Rand("clock").Int63n(int64(time.Hour)))
	timex.VerifFakeClock(start)
	return timex.VerifRealClock
}

// ---------------------------------------------------------------- tests

// TestVerifC01Model: seeded histories against the reference model.
func TestVerifC01Model(t *testing.T) {
	m := vk.New(t, "C01", "seeded histories of 200-2000 steps on 3 breakers (New + 2 registry names): Do/DoWithAcceptable/DoWithFallback/DoWithFallbackAcceptable/Allow(+deferred Accept/Reject), direct and via the package-level named forms; outcomes ok / acceptable err / unacceptable err / req itself returning ErrServiceUnavailable / panic under predicates std/all/none; virtual-clock advances {0,1ms,249/250/251ms,1s,9.74-9.76s,9.99/10/10.01s,1h,uniform,bucket edge -1ns/exact} before and inside calls; model of 40x250ms buckets compared with history() before and after every step; non-trivial = at least one rejection observed in the history")
	defer m.Done()
	if c01SkipIfStuck(m) {
		return
	}
	defer c01SetupClock(m)()
	n := vk.N(300, 20000)
	r := m.Rand("model")
	stats := &c01Stats{}
	skippedNoted := false
	for idx := 1; idx <= n; idx++ {
		steps := c01GenHistory(r)
		br := rand.New(rand.NewSource(r.Int63()))
		if !m.Only(idx) {
			continue
		}
		m.Current(fmt.Sprintf("case=%d;history of %d steps", idx, len(steps)))
		run := &c01Run{m: m, stats: stats, idx: idx}
		var names []string
		pval, panicked, hung := c01Guarded(m, fmt.Sprintf("case=%d;history of %d steps", idx, len(steps)), func() {
			var brks []*c01Brk
			brks, names = c01NewBreakers(m, br, fmt.Sprint(idx), 3)
			for _, hb := range brks {
				if hb.gb == nil && !skippedNoted {
					skippedNoted = true
					m.Skip("googleBreaker not reachable through New(): history() comparison (clauses c-count, d) skipped")
				}
			}
			for i, hb := range brks[1:] {
				if Get(hb.name) != hb.b {
					m.Violate("C01:registry:identity", run.desc(-i), "Get(%q) returned a different breaker on the second call", hb.name)
					return
				}
			}
			for i, st := range steps {
				hb := brks[st.B]
				if st.B == 0 {
					st.Named = false
				}
				if st.Named && Get(hb.name) != hb.b {
					m.Violate("C01:registry:identity", run.desc(i), "Get(%q) no longer returns the breaker it returned first", hb.name)
					return
				}
				if !run.exec(i, hb, st) {
					return
				}
			}
			// resolve what is still pending
			for _, hb := range brks {
				for len(hb.pending) > 0 {
					if !run.exec(len(steps), hb, c01Step{Kind: "resolve", Adv: time.Duration(br.Int63n(int64(time.Second)))}) {
						return
					}
				}
			}
		})
		if hung {
			return
		}
		if panicked {
			m.Violate("C01:harness-observed-panic", run.desc(-1), "unexpected panic escaped a history: %v", pval)
		}
		c01Forget(names...)
		m.Case(vk.Digest(idx, len(steps), run.rejected, run.admitted), run.rejected > 0)
		m.Count("histories", 1)
		if run.rejected > 0 {
			m.Count("histories_with_rejections", 1)
		}
		if m.WantSample() && idx%53 == 1 {
			m.Sample(map[string]any{"case": idx, "steps": len(steps), "admitted": run.admitted, "rejected": run.rejected, "first_steps": steps[:6]})
		}
		if idx%200 == 0 {
			m.Progress()
		}
	}
	if m.ViolCount() == 0 || stats.all.n >= 2000 {
		c01StatCheck(m, "all", stats.all, 2000)
		c01StatCheck(m, "p<0.15", stats.bands[0], 1000)
		c01StatCheck(m, "0.15<=p<0.6", stats.bands[1], 1000)
		c01StatCheck(m, "p>=0.6", stats.bands[2], 1000)
	}
	if stats.all.n < 2000 && m.ViolCount() == 0 && os.Getenv("VK_ONLY_CASE") == "" {
		m.Inconclusive("only %d rejectable calls observed (< 2000): statistical clause not decidable", stats.all.n)
	}
	m.Extra("rejectable_calls", stats.all.n)
	m.Extra("rejections", stats.all.r)
	m.Extra("expected_rejections_from_model", stats.all.sp)
}

// TestVerifC01TripRecover: a dependency that keeps failing is cut off; once its
// failures have aged out (or it only ever succeeded) it is never cut off.
func TestVerifC01TripRecover(t *testing.T) {
	m := vk.New(t, "C01", "scripted per breaker: S successes (0 rejections) -> failing calls until >= 500 failures are in the window -> next 200 failing calls must see >= 1 rejection -> advance {10s,10.01s,12s,1h} (everything aged out) -> 300 calls of mixed successful kinds, 0 rejections; every step also checked by the model (clauses a-d); non-trivial = breaker tripped")
	defer m.Done()
	if c01SkipIfStuck(m) {
		return
	}
	defer c01SetupClock(m)()
	n := vk.N(12, 300)
	r := m.Rand("trip")
	kinds := []string{"do", "doacc", "dofb", "dofbacc", "allow"}
	stats := &c01Stats{}
	for idx := 1; idx <= n; idx++ {
		succ := r.Intn(300)
		recoverAdv := []time.Duration{10 * time.Second, 10010 * time.Millisecond, 12 * time.Second, time.Hour}[r.Intn(4)]
		tick := []time.Duration{0, 0, time.Millisecond}[r.Intn(3)]
		br := rand.New(rand.NewSource(r.Int63()))
		if !m.Only(idx) {
			continue
		}
		m.Current(fmt.Sprintf("case=%d;trip/recover succ=%d", idx, succ))
		run := &c01Run{m: m, stats: stats, idx: idx}
		var names []string
		var rejIn200, attempts int64
		tripped := false
		pval, panicked, hung := c01Guarded(m, fmt.Sprintf("case=%d;trip/recover succ=%d", idx, succ), func() {
			var brks []*c01Brk
			brks, names = c01NewBreakers(m, br, fmt.Sprintf("trip%d", idx), 2)
			hb := brks[idx%2]
			step := 0
			mk := func(out string) c01Step {
				st := c01Step{B: idx % 2, Kind: kinds[br.Intn(len(kinds))], Out: out, Pred: "std", Named: idx%2 == 1 && br.Intn(2) == 0}
				if st.Kind == "allow" && out == "aerr" {
					st.Out = "ok"
				}
				if st.Kind == "allow" && (out == "panic" || out == "unavail") {
					st.Out = "uerr"
				}
				if (st.Kind == "do" || st.Kind == "dofb") && out == "aerr" {
					st.Out = "ok"
				}
				return st
			}
			for i := 0; i < succ; i++ {
				st := mk([]string{"ok", "aerr"}[br.Intn(2)])
				st.Adv = tick
				before := run.rejected
				if !run.exec(step, hb, st) {
					return
				}
				step++
				if run.rejected != before {
					return // already reported by clause (a)
				}
			}
			// keep failing
			for {
				_, tot := hb.md.window(timex.Now())
				acc, _ := hb.md.window(timex.Now())
				if tot-acc >= 500 {
					break
				}
				attempts++
				if attempts > 400000 {
					m.Inconclusive("case %d: 500 failures not reached within 400000 attempts (window accepts=%d total=%d)", idx, acc, tot)
					return
				}
				if !run.exec(step, hb, mk([]string{"uerr", "uerr", "panic", "unavail"}[br.Intn(4)])) {
					return
				}
				step++
			}
			base := run.rejected
			for i := 0; i < 200; i++ {
				if !run.exec(step, hb, mk("uerr")) {
					return
				}
				step++
			}
			rejIn200 = run.rejected - base
			m.Count("rejections_in_200_calls_after_500_failures", rejIn200)
			if rejIn200 == 0 {
				a, tt := hb.md.window(timex.Now())
				m.Violate("C01:trip:not-cut-off", run.desc(step), "window holds accepts=%d total=%d (>= 500 failures) and 200 further failing calls were all admitted", a, tt)
				return
			}
			tripped = true
			// age everything out
			st := mk("ok")
			st.Adv = recoverAdv
			base = run.rejected
			for i := 0; i < 300; i++ {
				if !run.exec(step, hb, st) {
					return
				}
				step++
				st = mk([]string{"ok", "aerr"}[br.Intn(2)])
				st.Adv = tick
			}
			if run.rejected == base {
				m.Count("recoveries_without_rejection", 1)
			}
		})
		if hung {
			return
		}
		if panicked {
			m.Violate("C01:harness-observed-panic", run.desc(-1), "unexpected panic escaped a trip/recover scenario: %v", pval)
		}
		c01Forget(names...)
		m.Case(vk.Digest("trip", idx, succ, recoverAdv, rejIn200), tripped)
		m.Count("attempts_to_reach_500_failures", attempts)
		if m.WantSample() {
			m.Sample(map[string]any{"case": idx, "successes_first": succ, "attempts_to_500_failures": attempts, "rejections_in_next_200": rejIn200, "recover_advance": recoverAdv.String(), "admitted": run.admitted, "rejected": run.rejected})
		}
	}
	c01StatCheck(m, "trip-all", stats.all, 2000)
}

// TestVerifC01Disabled: NoBreakerFor(name) is an opt-out for ONE name. What the
// statement still promises there: a call whose req did not run is a proper
// rejection, a name whose recorded outcomes satisfy total-5 <= 1.5*accepts is
// never cut off, fallback only on rejection, panics re-raised; and every other
// name keeps its breaker (same instance, still trips).
func TestVerifC01Disabled(t *testing.T) {
	m := vk.New(t, "C01", "NoBreakerFor(X) on a fresh or an already tripped name X, with a bystander name B: Get(B) keeps returning B's breaker; 300 calls on X through Get(X) and the package-level named forms (all kinds and outcomes) obey the per-call clauses and are never rejected while the outcomes recorded for X (including those before the opt-out) satisfy total-5 <= 1.5*accepts; afterwards 400 failing calls on B still see >= 1 rejection; non-trivial = bystander tripped")
	defer m.Done()
	if c01SkipIfStuck(m) {
		return
	}
	defer c01SetupClock(m)()
	n := vk.N(20, 300)
	r := m.Rand("disabled")
	kinds := []string{"do", "doacc", "dofb", "dofbacc", "allow"}
	for idx := 1; idx <= n; idx++ {
		pre := r.Intn(2) == 1
		failPct := []int{0, 30, 70, 100}[r.Intn(4)]
		lr := rand.New(rand.NewSource(r.Int63()))
		if !m.Only(idx) {
			continue
		}
		x := fmt.Sprintf("%s#disabled-x#%d", c01Names[lr.Intn(len(c01Names))], idx)
		b := fmt.Sprintf("%s#disabled-b#%d", c01Names[lr.Intn(len(c01Names))], idx)
		desc := fmt.Sprintf("case=%d;NoBreakerFor(%q) pre-tripped=%v fail%%=%d bystander %q", idx, x, pre, failPct, b)
		m.Current(desc)
		tripped := false
		pval, panicked, hung := c01Guarded(m, desc, func() {
			bInst := Get(b)
			var preFail int64 // failures the name's previous breaker recorded (still in the frozen window)
			if pre {
				for i := 0; i < 300; i++ {
					_ = Do(x, func() error { preFail++; return c01ErrBad })
				}
			}
			NoBreakerFor(x)
			m.Count("no_breaker_for_calls", 1)
			if Get(b) != bInst {
				m.Violate("C01:registry:identity:after-NoBreakerFor", desc, "NoBreakerFor(%q) changed the breaker registered for the other name %q", x, b)
				return
			}
			// the statement does not say that the opt-out forgets earlier outcomes: count them
			var acc, tot int64 = 0, preFail
			for i := 0; i < 300; i++ {
				kind := kinds[lr.Intn(len(kinds))]
				out := "ok"
				if lr.Intn(100) < failPct {
					out = []string{"uerr", "panic", "unavail"}[lr.Intn(3)]
					if kind == "allow" {
						out = "uerr"
					}
				} else if (kind == "doacc" || kind == "dofbacc") && lr.Intn(2) == 0 {
					out = "aerr"
				}
				must := c01MustAdmit(acc, tot)
				admitted, success, ok := c01RaceCall(m, desc, Get(x), x, kind, lr.Intn(2) == 0, out, i)
				m.Count("calls_on_disabled_name", 1)
				if !ok {
					return
				}
				if !admitted {
					m.Count("rejected_on_disabled_name", 1)
					if must {
						m.Violate("C01:reject:below-threshold:disabled-name", desc, "call #%d on %q was rejected although the outcomes recorded for the name (incl. before NoBreakerFor) are accepts=%d total=%d", i, x, acc, tot)
						return
					}
					continue
				}
				tot++
				if success {
					acc++
				}
			}
			rej := 0
			for i := 0; i < 400; i++ {
				ran := false
				_ = Do(b, func() error { ran = true; return c01ErrBad })
				if !ran {
					rej++
				}
			}
			m.Count("bystander_rejections", int64(rej))
			if rej == 0 {
				m.Violate("C01:nonbenign:bystander-after-NoBreakerFor:never-cut-off", desc, "400 failing calls on %q after NoBreakerFor(%q) and none was rejected: the opt-out leaked to another name", b, x)
				return
			}
			tripped = true
		})
		if hung {
			return
		}
		if panicked {
			m.Violate("C01:harness-observed-panic", desc, "unexpected panic: %v", pval)
		}
		c01Forget(x, b)
		m.Case(vk.Digest("disabled", idx, pre, failPct), tripped)
		if m.WantSample() {
			m.Sample(map[string]any{"case": idx, "x_pre_tripped": pre, "fail_percent_on_x": failPct, "bystander_tripped": tripped})
		}
	}
}

// TestVerifC01TextlessFailures: breakers that open although no failure ever carried
// an error text (failures by panic; nil errors refused by the caller's predicate;
// Reject with an empty reason) and whose rejections are returned to the caller
// (no fallback). Every step is checked by the model (clauses a-d); the breaker must
// trip, rejected calls must return ErrServiceUnavailable - and return at all.
func TestVerifC01TextlessFailures(t *testing.T) {
	m := vk.New(t, "C01", "per case a fresh breaker (New or registry) fed only text-less failures: panics through Do/DoWithAcceptable, ok outcomes refused by an accept-none predicate, Allow+Reject with reasons from the boundary family (incl. empty); no fallback kinds until the breaker has rejected at least 20 calls (each must return ErrServiceUnavailable), then all kinds; model clauses a-d on every step; 45 s watchdog per case => C01:call:hang; non-trivial = breaker rejected calls")
	defer m.Done()
	if c01SkipIfStuck(m) {
		return
	}
	defer c01SetupClock(m)()
	n := vk.N(24, 400)
	r := m.Rand("textless")
	stats := &c01Stats{}
	for idx := 1; idx <= n; idx++ {
		flavour := idx % 4 // 0 panics only, 1 nil refused only, 2 empty-reason rejects only, 3 mixed
		br := rand.New(rand.NewSource(r.Int63()))
		if !m.Only(idx) {
			continue
		}
		desc := fmt.Sprintf("case=%d;text-less failures flavour=%d", idx, flavour)
		m.Current(desc)
		run := &c01Run{m: m, stats: stats, idx: idx}
		var names []string
		mk := func(allowFallback bool) c01Step {
			st := c01Step{B: idx % 2, Named: idx%2 == 1 && br.Intn(2) == 0}
			f := flavour
			if f == 3 {
				f = br.Intn(3)
			}
			switch f {
			case 0:
				st.Kind, st.Out, st.Pred = []string{"do", "doacc"}[br.Intn(2)], "panic", "std"
				if allowFallback && br.Intn(2) == 0 {
					st.Kind = []string{"dofb", "dofbacc"}[br.Intn(2)]
				}
			case 1:
				st.Kind, st.Out, st.Pred = "doacc", "ok", "none"
				if allowFallback && br.Intn(2) == 0 {
					st.Kind = "dofbacc"
				}
			default:
				st.Kind, st.Out = "allow", "uerr"
			}
			return st
		}
		pval, panicked, hung := c01Guarded(m, desc, func() {
			var brks []*c01Brk
			brks, names = c01NewBreakers(m, br, fmt.Sprintf("textless%d", idx), 2)
			hb := brks[idx%2]
			step := 0
			for run.rejected < 20 && step < 5000 {
				if !run.exec(step, hb, mk(false)) {
					return
				}
				step++
			}
			if run.rejected < 20 {
				a, tt := hb.md.window(timex.Now())
				m.Violate("C01:trip:not-cut-off:textless-failures", run.desc(step), "%d text-less failures (window accepts=%d total=%d) and only %d rejections", step, a, tt, run.rejected)
				return
			}
			for i := 0; i < 200; i++ {
				if !run.exec(step, hb, mk(true)) {
					return
				}
				step++
			}
		})
		if hung {
			return
		}
		if panicked {
			m.Violate("C01:harness-observed-panic", run.desc(-1), "unexpected panic escaped a text-less scenario: %v", pval)
		}
		c01Forget(names...)
		m.Case(vk.Digest("textless", idx, run.admitted, run.rejected), run.rejected > 0)
		m.Count("textless_cases", 1)
		if m.WantSample() {
			m.Sample(map[string]any{"case": idx, "flavour": []string{"panics", "nil refused by predicate", "Reject with boundary reasons", "mixed"}[flavour], "admitted": run.admitted, "rejected": run.rejected})
		}
	}
}
