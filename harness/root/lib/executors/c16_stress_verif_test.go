//go:build verif

package executors

// C16 — seeded random interleavings of concurrent adders (Add / Wait / Flush / yield)
// with a driver (tick / idle period / Flush / Wait), run once plainly and once under
// the race detector.

import (
	"fmt"
	"math/rand"
	"runtime"
	"strings"
	"sync"
	"sync/atomic"
	"testing"
	"time"

	"github.com/gotid/god/lib/timex"
	"verif.local/vk"
)

// c16Scenario: programs are strings, one letter per operation.
//
//	adders: a=Add  w=Wait  f=Flush  y=yield
//	driver: t=offer a tick  v=idle period (virtual clock +11 intervals)  f  w  y
type c16Scenario struct {
	Cfg    c16Cfg   `json:"cfg"`
	Sizes  string   `json:"sizes,omitempty"` // chunk: how task sizes are drawn (see c16Size)
	Salt   int      `json:"salt,omitempty"`
	Slow   int      `json:"slow"`  // the execute callback yields this many times
	Procs  int      `json:"procs"` // GOMAXPROCS
	Adders []string `json:"adders"`
	Driver string   `json:"driver"`
}

// c16Size is the declared byte size of adder a's s-th task, a pure function of the
// scenario (replayable). Modes:
//
//	small     1..4 (many tasks per batch)
//	boundary  one of 0, 1, limit-1, limit, limit+1, 2*limit+3
//	zeros     always 0: such tasks never reach the byte threshold by themselves, whole
//	          batches consist of size-0 tasks and only tick / Flush / Wait / retirement run them
//	zeroish   0, with roughly every fifth task of size limit (closes a batch of zeros)
func c16Size(mode string, salt, limit, a, s int) int {
	h := (a*7919 + s*104729 + salt*31) & 0x7fffffff
	h ^= h >> 7
	switch mode {
	case "boundary":
		v := []int{0, 1, limit - 1, limit, limit + 1, 2*limit + 3}[h%6]
		if v < 0 {
			v = 0
		}
		return v
	case "zeros":
		return 0
	case "zeroish":
		if h%5 == 0 {
			return limit
		}
		return 0
	}
	return 1 + h%4
}

func c16Gen(r *rand.Rand, idx int) c16Scenario {
	sc := c16Scenario{Slow: r.Intn(3), Procs: []int{2, 4, 8, 16}[(idx/40)%4]}
	// thresholds include the boundary values: 1 (every Add hands a batch over), the
	// default-sized ones that a scenario never reaches (1000 tasks / 1 MiB: only tick,
	// Flush, Wait and retirement flush) and, for the bare periodical executor, a container
	// whose AddTask never asks for a flush (N = 0)
	switch r.Intn(3) {
	case 0:
		sc.Cfg = c16Cfg{Kind: "bulk", N: []int{1, 1, 2, 3, 4, 5, 8, defaultBulkTasks}[r.Intn(8)]}
	case 1:
		sc.Cfg = c16Cfg{Kind: "chunk", N: []int{1, 2, 3, 4, 5, 6, 8, 10, defaultChunkSize}[r.Intn(9)]}
		sc.Sizes = []string{"small", "small", "boundary", "boundary", "zeros", "zeroish"}[r.Intn(6)]
		sc.Salt = r.Intn(1000)
	default:
		sc.Cfg = c16Cfg{Kind: "periodical", N: []int{0, 1, 1, 2, 3, 4, 5}[r.Intn(7)]}
	}
	adders := 1 + r.Intn(8)
	for a := 0; a < adders; a++ {
		var sb strings.Builder
		if r.Intn(10) == 0 {
			sb.WriteByte("wf"[r.Intn(2)]) // Wait / Flush before the first Add
		}
		for i, n := 0, r.Intn(13); i < n; i++ {
			sb.WriteByte('a')
			switch x := r.Intn(100); {
			case x < 15:
				sb.WriteByte('w')
			case x < 25:
				sb.WriteByte('f')
			case x < 40:
				sb.WriteByte('y')
			}
		}
		sc.Adders = append(sc.Adders, sb.String())
	}
	var sb strings.Builder
	for i, n := 0, r.Intn(13); i < n; i++ {
		switch x := r.Intn(100); {
		case x < 40:
			sb.WriteByte('t')
		case x < 55:
			sb.WriteByte('v')
		case x < 65:
			sb.WriteByte('f')
		case x < 75:
			sb.WriteByte('w')
		default:
			sb.WriteByte('y')
		}
	}
	sc.Driver = sb.String()
	return sc
}

type c16Actor struct {
	id    int // -1 = driver
	prog  string
	adds  []c16Add
	waits []c16WaitRec
	op    int32 // operation in flight (letter), 0 = none
	ticks [2]int
}

func (ac *c16Actor) run(s *c16Sys, sc *c16Scenario, progress *int64) {
	seq := 0
	for i := 0; i < len(ac.prog); i++ {
		c := ac.prog[i]
		atomic.StoreInt32(&ac.op, int32(c))
		switch c {
		case 'a':
			seq++
			t := c16Task{A: ac.id, S: seq}
			if s.cfg.Kind == "chunk" {
				t.Size = c16Size(sc.Sizes, sc.Salt, sc.Cfg.N, ac.id, seq)
			}
			ac.adds = append(ac.adds, c16Add{task: t, begin: vk.Seq()})
			s.addFn(t)
			ac.adds[len(ac.adds)-1].end = vk.Seq()
		case 'w':
			ac.waits = append(ac.waits, c16WaitRec{who: ac.id, begin: vk.Seq()})
			s.waitFn()
			ac.waits[len(ac.waits)-1].end = vk.Seq()
		case 'f':
			s.flushFn()
		case 'y':
			runtime.Gosched()
		case 't':
			d, u := s.tks.offer()
			ac.ticks[0] += d
			ac.ticks[1] += u
		case 'v':
			timex.VerifAdvance((idleRound + 1) * c16Interval)
		}
		atomic.StoreInt32(&ac.op, 0)
		atomic.AddInt64(progress, 1)
	}
}

var c16OpNames = map[int32]string{'a': "add", 'w': "wait", 'f': "flush", 't': "tick"}

// c16RunScenario runs one scenario; ok=false means the scenario left goroutines behind
// (a hang was reported) and the caller should stop.
func c16RunScenario(m *vk.M, idx int, sc c16Scenario) (st c16Stats, ok bool) {
	desc := fmt.Sprintf("case=%d;%s", idx, vk.JSON(sc))
	m.Current(desc)
	var hook func(*c16Batch)
	if sc.Slow > 0 {
		hook = func(*c16Batch) {
			for i := 0; i < sc.Slow; i++ {
				runtime.Gosched()
			}
		}
	}
	s := c16New(sc.Cfg, hook)
	actors := []*c16Actor{{id: -1, prog: sc.Driver}}
	for i, p := range sc.Adders {
		actors = append(actors, &c16Actor{id: i, prog: p})
	}
	var progress int64
	var wg sync.WaitGroup
	start, done := make(chan struct{}), make(chan struct{})
	for _, ac := range actors {
		wg.Add(1)
		go func(ac *c16Actor) {
			defer wg.Done()
			<-start
			ac.run(s, &sc, &progress)
		}(ac)
	}
	close(start)
	go func() { wg.Wait(); close(done) }()
	if !c16Await(done, &progress) {
		stuck := map[string]int{}
		for _, ac := range actors {
			if op := atomic.LoadInt32(&ac.op); op != 0 {
				stuck[c16OpNames[op]]++
			}
		}
		for _, op := range []string{"add", "wait", "flush"} {
			if stuck[op] > 0 {
				c16Viol(m, "C16:hang:"+op, desc, "%d goroutine(s) inside %s made no progress for %v (all stuck operations: %v); library goroutines:\n%s", stuck[op], op, c16Stall, stuck, c16LibStacks())
				return st, false
			}
		}
		m.Inconclusive("case %d: scenario stalled outside Add/Wait/Flush: %v", idx, stuck)
		return st, false
	}
	// every adder is done: one last Wait by the driver, after which every task must have
	// been executed
	fw := c16WaitRec{who: -1, begin: vk.Seq()}
	if !c16Call(s.waitFn) {
		c16Viol(m, "C16:hang:wait", desc, "final Wait made no progress for %v; library goroutines:\n%s", c16Stall, c16LibStacks())
		return st, false
	}
	fw.end = vk.Seq()
	var adds []c16Add
	waits := []c16WaitRec{fw}
	var all []c16Task
	for _, ac := range actors {
		adds = append(adds, ac.adds...)
		waits = append(waits, ac.waits...)
		for _, a := range ac.adds {
			all = append(all, a.task)
		}
	}
	// let late executions (a violation in themselves) finish so that they are classified
	// by what happened, not by when we looked
	if !s.settle(all) {
		m.Inconclusive("case %d: an execute callback was still running 20 s after the final Wait", idx)
		return st, false
	}
	held := c16Verify(m, desc, sc.Cfg, s.observe(adds, waits), &st)
	c16CountStats(m, &st)
	created, _ := s.tks.counts()
	quit := s.retire()
	_, stopped := s.tks.counts()
	m.Count("adds", int64(len(all)))
	if sc.Cfg.Kind == "chunk" {
		for _, t := range all {
			switch {
			case t.Size == 0:
				m.Count("chunk_tasks_size_0", 1)
			case t.Size < sc.Cfg.N:
				m.Count("chunk_tasks_size_below_limit", 1)
			case t.Size == sc.Cfg.N:
				m.Count("chunk_tasks_size_eq_limit", 1)
			default:
				m.Count("chunk_tasks_size_above_limit", 1)
			}
		}
		m.Count("chunk_batches_of_only_size_0_tasks", int64(st.zeroBatches))
	}
	m.Count("scenarios_"+sc.Cfg.Kind+"_threshold_"+c16ThresholdClass(sc.Cfg), 1)
	m.Count("waits", int64(len(waits)))
	m.Count("ticks_delivered", int64(actors[0].ticks[0]))
	m.Count("ticks_dropped", int64(actors[0].ticks[1]))
	m.Count("flusher_starts", int64(created))
	m.Count("flusher_quits", int64(stopped))
	if created > 1 {
		m.Count("scenarios_with_flusher_restart", 1)
	}
	if !quit {
		m.Count("flusher_not_retired", 1)
	}
	_ = held
	return st, true
}

func c16Stress(t *testing.T, m *vk.M, n int) {
	timex.VerifFakeClock(time.Hour)
	defer timex.VerifRealClock()
	defer runtime.GOMAXPROCS(runtime.GOMAXPROCS(0))
	r := m.Rand("stress")
	orders := map[string]struct{}{}
	procs := 0
	base := atomic.LoadInt64(&c16Costly)
	for idx := 1; idx <= n; idx++ {
		sc := c16Gen(r, idx)
		if !m.Only(idx) {
			continue
		}
		if sc.Procs != procs {
			procs = sc.Procs
			runtime.GOMAXPROCS(procs)
		}
		v0 := m.ViolCount()
		if c16Enough(base) {
			m.Note("stopped before case %d: enough witnesses (%d violating scenarios)", idx, v0)
			break
		}
		st, ok := c16RunScenario(m, idx, sc)
		if !ok {
			m.Note("stopped after case %d (goroutines left behind by a stalled scenario)", idx)
			break
		}
		orders[st.order] = struct{}{}
		// (scenarios whose threshold is out of reach are flushed by tick/Flush/Wait/retirement only)
		nontrivial := st.tasks > 0 && (st.byTrigger["threshold"]+st.byTrigger["tick"]+st.byTrigger["quit"] > 0 || c16ThresholdClass(sc.Cfg) == "unreachable")
		m.Case(vk.Digest(sc.Cfg, sc.Sizes, sc.Salt, sc.Adders, sc.Driver, st.order), nontrivial)
		if m.WantSample() && (idx%97 == 1 || m.ViolCount() > v0) {
			m.Sample(map[string]any{"scenario": sc, "tasks_executed": st.tasks, "batches_by_trigger": st.byTrigger,
				"batch_order(T=threshold t=tick q=quit f=flush w=wait,size)": st.order, "wait_task_pairs_checked": st.waitsChecked})
		}
		if idx%200 == 0 {
			m.Progress()
		}
	}
	m.Extra("distinct_observed_batch_orders", len(orders))
}

const c16StressRule = "seeded random interleavings: 1-8 adder goroutines (programs of Add/Wait/Flush/yield) against a driver goroutine (tick offers, idle periods on the virtual clock, Flush, Wait) on bulk (1-8 or 1000 tasks), chunk (1-10 bytes or 1 MiB; task sizes small 1-4 / boundary 0,1,limit-1,limit,limit+1,2*limit+3 / all 0 / mostly 0) and bare periodical (typed container, 1-5 tasks or never asking for a flush) executors, GOMAXPROCS 2/4/8/16; oracle on stamps of one atomic sequence: exactly once, order inside batches, bulk/chunk bounds, Wait-after-Add; non-trivial = at least one batch flushed by threshold, tick or flusher retirement"

// TestVerifC16Mix: plain build.
func TestVerifC16Mix(t *testing.T) {
	m := vk.New(t, "C16", c16StressRule)
	defer m.Done()
	c16Stress(t, m, vk.N(4000, 120000))
}

// TestVerifC16Race: the same family under the race detector (separate run).
func TestVerifC16Race(t *testing.T) {
	m := vk.New(t, "C16", c16StressRule+" — under -race")
	defer m.Done()
	c16Stress(t, m, vk.N(3000, 60000))
}
