//go:build verif

package executors

// C16 — staged schedules: (1) Wait issued while a threshold batch is in the hand-off
// between the adder's unlock and the flusher's registration (execute callbacks gated by
// the harness), (2) Add steered into the background flusher's idle-quit decision (the
// executor's own lock held through Sync while the contenders queue up), restart by a
// later Add, and liveness through ticks alone.

import (
	"fmt"
	"os"
	"runtime"
	"sync"
	"sync/atomic"
	"testing"
	"time"

	"github.com/gotid/god/lib/timex"
	"verif.local/vk"
)

// ---------------------------------------------------------------------------------------
// gate: execute callbacks block until the harness opens them, in arrival order

type c16Gate struct {
	mu      sync.Mutex
	n       int32
	chans   map[int]chan struct{}
	openAll bool
	arrived chan int
}

func c16NewGate() *c16Gate {
	return &c16Gate{chans: map[int]chan struct{}{}, arrived: make(chan int, 256)}
}

func (g *c16Gate) ch(ord int) chan struct{} {
	g.mu.Lock()
	defer g.mu.Unlock()
	c, ok := g.chans[ord]
	if !ok {
		c = make(chan struct{})
		if g.openAll {
			close(c)
		}
		g.chans[ord] = c
	}
	return c
}

func (g *c16Gate) open(ord int) {
	c := g.ch(ord)
	g.mu.Lock()
	select {
	case <-c:
	default:
		close(c)
	}
	g.mu.Unlock()
}

func (g *c16Gate) openRest() {
	g.mu.Lock()
	g.openAll = true
	for _, c := range g.chans {
		select {
		case <-c:
		default:
			close(c)
		}
	}
	g.mu.Unlock()
}

func (g *c16Gate) hook(*c16Batch) {
	ord := int(atomic.AddInt32(&g.n, 1))
	c := g.ch(ord)
	g.arrived <- ord
	<-c
}

func (g *c16Gate) awaitArrival() bool {
	tm := time.NewTimer(c16Stall)
	defer tm.Stop()
	select {
	case <-g.arrived:
		return true
	case <-tm.C:
		return false
	}
}

// c16Bg runs fn in a goroutine; wait() = false if it made no progress for c16Stall.
func c16Bg(fn func()) (wait func() bool, doneCh chan struct{}) {
	doneCh = make(chan struct{})
	go func() {
		defer close(doneCh)
		fn()
	}()
	var zero int64
	return func() bool { return c16Await(doneCh, &zero) }, doneCh
}

// ---------------------------------------------------------------------------------------
// (1) Wait during the hand-off

type c16HandoffCase struct {
	Cfg    c16Cfg `json:"cfg"`
	Batch  int    `json:"tasks_per_batch"`
	Waiter string `json:"waiter"` // contributor: its own task is in the handed-off batch; bystander: added nothing
	// chunk only: "" = every task 1 byte (limit = tasks per batch); "zero-contrib" = A's
	// tasks are 0 bytes and B's last task alone carries the whole limit
	Sizes string `json:"sizes,omitempty"`
}

// c16RunHandoff stages:
//
//	B adds a full batch k          -> the flusher executes it, the callback is held at gate 1
//	A adds Batch-1 tasks           -> they stay in the container (Add returned)
//	B adds one more task           -> threshold: batch k+1 leaves the container; B waits for the flusher
//	W (= A or a bystander) Waits   -> nothing left to flush; it waits for batch k only?
//	gate 1 opens                   -> k finishes; the flusher takes k+1, whose callback is held at gate 2
//
// and then looks (by stamps) whether W's Wait returned before k+1 finished.
func c16RunHandoff(m *vk.M, idx int, hc c16HandoffCase) (nontrivial, ok bool) {
	desc := fmt.Sprintf("case=%d;%s", idx, vk.JSON(hc))
	m.Current(desc)
	g := c16NewGate()
	s := c16New(hc.Cfg, g.hook)
	defer g.openRest()
	mk := func(a, sq int) c16Task {
		t := c16Task{A: a, S: sq}
		if hc.Cfg.Kind == "chunk" {
			t.Size = 1
			if hc.Sizes == "zero-contrib" {
				switch {
				case a == 1:
					t.Size = 0
				case sq == hc.Batch+1:
					t.Size = hc.Cfg.N
				}
			}
		}
		return t
	}
	var mu sync.Mutex
	var adds []c16Add
	add := func(t c16Task) {
		b := vk.Seq()
		s.addFn(t)
		e := vk.Seq()
		mu.Lock()
		adds = append(adds, c16Add{task: t, begin: b, end: e})
		mu.Unlock()
	}
	hang := func(op string) (bool, bool) {
		c16Viol(m, "C16:hang:"+op, desc, "%s made no progress for %v in the staged hand-off; library goroutines:\n%s", op, c16Stall, c16LibStacks())
		return false, false
	}
	// batch k
	w, _ := c16Bg(func() {
		for i := 1; i <= hc.Batch; i++ {
			add(mk(0, i))
		}
	})
	if !w() {
		return hang("add")
	}
	if !g.awaitArrival() {
		m.Inconclusive("case %d: first batch never reached the execute callback", idx)
		return false, false
	}
	// A's tasks: in the container when B's next Add reaches the threshold
	// (staging only, no verdict: these Adds stay below the threshold; if they cannot complete
	// while batch k's callback is parked, the hand-off window cannot be staged at all)
	_, aDone := c16Bg(func() {
		for i := 1; i < hc.Batch; i++ {
			add(mk(1, i))
		}
	})
	serialised := func() bool {
		return c16ParkedIn("addAndCheck", "sync.(*Mutex).Lock") || c16ParkedIn("addAndCheck", "sync.(*Mutex).lockSlow")
	}
	unstaged := func(what string) (bool, bool) {
		why := ""
		if serialised() {
			why = ": an Add is parked on the executor's lock while batch k's execute callback is held by the harness, i.e. Add is serialised behind a running execute (executor lock held across execute?); TestVerifC16Reentrant decides whether that breaks the statement"
		}
		m.Inconclusive("case %d: hand-off could not be staged, %s%s", idx, what, why)
		return false, false
	}
	if !vk.WaitUntil(c16Stall, func() bool {
		select {
		case <-aDone:
			return true
		default:
			return false
		}
	}) {
		return unstaged("the contributor's Adds below the threshold did not return")
	}
	bWait, _ := c16Bg(func() { add(mk(0, hc.Batch+1)) })
	if !vk.WaitUntil(c16Stall, func() bool { return atomic.LoadInt32(&s.pe.inflight) == 1 }) {
		return unstaged("the threshold Add did not hand its batch over (inflight never 1)")
	}
	who := 1
	if hc.Waiter == "bystander" {
		who = 2
	}
	wr := c16WaitRec{who: who}
	wWait, wDone := c16Bg(func() {
		wr.begin = vk.Seq()
		s.waitFn()
		wr.end = vk.Seq()
	})
	staged := vk.WaitUntil(2*time.Second, func() bool { return c16ParkedIn("(*PeriodicalExecutor).Wait", "") })
	if staged {
		m.Count("handoff_wait_staged", 1)
	}
	g.open(1)
	if !g.awaitArrival() {
		return hang("add") // batch k+1 never reached execute: its adder is still inside Add
	}
	early := false
	select {
	case <-wDone:
		early = true
	default:
		if !c16ParkedIn("(*PeriodicalExecutor).Wait", "") {
			tm := time.NewTimer(200 * time.Millisecond)
			select {
			case <-wDone:
				early = true
			case <-tm.C:
			}
			tm.Stop()
		}
	}
	if early {
		m.Count("handoff_wait_returned_while_batch_gated", 1)
	} else {
		m.Count("handoff_wait_still_blocked_while_batch_gated", 1)
	}
	g.openRest()
	if !wWait() {
		return hang("wait")
	}
	if !bWait() {
		return hang("add")
	}
	fw := c16WaitRec{who: -1, begin: vk.Seq()}
	if !c16Call(s.waitFn) {
		return hang("wait")
	}
	fw.end = vk.Seq()
	var all []c16Task
	for _, a := range adds {
		all = append(all, a.task)
	}
	if !s.settle(all) {
		m.Inconclusive("case %d: an execute callback was still running 20 s after the final Wait", idx)
		return false, false
	}
	var st c16Stats
	c16Verify(m, desc, hc.Cfg, s.observe(adds, []c16WaitRec{wr, fw}), &st)
	c16CountStats(m, &st)
	m.Count("adds", int64(len(adds)))
	m.Count("waits", 2)
	if hc.Batch == 1 {
		m.Count("handoff_controls_no_task_added_before_wait", 1)
	}
	s.retire()
	if m.WantSample() && idx%11 == 1 {
		m.Sample(map[string]any{"scenario": hc, "wait_parked_before_gate1_opened": staged, "wait_returned_while_handed_off_batch_was_gated": early,
			"batches(T=threshold t=tick q=quit f=flush w=wait,size)": st.order, "wait_task_pairs_checked": st.waitsChecked})
	}
	return staged && hc.Batch > 1, true
}

func TestVerifC16Handoff(t *testing.T) {
	m := vk.New(t, "C16", "staged hand-off: flusher held inside execute of batch k (gated callback), threshold Add hands batch k+1 to the commander, a contributor or bystander calls Wait, gate opens; Wait must not return before k+1 (which contains tasks whose Add returned before the Wait) finished; bulk/chunk/periodical x 1-4 tasks per batch x waiter; batch size 1 is the control (no task of k+1 was added before the Wait); non-trivial = Wait was parked during the hand-off")
	defer m.Done()
	timex.VerifFakeClock(time.Hour)
	defer timex.VerifRealClock()
	reps := vk.N(2, 40)
	idx := 0
	base := atomic.LoadInt64(&c16Costly)
	for rep := 0; rep < reps; rep++ {
		for _, kind := range []string{"bulk", "chunk", "periodical"} {
			for batch := 1; batch <= 4; batch++ {
				for _, waiter := range []string{"contributor", "bystander"} {
					idx++
					if !m.Only(idx) {
						continue
					}
					if c16Enough(base) {
						m.Note("stopped before case %d: enough witnesses", idx)
						return
					}
					hc := c16HandoffCase{Cfg: c16Cfg{Kind: kind, N: batch}, Batch: batch, Waiter: waiter}
					nt, ok := c16RunHandoff(m, idx, hc)
					if !ok {
						m.Note("stopped after case %d", idx)
						return
					}
					m.Case(vk.Digest(hc), nt)
					if kind == "chunk" && batch > 1 {
						idx++
						if !m.Only(idx) {
							continue
						}
						hc.Sizes = "zero-contrib"
						if nt, ok = c16RunHandoff(m, idx, hc); !ok {
							m.Note("stopped after case %d", idx)
							return
						}
						m.Case(vk.Digest(hc), nt)
					}
				}
			}
		}
	}
}

// ---------------------------------------------------------------------------------------
// (2) idle retirement, restart, liveness through ticks

// c16TickLiveness: nobody calls Flush or Wait; ticks alone must get every task executed.
// The verdict is logical: three ticks were *taken* by the flusher after the Adds returned
// (or no flusher exists any more), every library goroutine is parked in the flusher's
// select, and a task is still not executed.
func c16TickLiveness(m *vk.M, desc string, s *c16Sys, tasks []c16Task) (held bool, delivered int) {
	for attempt := 0; attempt < 200 && delivered < 3; attempt++ {
		if s.executed(tasks) {
			return true, delivered
		}
		d, _ := s.tks.offer()
		delivered += d
		if d == 0 {
			// order matters: first "every library goroutine is a flusher parked in its select"
			// (so each has registered its ticker), then "none of this executor's tickers is live"
			if c16Quiescent() && len(s.tks.live()) == 0 {
				break
			}
			runtime.Gosched()
		}
	}
	quiet := false
	vk.WaitUntil(20*time.Second, func() bool {
		if s.executed(tasks) {
			return true
		}
		quiet = c16Quiescent() && (delivered >= 3 || len(s.tks.live()) == 0)
		return quiet
	})
	if s.executed(tasks) {
		return true, delivered
	}
	if !quiet {
		m.Inconclusive("tick liveness undecided (%d ticks taken, library goroutines still busy): %s", delivered, desc)
		return false, delivered
	}
	var missing []c16Task
	s.mu.Lock()
	for _, t := range tasks {
		if s.done[t] == 0 {
			missing = append(missing, t)
		}
	}
	s.mu.Unlock()
	created, stopped := s.tks.counts()
	if len(s.tks.live()) == 0 {
		c16Viol(m, "C16:stranded-after-quit", desc, "tasks %v: Add returned, but no background flusher is alive (tickers created %d, stopped %d), every library goroutine is gone or parked, and the tasks were not executed: only a later Add/Flush/Wait could still run them", missing, created, stopped)
	} else {
		c16Viol(m, "C16:tick-did-not-flush", desc, "tasks %v: Add returned, the flusher then took %d ticks and is parked in its select again, and the tasks were still not executed", missing, delivered)
	}
	return false, delivered
}

type c16IdleCase struct {
	Cfg     c16Cfg `json:"cfg"`
	Variant string `json:"variant"` // tick-first | add-first | racing | plain | after-commanded
	Size    int    `json:"size"`    // chunk: bytes per task (0 = never reaches the limit by itself)
	Spin    int    `json:"spin,omitempty"`
}

// c16RunIdle: warm up (one task flushed by a tick), idle period, then the quit tick and
// one Add are made to contend for the executor lock in the order given by the variant
// (variant after-commanded: no quit, see below).
func c16RunIdle(m *vk.M, idx int, ic c16IdleCase) (class string, ok bool) {
	desc := fmt.Sprintf("case=%d;%s", idx, vk.JSON(ic))
	m.Current(desc)
	s := c16New(ic.Cfg, nil)
	v0 := m.ViolCount()
	mk := func(sq int) c16Task {
		t := c16Task{A: 0, S: sq}
		if ic.Cfg.Kind == "chunk" {
			t.Size = ic.Size
		}
		return t
	}
	// does every single Add reach the threshold (hand-off through the commander)?
	everyAdd := ic.Cfg.N == 1
	if ic.Cfg.Kind == "chunk" {
		everyAdd = ic.Size >= ic.Cfg.N
		m.Count(fmt.Sprintf("idle_chunk_size_%s", map[bool]string{true: "0", false: map[bool]string{true: "ge_limit", false: "below_limit"}[everyAdd]}[ic.Size == 0]), 1)
	}
	var mu sync.Mutex
	var adds []c16Add
	add := func(t c16Task) {
		b := vk.Seq()
		s.addFn(t)
		e := vk.Seq()
		mu.Lock()
		adds = append(adds, c16Add{task: t, begin: b, end: e})
		mu.Unlock()
	}
	hang := func(op string) (string, bool) {
		c16Viol(m, "C16:hang:"+op, desc, "%s made no progress for %v around the flusher's idle quit; library goroutines:\n%s", op, c16Stall, c16LibStacks())
		return "", false
	}
	seq := 1
	// warm-up: the first task is flushed by ticks alone (threshold 1: by the hand-off)
	if w, _ := c16Bg(func() { add(mk(1)) }); !w() {
		return hang("add")
	}
	if held, _ := c16TickLiveness(m, desc, s, []c16Task{mk(1)}); !held {
		return "", m.ViolCount() > v0 // a violation: next scenario; undecided: stop (goroutines of an earlier stall are in the way)
	}
	// a commanded batch makes the flusher skip one tick: take it out of the way
	if everyAdd {
		s.tks.offer()
	}
	timex.VerifAdvance((idleRound + 1) * c16Interval)
	seq++
	t1 := mk(seq)
	var aWait func() bool
	switch ic.Variant {
	case "after-commanded":
		// no idle quit here: a full batch goes through the commander (the flusher then skips
		// one tick), one more task stays in the container and only ticks follow
		aWait, _ = c16Bg(func() {
			for i := 0; i < ic.Cfg.N; i++ {
				add(t1)
				seq++
				t1 = mk(seq)
			}
			add(t1)
		})
	case "plain":
		// quit first, Add afterwards: restart
		s.tks.offer()
		vk.WaitUntil(2*time.Second, func() bool { return len(s.tks.live()) == 0 })
		aWait, _ = c16Bg(func() { add(t1) })
	case "racing":
		aWait, _ = c16Bg(func() {
			for i := 0; i < ic.Spin; i++ {
				_ = atomic.LoadInt32(&s.inExec)
			}
			add(t1)
		})
		s.tks.offer()
	default:
		// hold the executor's lock, queue the two contenders, release
		held, rel1, held2, rel2 := make(chan struct{}), make(chan struct{}), make(chan struct{}), make(chan struct{})
		hWait, _ := c16Bg(func() {
			s.pe.Sync(func() { close(held); <-rel1 })
			if ic.Variant == "tick-first" {
				// take the lock again at once: the first waiter (the flusher) wakes up, loses,
				// has waited > 1 ms and turns the mutex to hand-off mode, so that the lock
				// then passes flusher -> adder without the flusher re-taking it in between
				s.pe.Sync(func() { close(held2); <-rel2 })
			} else {
				close(held2)
			}
		})
		<-held
		tickTaken := func() bool {
			d, _ := s.tks.offer()
			return d > 0 && vk.WaitUntil(time.Second, func() bool { return c16ParkedIn("backgroundFlush", "(*PeriodicalExecutor).Flush") })
		}
		addParked := func() {
			aWait, _ = c16Bg(func() { add(t1) })
			vk.WaitUntil(time.Second, func() bool { return c16ParkedIn("addAndCheck", "") })
		}
		if ic.Variant == "tick-first" {
			if tickTaken() {
				m.Count("idle_quit_tick_parked_on_lock", 1)
			}
			addParked()
		} else {
			addParked()
			if tickTaken() {
				m.Count("idle_quit_tick_parked_on_lock", 1)
			}
		}
		time.Sleep(2 * time.Millisecond) // reach only: both waiters older than the mutex's 1 ms starvation threshold
		close(rel1)
		<-held2
		if ic.Variant == "tick-first" {
			time.Sleep(200 * time.Microsecond)
		}
		close(rel2)
		if !hWait() {
			m.Inconclusive("case %d: harness lock holder stuck", idx)
			return "", false
		}
	}
	if !aWait() {
		return hang("add")
	}
	// from here on nobody calls Flush/Wait: ticks alone (or the retiring flusher) must run t1
	mu.Lock()
	var pending []c16Task
	for _, a := range adds[1:] {
		pending = append(pending, a.task)
	}
	mu.Unlock()
	if held, _ := c16TickLiveness(m, desc, s, pending); !held {
		return "", m.ViolCount() > v0 // a violation: next scenario; undecided: stop (goroutines of an earlier stall are in the way)
	}
	created, stopped := s.tks.counts()
	trig := ""
	for _, b := range s.snapshot() {
		for _, t := range b.tasks {
			if t == t1 {
				trig = b.trigger
			}
		}
	}
	switch {
	case ic.Variant == "after-commanded":
		class = "task-after-commanded-batch:" + trig
	case trig == "quit":
		class = "add-in-quit-window:executed-by-retiring-flusher"
	case created > 1:
		class = "add-after-quit:flusher-restarted:" + trig
	case stopped == 0 && trig == "threshold":
		class = "threshold-add-before-quit-decision:flusher-stayed"
	default:
		class = "add-before-quit-tick:" + trig
	}
	m.Count("idle_class_"+class, 1)
	fw := c16WaitRec{who: -1, begin: vk.Seq()}
	if !c16Call(s.waitFn) {
		return hang("wait")
	}
	fw.end = vk.Seq()
	var st c16Stats
	c16Verify(m, desc, ic.Cfg, s.observe(adds, []c16WaitRec{fw}), &st)
	c16CountStats(m, &st)
	m.Count("adds", int64(len(adds)))
	if s.retire() {
		_, stopped = s.tks.counts()
	}
	m.Count("flusher_starts", int64(created))
	m.Count("flusher_quits", int64(stopped))
	if m.WantSample() && idx%53 == 1 {
		m.Sample(map[string]any{"scenario": ic, "observed": class, "flusher_starts": created, "flusher_quits": stopped, "batches(T=threshold t=tick q=quit f=flush w=wait,size)": st.order})
	}
	return class, true
}

func TestVerifC16Idle(t *testing.T) {
	m := vk.New(t, "C16", "idle retirement: warm-up task flushed by ticks alone, virtual clock +11 intervals, then the quit tick and one Add (threshold 1 = hand-off, threshold >1 = stays in the container) contend for the executor lock: tick-first (Add lands between the flusher's empty Flush and its quit decision), add-first, racing (random spin), plain (Add after the quit = restart), after-commanded (full batch through the commander, one more task, ticks only); afterwards no Flush/Wait: the task must be executed by the retiring flusher or by ticks to the restarted one; non-trivial = observed class (who executed the task, restarted or not)")
	defer m.Done()
	timex.VerifFakeClock(time.Hour)
	defer timex.VerifRealClock()
	if fp := os.Getenv("C16_FP"); fp != "" {
		m.Note("failpoint run: C16_FP=%s GOFAIL_FAILPOINTS=%q", fp, os.Getenv("GOFAIL_FAILPOINTS"))
	}
	r := m.Rand("idle")
	n := vk.N(360, 6000)
	quits := int64(0)
	base := atomic.LoadInt64(&c16Costly)
	for idx := 1; idx <= n; idx++ {
		ic := c16IdleCase{Variant: []string{"tick-first", "add-first", "racing", "tick-first", "racing", "plain", "after-commanded"}[idx%7]}
		ic.Cfg.Kind = []string{"bulk", "chunk", "periodical"}[r.Intn(3)]
		ic.Cfg.N = 1 + r.Intn(3)
		if ic.Variant == "after-commanded" && ic.Cfg.N == 1 {
			ic.Cfg.N = 2
		}
		if ic.Cfg.Kind == "chunk" {
			// boundary sizes: 0 (never a threshold), 1, limit, limit+1
			ic.Size = []int{0, 0, 1, ic.Cfg.N, ic.Cfg.N + 1}[r.Intn(5)]
			if ic.Variant == "after-commanded" {
				ic.Size = 1 // N one-byte tasks fill the batch exactly
			}
		}
		if ic.Variant == "racing" {
			ic.Spin = r.Intn(400)
		}
		if !m.Only(idx) {
			continue
		}
		if c16Enough(base) {
			m.Note("stopped before case %d: enough witnesses", idx)
			break
		}
		class, ok := c16RunIdle(m, idx, ic)
		if !ok {
			m.Note("stopped after case %d", idx)
			break
		}
		if class != "" {
			quits++
		}
		m.Case(vk.Digest(ic.Cfg, ic.Size, ic.Variant, class), class != "")
		if idx%100 == 0 {
			m.Progress()
		}
	}
	if quits == 0 && m.ViolCount() == 0 {
		m.Inconclusive("no idle-retirement scenario completed")
	}
}

// TestVerifC16FpMix: the random family again, only in the failpoint-widened thorough runs.
func TestVerifC16FpMix(t *testing.T) {
	m := vk.New(t, "C16", c16StressRule+" — with gofail sleeps ("+os.Getenv("C16_FP")+": "+os.Getenv("GOFAIL_FAILPOINTS")+")")
	defer m.Done()
	if os.Getenv("C16_FP") == "" {
		m.Skip("failpoint run not requested (C16_FP unset)")
		m.Case("skipped", false)
		return
	}
	c16Stress(t, m, vk.N(300, 5000))
}
