//go:build verif

package executors

// C16 — batching executors (DESIGN.md §3 C16): shared monitor infrastructure.
//
// The executors under test are the real Bulk/Chunk/PeriodicalExecutor with only the
// ticker factory (unexported field newTicker) replaced by a harness ticker whose channel
// is unbuffered: a tick is *offered*, and "delivered" means the background flusher took
// it out of its select. The idle-quit decision runs on the virtual clock of lib/timex.
// Every event that takes part in a verdict carries a stamp from one atomic sequence
// (vk.Seq), so "X before Y" in a verdict is always a real happens-before edge:
//   Add returned  -> stamp  ...  stamp -> Wait called          (task was added before the Wait)
//   Wait returned -> stamp  ...  stamp -> execute callback end  (Wait returned too early)

import (
	"fmt"
	"runtime"
	"sort"
	"strings"
	"sync"
	"sync/atomic"
	"time"

	"github.com/gotid/god/lib/threading"
	"github.com/gotid/god/lib/timex"
	"verif.local/vk"
)

const (
	c16Interval  = time.Second
	c16TickGrace = 50 * time.Millisecond
	c16Stall     = 25 * time.Second // an operation that normally takes microseconds made no progress for this long

	// a test function stops after this many violating scenarios of the kinds that cost
	// seconds each or may leave goroutines behind (everything except a Wait that returned early)
	c16EnoughWitnesses = 12
)

var c16Costly int64

func c16Viol(m *vk.M, sig, scenario, format string, a ...any) {
	if !strings.HasPrefix(sig, "C16:wait-") {
		atomic.AddInt64(&c16Costly, 1)
	}
	m.Violate(sig, scenario, format, a...)
}

func c16Enough(base int64) bool { return atomic.LoadInt64(&c16Costly)-base >= c16EnoughWitnesses }

// ---------------------------------------------------------------------------------------
// harness ticker

type c16Ticker struct {
	c       chan time.Time
	done    chan struct{}
	once    sync.Once
	gid     uint64 // goroutine that asked for the ticker = the background flusher
	stopSeq int64
}

func (t *c16Ticker) Chan() <-chan time.Time { return t.c }

func (t *c16Ticker) Stop() {
	t.once.Do(func() {
		atomic.StoreInt64(&t.stopSeq, vk.Seq())
		close(t.done)
	})
}

func (t *c16Ticker) stopped() bool { return atomic.LoadInt64(&t.stopSeq) != 0 }

type c16Tickers struct {
	mu  sync.Mutex
	all []*c16Ticker
}

func (ts *c16Tickers) factory(time.Duration) timex.Ticker {
	t := &c16Ticker{c: make(chan time.Time), done: make(chan struct{}), gid: threading.RoutineId()}
	ts.mu.Lock()
	ts.all = append(ts.all, t)
	ts.mu.Unlock()
	return t
}

func (ts *c16Tickers) counts() (created, stopped int) {
	ts.mu.Lock()
	defer ts.mu.Unlock()
	for _, t := range ts.all {
		if t.stopped() {
			stopped++
		}
	}
	return len(ts.all), stopped
}

func (ts *c16Tickers) live() []*c16Ticker {
	ts.mu.Lock()
	defer ts.mu.Unlock()
	var out []*c16Ticker
	for _, t := range ts.all {
		if !t.stopped() {
			out = append(out, t)
		}
	}
	return out
}

func (ts *c16Tickers) stoppedGid(gid uint64) bool {
	ts.mu.Lock()
	defer ts.mu.Unlock()
	for _, t := range ts.all {
		if t.gid == gid && t.stopped() {
			return true
		}
	}
	return false
}

// offer offers one tick to every live ticker. An offer that is not taken within the
// grace period is dropped, exactly like a tick of a real ticker whose reader is busy.
func (ts *c16Tickers) offer() (delivered, dropped int) {
	for _, t := range ts.live() {
		tm := time.NewTimer(c16TickGrace)
		select {
		case t.c <- time.Time{}:
			delivered++
		case <-t.done:
		case <-tm.C:
			dropped++
		}
		tm.Stop()
	}
	return
}

// ---------------------------------------------------------------------------------------
// system under test + recorder

type c16Task struct {
	A    int `json:"a"`           // adder
	S    int `json:"s"`           // per-adder sequence number, from 1
	Size int `json:"z,omitempty"` // bytes (chunk executor)
}

func (t c16Task) String() string { return fmt.Sprintf("%d.%d", t.A, t.S) }

type c16Cfg struct {
	Kind string `json:"kind"` // bulk | chunk | periodical
	N    int    `json:"n"`    // task threshold (bulk, periodical) or byte limit (chunk) in force for this instance
	// bulk/chunk: which options the constructor is given. "" = limit and interval;
	// "none" = no option at all (N must be the package default); "interval" = interval only
	// (default limit); "limit" = limit only (default interval)
	Opts string `json:"opts,omitempty"`
}

type c16Batch struct {
	tasks      []c16Task
	begin, end int64
	trigger    string // threshold | tick | quit | flush | wait | other
	bad        string // non-empty: the callback received something that is not a task
	// reread reads the slice the callback was handed (kept, not copied) once more; the
	// monitor calls it after the scenario's last Wait. A batch handed to execute belongs to
	// execute (it may record it or queue it to a worker): the library must not write to it
	// or reuse its backing array afterwards.
	reread func() ([]c16Task, string)
}

type c16Add struct {
	task       c16Task
	begin, end int64 // end == 0: Add did not return
}

type c16WaitRec struct {
	who        int
	begin, end int64
}

// c16Container is the TaskContainer used for the bare PeriodicalExecutor: a typed slice
// (like sqlx's dbInserter and stat's metrics container) flushed at a task count.
type c16Container struct {
	tasks []c16Task
	max   int
	exec  func([]c16Task, string, func() ([]c16Task, string))
}

func (c *c16Container) AddTask(task any) bool {
	c.tasks = append(c.tasks, task.(c16Task))
	return c.max > 0 && len(c.tasks) >= c.max // max 0: never asks for a flush
}

func (c *c16Container) Execute(tasks any) {
	ts, ok := tasks.([]c16Task)
	if !ok {
		c.exec(nil, fmt.Sprintf("Execute received %T", tasks), nil)
		return
	}
	c.exec(ts, "", func() ([]c16Task, string) { return ts, "" })
}

func (c *c16Container) RemoveAll() any {
	tasks := c.tasks
	c.tasks = nil
	return tasks
}

type c16Sys struct {
	cfg     c16Cfg
	pe      *PeriodicalExecutor
	tks     c16Tickers
	addFn   func(c16Task)
	flushFn func()
	waitFn  func()
	hook    func(*c16Batch) // runs inside the execute callback (yield / gate)

	mu      sync.Mutex
	batches []*c16Batch
	done    map[c16Task]int
	inExec  int32
}

func c16FromAny(tasks []any) ([]c16Task, string) {
	out := make([]c16Task, 0, len(tasks))
	for _, v := range tasks {
		t, ok := v.(c16Task)
		if !ok {
			return out, fmt.Sprintf("execute received an element of type %T", v)
		}
		out = append(out, t)
	}
	return out, ""
}

func c16BulkOpts(cfg c16Cfg) []BulkOption {
	switch cfg.Opts {
	case "none":
		return nil
	case "interval":
		return []BulkOption{WithBulkInterval(c16Interval)}
	case "limit":
		return []BulkOption{WithBulkTasks(cfg.N)}
	}
	return []BulkOption{WithBulkTasks(cfg.N), WithBulkInterval(c16Interval)}
}

func c16ChunkOpts(cfg c16Cfg) []ChunkOption {
	switch cfg.Opts {
	case "none":
		return nil
	case "interval":
		return []ChunkOption{WithFlushInterval(c16Interval)}
	case "limit":
		return []ChunkOption{WithChunkBytes(cfg.N)}
	}
	return []ChunkOption{WithChunkBytes(cfg.N), WithFlushInterval(c16Interval)}
}

func c16New(cfg c16Cfg, hook func(*c16Batch)) *c16Sys {
	s := &c16Sys{cfg: cfg, hook: hook, done: map[c16Task]int{}}
	switch cfg.Kind {
	case "bulk":
		be := NewBulkExecutor(func(tasks []any) {
			ts, bad := c16FromAny(tasks)
			s.onExecute(ts, bad, func() ([]c16Task, string) { return c16FromAny(tasks) })
		}, c16BulkOpts(cfg)...)
		s.pe = be.executor
		s.addFn = func(t c16Task) { _ = be.Add(t) }
		s.flushFn, s.waitFn = be.Flush, be.Wait
	case "chunk":
		ce := NewChunkExecutor(func(tasks []any) {
			ts, bad := c16FromAny(tasks)
			s.onExecute(ts, bad, func() ([]c16Task, string) { return c16FromAny(tasks) })
		}, c16ChunkOpts(cfg)...)
		s.pe = ce.executor
		s.addFn = func(t c16Task) { _ = ce.Add(t, t.Size) }
		s.flushFn, s.waitFn = ce.Flush, ce.Wait
	default:
		pe := NewPeriodicalExecutor(c16Interval, &c16Container{max: cfg.N, exec: s.onExecute})
		s.pe = pe
		s.addFn = func(t c16Task) { pe.Add(t) }
		s.flushFn, s.waitFn = func() { pe.Flush() }, pe.Wait
	}
	s.pe.newTicker = s.tks.factory // before the first Add: the flusher is started by Add
	return s
}

func (s *c16Sys) onExecute(tasks []c16Task, bad string, reread func() ([]c16Task, string)) {
	atomic.AddInt32(&s.inExec, 1)
	b := &c16Batch{tasks: append([]c16Task(nil), tasks...), bad: bad, reread: reread}
	b.trigger = s.trigger()
	b.begin = vk.Seq()
	if s.hook != nil {
		s.hook(b)
	}
	b.end = vk.Seq()
	s.mu.Lock()
	s.batches = append(s.batches, b)
	for _, t := range b.tasks {
		s.done[t]++
	}
	s.mu.Unlock()
	atomic.AddInt32(&s.inExec, -1)
}

// trigger classifies, from the call stack of the execute callback, which of the
// property's triggers flushed this batch. Evidence and signature sub-class only.
func (s *c16Sys) trigger() string {
	var pcs [32]uintptr
	n := runtime.Callers(3, pcs[:])
	fr := runtime.CallersFrames(pcs[:n])
	var viaFlush, viaWait, viaBg bool
	for {
		f, more := fr.Next()
		switch {
		case strings.HasSuffix(f.Function, "(*PeriodicalExecutor).Flush"):
			viaFlush = true
		case strings.HasSuffix(f.Function, "(*PeriodicalExecutor).Wait"):
			viaWait = true
		case strings.Contains(f.Function, "(*PeriodicalExecutor).backgroundFlush"):
			viaBg = true
		}
		if !more {
			break
		}
	}
	switch {
	case viaBg && viaFlush:
		if s.tks.stoppedGid(threading.RoutineId()) {
			return "quit" // the deferred Flush of a retiring flusher (its ticker is stopped first)
		}
		return "tick"
	case viaBg:
		return "threshold"
	case viaWait:
		return "wait"
	case viaFlush:
		return "flush"
	}
	return "other"
}

func (s *c16Sys) executed(tasks []c16Task) bool {
	s.mu.Lock()
	defer s.mu.Unlock()
	for _, t := range tasks {
		if s.done[t] == 0 {
			return false
		}
	}
	return true
}

// settle is called after the scenario's last Wait returned: it lets executions that are
// still under way (a violation in themselves) finish, so that a late task is classified by
// what happened to it. It gives up as soon as nothing can execute any more (every library
// goroutine parked in the flusher's select): what is missing then is lost for good.
// false = a callback was still running after 20 s.
func (s *c16Sys) settle(all []c16Task) bool {
	polls := 0
	vk.WaitUntil(20*time.Second, func() bool {
		if atomic.LoadInt32(&s.inExec) != 0 {
			return false
		}
		if s.executed(all) {
			return true
		}
		polls++
		return polls%8 == 0 && c16Quiescent() && atomic.LoadInt32(&s.inExec) == 0
	})
	return atomic.LoadInt32(&s.inExec) == 0
}

func (s *c16Sys) snapshot() []*c16Batch {
	s.mu.Lock()
	defer s.mu.Unlock()
	return append([]*c16Batch(nil), s.batches...)
}

// retire makes the background flusher quit (idle for more than idleRound intervals of
// virtual time) so that goroutines do not pile up across scenarios. Evidence only.
func (s *c16Sys) retire() (quit bool) {
	for i := 0; i < 6; i++ {
		if len(s.tks.live()) == 0 {
			return true
		}
		timex.VerifAdvance((idleRound + 1) * c16Interval)
		s.tks.offer()
	}
	return len(s.tks.live()) == 0
}

// ---------------------------------------------------------------------------------------
// goroutine inspection (used to stage schedules and to prove quiescence, never to time)

type c16G struct {
	state string
	text  string
}

// c16LibGoroutines returns every goroutine (except the caller) that is inside the
// executors package code or is a threading.GoSafe goroutine (the flusher before its
// first frame).
func c16LibGoroutines() []c16G {
	var out []c16G
	for i, b := range strings.Split(vk.Stacks(), "\n\n") {
		if i == 0 {
			continue
		}
		if !strings.Contains(b, "lib/executors.(*PeriodicalExecutor)") && !strings.Contains(b, "lib/threading.") {
			continue
		}
		st := ""
		if p := strings.IndexByte(b, '['); p >= 0 {
			if q := strings.IndexAny(b[p:], ",]"); q > 0 {
				st = b[p+1 : p+q]
			}
		}
		out = append(out, c16G{state: st, text: b})
	}
	return out
}

// c16Quiescent: no library goroutine can make progress without a further tick or API
// call: every one of them is a background flusher parked in its select.
func c16Quiescent() bool {
	for _, g := range c16LibGoroutines() {
		// (the flusher closure's symbol varies with inlining: …backgroundFlush.func1 / …backgroundFlush.1)
		if g.state == "select" && strings.Contains(g.text, ").backgroundFlush") &&
			!strings.Contains(g.text, "(*PeriodicalExecutor).Flush") && !strings.Contains(g.text, "executeTasks") {
			continue
		}
		return false
	}
	return true
}

// c16ParkedIn reports whether some goroutine is blocked (not running/runnable) with both
// frames on its stack.
func c16ParkedIn(frameA, frameB string) bool {
	for _, g := range c16LibGoroutines() {
		if g.state == "running" || g.state == "runnable" {
			continue
		}
		if strings.Contains(g.text, frameA) && strings.Contains(g.text, frameB) {
			return true
		}
	}
	return false
}

func c16LibStacks() string {
	var sb strings.Builder
	for _, g := range c16LibGoroutines() {
		sb.WriteString(g.text)
		sb.WriteString("\n\n")
	}
	s := sb.String()
	if len(s) > 3200 {
		s = s[:3200] + "…"
	}
	return s
}

// c16Await waits for done; false = no progress (progress counter unchanged) for c16Stall.
func c16Await(done <-chan struct{}, progress *int64) bool {
	tk := time.NewTicker(250 * time.Millisecond)
	defer tk.Stop()
	last, idle := atomic.LoadInt64(progress), 0
	for {
		select {
		case <-done:
			return true
		case <-tk.C:
			if cur := atomic.LoadInt64(progress); cur != last {
				last, idle = cur, 0
			} else if idle++; time.Duration(idle)*250*time.Millisecond >= c16Stall {
				return false
			}
		}
	}
}

// c16Call runs one blocking API call with the stall watchdog; false = it hung.
func c16Call(fn func()) bool {
	done := make(chan struct{})
	var zero int64
	go func() {
		defer close(done)
		fn()
	}()
	return c16Await(done, &zero)
}

// ---------------------------------------------------------------------------------------
// oracle

type c16Obs struct {
	adds    []c16Add
	waits   []c16WaitRec
	batches []*c16Batch
}

// letters used in the compact "batch order" strings of samples and digests
var c16TriggerLetter = map[string]string{"threshold": "T", "tick": "t", "quit": "q", "flush": "f", "wait": "w", "other": "o"}

// c16ThresholdClass: evidence label for the threshold boundary classes.
func c16ThresholdClass(cfg c16Cfg) string {
	switch {
	case cfg.N == 0 || cfg.N >= 1000:
		return "unreachable"
	case cfg.N == 1:
		return "1"
	}
	return "2-10"
}

type c16Stats struct {
	zeroBatches    int // chunk: batches made of size-0 tasks only
	tasks, batches int
	byTrigger      map[string]int
	waitsChecked   int // (wait, task) pairs with a happens-before edge that were checked
	keptChecked    int // batches whose kept slice was read again after the last Wait
	order          string
}

func (s *c16Sys) observe(adds []c16Add, waits []c16WaitRec) c16Obs {
	return c16Obs{adds: adds, waits: waits, batches: s.snapshot()}
}

// c16Verify checks one finished scenario. It reports at most one violation (the first)
// and returns false if one was reported.
func c16Verify(m *vk.M, desc string, cfg c16Cfg, o c16Obs, st *c16Stats) bool {
	added := map[c16Task]c16Add{}
	for _, a := range o.adds {
		added[a.task] = a
	}
	count := map[c16Task]int{}
	endOf := map[c16Task]int64{}
	trigOf := map[c16Task]string{}
	st.byTrigger = map[string]int{}
	var ord []string
	sort.Slice(o.batches, func(i, j int) bool { return o.batches[i].begin < o.batches[j].begin })
	for _, b := range o.batches {
		st.batches++
		st.byTrigger[b.trigger]++
		ord = append(ord, fmt.Sprint(c16TriggerLetter[b.trigger], len(b.tasks)))
		if b.bad != "" {
			c16Viol(m, "C16:phantom", desc, "%s (batch %v, trigger %s)", b.bad, b.tasks, b.trigger)
			return false
		}
		for _, t := range b.tasks {
			st.tasks++
			if _, ok := added[t]; !ok {
				c16Viol(m, "C16:phantom", desc, "task %v was executed (batch %v, trigger %s) but never added", t, b.tasks, b.trigger)
				return false
			}
			count[t]++
			if count[t] > 1 {
				c16Viol(m, "C16:duplicate", desc, "task %v was passed to execute %d times (second time in batch %v, trigger %s)", t, count[t], b.tasks, b.trigger)
				return false
			}
			endOf[t], trigOf[t] = b.end, b.trigger
		}
	}
	st.order = strings.Join(ord, ",")
	// the slices the callbacks kept still hold exactly what they held during the callback
	for _, b := range o.batches {
		if b.reread == nil {
			continue
		}
		now, bad := b.reread()
		same := bad == "" && len(now) == len(b.tasks)
		for i := 0; same && i < len(now); i++ {
			same = now[i] == b.tasks[i]
		}
		st.keptChecked++
		if !same {
			c16Viol(m, "C16:batch-mutated-after-execute", desc, "the execute callback kept the slice it was handed (trigger %s): during the callback it held %v, after the scenario's last Wait it holds %v %s: the library wrote to a batch (or reused its backing array) after handing it to execute", b.trigger, b.tasks, now, bad)
			return false
		}
	}
	for _, b := range o.batches {
		// bounds
		switch cfg.Kind {
		case "bulk":
			if len(b.tasks) > cfg.N {
				c16Viol(m, "C16:bulk-overflow", desc, "bulk batch of %d tasks, configured task count %d: %v (trigger %s)", len(b.tasks), cfg.N, b.tasks, b.trigger)
				return false
			}
		case "chunk":
			sum := 0
			for _, t := range b.tasks {
				sum += t.Size
			}
			if len(b.tasks) > 0 && sum == 0 {
				st.zeroBatches++
			}
			if n := len(b.tasks); n > 0 && sum-b.tasks[n-1].Size >= cfg.N {
				c16Viol(m, "C16:chunk-overflow", desc, "chunk batch of %d bytes exceeds the limit %d by at least its last task (%d bytes): %v (trigger %s)", sum, cfg.N, b.tasks[n-1].Size, b.tasks, b.trigger)
				return false
			}
		}
		// order inside the batch: per adder increasing and contiguous; across adders
		// wherever one Add returned before the other was called
		last := map[int]int{}
		// minEndAfter[i] = smallest "Add returned" stamp among tasks[i:] (linear pre-pass)
		minEndAfter := make([]int64, len(b.tasks)+1)
		minEndAfter[len(b.tasks)] = 1 << 62
		for i := len(b.tasks) - 1; i >= 0; i-- {
			minEndAfter[i] = minEndAfter[i+1]
			if e := added[b.tasks[i]].end; e != 0 && e < minEndAfter[i] {
				minEndAfter[i] = e
			}
		}
		for i, t := range b.tasks {
			if p, ok := last[t.A]; ok {
				if t.S < p {
					c16Viol(m, "C16:order:within-adder", desc, "batch %v (trigger %s): task %v after %d.%d, added in the opposite order", b.tasks, b.trigger, t, t.A, p)
					return false
				}
				if t.S != p+1 {
					c16Viol(m, "C16:order:gap", desc, "batch %v (trigger %s): adder %d's tasks jump from %d to %d; the tasks in between were batched elsewhere", b.tasks, b.trigger, t.A, p, t.S)
					return false
				}
			}
			last[t.A] = t.S
			if minEndAfter[i+1] >= added[t].begin {
				continue // no later task of the batch had its Add return before this Add began
			}
			for j := i + 1; j < len(b.tasks); j++ {
				u := b.tasks[j]
				if ue := added[u].end; ue != 0 && ue < added[t].begin {
					c16Viol(m, "C16:order:cross-adder", desc, "batch %v (trigger %s): Add(%v) returned (stamp %d) before Add(%v) was called (stamp %d), yet %v comes first in the batch", b.tasks, b.trigger, u, ue, t, added[t].begin, t)
					return false
				}
			}
		}
	}
	// Wait: every task whose Add returned before the Wait was called has finished
	// executing before the Wait returned
	for _, w := range o.waits {
		if w.end == 0 {
			continue
		}
		for _, a := range o.adds {
			if a.end == 0 || a.end > w.begin {
				continue
			}
			st.waitsChecked++
			e, ok := endOf[a.task]
			if ok && e < w.end {
				continue
			}
			who := fmt.Sprintf("adder %d", w.who)
			if w.who < 0 {
				who = "the driver"
			}
			if !ok {
				c16Viol(m, "C16:lost", desc, "task %v (Add returned at stamp %d) was never passed to execute, although Wait by %s (called at %d) returned at %d and nothing is executing any more", a.task, a.end, who, w.begin, w.end)
				return false
			}
			sig := "C16:wait-returned-early:" + trigOf[a.task] + "-batch"
			if trigOf[a.task] == "threshold" {
				sig = "C16:wait-during-handoff" // the batch went through the commander hand-off
			}
			c16Viol(m, sig, desc, "Wait by %s was called at stamp %d (after Add(%v) had returned at %d) and returned at %d, but the batch containing %v (trigger %s) finished executing only at %d", who, w.begin, a.task, a.end, w.end, a.task, trigOf[a.task], e)
			return false
		}
	}
	for _, a := range o.adds {
		if a.end != 0 && count[a.task] == 0 {
			c16Viol(m, "C16:lost", desc, "task %v (Add returned at stamp %d) was never passed to execute", a.task, a.end)
			return false
		}
	}
	return true
}

func c16CountStats(m *vk.M, st *c16Stats) {
	m.Count("tasks_executed", int64(st.tasks))
	m.Count("batches", int64(st.batches))
	for k, v := range st.byTrigger {
		m.Count("batches_by_"+k, int64(v))
	}
	m.Count("wait_task_pairs_checked", int64(st.waitsChecked))
	m.Count("kept_batch_slices_reread_after_last_wait", int64(st.keptChecked))
}
