//go:build verif

package executors

// C16 — explicit Flush as the only trigger. One goroutine adds tasks that stay below the
// size/byte threshold, no tick is ever offered, nobody calls Wait, then the same
// goroutine calls Flush. The statement names an explicit Flush as one of the triggers that
// flush a task, so once Flush has returned and the library has nothing left to do (every
// library goroutine is the flusher parked in its select) the tasks must have been passed
// to execute. Not asserted: that they were executed *before* Flush returned, nor anything
// about tasks another goroutine or the flusher had already taken (only Wait promises that).

import (
	"fmt"
	"sync/atomic"
	"testing"
	"time"

	"github.com/gotid/god/lib/timex"
	"verif.local/vk"
)

type c16FlushCase struct {
	Cfg    c16Cfg `json:"cfg"`
	Size   int    `json:"size"`   // chunk: bytes per task
	K      int    `json:"k"`      // tasks added before each Flush (below the threshold); 0 = Flush of an empty executor
	Rounds int    `json:"rounds"` // Add*K + Flush, repeated
}

func c16RunFlush(m *vk.M, idx int, fc c16FlushCase) (nontrivial, ok bool) {
	desc := fmt.Sprintf("case=%d;%s", idx, vk.JSON(fc))
	m.Current(desc)
	s := c16New(fc.Cfg, nil)
	var adds []c16Add
	var all []c16Task
	seq := 0
	hang := func(op string) (bool, bool) {
		c16Viol(m, "C16:hang:"+op, desc, "%s made no progress for %v (single goroutine, no tick, threshold not reached); library goroutines:\n%s", op, c16Stall, c16LibStacks())
		return false, false
	}
	for round := 0; round < fc.Rounds; round++ {
		var tasks []c16Task
		w, _ := c16Bg(func() {
			for i := 0; i < fc.K; i++ {
				seq++
				t := c16Task{A: 0, S: seq}
				if fc.Cfg.Kind == "chunk" {
					t.Size = fc.Size
				}
				b := vk.Seq()
				s.addFn(t)
				adds = append(adds, c16Add{task: t, begin: b, end: vk.Seq()})
				tasks = append(tasks, t)
			}
		})
		if !w() {
			return hang("add")
		}
		all = append(all, tasks...)
		if !c16Call(s.flushFn) {
			return hang("flush")
		}
		m.Count("flush_calls", 1)
		// Flush was the only trigger: no tick offered, no Wait, threshold not reached
		quiet := false
		vk.WaitUntil(20*time.Second, func() bool {
			if s.executed(tasks) {
				return true
			}
			quiet = c16Quiescent()
			return quiet
		})
		if !s.executed(tasks) {
			if !quiet {
				m.Inconclusive("case %d: library goroutines still busy 20 s after Flush returned", idx)
				return false, false
			}
			var missing []c16Task
			s.mu.Lock()
			for _, t := range tasks {
				if s.done[t] == 0 {
					missing = append(missing, t)
				}
			}
			s.mu.Unlock()
			c16Viol(m, "C16:flush-did-not-flush", desc, "round %d: tasks %v were added by the calling goroutine (below the threshold, no tick offered, no other caller), Flush returned, every library goroutine is parked in the flusher's select, and the tasks were not passed to execute", round, missing)
			c16Call(s.waitFn) // release them so that nothing is left behind
			s.retire()
			return false, true
		}
		m.Count("flush_tasks_executed_with_flush_as_only_trigger", int64(len(tasks)))
	}
	fw := c16WaitRec{who: -1, begin: vk.Seq()}
	if !c16Call(s.waitFn) {
		return hang("wait")
	}
	fw.end = vk.Seq()
	if !s.settle(all) {
		m.Inconclusive("case %d: an execute callback was still running 20 s after the final Wait", idx)
		return false, false
	}
	var st c16Stats
	c16Verify(m, desc, fc.Cfg, s.observe(adds, []c16WaitRec{fw}), &st)
	c16CountStats(m, &st)
	m.Count("adds", int64(len(adds)))
	s.retire()
	if m.WantSample() && idx%17 == 1 {
		m.Sample(map[string]any{"scenario": fc, "batches(T=threshold t=tick q=quit f=flush w=wait,size)": st.order, "batches_by_trigger": st.byTrigger})
	}
	return st.byTrigger["flush"] > 0, true
}

func TestVerifC16Flush(t *testing.T) {
	m := vk.New(t, "C16", "explicit Flush as the only trigger: one goroutine adds K tasks below the threshold (bulk 2/3/1000, chunk limit 3/8/1 MiB with task sizes 0/1/limit-1, periodical 3/never), no tick is offered, nobody Waits, Flush is called (1 or 3 rounds, K=0 = empty executor); after Flush returned and the library is quiescent the tasks must have been executed; then a final Wait and the common history oracle; non-trivial = a batch was executed through Flush")
	defer m.Done()
	timex.VerifFakeClock(time.Hour)
	defer timex.VerifRealClock()
	base := atomic.LoadInt64(&c16Costly)
	type cfgSize struct {
		cfg  c16Cfg
		size int
		maxK int
	}
	var cs []cfgSize
	for _, n := range []int{2, 3, defaultBulkTasks} {
		cs = append(cs, cfgSize{c16Cfg{Kind: "bulk", N: n}, 0, n - 1})
	}
	for _, n := range []int{3, 8, defaultChunkSize} {
		cs = append(cs, cfgSize{c16Cfg{Kind: "chunk", N: n}, 0, 1 << 20}) // size-0 tasks never reach the limit
		cs = append(cs, cfgSize{c16Cfg{Kind: "chunk", N: n}, 1, n - 1})
		cs = append(cs, cfgSize{c16Cfg{Kind: "chunk", N: n}, n - 1, 1})
	}
	cs = append(cs, cfgSize{c16Cfg{Kind: "periodical", N: 3}, 0, 2}, cfgSize{c16Cfg{Kind: "periodical", N: 0}, 0, 1 << 20})
	idx := 0
	for rep := 0; rep < vk.N(1, 20); rep++ {
		for _, c := range cs {
			for _, k := range []int{0, 1, 2, 5} {
				for _, rounds := range []int{1, 3} {
					idx++
					if k > c.maxK || !m.Only(idx) {
						continue
					}
					if c16Enough(base) {
						m.Note("stopped before case %d: enough witnesses", idx)
						return
					}
					fc := c16FlushCase{Cfg: c.cfg, Size: c.size, K: k, Rounds: rounds}
					nt, ok := c16RunFlush(m, idx, fc)
					if !ok {
						m.Note("stopped after case %d", idx)
						return
					}
					m.Case(vk.Digest(fc), nt)
				}
			}
		}
	}
}
