//go:build verif

package executors

// C16 — several executor instances in one process. Instances with different explicit
// limits, with partial options and with no options at all (package defaults: 1000 tasks,
// 1 MiB) are created in every order and loaded concurrently; each instance's history is
// judged against ITS OWN configuration ("a bulk batch never exceeds the configured task
// count", "a chunk batch exceeds the byte limit by less than its last task"; the configured
// value of an instance that passes no limit option is the package default constant).

import (
	"fmt"
	"sync"
	"sync/atomic"
	"testing"
	"time"

	"github.com/gotid/god/lib/timex"
	"verif.local/vk"
)

type c16InstSpec struct {
	Cfg   c16Cfg `json:"cfg"`
	Tasks int    `json:"tasks"` // per adder (2 adders per instance): enough to cross the instance's own limit where it is reachable
	Size  int    `json:"size,omitempty"`
}

// the spec pool: small / large explicit limits, defaults reached through each option path
var c16InstPool = []c16InstSpec{
	{Cfg: c16Cfg{Kind: "bulk", N: 3}, Tasks: 10},
	{Cfg: c16Cfg{Kind: "bulk", N: 5000, Opts: "limit"}, Tasks: 1300},                // larger than the default, never reached
	{Cfg: c16Cfg{Kind: "bulk", N: defaultBulkTasks, Opts: "none"}, Tasks: 1300},     // 2600 tasks (1300 by the mid-way Wait) against the default 1000
	{Cfg: c16Cfg{Kind: "bulk", N: defaultBulkTasks, Opts: "interval"}, Tasks: 1300}, // default limit, explicit interval
	{Cfg: c16Cfg{Kind: "bulk", N: 7, Opts: "limit"}, Tasks: 20},                     // explicit limit, default interval
	{Cfg: c16Cfg{Kind: "chunk", N: 6}, Tasks: 10, Size: 2},
	{Cfg: c16Cfg{Kind: "chunk", N: 4 * defaultChunkSize, Opts: "limit"}, Tasks: 6, Size: 300 << 10},
	{Cfg: c16Cfg{Kind: "chunk", N: defaultChunkSize, Opts: "none"}, Tasks: 6, Size: 300 << 10}, // 3.5 MiB against the default 1 MiB
	{Cfg: c16Cfg{Kind: "chunk", N: defaultChunkSize, Opts: "interval"}, Tasks: 6, Size: 300 << 10},
	{Cfg: c16Cfg{Kind: "chunk", N: 9, Opts: "limit"}, Tasks: 12, Size: 2},
}

type c16InstCase struct {
	Specs []c16InstSpec `json:"instances_in_creation_order"`
}

func c16RunInstances(m *vk.M, idx int, ic c16InstCase) (nontrivial, ok bool) {
	desc := fmt.Sprintf("case=%d;%s", idx, vk.JSON(ic))
	m.Current(desc)
	type inst struct {
		spec  c16InstSpec
		s     *c16Sys
		adds  [2][]c16Add
		waits [2][]c16WaitRec
	}
	var insts []*inst
	for _, sp := range ic.Specs {
		insts = append(insts, &inst{spec: sp, s: c16New(sp.Cfg, nil)})
	}
	var progress int64
	var wg sync.WaitGroup
	start, done := make(chan struct{}), make(chan struct{})
	for _, in := range insts {
		for a := 0; a < 2; a++ {
			wg.Add(1)
			go func(in *inst, a int) {
				defer wg.Done()
				<-start
				for i := 1; i <= in.spec.Tasks; i++ {
					t := c16Task{A: a, S: i, Size: in.spec.Size}
					b := vk.Seq()
					in.s.addFn(t)
					in.adds[a] = append(in.adds[a], c16Add{task: t, begin: b, end: vk.Seq()})
					if i == in.spec.Tasks/2 && a == 1 {
						w := c16WaitRec{who: a, begin: vk.Seq()}
						in.s.waitFn()
						w.end = vk.Seq()
						in.waits[a] = append(in.waits[a], w)
					}
					atomic.AddInt64(&progress, 1)
				}
			}(in, a)
		}
	}
	close(start)
	go func() { wg.Wait(); close(done) }()
	if !c16Await(done, &progress) {
		c16Viol(m, "C16:hang:add", desc, "adders of %d concurrent instances made no progress for %v; library goroutines:\n%s", len(insts), c16Stall, c16LibStacks())
		return false, false
	}
	held := true
	over := 0
	for k, in := range insts {
		in.s.tks.offer()
		fw := c16WaitRec{who: -1, begin: vk.Seq()}
		if !c16Call(in.s.waitFn) {
			c16Viol(m, "C16:hang:wait", desc, "final Wait of instance %d made no progress for %v; library goroutines:\n%s", k, c16Stall, c16LibStacks())
			return false, false
		}
		fw.end = vk.Seq()
		adds := append(append([]c16Add(nil), in.adds[0]...), in.adds[1]...)
		waits := append(append([]c16WaitRec{fw}, in.waits[0]...), in.waits[1]...)
		var all []c16Task
		for _, a := range adds {
			all = append(all, a.task)
		}
		if !in.s.settle(all) {
			m.Inconclusive("case %d: an execute callback of instance %d was still running 20 s after its final Wait", idx, k)
			return false, false
		}
		var st c16Stats
		if !c16Verify(m, fmt.Sprintf("%s;instance=%d(%s)", desc, k, vk.JSON(in.spec)), in.spec.Cfg, in.s.observe(adds, waits), &st) {
			held = false
		}
		c16CountStats(m, &st)
		m.Count("adds", int64(len(adds)))
		m.Count("instances_"+in.spec.Cfg.Kind+"_opts_"+map[string]string{"": "limit+interval"}[in.spec.Cfg.Opts]+in.spec.Cfg.Opts, 1)
		if st.byTrigger["threshold"] > 0 {
			over++
		}
		in.s.retire()
	}
	_ = held
	return over > 0, true
}

func TestVerifC16Instances(t *testing.T) {
	m := vk.New(t, "C16", "multi-instance: 2-3 Bulk/Chunk executors created in every order out of a pool of 10 configurations (explicit small limit, explicit limit larger than the default, no options = package default 1000 tasks / 1 MiB, interval only, limit only), two adders per instance running concurrently across instances (one mid-way Wait each), a tick, a final Wait per instance; every instance's batches are judged against its own configured (or default) limit with the common history oracle; non-trivial = some instance flushed by reaching its threshold")
	defer m.Done()
	timex.VerifFakeClock(time.Hour)
	defer timex.VerifRealClock()
	base := atomic.LoadInt64(&c16Costly)
	r := m.Rand("instances")
	idx := 0
	run := func(specs ...c16InstSpec) bool {
		idx++
		if !m.Only(idx) {
			return true
		}
		if c16Enough(base) || m.ViolCount() >= 40 {
			m.Note("stopped before case %d: enough witnesses", idx)
			return false
		}
		ic := c16InstCase{Specs: specs}
		nt, ok := c16RunInstances(m, idx, ic)
		if !ok {
			m.Note("stopped after case %d", idx)
			return false
		}
		var key []any
		for _, sp := range specs {
			key = append(key, sp.Cfg)
		}
		m.Case(vk.Digest(key...), nt)
		if m.WantSample() && idx%23 == 1 {
			m.Sample(map[string]any{"scenario": ic, "some_instance_reached_its_threshold": nt})
		}
		return true
	}
	// every ordered pair of the pool (both creation orders of every two configurations)
	for i := range c16InstPool {
		for j := range c16InstPool {
			if i != j && !run(c16InstPool[i], c16InstPool[j]) {
				return
			}
		}
	}
	// seeded ordered triples
	for k := 0; k < vk.N(30, 600); k++ {
		p := r.Perm(len(c16InstPool))
		if !run(c16InstPool[p[0]], c16InstPool[p[1]], c16InstPool[p[2]]) {
			return
		}
	}
}
