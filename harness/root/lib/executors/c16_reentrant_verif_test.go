//go:build verif

package executors

// C16 — tasks handed to the executor from inside its own execute function (the retry
// pattern: execute re-adds what failed). Such a task is "a task handed to the executor"
// like any other: it must be passed to execute exactly once, and the Add that hands it
// over, the trigger that was executing (tick, Flush, Wait, threshold hand-over) and every
// later Wait must return.
//
// Only re-adds that stay below the threshold are exercised: a threshold-reaching Add waits
// for the background flusher by design, so issuing one from inside the flusher's own
// execute cannot complete on any version of the code and is not part of what is checked.

import (
	"fmt"
	"strings"
	"sync"
	"sync/atomic"
	"testing"
	"time"

	"github.com/gotid/god/lib/timex"
	"verif.local/vk"
)

type c16ReentCase struct {
	Cfg     c16Cfg `json:"cfg"`
	Size    int    `json:"size,omitempty"`
	K       int    `json:"k"`       // first-generation tasks
	Trigger string `json:"trigger"` // what executes the first generation: flush | wait | tick | threshold
	Retry   string `json:"retry"`   // all = every first-generation task is re-added once; first = only the first task of a batch
	Second  string `json:"second"`  // what executes the re-added tasks: flush | wait | tick
}

func c16RunReentrant(m *vk.M, idx int, rc c16ReentCase) (nontrivial, ok bool) {
	desc := fmt.Sprintf("case=%d;%s", idx, vk.JSON(rc))
	m.Current(desc)
	var s *c16Sys
	var mu sync.Mutex
	var adds []c16Add
	record := func(t c16Task) {
		b := vk.Seq()
		s.addFn(t)
		e := vk.Seq()
		mu.Lock()
		adds = append(adds, c16Add{task: t, begin: b, end: e})
		mu.Unlock()
	}
	var reAdded int64
	hook := func(b *c16Batch) {
		for i, t := range b.tasks {
			if t.A >= 100 || (rc.Retry == "first" && i > 0) {
				continue
			}
			// the retry task of adder a is task (a+100).s: same order, same contiguity
			record(c16Task{A: t.A + 100, S: t.S, Size: t.Size})
			atomic.AddInt64(&reAdded, 1)
		}
	}
	s = c16New(rc.Cfg, hook)
	hang := func(op string) (bool, bool) {
		sig := "C16:hang:" + op
		for _, g := range c16LibGoroutines() {
			if strings.Contains(g.text, "addAndCheck") && strings.Contains(g.text, "executeTasks") && g.state != "running" && g.state != "runnable" {
				sig = "C16:hang:add-from-execute"
			}
		}
		c16Viol(m, sig, desc, "%s made no progress for %v: an Add issued from inside the execute function (below the threshold) did not return; library goroutines:\n%s", op, c16Stall, c16LibStacks())
		return false, false
	}
	do := func(what string, gen []c16Task) (bool, string) {
		switch what {
		case "flush":
			if !c16Call(s.flushFn) {
				return false, "flush"
			}
		case "wait":
			if !c16Call(s.waitFn) {
				return false, "wait"
			}
		case "tick":
			// staging only (no verdict): wait for the flusher's ticker, then offer ticks until the
			// generation is executed (a tick right after a commanded batch is skipped by design)
			vk.WaitUntil(5*time.Second, func() bool { return len(s.tks.live()) > 0 })
			for i := 0; i < 6 && !s.executed(gen); i++ {
				if d, _ := s.tks.offer(); d > 0 {
					m.Count("ticks_delivered", int64(d))
				}
			}
			vk.WaitUntil(5*time.Second, func() bool { return s.executed(gen) })
		}
		return true, ""
	}
	var gen0 []c16Task
	w, _ := c16Bg(func() {
		for i := 1; i <= rc.K; i++ {
			t := c16Task{A: 0, S: i, Size: rc.Size}
			gen0 = append(gen0, t)
			record(t)
		}
	})
	if !w() {
		return hang("add")
	}
	if rc.Trigger == "threshold" {
		vk.WaitUntil(5*time.Second, func() bool { return s.executed(gen0) }) // staging only
	} else if good, op := do(rc.Trigger, gen0); !good {
		return hang(op)
	}
	mu.Lock()
	var gen1 []c16Task
	for _, a := range adds {
		if a.task.A >= 100 {
			gen1 = append(gen1, a.task)
		}
	}
	mu.Unlock()
	if good, op := do(rc.Second, gen1); !good {
		return hang(op)
	}
	// final Wait; if the staging above did not get the first generation executed, this Wait
	// executes it and the re-adds arrive during it: Wait again until nothing new was added
	var fw c16WaitRec
	for round := 0; ; round++ {
		mu.Lock()
		n0 := len(adds)
		mu.Unlock()
		fw = c16WaitRec{who: -1, begin: vk.Seq()}
		if !c16Call(s.waitFn) {
			return hang("wait")
		}
		fw.end = vk.Seq()
		mu.Lock()
		n1 := len(adds)
		mu.Unlock()
		if n1 == n0 || round >= 3 {
			break
		}
	}
	mu.Lock()
	all := make([]c16Task, 0, len(adds))
	for _, a := range adds {
		all = append(all, a.task)
	}
	mu.Unlock()
	if !s.settle(all) {
		m.Inconclusive("case %d: an execute callback was still running 20 s after the final Wait", idx)
		return false, false
	}
	mu.Lock()
	obs := s.observe(append([]c16Add(nil), adds...), []c16WaitRec{fw})
	mu.Unlock()
	var st c16Stats
	c16Verify(m, desc, rc.Cfg, obs, &st)
	c16CountStats(m, &st)
	n := atomic.LoadInt64(&reAdded)
	m.Count("adds_from_outside", int64(rc.K))
	m.Count("adds_from_inside_execute", n)
	m.Count("first_generation_executed_by_"+rc.Trigger, 1)
	s.retire()
	if m.WantSample() && idx%13 == 1 {
		m.Sample(map[string]any{"scenario": rc, "tasks_re-added_from_inside_execute": n, "tasks_executed": st.tasks,
			"batches(T=threshold t=tick q=quit f=flush w=wait,size)": st.order})
	}
	return n > 0 && st.tasks == rc.K+int(n), true
}

func TestVerifC16Reentrant(t *testing.T) {
	m := vk.New(t, "C16", "re-entrant Add (retry pattern): the execute function re-adds every (or the first) first-generation task once, below the threshold; first generation executed by Flush / Wait / tick / threshold hand-over, the re-added tasks by Flush / Wait / tick, then a final Wait; every Add, Flush and Wait must return and first-generation and re-added tasks are each executed exactly once (common history oracle); bulk 1000/8, chunk 1 MiB, periodical never/6; non-trivial = re-added tasks were executed")
	defer m.Done()
	timex.VerifFakeClock(time.Hour)
	defer timex.VerifRealClock()
	base := atomic.LoadInt64(&c16Costly)
	type cfgK struct {
		cfg  c16Cfg
		size int
		ks   []int // K for the non-threshold triggers (K first-generation + K re-added tasks stay below the threshold)
	}
	cs := []cfgK{
		{c16Cfg{Kind: "bulk", N: defaultBulkTasks, Opts: "none"}, 0, []int{1, 5}},
		{c16Cfg{Kind: "bulk", N: 8}, 0, []int{1, 3}},
		{c16Cfg{Kind: "chunk", N: defaultChunkSize}, 3, []int{1, 5}},
		{c16Cfg{Kind: "periodical", N: 0}, 0, []int{1, 5}},
		{c16Cfg{Kind: "periodical", N: 6}, 0, []int{2}},
	}
	idx := 0
	run := func(rc c16ReentCase) bool {
		idx++
		if !m.Only(idx) {
			return true
		}
		if c16Enough(base) {
			return false
		}
		nt, ok := c16RunReentrant(m, idx, rc)
		if !ok {
			m.Note("stopped after case %d", idx)
			return false
		}
		m.Case(vk.Digest(rc), nt)
		return true
	}
	for rep := 0; rep < vk.N(1, 20); rep++ {
		for _, c := range cs {
			for _, trig := range []string{"flush", "wait", "tick"} {
				for _, second := range []string{"flush", "wait", "tick"} {
					for _, k := range c.ks {
						if !run(c16ReentCase{Cfg: c.cfg, Size: c.size, K: k, Trigger: trig, Retry: "all", Second: second}) {
							return
						}
					}
				}
			}
			// threshold hand-over: the batch is executed by the background flusher, which
			// re-adds one task (a single task cannot reach a threshold >= 2)
			if c.cfg.N >= 2 && c.cfg.N <= 10 && c.cfg.Kind != "chunk" {
				for _, second := range []string{"flush", "wait", "tick"} {
					if !run(c16ReentCase{Cfg: c.cfg, K: c.cfg.N, Trigger: "threshold", Retry: "first", Second: second}) {
						return
					}
				}
			}
		}
	}
}
