//go:build verif

package mr_test

// C07 — MapReduce monitor, core: scenario description, instrumented callbacks,
// event recording, oracle (DESIGN.md §3 C07, §1.3 gated / racing outcomes).
//
// The monitor lives in the external test package so that every frame of the
// library ("github.com/gotid/god/lib/mr.") is distinguishable from harness
// frames ("…/lib/mr_test.") in goroutine dumps.

import (
	"context"
	"errors"
	"fmt"
	"reflect"
	"runtime"
	"sort"
	"strings"
	"sync"
	"sync/atomic"
	"time"

	"github.com/gotid/god/lib/mr"
	"verif.local/vk"
)

const (
	c07LibFrame   = "github.com/gotid/god/lib/mr."
	c07CallWatch  = 25 * time.Second // the property is termination: a call that normally takes µs
	c07LeakWatch  = 20 * time.Second
	c07GateWatch  = 60 * time.Second
	c07TwicePanic = "多次写入聚合器"
)

type c07It struct {
	W    int    `json:"w"`              // values written by the mapper of this item
	Act  string `json:"act,omitempty"`  // cancel | cancelnil | panic | ctx | err (Finish: return an error)
	At   int    `json:"at,omitempty"`   // the act happens after At writes
	Wait string `json:"wait,omitempty"` // gate(s) awaited before the act, comma separated
	Sig  string `json:"sig,omitempty"`  // gate closed after the act returned
	Y    int    `json:"y,omitempty"`    // yields before working
	// ErrKind: which error value cancel / the Finish function supplies: "" (a harness error) | ctx-canceled |
	// deadline | cancelnil-sentinel | noout | wrapped-canceled | wrapped-deadline | wrapped-noout |
	// typed-nil | struct-value | non-comparable
	ErrKind string `json:"err_kind,omitempty"`
}

type c07Red struct {
	Early    int    `json:"early,omitempty"` // writes before consuming anything (then gate "rw" is closed)
	Stop     int    `json:"stop"`            // -1 consume all, else stop consuming after Stop values
	Act      string `json:"act,omitempty"`   // panic | cancel | cancelnil
	ActEarly bool   `json:"act_early,omitempty"`
	End      int    `json:"end,omitempty"`  // writes at the end
	Wait     string `json:"wait,omitempty"` // gate awaited before the act
	// EarlyWait: gate awaited (softly: 3 s, then the scenario only gets the weaker oracle) before the early writes
	EarlyWait string `json:"early_wait,omitempty"`
}

type c07Sc struct {
	Class      string  `json:"class"`
	Entry      string  `json:"entry"` // MapReduce MapReduceVoid MapReduceChan ForEach Finish FinishVoid
	N          int     `json:"n"`
	Workers    int     `json:"workers"` // 0 = option absent (16), >0 WithWorkers(w), <0 WithWorkers(0) (=1)
	Items      []c07It `json:"items,omitempty"`
	Red        c07Red  `json:"red"`
	Ctx        string  `json:"ctx,omitempty"` // "" | live | pre ; mid-run cancellation is an item act
	GenPanicAt int     `json:"gen_panic_at"`  // -1 none, else the generator panics after sending that many items
	GenWait    string  `json:"gen_wait,omitempty"`
	Saturate   bool    `json:"saturate,omitempty"` // mappers linger to overlap as much as the pool allows
	// Endless > 0: the generator keeps offering items (up to N) until the call has returned, or until it has
	// offered Endless items after the context was cancelled (so it is finite for implementations that drain
	// the source before returning)
	Endless int `json:"endless,omitempty"`
	// Special: generated items that are not their int index but a zero value; each kind at most once per
	// scenario so that the mapper can map the value back to its index
	// (kinds: nil | nil-ptr | empty-string | false | empty-struct; item 0 is the int zero anyway)
	Special []c07Special `json:"special,omitempty"`
	// WSpecial: mapper-written values that are zero values instead of the tagged struct: At = item index, the
	// FIRST value written by that item; each kind at most once per scenario
	// (kinds: nil | nil-ptr | empty-string | false | empty-struct | int0)
	WSpecial []c07Special `json:"wspecial,omitempty"`
	// Probe: the last item is a probe: when its send completes gate "px" is closed and the generator waits for "rw"
	Probe bool `json:"probe,omitempty"`
	// OutVal selects what the reducer writes: "" (a tagged struct) | nil | int0 | empty-string | false | nil-ptr | empty-struct
	OutVal string   `json:"out_val,omitempty"`
	Expect []string `json:"expect,omitempty"` // exact legal outcome keys (gated); nil = generic racing rule
	// ExpectOrdered replaces Expect when the stamps confirm that every panic was raised strictly after
	// the reducer's first Write had returned and after the generator function (source feeder) had returned.
	ExpectOrdered []string `json:"expect_ordered,omitempty"`
}

func (sc *c07Sc) effWorkers() int {
	switch sc.Entry {
	case "Finish", "FinishVoid":
		if sc.N < 1 {
			return 1
		}
		return sc.N
	}
	if sc.Workers == 0 {
		return 16
	}
	if sc.Workers < 0 {
		return 1
	}
	return sc.Workers
}

func (sc *c07Sc) hasReducer() bool {
	return sc.Entry == "MapReduce" || sc.Entry == "MapReduceVoid" || sc.Entry == "MapReduceChan"
}

func (sc *c07Sc) hasOutput() bool { return sc.Entry == "MapReduce" || sc.Entry == "MapReduceChan" }

type c07Special struct {
	At   int    `json:"at"`
	Kind string `json:"kind"`
}

var c07SpecialKinds = []string{"nil", "nil-ptr", "empty-string", "false", "empty-struct"}

// itemVal is the value the generator emits for index i.
func (sc *c07Sc) itemVal(i int) any {
	for _, sp := range sc.Special {
		if sp.At == i {
			switch sp.Kind {
			case "nil":
				return nil
			case "nil-ptr":
				return (*int)(nil)
			case "empty-string":
				return ""
			case "false":
				return false
			case "empty-struct":
				return struct{}{}
			}
		}
	}
	return i
}

func c07ZeroOf(kind string) (any, bool) {
	switch kind {
	case "nil":
		return nil, true
	case "nil-ptr":
		return (*int)(nil), true
	case "empty-string":
		return "", true
	case "false":
		return false, true
	case "empty-struct":
		return struct{}{}, true
	case "int0":
		return 0, true
	}
	return nil, false
}

func c07KindOf(v any) string {
	switch t := v.(type) {
	case nil:
		return "nil"
	case *int:
		if t == nil {
			return "nil-ptr"
		}
	case string:
		if t == "" {
			return "empty-string"
		}
	case bool:
		if !t {
			return "false"
		}
	case struct{}:
		return "empty-struct"
	case int:
		if t == 0 {
			return "int0"
		}
	}
	return ""
}

// writeVal is what the mapper of item id hands to Write as its k-th value.
func (sc *c07Sc) writeVal(id, k int) any {
	if k == 0 {
		for _, sp := range sc.WSpecial {
			if sp.At == id {
				if z, ok := c07ZeroOf(sp.Kind); ok {
					return z
				}
			}
		}
	}
	return c07Val{id, k}
}

// valIndex maps a value received by the reducer back to (item, k).
func (sc *c07Sc) valIndex(v any) (c07Val, bool) {
	if cv, ok := v.(c07Val); ok {
		for _, sp := range sc.WSpecial {
			if sp.At == cv.id && cv.k == 0 {
				return cv, false // that value was written as a zero value, not as the struct
			}
		}
		return cv, true
	}
	if kind := c07KindOf(v); kind != "" {
		for _, sp := range sc.WSpecial {
			if sp.Kind == kind {
				return c07Val{sp.At, 0}, true
			}
		}
	}
	return c07Val{}, false
}

// itemIndex maps a value received by a mapper back to the generated index (-1 = never generated).
func (sc *c07Sc) itemIndex(item any) int {
	kind := ""
	switch v := item.(type) {
	case int:
		for _, sp := range sc.Special {
			if sp.At == v {
				return -1 // that index was emitted as a special value, not as an int
			}
		}
		return v
	case nil:
		kind = "nil"
	case *int:
		if v == nil {
			kind = "nil-ptr"
		}
	case string:
		if v == "" {
			kind = "empty-string"
		}
	case bool:
		if !v {
			kind = "false"
		}
	case struct{}:
		kind = "empty-struct"
	}
	for _, sp := range sc.Special {
		if kind != "" && sp.Kind == kind {
			return sp.At
		}
	}
	return -1
}

type c07Val struct{ id, k int }
type c07Out struct{ idx, k int }
type c07Panic struct{ who string }
type c07Err struct{ who string }

func (e *c07Err) Error() string {
	if e == nil {
		return "c07 typed-nil error"
	}
	return "c07 cancel by " + e.who
}

// c07ValErr is a comparable struct-valued error, c07SliceErr a non-comparable one (== on two of them panics).
type c07ValErr struct{ who string }

func (e c07ValErr) Error() string { return "c07 struct error by " + e.who }

type c07SliceErr struct {
	who  string
	tags []string
}

func (e c07SliceErr) Error() string { return "c07 non-comparable error by " + e.who }

// c07SameErr: is the returned error exactly the supplied value? (== where defined, deep equality for
// non-comparable dynamic types)
func c07SameErr(a, b error) (same bool) {
	defer func() {
		if recover() != nil {
			same = reflect.DeepEqual(a, b)
		}
	}()
	return a == b
}

type c07CancelEv struct {
	key        string
	err        error // the value supplied to cancel / returned by the Finish function (nil for cancel(nil))
	start, end int64
}

type c07WriteEv struct {
	val        any
	start, end int64
}

type c07Outcome struct {
	returned bool
	val      any
	err      error
	pval     any
	panicked bool
}

// c07Run is the recorder of one scenario execution.
type c07Run struct {
	sc  *c07Sc
	idx int

	mu       sync.Mutex
	mapSeen  map[int]int
	badItems []string
	wrote    map[c07Val]int
	got      map[c07Val]int
	cancels  []*c07CancelEv
	panics   []string
	panicAt  []int64
	rwrites  []*c07WriteEv
	gates    map[string]chan struct{}
	closed   map[string]bool
	armed    map[string]bool // the closer of the gate has entered the library call that precedes the close
	waitOn   map[string]int
	gateTO   string

	gauge, maxGauge  int32
	pxAt             int64 // stamp taken when the probe item's send completed
	pxGauge          int32 // mappers in flight at that moment
	softTO           bool  // a soft wait expired: only the weaker oracle applies
	callReturned     int32 // set by the harness when the entry point returned
	mappedAfterCtx   int64 // mapper invocations that began after the context cancellation had completed
	offeredAfterCtx  int64 // items the generator offered after the context cancellation had completed
	started          int32
	active           int32 // user callbacks currently running
	ctxStart, ctxEnd int64
	genRet           int64
	feederRet        int64
	redRet           int64

	ctx       context.Context
	ctxCancel context.CancelFunc
}

func c07NewRun(idx int, sc *c07Sc) *c07Run {
	x := &c07Run{sc: sc, idx: idx, mapSeen: map[int]int{}, wrote: map[c07Val]int{}, got: map[c07Val]int{},
		gates: map[string]chan struct{}{}, closed: map[string]bool{}, armed: map[string]bool{}, waitOn: map[string]int{}}
	mk := func(names string) {
		for _, n := range strings.Split(names, ",") {
			if n != "" && x.gates[n] == nil {
				x.gates[n] = make(chan struct{})
			}
		}
	}
	for _, it := range sc.Items {
		mk(it.Wait)
		mk(it.Sig)
	}
	mk(sc.GenWait)
	mk(sc.Red.Wait)
	mk(sc.Red.EarlyWait)
	if sc.Probe {
		mk("px")
		mk("rw")
	}
	if sc.Red.Early > 0 {
		mk("rw")
	}
	switch sc.Ctx {
	case "live":
		x.ctx, x.ctxCancel = context.WithCancel(context.Background())
	case "pre":
		x.ctx, x.ctxCancel = context.WithCancel(context.Background())
		x.ctxCancel()
	}
	return x
}

func (x *c07Run) desc() string { return fmt.Sprintf("case=%d;%s", x.idx, vk.JSON(x.sc)) }

func (x *c07Run) arm(name string) {
	if name == "" {
		return
	}
	x.mu.Lock()
	x.armed[name] = true
	x.mu.Unlock()
}

func (x *c07Run) closeGate(name string) {
	if name == "" {
		return
	}
	x.mu.Lock()
	if g := x.gates[name]; g != nil && !x.closed[name] {
		x.closed[name] = true
		close(g)
	}
	x.mu.Unlock()
}

func (x *c07Run) releaseAll() {
	x.mu.Lock()
	for n, g := range x.gates {
		if !x.closed[n] {
			x.closed[n] = true
			close(g)
		}
	}
	x.mu.Unlock()
}

func (x *c07Run) wait(names string) {
	for _, n := range strings.Split(names, ",") {
		x.wait1(n)
	}
}

// waitSoft waits for the gate at most 3 s; expiry is not an error, it only weakens the oracle.
func (x *c07Run) waitSoft(name string) {
	x.mu.Lock()
	g := x.gates[name]
	x.mu.Unlock()
	if g == nil {
		return
	}
	t := time.NewTimer(3 * time.Second)
	defer t.Stop()
	select {
	case <-g:
	case <-t.C:
		x.mu.Lock()
		x.softTO = true
		x.mu.Unlock()
	}
}

func (x *c07Run) outVal(k int) any {
	switch x.sc.OutVal {
	case "nil":
		return nil
	case "int0":
		return 0
	case "empty-string":
		return ""
	case "false":
		return false
	case "nil-ptr":
		return (*int)(nil)
	case "empty-struct":
		return struct{}{}
	}
	return c07Out{x.idx, k}
}

func (x *c07Run) wait1(name string) {
	if name == "" {
		return
	}
	x.mu.Lock()
	g := x.gates[name]
	if g == nil {
		x.mu.Unlock()
		return
	}
	x.waitOn[name]++
	x.mu.Unlock()
	t := time.NewTimer(c07GateWatch)
	select {
	case <-g:
	case <-t.C:
		x.mu.Lock()
		x.gateTO = name
		x.mu.Unlock()
	}
	t.Stop()
	x.mu.Lock()
	x.waitOn[name]--
	x.mu.Unlock()
}

func c07Yield(n int) {
	for i := 0; i < n; i++ {
		runtime.Gosched()
	}
}

// doCancel calls the library's cancel function and records the call.
// c07MkErr builds the error value a callback supplies.
func c07MkErr(who, kind string) error {
	switch kind {
	case "ctx-canceled":
		return context.Canceled
	case "deadline":
		return context.DeadlineExceeded
	case "cancelnil-sentinel":
		return mr.ErrCancelWithNil
	case "noout":
		return mr.ErrReduceNoOutput
	case "wrapped-canceled":
		return fmt.Errorf("c07 %s: %w", who, context.Canceled)
	case "wrapped-deadline":
		return fmt.Errorf("c07 %s: %w", who, context.DeadlineExceeded)
	case "wrapped-noout":
		return fmt.Errorf("c07 %s: %w", who, mr.ErrReduceNoOutput)
	case "typed-nil":
		return (*c07Err)(nil) // a non-nil error interface holding a nil pointer
	case "struct-value":
		return c07ValErr{who: who}
	case "non-comparable":
		return c07SliceErr{who: who, tags: []string{"c07", who}}
	}
	return &c07Err{who: who}
}

func (x *c07Run) doCancel(cancel func(error), who string, withNil bool, kind ...string) {
	ev := &c07CancelEv{key: "err:" + who}
	k := ""
	if len(kind) > 0 {
		k = kind[0]
	}
	e := c07MkErr(who, k)
	ev.err = e
	if withNil {
		ev.key = "cancelnil"
		ev.err = nil
		e = nil
	}
	x.mu.Lock()
	x.cancels = append(x.cancels, ev)
	ev.start = vk.Seq()
	x.mu.Unlock()
	cancel(e)
	x.mu.Lock()
	ev.end = vk.Seq()
	x.mu.Unlock()
}

func (x *c07Run) doCtxCancel() {
	if x.ctxCancel == nil {
		return
	}
	x.mu.Lock()
	if x.ctxStart == 0 {
		x.ctxStart = vk.Seq()
	}
	x.mu.Unlock()
	x.ctxCancel()
	x.mu.Lock()
	if x.ctxEnd == 0 {
		x.ctxEnd = vk.Seq()
	}
	x.mu.Unlock()
}

func (x *c07Run) doPanic(who string) {
	x.mu.Lock()
	x.panics = append(x.panics, who)
	x.panicAt = append(x.panicAt, vk.Seq())
	x.mu.Unlock()
	panic(c07Panic{who: who})
}

// enter/leave bracket every user callback.
func (x *c07Run) enter() { atomic.AddInt32(&x.active, 1) }
func (x *c07Run) leave() { atomic.AddInt32(&x.active, -1) }

func (x *c07Run) mapperEnter(item any) (id int, it c07It, ok bool) {
	id = x.sc.itemIndex(item)
	x.mu.Lock()
	if id < 0 || id >= x.sc.N {
		x.badItems = append(x.badItems, fmt.Sprintf("%#v", item))
		x.mu.Unlock()
		return 0, c07It{}, false
	}
	x.mapSeen[id]++
	if x.ctxEnd != 0 {
		x.mappedAfterCtx++
	}
	x.mu.Unlock()
	if id < len(x.sc.Items) {
		it = x.sc.Items[id]
	} else {
		it = c07It{W: 1}
	}
	g := atomic.AddInt32(&x.gauge, 1)
	for {
		m := atomic.LoadInt32(&x.maxGauge)
		if g <= m || atomic.CompareAndSwapInt32(&x.maxGauge, m, g) {
			break
		}
	}
	atomic.AddInt32(&x.started, 1)
	x.closeGate(fmt.Sprintf("s%d", id))
	if x.sc.Saturate {
		// linger (bounded, never deciding) until one mapper more than the bound is in flight
		w := int32(x.sc.effWorkers())
		for i := 0; i < 60 && atomic.LoadInt32(&x.maxGauge) <= w; i++ {
			runtime.Gosched()
		}
	}
	c07Yield(it.Y)
	return id, it, true
}

func (x *c07Run) mapperLeave() { atomic.AddInt32(&x.gauge, -1) }

func (x *c07Run) act(it c07It, who string, cancel func(error)) {
	x.wait(it.Wait)
	switch it.Act {
	case "cancel":
		x.arm(it.Sig)
		x.doCancel(cancel, who, false, it.ErrKind)
	case "cancelnil":
		x.arm(it.Sig)
		x.doCancel(cancel, who, true)
	case "ctx":
		x.arm(it.Sig)
		x.doCtxCancel()
	case "panic":
		x.doPanic(who)
	}
	x.closeGate(it.Sig)
}

// mapper is the MapperFunc of MapReduce / MapReduceVoid / MapReduceChan.
func (x *c07Run) mapper(item any, w mr.Writer, cancel func(error)) {
	x.enter()
	defer x.leave()
	id, it, ok := x.mapperEnter(item)
	if !ok {
		return
	}
	defer x.mapperLeave()
	who := fmt.Sprint(id)
	for k := 0; k <= it.W; k++ {
		if it.Act != "" && k == it.At {
			x.act(it, who, cancel)
		}
		if k < it.W {
			v := c07Val{id, k}
			x.mu.Lock()
			x.wrote[v]++
			x.mu.Unlock()
			w.Write(x.sc.writeVal(id, k))
		}
	}
}

// forEach is the ForEachFunc of ForEach.
func (x *c07Run) forEach(item any) {
	x.enter()
	defer x.leave()
	id, it, ok := x.mapperEnter(item)
	if !ok {
		return
	}
	defer x.mapperLeave()
	if it.Act != "" {
		x.act(it, fmt.Sprint(id), nil)
	}
}

// finishFn builds the id-th function handed to Finish / FinishVoid.
func (x *c07Run) finishFn(id int) func() error {
	return func() error {
		x.enter()
		defer x.leave()
		_, it, ok := x.mapperEnter(id)
		if !ok {
			return nil
		}
		defer x.mapperLeave()
		who := fmt.Sprint(id)
		switch it.Act {
		case "err":
			x.wait(it.Wait)
			ev := &c07CancelEv{key: "err:" + who, err: c07MkErr(who, it.ErrKind)}
			x.mu.Lock()
			x.cancels = append(x.cancels, ev)
			ev.start = vk.Seq()
			x.mu.Unlock()
			return ev.err
		case "":
		default:
			x.act(it, who, nil)
		}
		return nil
	}
}

func (x *c07Run) redWrite(w mr.Writer, k int) {
	ev := &c07WriteEv{val: x.outVal(k)}
	x.mu.Lock()
	x.rwrites = append(x.rwrites, ev)
	ev.start = vk.Seq()
	x.mu.Unlock()
	w.Write(ev.val)
	x.mu.Lock()
	ev.end = vk.Seq()
	x.mu.Unlock()
}

func (x *c07Run) reducer(pipe <-chan any, w mr.Writer, cancel func(error)) {
	x.enter()
	defer func() {
		x.mu.Lock()
		x.redRet = vk.Seq()
		x.mu.Unlock()
		x.leave()
	}()
	r := x.sc.Red
	k := 0
	if r.Early > 0 {
		if r.EarlyWait != "" {
			x.waitSoft(r.EarlyWait)
		}
		x.arm("rw")
		for i := 0; i < r.Early && w != nil; i++ {
			x.redWrite(w, k)
			k++
		}
		x.closeGate("rw")
	}
	doAct := func() {
		if r.Act != "" {
			x.wait(r.Wait)
		}
		switch r.Act {
		case "panic":
			x.doPanic("r")
		case "cancel":
			x.doCancel(cancel, "r", false)
		case "cancelnil":
			x.doCancel(cancel, "r", true)
		}
	}
	if r.ActEarly {
		doAct()
	}
	n := 0
	for r.Stop < 0 || n < r.Stop {
		v, ok := <-pipe
		if !ok {
			break
		}
		n++
		x.mu.Lock()
		if cv, isVal := x.sc.valIndex(v); isVal {
			x.got[cv]++
		} else {
			x.badItems = append(x.badItems, fmt.Sprintf("reducer got %#v", v))
		}
		x.mu.Unlock()
	}
	if !r.ActEarly {
		doAct()
	}
	for i := 0; i < r.End && w != nil; i++ {
		x.redWrite(w, k)
		k++
	}
}

func (x *c07Run) generate(source chan<- any) {
	x.enter()
	defer func() {
		x.mu.Lock()
		x.genRet = vk.Seq()
		x.mu.Unlock()
		x.leave()
		if x.sc.Entry != "MapReduceChan" {
			x.closeGate("gr")
		}
	}()
	for i := 0; i <= x.sc.N; i++ {
		if i == x.sc.GenPanicAt {
			x.wait(x.sc.GenWait)
			x.doPanic("g")
		}
		if i < x.sc.N {
			if x.sc.Endless > 0 {
				if atomic.LoadInt32(&x.callReturned) != 0 {
					return
				}
				x.mu.Lock()
				if x.ctxEnd != 0 {
					x.offeredAfterCtx++
				}
				over := x.offeredAfterCtx > int64(x.sc.Endless)
				x.mu.Unlock()
				if over {
					return
				}
			}
			source <- x.sc.itemVal(i)
			if x.sc.Probe && i == x.sc.N-1 {
				x.mu.Lock()
				x.pxAt = vk.Seq()
				x.pxGauge = atomic.LoadInt32(&x.gauge)
				x.mu.Unlock()
				x.closeGate("px")
				x.wait("rw")
			}
		}
	}
}

func (x *c07Run) opts() []mr.Option {
	var o []mr.Option
	if x.sc.Workers > 0 {
		o = append(o, mr.WithWorkers(x.sc.Workers))
	} else if x.sc.Workers < 0 {
		o = append(o, mr.WithWorkers(0))
	}
	if x.ctx != nil {
		o = append(o, mr.WithContext(x.ctx))
	}
	return o
}

// call invokes the entry point in the calling goroutine.
func (x *c07Run) call() (o c07Outcome) {
	defer func() {
		if r := recover(); r != nil {
			o.pval, o.panicked = r, true
		}
		o.returned = true
	}()
	switch x.sc.Entry {
	case "MapReduce":
		o.val, o.err = mr.MapReduce(x.generate, x.mapper, x.reducer, x.opts()...)
	case "MapReduceVoid":
		o.err = mr.MapReduceVoid(x.generate, x.mapper, func(pipe <-chan any, cancel func(error)) {
			x.reducer(pipe, nil, cancel)
		}, x.opts()...)
	case "MapReduceChan":
		src := make(chan any)
		go func() {
			defer func() {
				x.mu.Lock()
				x.feederRet = vk.Seq()
				x.mu.Unlock()
				x.closeGate("gr")
			}()
			x.generate(src)
			close(src)
		}()
		o.val, o.err = mr.MapReduceChan(src, x.mapper, x.reducer, x.opts()...)
	case "ForEach":
		mr.ForEach(x.generate, x.forEach, x.opts()...)
	case "Finish":
		fns := make([]func() error, x.sc.N)
		for i := range fns {
			fns[i] = x.finishFn(i)
		}
		o.err = mr.Finish(fns...)
	case "FinishVoid":
		fns := make([]func(), x.sc.N)
		for i := range fns {
			f := x.finishFn(i)
			fns[i] = func() { _ = f() }
		}
		mr.FinishVoid(fns...)
	}
	return
}

// key maps an observed outcome to its outcome class.
func (x *c07Run) key(o c07Outcome) string {
	if o.panicked {
		switch p := o.pval.(type) {
		case c07Panic:
			return "panic:" + p.who
		case string:
			if p == c07TwicePanic {
				return "panic:twice"
			}
		}
		return "panic:foreign"
	}
	switch x.sc.Entry {
	case "ForEach", "FinishVoid":
		return "return"
	}
	if o.err != nil {
		// the error must be exactly the value a callback supplied (identity)
		x.mu.Lock()
		for _, c := range x.cancels {
			if c.err != nil && c07SameErr(o.err, c.err) {
				x.mu.Unlock()
				return c.key
			}
		}
		x.mu.Unlock()
		var ce *c07Err
		switch {
		case o.err == mr.ErrReduceNoOutput:
			return "noout"
		case o.err == mr.ErrCancelWithNil:
			return "cancelnil"
		case o.err == context.DeadlineExceeded:
			return "deadline"
		case errors.As(o.err, &ce) && ce != nil:
			return "err:" + ce.who
		}
		return "err:foreign"
	}
	if !x.sc.hasOutput() {
		return "nil"
	}
	x.mu.Lock()
	defer x.mu.Unlock()
	if len(x.rwrites) > 0 && o.val == x.rwrites[0].val {
		return "value"
	}
	if o.val == nil {
		return "nil-value"
	}
	return "wrong-value"
}

// lateOrdered reports whether the stamps prove: reducer's first Write returned, the generator
// function (or the source feeder of MapReduceChan) returned, and only then panics were raised;
// no cancel and no context event at all.
func (x *c07Run) lateOrdered() bool {
	x.mu.Lock()
	defer x.mu.Unlock()
	if len(x.cancels) > 0 || x.ctxStart != 0 || x.sc.Ctx == "pre" || x.gateTO != "" {
		return false
	}
	if len(x.rwrites) == 0 || x.rwrites[0].end == 0 || len(x.panicAt) == 0 {
		return false
	}
	gen := x.genRet
	if x.sc.Entry == "MapReduceChan" {
		gen = x.feederRet
	}
	if gen == 0 {
		return false
	}
	for _, p := range x.panicAt {
		if p < x.rwrites[0].end || p < gen {
			return false
		}
	}
	return true
}

// cancelInProgressProved reports whether the stamps prove that the first cancel call was executing
// (its drain consumed the probe item while every worker slot was occupied by a parked mapper, so the
// dispatcher could not have taken it) strictly before the reducer's first Write was invoked.
func (x *c07Run) cancelInProgressProved() bool {
	x.mu.Lock()
	defer x.mu.Unlock()
	if x.softTO || x.gateTO != "" || x.pxAt == 0 || len(x.cancels) != 1 || len(x.rwrites) == 0 || len(x.panics) > 0 || x.ctxStart != 0 {
		return false
	}
	if int(x.pxGauge) != x.sc.effWorkers() || x.mapSeen[x.sc.N-1] != 0 {
		return false
	}
	return x.cancels[0].start < x.pxAt && x.pxAt < x.rwrites[0].start
}

// terminators reports the kinds of terminating events that were executed.
func (x *c07Run) terminators() []string {
	x.mu.Lock()
	defer x.mu.Unlock()
	set := map[string]bool{}
	if len(x.cancels) > 0 {
		set["cancel"] = true
	}
	for _, p := range x.panics {
		switch p {
		case "g":
			set["generator-panic"] = true
		case "r":
			set["reducer-panic"] = true
		default:
			set["mapper-panic"] = true
		}
	}
	if x.ctxStart != 0 {
		set["ctx-done"] = true
	}
	if x.sc.Ctx == "pre" {
		set["ctx-done"] = true
	}
	var out []string
	for k := range set {
		out = append(out, k)
	}
	sort.Strings(out)
	return out
}

// genericLegal computes the set of outcome classes the statement allows given the
// events that were executed (racing rule of DESIGN §1.3: either of two unordered
// decisive events may decide; an event ordered after a completed cancel may not).
func (x *c07Run) genericLegal() map[string]bool {
	term := len(x.terminators()) > 0
	x.mu.Lock()
	defer x.mu.Unlock()
	L := map[string]bool{}
	for i, c := range x.cancels {
		beaten := false
		for j, d := range x.cancels {
			if j != i && d.end != 0 && d.end < c.start {
				beaten = true
			}
		}
		if !beaten {
			L[c.key] = true
		}
	}
	for _, p := range x.panics {
		L["panic:"+p] = true
	}
	ctxDone := x.ctxStart != 0 || x.sc.Ctx == "pre"
	if ctxDone {
		L["deadline"] = true
	}
	switch x.sc.Entry {
	case "MapReduce", "MapReduceChan":
		if len(x.rwrites) >= 1 {
			w := x.rwrites[0]
			ok := x.sc.Ctx != "pre"
			for _, d := range x.cancels {
				if d.end != 0 && d.end < w.start {
					ok = false
				}
			}
			if x.ctxEnd != 0 && x.ctxEnd < w.start {
				ok = false
			}
			if len(x.rwrites) >= 2 {
				// "writing twice panics" belongs to the no-cancellation sentence: a second Write invoked after a
				// cancel call / the context cancellation has completed must have no effect
				w2 := x.rwrites[1]
				twice := x.sc.Ctx != "pre"
				for _, d := range x.cancels {
					if d.end != 0 && d.end < w2.start {
						twice = false
					}
				}
				if x.ctxEnd != 0 && x.ctxEnd < w2.start {
					twice = false
				}
				if twice {
					L["panic:twice"] = true
				}
				if !term {
					ok = false
				}
			}
			if ok {
				L["value"] = true
			}
		} else if !term {
			L["noout"] = true
		}
	case "MapReduceVoid", "Finish":
		if !term {
			L["nil"] = true
		}
	case "ForEach", "FinishVoid":
		if len(x.panics) == 0 || ctxDone {
			L["return"] = true
		}
	}
	return L
}

func c07Keys(m map[string]bool) string {
	var ks []string
	for k := range m {
		ks = append(ks, k)
	}
	sort.Strings(ks)
	return strings.Join(ks, ",")
}

var (
	c07StackMu  sync.Mutex
	c07StackBuf = make([]byte, 256<<10)
)

// c07Goroutines returns "id -> dump block" of all goroutines (other than the
// calling one) whose stack has a library frame, excluding ids of the baseline.
// (Same as vk.GoroutinesIn but with a reused buffer: it runs after every call.)
func c07Goroutines(baseline map[string]bool) map[string]string {
	c07StackMu.Lock()
	defer c07StackMu.Unlock()
	var dump string
	for {
		n := runtime.Stack(c07StackBuf, true)
		if n < len(c07StackBuf) {
			dump = string(c07StackBuf[:n])
			break
		}
		c07StackBuf = make([]byte, 2*len(c07StackBuf))
	}
	out := map[string]string{}
	for i, b := range strings.Split(dump, "\n\n") {
		if i == 0 || !strings.Contains(b, c07LibFrame) {
			continue
		}
		f := strings.Fields(b)
		if len(f) < 2 {
			continue
		}
		if baseline != nil && baseline[f[1]] {
			continue
		}
		out[f[1]] = b
	}
	return out
}

func c07Excerpt(gs map[string]string, max int) string {
	var ids []string
	for id := range gs {
		ids = append(ids, id)
	}
	sort.Strings(ids)
	var sb strings.Builder
	for _, id := range ids {
		b := gs[id]
		lines := strings.Split(b, "\n")
		if len(lines) > 9 {
			lines = append(lines[:9], "\t…")
		}
		sb.WriteString(strings.Join(lines, "\n"))
		sb.WriteString("\n\n")
		if sb.Len() > max {
			break
		}
	}
	return sb.String()
}

// eventClass names the scenario class for signatures: the gated class name, or for
// racing scenarios a coarse name built from the kinds of terminating events executed
// (panics of generator/mapper/reducer are folded so that the signature set stays small).
func (x *c07Run) eventClass() string {
	if x.sc.Class != "" && x.sc.Class != "random" {
		return x.sc.Class
	}
	t := x.terminators()
	x.mu.Lock()
	early := x.sc.Red.Early > 0 && len(x.rwrites) > 0
	x.mu.Unlock()
	set := map[string]bool{}
	for _, k := range t {
		if strings.HasSuffix(k, "-panic") {
			k = "panic"
			if early {
				k = "late-panic"
			}
		}
		set[k] = true
	}
	var parts []string
	for k := range set {
		parts = append(parts, k)
	}
	sort.Strings(parts)
	if early {
		parts = append([]string{"reducer-early-output"}, parts...)
	}
	if len(parts) == 0 {
		return "racing:no-terminating-event"
	}
	return "racing:" + strings.Join(parts, "+")
}
