//go:build verif

package mr_test

// C07 — execution of one scenario under watchdogs and the oracle over what was recorded.

import (
	"fmt"
	"runtime"
	"sync/atomic"
	"time"

	"verif.local/vk"
)

type c07Status int

const (
	c07OK c07Status = iota
	c07Viol
	c07Leak
	c07Hang
	c07Incon
)

// c07CountKey folds per-item outcome classes for the evidence counters.
func c07CountKey(k string) string {
	for _, p := range []string{"err:", "panic:"} {
		if len(k) > len(p) && k[:len(p)] == p && k[len(p)] >= '0' && k[len(p)] <= '9' {
			return p + "mapper-item"
		}
	}
	return k
}

type c07Env struct {
	m        *vk.M
	baseline map[string]bool
	procs    []int
	nrun     int
}

func c07NewEnv(m *vk.M) *c07Env {
	e := &c07Env{m: m, baseline: map[string]bool{}, procs: []int{16, 1, 4, 2}}
	for id := range c07Goroutines(nil) {
		e.baseline[id] = true
	}
	if len(e.baseline) > 0 {
		m.Note("%d goroutines with library frames were already parked when this test function started (left by an earlier non-returning call); they are excluded from the leak checks", len(e.baseline))
	}
	return e
}

// rotate switches GOMAXPROCS every 40 scenarios (1, 2, 4, 16).
func (e *c07Env) rotate() {
	if e.nrun%40 == 0 {
		runtime.GOMAXPROCS(e.procs[(e.nrun/40)%len(e.procs)])
	}
	e.nrun++
}

func (e *c07Env) exec(idx int, sc *c07Sc) (st c07Status, okey string) {
	m := e.m
	e.rotate()
	x := c07NewRun(idx, sc)
	m.Current(x.desc())
	ng0 := runtime.NumGoroutine()
	res := make(chan c07Outcome, 1)
	go func() { res <- x.call() }()
	var o c07Outcome
	timer := time.NewTimer(c07CallWatch)
	select {
	case o = <-res:
		timer.Stop()
	case <-timer.C:
		// the call did not return: decide whether the harness' own gating is the cause
		x.mu.Lock()
		stuck := ""
		for name, n := range x.waitOn {
			if n > 0 && !x.closed[name] && !x.armed[name] {
				stuck = name
			}
		}
		x.mu.Unlock()
		gs := c07Goroutines(e.baseline)
		if stuck != "" {
			m.Inconclusive("case %d (%s): call did not return within %v while a callback waits on harness gate %q whose closing action never started", idx, sc.Class, c07CallWatch, stuck)
		} else {
			m.Count("hangs", 1)
			m.Violate("C07:hang:"+x.eventClass(), x.desc(),
				"%s did not return within %v (a call of this size takes microseconds); terminating events executed: %v; goroutines parked in library frames:\n%s",
				sc.Entry, c07CallWatch, x.terminators(), c07Excerpt(gs, 3000))
		}
		for id := range gs {
			e.baseline[id] = true
		}
		x.releaseAll()
		if stuck != "" {
			return c07Incon, "hang"
		}
		return c07Hang, "hang"
	}
	atomic.StoreInt32(&x.callReturned, 1)
	x.releaseAll()
	okey = x.key(o)
	m.Count("outcome_"+c07CountKey(okey), 1)
	m.Count("calls_"+sc.Entry, 1)

	// ---- quiescence: user callbacks finished, generator returned, then no library goroutine may remain
	hasGen := sc.Entry == "MapReduce" || sc.Entry == "MapReduceVoid" || sc.Entry == "ForEach"
	cbDone := func() bool {
		if atomic.LoadInt32(&x.active) != 0 {
			return false
		}
		x.mu.Lock()
		defer x.mu.Unlock()
		if hasGen && x.genRet == 0 {
			return false
		}
		if sc.Entry == "MapReduceChan" && x.feederRet == 0 {
			return false
		}
		return true
	}
	leaked := func() map[string]string {
		var gs map[string]string
		// cheap pre-wait (decides nothing): goroutine count back to where it was before the call
		vk.WaitUntil(100*time.Millisecond, func() bool { return cbDone() && runtime.NumGoroutine() <= ng0 })
		vk.WaitUntil(c07LeakWatch, func() bool {
			if !cbDone() {
				return false
			}
			gs = c07Goroutines(e.baseline)
			return len(gs) == 0
		})
		if !cbDone() {
			gs = c07Goroutines(e.baseline)
			if len(gs) == 0 {
				gs = map[string]string{"?": "user callbacks still running but no goroutine in library frames"}
			}
		}
		return gs
	}
	m.Count("leak_checks", 1)
	if gs := leaked(); len(gs) > 0 {
		for id := range gs {
			e.baseline[id] = true
		}
		if x.ctxCancel != nil {
			x.ctxCancel()
		}
		x.mu.Lock()
		genBlocked := hasGen && x.genRet == 0
		feederBlocked := sc.Entry == "MapReduceChan" && x.feederRet == 0
		to := x.gateTO
		x.mu.Unlock()
		switch {
		case to != "":
			m.Inconclusive("case %d (%s): harness gate %q timed out", idx, sc.Class, to)
			return c07Incon, okey
		case genBlocked || feederBlocked:
			// the statement conditions leak-freedom on the generator having returned
			m.Inconclusive("case %d (%s): the generator/source feeder is still blocked %v after the call returned (source not drained); leak clause not decidable\n%s", idx, sc.Class, c07LeakWatch, c07Excerpt(gs, 1500))
			return c07Incon, okey
		}
		m.Count("leaks", 1)
		m.Violate("C07:leak:"+x.eventClass(), x.desc(),
			"%s returned (%s) and the generator has returned, but %d goroutine(s) started by the call are still parked in library frames %v later; terminating events executed: %v\n%s",
			sc.Entry, okey, len(gs), c07LeakWatch, x.terminators(), c07Excerpt(gs, 3000))
		return c07Leak, okey
	}
	if x.ctxCancel != nil {
		x.ctxCancel()
	}
	x.mu.Lock()
	to := x.gateTO
	x.mu.Unlock()
	if to != "" {
		m.Inconclusive("case %d (%s): harness gate %q timed out", idx, sc.Class, to)
		return c07Incon, okey
	}

	// ---- outcome
	var legal map[string]bool
	if sc.Expect != nil {
		exp := sc.Expect
		if sc.Probe && sc.ExpectOrdered != nil {
			if x.cancelInProgressProved() {
				exp = sc.ExpectOrdered
				m.Count("cancel_in_progress_before_write_proved_by_stamps", 1)
			} else {
				m.Count("cancel_in_progress_not_proved", 1)
			}
		} else if sc.ExpectOrdered != nil {
			if x.lateOrdered() {
				exp = sc.ExpectOrdered
				m.Count("late_panic_order_confirmed_by_stamps", 1)
			} else {
				m.Count("late_panic_order_not_confirmed", 1)
			}
		}
		legal = map[string]bool{}
		for _, k := range exp {
			legal[k] = true
		}
	} else {
		legal = x.genericLegal()
	}
	terms := x.terminators()
	if !legal[okey] {
		detail := ""
		if o.panicked {
			detail = fmt.Sprintf(" panic value: %v", o.pval)
		} else if o.err != nil {
			detail = fmt.Sprintf(" error: %v", o.err)
		} else if o.val != nil {
			detail = fmt.Sprintf(" value: %#v", o.val)
		}
		x.mu.Lock()
		nw := len(x.rwrites)
		x.mu.Unlock()
		m.Violate("C07:outcome:"+x.eventClass()+":got-"+okey, x.desc(),
			"%s ended with %q;%s; allowed by the statement for the executed events: {%s}; terminating events executed: %v; reducer Write calls: %d",
			sc.Entry, okey, detail, c07Keys(legal), terms, nw)
		return c07Viol, okey
	}

	// ---- exactly-once / at-most-once / worker bound
	x.mu.Lock()
	defer x.mu.Unlock()
	if sc.Endless > 0 {
		m.Count("items_offered_after_context_done", x.offeredAfterCtx)
		m.Count("items_mapped_after_context_done", x.mappedAfterCtx)
		m.Max("max_items_mapped_after_context_done_in_one_call", x.mappedAfterCtx)
		if x.mappedAfterCtx > int64(sc.Endless)/4 {
			m.Violate("C07:ctx-ignored:still-mapping-after-context-done:"+sc.Entry, x.desc(),
				"%s: the context cancellation completed, the generator went on offering items and %d of the %d items offered afterwards were still passed to the mapper before the call ended (%s); a done context has to make the call return, not run on until the generator is exhausted", sc.Entry, x.mappedAfterCtx, x.offeredAfterCtx, okey)
			return c07Viol, okey
		}
	}
	clean := len(terms) == 0
	var mapped, written, reduced int64
	if len(x.badItems) > 0 {
		m.Violate("C07:mapper:unknown-item", x.desc(), "callbacks received values that were never generated/written: %v", x.badItems)
		return c07Viol, okey
	}
	for id, c := range x.mapSeen {
		mapped += int64(c)
		if c > 1 {
			m.Violate("C07:mapper:item-twice", x.desc(), "item %d was passed to the mapper %d times (%s, n=%d workers=%d)", id, c, sc.Entry, sc.N, sc.effWorkers())
			return c07Viol, okey
		}
	}
	if clean {
		for id := 0; id < sc.N; id++ {
			if x.mapSeen[id] == 0 {
				m.Violate("C07:mapper:item-missing", x.desc(), "no cancellation/panic/context event, but generated item %d of %d never reached the mapper (%s, workers=%d, outcome %s)", id, sc.N, sc.Entry, sc.effWorkers(), okey)
				return c07Viol, okey
			}
		}
	}
	for _, c := range x.wrote {
		written += int64(c)
	}
	for v, c := range x.got {
		reduced += int64(c)
		if x.wrote[v] == 0 {
			m.Violate("C07:reducer:value-unknown", x.desc(), "reducer received value %+v that no mapper wrote", v)
			return c07Viol, okey
		}
		if c > 1 {
			m.Violate("C07:reducer:value-twice", x.desc(), "value %+v written once reached the reducer %d times", v, c)
			return c07Viol, okey
		}
	}
	if clean && sc.hasReducer() && sc.Red.Stop < 0 {
		for v := range x.wrote {
			if x.got[v] == 0 {
				m.Violate("C07:reducer:value-missing", x.desc(), "no cancellation/panic/context event and the reducer consumed its pipe to the end, but value %+v written by a mapper never reached it (%d written, %d received)", v, written, reduced)
				return c07Viol, okey
			}
		}
		m.Count("exactly_once_checked_calls", 1)
	}
	mg := int64(atomic.LoadInt32(&x.maxGauge))
	if mg > int64(sc.effWorkers()) {
		m.Violate("C07:workers:exceeded", x.desc(), "%d mappers were running at the same time, configured bound %d (%s, n=%d)", mg, sc.effWorkers(), sc.Entry, sc.N)
		return c07Viol, okey
	}
	if mg == int64(sc.effWorkers()) {
		m.Count("calls_reaching_worker_bound", 1)
	}
	m.Max("max_concurrent_mappers", mg)
	m.Count("mapper_calls", mapped)
	m.Count("values_written_by_mappers", written)
	m.Count("values_received_by_reducer", reduced)
	m.Count("cancel_calls", int64(len(x.cancels)))
	m.Count("panics_raised", int64(len(x.panics)))
	m.Count("reducer_write_calls", int64(len(x.rwrites)))
	if x.ctxStart != 0 {
		m.Count("ctx_cancelled_mid_run", 1)
	}
	if sc.Ctx == "pre" {
		m.Count("ctx_done_before_call", 1)
	}
	if sc.hasReducer() && sc.Red.Stop >= 0 && clean && mapped == int64(sc.N) {
		m.Count("early_stop_calls_all_items_still_mapped", 1)
	}
	nontrivial := mapped > 0 || len(terms) > 0 || len(x.rwrites) > 0
	m.Case(vk.Digest(vk.JSON(sc), okey), nontrivial)
	return c07OK, okey
}
