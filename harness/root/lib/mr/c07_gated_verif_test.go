//go:build verif

package mr_test

// C07 — gated scenario classes (exactly one legal outcome, or a stated small set
// for ordered "output first, panic later" classes) and the test functions that run them.

import (
	"fmt"
	"runtime"
	"testing"

	"verif.local/vk"
)

type c07WN struct{ w, n int }

// c07Sizes: worker settings x item counts (0, 1, below/at/above the bound, large).
func c07Sizes(minN, minW int, small bool) []c07WN {
	var out []c07WN
	ws := []int{-1, 1, 2, 3, 4, 0}
	if small {
		ws = []int{1, 2, 4, 0}
	}
	for _, w := range ws {
		ew := w
		if w == 0 {
			ew = 16
		} else if w < 0 {
			ew = 1
		}
		if ew < minW {
			continue
		}
		ns := []int{0, 1, ew - 1, ew, ew + 1, 3*ew + 1}
		if ew <= 4 && !small {
			ns = append(ns, 10*ew)
		}
		seen := map[int]bool{}
		for _, n := range ns {
			if n < minN || seen[n] {
				continue
			}
			seen[n] = true
			out = append(out, c07WN{w, n})
		}
	}
	return out
}

func c07Items(n int, f func(i int, it *c07It)) []c07It {
	items := make([]c07It, n)
	for i := range items {
		items[i] = c07It{W: 1, Y: i % 3}
		if f != nil {
			f(i, &items[i])
		}
	}
	return items
}

func c07NormalExpect(entry string, writes int) []string {
	switch entry {
	case "MapReduce", "MapReduceChan":
		switch writes {
		case 0:
			return []string{"noout"}
		case 1:
			return []string{"value"}
		}
		return []string{"panic:twice"}
	case "MapReduceVoid", "Finish":
		return []string{"nil"}
	}
	return []string{"return"}
}

var c07AllEntries = []string{"MapReduce", "MapReduceVoid", "MapReduceChan", "ForEach", "Finish", "FinishVoid"}
var c07MREntries = []string{"MapReduce", "MapReduceVoid", "MapReduceChan"}
var c07OutEntries = []string{"MapReduce", "MapReduceChan"}

func c07Picks(n int) []int {
	seen := map[int]bool{}
	var out []int
	for _, a := range []int{0, n / 2, n - 1} {
		if a >= 0 && a < n && !seen[a] {
			seen[a] = true
			out = append(out, a)
		}
	}
	return out
}

// c07Classes builds the gated scenario families. small=true yields a reduced set (race run).
func c07Classes(small bool) map[string][]c07Sc {
	cl := map[string][]c07Sc{}
	add := func(sc c07Sc) {
		if sc.Entry == "Finish" || sc.Entry == "FinishVoid" {
			if sc.N > 40 {
				return
			}
			sc.Workers = 0
		}
		cl[sc.Class] = append(cl[sc.Class], sc)
	}
	for _, s := range c07Sizes(0, 1, small) {
		w, n := s.w, s.n
		ew := (&c07Sc{Entry: "MapReduce", Workers: w}).effWorkers()
		for _, e := range c07AllEntries {
			for end := 0; end <= 2; end++ {
				if end > 0 && e != "MapReduce" && e != "MapReduceChan" {
					continue
				}
				ctx := ""
				if (n+end)%3 == 1 {
					ctx = "live"
				}
				add(c07Sc{Class: "normal", Entry: e, N: n, Workers: w, Ctx: ctx, GenPanicAt: -1,
					Items: c07Items(n, func(i int, it *c07It) { it.W = i % 4 }),
					Red:   c07Red{Stop: -1, End: end}, Expect: c07NormalExpect(e, end)})
			}
		}
		for _, e := range c07OutEntries {
			for _, ov := range []string{"nil", "int0", "empty-string", "false", "nil-ptr", "empty-struct"} {
				add(c07Sc{Class: "reducer-writes-zero-value", Entry: e, N: n, Workers: w, GenPanicAt: -1, OutVal: ov,
					Items: c07Items(n, nil), Red: c07Red{Stop: -1, End: 1}, Expect: []string{"value"}})
			}
		}
		// --- generated items that are nil / typed nil / other zero values (still "generated items")
		if n >= 1 {
			for _, e := range []string{"MapReduce", "MapReduceVoid", "MapReduceChan", "ForEach"} {
				for v, first := range []int{0, n / 2, n - 1} {
					var sp []c07Special
					used := map[int]bool{}
					for k, kind := range c07SpecialKinds {
						// variant 0: nil first; 1: spread from the middle; 2: nil last
						at := (first + k*2) % n
						if used[at] {
							continue
						}
						used[at] = true
						sp = append(sp, c07Special{At: at, Kind: kind})
					}
					if v > 0 && first == 0 {
						continue
					}
					add(c07Sc{Class: "generated-zero-value-items", Entry: e, N: n, Workers: w, GenPanicAt: -1, Special: sp,
						Items: c07Items(n, func(i int, it *c07It) { it.W = 1 + i%2 }),
						Red:   c07Red{Stop: -1, End: 1}, Expect: c07NormalExpect(e, 1)})
				}
			}
		}
		// --- zero values WRITTEN BY MAPPERS (they are written values like any other)
		if n >= 1 {
			for _, e := range c07MREntries {
				for v, first := range []int{0, n / 2, n - 1} {
					if v > 0 && first == 0 {
						continue
					}
					var sp []c07Special
					used := map[int]bool{}
					for k, kind := range []string{"nil", "nil-ptr", "empty-string", "false", "empty-struct", "int0"} {
						at := (first + k*2) % n
						if used[at] {
							continue
						}
						used[at] = true
						sp = append(sp, c07Special{At: at, Kind: kind})
					}
					add(c07Sc{Class: "mapper-writes-zero-values", Entry: e, N: n, Workers: w, GenPanicAt: -1, WSpecial: sp,
						Items: c07Items(n, func(i int, it *c07It) { it.W = 1 + i%3 }),
						Red:   c07Red{Stop: -1, End: 1}, Expect: c07NormalExpect(e, 1)})
				}
			}
			// --- cancel(err) / Finish function error with the values the library itself treats specially: the
			// call must return exactly the supplied error. (ErrReduceNoOutput and errors wrapping it are not
			// used with MapReduceVoid / Finish: see registry assumptions.)
			a := n / 2
			for _, e := range []string{"MapReduce", "MapReduceVoid", "MapReduceChan", "Finish"} {
				kinds := []string{"ctx-canceled", "deadline", "cancelnil-sentinel", "wrapped-canceled", "wrapped-deadline", "typed-nil", "struct-value", "non-comparable"}
				if e == "MapReduce" || e == "MapReduceChan" {
					kinds = append(kinds, "noout", "wrapped-noout")
				}
				for _, kind := range kinds {
					kind := kind
					act := "cancel"
					if e == "Finish" {
						act = "err"
					}
					add(c07Sc{Class: "cancel-with-sentinel-error", Entry: e, N: n, Workers: w, GenPanicAt: -1,
						Items: c07Items(n, func(i int, it *c07It) {
							if i == a {
								it.Act, it.ErrKind, it.At = act, kind, i%2
							}
						}), Red: c07Red{Stop: -1, End: 1}, Expect: []string{fmt.Sprintf("err:%d", a)}})
				}
			}
		}
		if n == ew+1 {
			// cancel(err) is executing (its drain took the probe item while all workers are parked), THEN the
			// reducer writes: the statement promises the value only "without cancellation", so the error must win.
			for _, e := range c07OutEntries {
				for _, act := range []string{"cancel", "cancelnil"} {
					exp := "err:0"
					if act == "cancelnil" {
						exp = "cancelnil"
					}
					started := ""
					for i := 1; i < ew; i++ {
						started += fmt.Sprintf("s%d,", i)
					}
					add(c07Sc{Class: "cancel-in-progress+reducer-write", Entry: e, N: n, Workers: w, GenPanicAt: -1, Probe: true,
						Items: c07Items(n, func(i int, it *c07It) {
							if i == 0 {
								*it = c07It{W: 1, Act: act, Wait: started}
							} else {
								*it = c07It{W: 1, Act: "park", Wait: "rw"}
							}
						}), Red: c07Red{Early: 1, EarlyWait: "px", Stop: -1},
						Expect: []string{"value", exp}, ExpectOrdered: []string{exp}})
				}
			}
		}
		if n > 1 {
			for _, e := range []string{"MapReduce", "ForEach", "Finish", "MapReduceChan"} {
				add(c07Sc{Class: "saturate", Entry: e, N: n, Workers: w, GenPanicAt: -1, Saturate: true,
					Items: c07Items(n, nil), Red: c07Red{Stop: -1, End: 1}, Expect: c07NormalExpect(e, 1)})
			}
		}
		for _, e := range c07MREntries {
			for _, j := range []int{0, 1, n / 2} {
				for end := 0; end <= 1; end++ {
					add(c07Sc{Class: "reducer-stops-early", Entry: e, N: n, Workers: w, GenPanicAt: -1,
						Items: c07Items(n, func(i int, it *c07It) { it.W = 1 + i%3 }),
						Red:   c07Red{Stop: j, End: end}, Expect: c07NormalExpect(e, end)})
				}
			}
		}
		for _, e := range c07OutEntries {
			add(c07Sc{Class: "reducer-early-output", Entry: e, N: n, Workers: w, GenPanicAt: -1,
				Items: c07Items(n, nil), Red: c07Red{Early: 1, Stop: -1}, Expect: []string{"value"}})
			add(c07Sc{Class: "reducer-early-output", Entry: e, N: n, Workers: w, GenPanicAt: -1,
				Items: c07Items(n, nil), Red: c07Red{Early: 1, Stop: 0}, Expect: []string{"value"}})
			add(c07Sc{Class: "reducer-writes-twice", Entry: e, N: n, Workers: w, GenPanicAt: -1,
				Items: c07Items(n, nil), Red: c07Red{Early: 2, Stop: -1}, Expect: []string{"panic:twice"}})
			add(c07Sc{Class: "reducer-writes-twice", Entry: e, N: n, Workers: w, GenPanicAt: -1,
				Items: c07Items(n, nil), Red: c07Red{Early: 1, Stop: -1, End: 1}, Expect: []string{"panic:twice"}})
		}
		// --- cancel
		for _, e := range c07MREntries {
			for pi, a := range c07Picks(n) {
				for _, act := range []string{"cancel", "cancelnil"} {
					exp := fmt.Sprintf("err:%d", a)
					if act == "cancelnil" {
						exp = "cancelnil"
					}
					add(c07Sc{Class: "mapper-cancel", Entry: e, N: n, Workers: w, GenPanicAt: -1,
						Items: c07Items(n, func(i int, it *c07It) {
							it.W = 2
							if i == a {
								it.Act, it.At = act, pi%3
							}
						}), Red: c07Red{Stop: -1, End: 1 + pi%2}, Expect: []string{exp}})
				}
			}
			for _, early := range []bool{true, false} {
				for _, act := range []string{"cancel", "cancelnil"} {
					exp := "err:r"
					if act == "cancelnil" {
						exp = "cancelnil"
					}
					add(c07Sc{Class: "reducer-cancel", Entry: e, N: n, Workers: w, GenPanicAt: -1,
						Items: c07Items(n, nil), Red: c07Red{Stop: n / 2, Act: act, ActEarly: early, End: 1 + n%2}, Expect: []string{exp}})
				}
			}
		}
		if n >= 2 && ew >= 2 {
			for _, e := range c07MREntries {
				add(c07Sc{Class: "first-cancel-wins", Entry: e, N: n, Workers: w, GenPanicAt: -1,
					Items: c07Items(n, func(i int, it *c07It) {
						switch i {
						case 0:
							*it = c07It{W: 1, Act: "cancel", Wait: "s1", Sig: "t1"}
						case 1:
							*it = c07It{W: 1, Act: "cancel", Wait: "t1"}
						}
					}), Red: c07Red{Stop: -1, End: 1}, Expect: []string{"err:0"}})
			}
		}
		// --- panics
		for _, a := range c07Picks(n) {
			for _, e := range c07AllEntries {
				add(c07Sc{Class: "mapper-panic", Entry: e, N: n, Workers: w, GenPanicAt: -1,
					Items: c07Items(n, func(i int, it *c07It) {
						if i == a {
							it.Act, it.At = "panic", a%2
						}
					}), Red: c07Red{Stop: -1, End: 1}, Expect: []string{fmt.Sprintf("panic:%d", a)}})
			}
		}
		if n >= 3 && ew >= 3 {
			// three mappers, all in flight, panic together: only the first may be handed over, none may block
			for _, e := range []string{"MapReduce", "MapReduceVoid", "MapReduceChan", "ForEach"} {
				add(c07Sc{Class: "three-mapper-panics", Entry: e, N: n, Workers: w, GenPanicAt: -1,
					Items: c07Items(n, func(i int, it *c07It) {
						if i < 3 {
							*it = c07It{W: 1, Act: "panic", Wait: "s0,s1,s2"}
						}
					}), Red: c07Red{Stop: -1, End: 1}, Expect: []string{"panic:0", "panic:1", "panic:2"}})
			}
		}
		for _, k := range c07Picks(n + 1) {
			for _, e := range []string{"MapReduce", "MapReduceVoid", "ForEach"} {
				add(c07Sc{Class: "generator-panic", Entry: e, N: n, Workers: w, GenPanicAt: k,
					Items: c07Items(n, nil), Red: c07Red{Stop: -1, End: 1}, Expect: []string{"panic:g"}})
			}
		}
		for _, e := range c07MREntries {
			add(c07Sc{Class: "reducer-panic", Entry: e, N: n, Workers: w, GenPanicAt: -1,
				Items: c07Items(n, nil), Red: c07Red{Stop: -1, Act: "panic", ActEarly: true}, Expect: []string{"panic:r"}})
			add(c07Sc{Class: "reducer-panic", Entry: e, N: n, Workers: w, GenPanicAt: -1,
				Items: c07Items(n, nil), Red: c07Red{Stop: n / 2, Act: "panic", End: 1}, Expect: []string{"panic:r"}})
		}
		// --- context
		for _, e := range c07MREntries {
			add(c07Sc{Class: "ctx-done-before-call", Entry: e, N: n, Workers: w, GenPanicAt: -1, Ctx: "pre",
				Items: c07Items(n, nil), Red: c07Red{Stop: -1, End: 1}, Expect: []string{"deadline"}})
			for _, a := range c07Picks(n) {
				add(c07Sc{Class: "ctx-done-mid-run", Entry: e, N: n, Workers: w, GenPanicAt: -1, Ctx: "live",
					Items: c07Items(n, func(i int, it *c07It) {
						if i == a {
							it.Act, it.At = "ctx", a%2
						}
					}), Red: c07Red{Stop: -1, End: 1}, Expect: []string{"deadline"}})
			}
		}
		// --- context ends while the generator keeps producing (all entry points that take a context)
		if n == 1 {
			for _, e := range []string{"MapReduce", "MapReduceVoid", "MapReduceChan", "ForEach"} {
				for _, a := range []int{0, 2} {
					a := a
					exp := "deadline"
					if e == "ForEach" {
						exp = "return"
					}
					add(c07Sc{Class: "ctx-done+generator-keeps-producing", Entry: e, N: 6064, Workers: w, GenPanicAt: -1, Ctx: "live", Endless: 6000,
						Items: c07Items(4, func(i int, it *c07It) {
							if i == a {
								it.Act = "ctx"
							}
						}), Red: c07Red{Stop: -1, End: 1}, Expect: []string{exp}})
				}
			}
		}
		// --- Finish with an error
		if n >= 1 && n <= 40 {
			for _, a := range c07Picks(n) {
				add(c07Sc{Class: "finish-error", Entry: "Finish", N: n, GenPanicAt: -1,
					Items: c07Items(n, func(i int, it *c07It) {
						if i == a {
							it.Act = "err"
						}
					}), Expect: []string{fmt.Sprintf("err:%d", a)}})
			}
		}
		// --- output first, terminating event strictly later (either outcome is accepted; the call must return, no goroutine may stay)
		for _, e := range c07OutEntries {
			for _, a := range c07Picks(n) {
				add(c07Sc{Class: "reducer-early-output+late-mapper-panic", Entry: e, N: n, Workers: w, GenPanicAt: -1,
					Items: c07Items(n, func(i int, it *c07It) {
						if i == a {
							it.Act, it.Wait = "panic", "rw"
						}
					}), Red: c07Red{Early: 1, Stop: -1}, Expect: []string{"value", fmt.Sprintf("panic:%d", a)}})
				add(c07Sc{Class: "reducer-early-output+late-cancel", Entry: e, N: n, Workers: w, GenPanicAt: -1,
					Items: c07Items(n, func(i int, it *c07It) {
						if i == a {
							it.Act, it.Wait = "cancel", "rw"
						}
					}), Red: c07Red{Early: 1, Stop: -1}, Expect: []string{"value", fmt.Sprintf("err:%d", a)}})
			}
			add(c07Sc{Class: "reducer-early-output+late-reducer-panic", Entry: e, N: n, Workers: w, GenPanicAt: -1,
				Items: c07Items(n, nil), Red: c07Red{Early: 1, Stop: -1, Act: "panic", ActEarly: true}, Expect: []string{"value", "panic:r"}})
			add(c07Sc{Class: "reducer-early-output+late-reducer-panic", Entry: e, N: n, Workers: w, GenPanicAt: -1,
				Items: c07Items(n, nil), Red: c07Red{Early: 1, Stop: -1, Act: "panic"}, Expect: []string{"value", "panic:r"}})
			// --- output taken AND generator returned, then the panic: the call is necessarily still in progress
			// (a goroutine of the call is running, the generator has returned, nothing cancelled), so the panic
			// must be re-raised; (value, nil) would mean the panic was dropped or the call returned over a running goroutine.
			if n >= 1 {
				as := []int{n - 1}
				if n > 1 && n <= ew {
					as = append(as, 0)
				}
				for _, a := range as {
					a := a
					add(c07Sc{Class: "output-taken+generator-returned+late-mapper-panic", Entry: e, N: n, Workers: w, GenPanicAt: -1,
						Items: c07Items(n, func(i int, it *c07It) {
							if i == a {
								it.Act, it.Wait, it.At = "panic", "rw,gr", a%2
							}
						}), Red: c07Red{Early: 1, Stop: -1},
						Expect: []string{"value", fmt.Sprintf("panic:%d", a)}, ExpectOrdered: []string{fmt.Sprintf("panic:%d", a)}})
				}
			}
			add(c07Sc{Class: "output-taken+generator-returned+late-reducer-panic", Entry: e, N: n, Workers: w, GenPanicAt: -1,
				Items: c07Items(n, nil), Red: c07Red{Early: 1, Stop: -1, Act: "panic", Wait: "gr"},
				Expect: []string{"value", "panic:r"}, ExpectOrdered: []string{"panic:r"}})
			if n <= ew {
				add(c07Sc{Class: "output-taken+generator-returned+late-reducer-panic", Entry: e, N: n, Workers: w, GenPanicAt: -1,
					Items: c07Items(n, nil), Red: c07Red{Early: 1, Stop: -1, Act: "panic", ActEarly: true, Wait: "gr"},
					Expect: []string{"value", "panic:r"}, ExpectOrdered: []string{"panic:r"}})
			}
		}
		for _, k := range c07Picks(n + 1) {
			add(c07Sc{Class: "reducer-early-output+late-generator-panic", Entry: "MapReduce", N: n, Workers: w, GenPanicAt: k, GenWait: "rw",
				Items: c07Items(n, nil), Red: c07Red{Early: 1, Stop: -1}, Expect: []string{"value", "panic:g"}})
		}
		if n >= 2 && ew >= 2 {
			for _, e := range c07MREntries {
				add(c07Sc{Class: "cancel+late-mapper-panic", Entry: e, N: n, Workers: w, GenPanicAt: -1,
					Items: c07Items(n, func(i int, it *c07It) {
						switch i {
						case 0:
							*it = c07It{W: 1, Act: "cancel", Wait: "s1", Sig: "t1"}
						case 1:
							*it = c07It{W: 1, Act: "panic", Wait: "t1"}
						}
					}), Red: c07Red{Stop: -1, End: 1}, Expect: []string{"err:0", "panic:1"}})
				add(c07Sc{Class: "ctx-done+late-mapper-panic", Entry: e, N: n, Workers: w, GenPanicAt: -1, Ctx: "live",
					Items: c07Items(n, func(i int, it *c07It) {
						switch i {
						case 0:
							*it = c07It{W: 1, Act: "ctx", Wait: "s1", Sig: "t1"}
						case 1:
							*it = c07It{W: 1, Act: "panic", Wait: "t1"}
						}
					}), Red: c07Red{Stop: -1, End: 1}, Expect: []string{"deadline", "panic:1"}})
			}
		}
	}
	return cl
}

// c07RunClasses runs the named classes `rounds` times each; a class is abandoned
// after its first violation, the whole function after a non-returning call.
// base makes the case indexes unique across the C07 test functions (replay filters by index).
func c07RunClasses(t *testing.T, m *vk.M, base int, small bool, rounds int, names ...string) {
	old := runtime.GOMAXPROCS(0)
	defer runtime.GOMAXPROCS(old)
	e := c07NewEnv(m)
	cl := c07Classes(small)
	idx := base
	for _, name := range names {
		scs := cl[name]
		if len(scs) == 0 {
			m.Skip("class " + name + " has no scenarios")
			continue
		}
		sampled := false
		abandoned := false
		for r := 0; r < rounds; r++ {
			for i := range scs {
				idx++
				if abandoned || !m.Only(idx) {
					continue
				}
				sc := scs[i]
				st, okey := e.exec(idx, &sc)
				m.Count("class_"+name, 1)
				switch st {
				case c07Hang, c07Incon:
					return
				case c07Viol, c07Leak:
					abandoned = true
				}
				if !sampled && sc.N >= 2 && st == c07OK {
					sampled = true
					if m.WantSample() {
						m.Sample(map[string]any{"class": name, "scenario": sc, "observed_outcome": okey})
					}
				}
				if idx%400 == 0 {
					m.Progress()
				}
			}
		}
	}
}

var c07CoreClasses = []string{"normal", "mapper-writes-zero-values", "cancel-with-sentinel-error", "generated-zero-value-items", "reducer-writes-zero-value", "cancel-in-progress+reducer-write", "saturate", "reducer-stops-early", "reducer-early-output", "reducer-writes-twice",
	"mapper-cancel", "reducer-cancel", "first-cancel-wins", "mapper-panic", "three-mapper-panics", "generator-panic", "reducer-panic",
	"ctx-done-mid-run", "ctx-done+generator-keeps-producing", "ctx-done-before-call", "finish-error", "reducer-early-output+late-cancel"}

const c07GatedRule = "gated scenarios (callbacks sequenced by harness channels so that one outcome is legal): worker settings {WithWorkers(0),1,2,3,4,default 16} x item counts {0,1,w-1,w,w+1,3w+1,10w} x entry points; asserted: outcome class, each item mapped <=1 (==1 without terminating event), each written value reduced <=1 (==1 when the reducer consumed everything), concurrent mappers <= bound, call returns (25 s watchdog), no goroutine in lib/mr frames once callbacks and generator have returned"

func TestVerifC07Gated(t *testing.T) {
	m := vk.New(t, "C07", c07GatedRule)
	defer m.Done()
	c07RunClasses(t, m, 0, false, c07N(1, 20, 3), c07CoreClasses...)
}

// The following functions run the classes in which a terminating event happens strictly
// after another decisive event; each stops at the first call that does not return.

func TestVerifC07LateMapperPanicAfterOutput(t *testing.T) {
	m := vk.New(t, "C07", "reducer writes its output first (Write returned = caller took it), then a mapper panics: either the value or the re-raised panic is accepted; the call must return and leave no goroutine")
	defer m.Done()
	c07RunClasses(t, m, 1000000, false, c07N(1, 20, 3), "reducer-early-output+late-mapper-panic", "output-taken+generator-returned+late-mapper-panic")
}

func TestVerifC07LateGeneratorPanicAfterOutput(t *testing.T) {
	m := vk.New(t, "C07", "reducer writes its output first, then the generator panics: value or re-raised panic accepted; the call must return and leave no goroutine")
	defer m.Done()
	c07RunClasses(t, m, 2000000, false, c07N(1, 20, 3), "reducer-early-output+late-generator-panic")
}

func TestVerifC07LateReducerPanicAfterOutput(t *testing.T) {
	m := vk.New(t, "C07", "reducer writes its output, then panics: value or re-raised panic accepted; the call must return and leave no goroutine")
	defer m.Done()
	c07RunClasses(t, m, 3000000, false, c07N(1, 20, 3), "reducer-early-output+late-reducer-panic", "output-taken+generator-returned+late-reducer-panic")
}

func TestVerifC07LatePanicAfterCancel(t *testing.T) {
	m := vk.New(t, "C07", "a mapper's cancel(err) / the context's cancellation has completed, then another mapper panics: error or re-raised panic accepted; the call must return and leave no goroutine")
	defer m.Done()
	c07RunClasses(t, m, 4000000, false, c07N(1, 20, 3), "cancel+late-mapper-panic", "ctx-done+late-mapper-panic")
}
