//go:build verif

package mr_test

// C07 — racing scenarios (seeded random; legal outcome *set* computed from the events
// that were executed), the context-already-done loop, and the -race variants.

import (
	"context"
	"fmt"
	"math/rand"
	"os"
	"runtime"
	"testing"

	"github.com/gotid/god/lib/mr"
	"verif.local/vk"
)

func c07RandomScenario(r *rand.Rand) c07Sc {
	entries := []string{"MapReduce", "MapReduce", "MapReduce", "MapReduce", "MapReduceVoid", "MapReduceVoid",
		"MapReduceChan", "MapReduceChan", "ForEach", "Finish", "FinishVoid"}
	sc := c07Sc{Class: "random", Entry: entries[r.Intn(len(entries))], GenPanicAt: -1}
	ws := []int{-1, 1, 2, 3, 4, 8, 0}
	sc.Workers = ws[r.Intn(len(ws))]
	ew := sc.effWorkers()
	ns := []int{0, 1, ew - 1, ew, ew + 1, 2*ew + 1, 5 * ew}
	sc.N = ns[r.Intn(len(ns))]
	if sc.N < 0 {
		sc.N = 0
	}
	if sc.N > 60 {
		sc.N = 60
	}
	if sc.Entry == "Finish" || sc.Entry == "FinishVoid" {
		sc.Workers = 0
		if sc.N > 24 {
			sc.N = 24
		}
	}
	// mode: which kinds of terminating events may appear
	mode := r.Intn(10) // 0-3 clean, 4 cancel, 5 panic, 6 ctx, 7-9 mixed
	allow := func(kind string) bool {
		switch {
		case mode <= 3:
			return false
		case mode == 4:
			return kind == "cancel"
		case mode == 5:
			return kind == "panic"
		case mode == 6:
			return kind == "ctx"
		}
		return true
	}
	if mode == 6 || (mode >= 7 && r.Intn(2) == 0) || (mode <= 3 && r.Intn(4) == 0) {
		sc.Ctx = "live"
		if mode >= 6 && r.Intn(6) == 0 {
			sc.Ctx = "pre"
		}
	}
	if !sc.hasReducer() && sc.Entry != "ForEach" {
		sc.Ctx = "" // Finish / FinishVoid take no options
	}
	sc.Items = make([]c07It, sc.N)
	nacts := 0
	if mode > 3 && sc.N > 0 {
		nacts = 1 + r.Intn(3)
	}
	for i := range sc.Items {
		sc.Items[i] = c07It{W: r.Intn(4), Y: r.Intn(4)}
	}
	for a := 0; a < nacts; a++ {
		it := &sc.Items[r.Intn(sc.N)]
		var kinds []string
		if allow("cancel") && sc.hasReducer() {
			kinds = append(kinds, "cancel", "cancel", "cancelnil")
		}
		if allow("cancel") && sc.Entry == "Finish" {
			kinds = append(kinds, "err", "err")
		}
		if allow("panic") {
			kinds = append(kinds, "panic", "panic")
		}
		if allow("ctx") && sc.Ctx == "live" {
			kinds = append(kinds, "ctx", "ctx")
		}
		if len(kinds) == 0 {
			continue
		}
		it.Act = kinds[r.Intn(len(kinds))]
		it.At = r.Intn(it.W + 1)
	}
	if sc.hasReducer() {
		red := c07Red{Stop: -1}
		if r.Intn(10) < 3 {
			red.Stop = r.Intn(sc.N*2 + 1)
		}
		if sc.hasOutput() {
			switch r.Intn(10) {
			case 0:
			case 1, 2:
				red.Early = 1
			case 3:
				if mode <= 3 {
					if r.Intn(2) == 0 {
						red.Early = 2
					} else {
						red.Early, red.End = 1, 1
					}
				} else {
					red.End = 1
				}
			default:
				red.End = 1
			}
		}
		if mode > 3 && r.Intn(5) == 0 {
			var kinds []string
			if allow("cancel") {
				kinds = append(kinds, "cancel", "cancelnil")
			}
			if allow("panic") {
				kinds = append(kinds, "panic")
			}
			if len(kinds) > 0 {
				red.Act = kinds[r.Intn(len(kinds))]
				red.ActEarly = r.Intn(2) == 0
			}
		}
		sc.Red = red
		if sc.hasOutput() && r.Intn(4) == 0 {
			sc.OutVal = []string{"nil", "int0", "empty-string", "false", "nil-ptr", "empty-struct"}[r.Intn(6)]
		}
	}
	if allow("panic") && (sc.Entry == "MapReduce" || sc.Entry == "MapReduceVoid" || sc.Entry == "ForEach") && r.Intn(6) == 0 {
		sc.GenPanicAt = r.Intn(sc.N + 1)
	}
	sc.Saturate = r.Intn(8) == 0
	if sc.hasReducer() && sc.N > 0 && r.Intn(4) == 0 {
		used := map[int]bool{}
		for _, kind := range []string{"nil", "nil-ptr", "empty-string", "false", "empty-struct", "int0"} {
			at := r.Intn(sc.N)
			if r.Intn(2) == 0 || used[at] || sc.Items[at].W == 0 {
				continue
			}
			used[at] = true
			sc.WSpecial = append(sc.WSpecial, c07Special{At: at, Kind: kind})
		}
	}
	// error values with a special meaning inside the library, each at most once per scenario (identity decides)
	ek := []string{"ctx-canceled", "wrapped-canceled", "wrapped-deadline", "typed-nil", "struct-value", "non-comparable"}
	if sc.hasOutput() {
		ek = append(ek, "wrapped-noout")
	}
	for i := range sc.Items {
		if (sc.Items[i].Act == "cancel" || sc.Items[i].Act == "err") && len(ek) > 0 && r.Intn(3) == 0 {
			j := r.Intn(len(ek))
			sc.Items[i].ErrKind = ek[j]
			ek = append(ek[:j], ek[j+1:]...)
		}
	}
	if sc.Entry != "Finish" && sc.Entry != "FinishVoid" && sc.N > 0 && r.Intn(4) == 0 {
		used := map[int]bool{}
		for _, kind := range c07SpecialKinds {
			at := r.Intn(sc.N)
			if r.Intn(2) == 0 || used[at] || at == sc.GenPanicAt {
				continue
			}
			used[at] = true
			sc.Special = append(sc.Special, c07Special{At: at, Kind: kind})
		}
	}
	return sc
}

// c07N picks the case count: quick / thorough / thorough run with failpoint sleeps armed.
func c07N(quick, thorough, failpoint int) int {
	if os.Getenv("C07_FAILPOINT_RUN") != "" && vk.Thorough() {
		return failpoint
	}
	return vk.N(quick, thorough)
}

func c07RunRandom(t *testing.T, m *vk.M, base, n int, salt string) {
	old := runtime.GOMAXPROCS(0)
	defer runtime.GOMAXPROCS(old)
	e := c07NewEnv(m)
	r := m.Rand(salt)
	viols := 0
	for idx := base + 1; idx <= base+n; idx++ {
		sc := c07RandomScenario(r)
		if !m.Only(idx) {
			continue
		}
		st, okey := e.exec(idx, &sc)
		switch st {
		case c07Hang, c07Incon:
			return
		case c07Viol, c07Leak:
			viols++
			if viols >= 12 {
				m.Note("stopped after %d violating scenarios", viols)
				return
			}
		}
		if st == c07OK && idx%97 == 3 && m.WantSample() {
			m.Sample(map[string]any{"scenario": sc, "observed_outcome": okey})
		}
		if idx%500 == 0 {
			m.Progress()
		}
	}
}

const c07RandomRule = "seeded random racing scenarios: entry point x workers {WithWorkers(0),1,2,3,4,8,default} x n {0,1,w-1,w,w+1,2w+1,5w} x per-item (0..3 writes, yields, cancel(err|nil)/panic/context-cancel at a random position) x reducer (consume all / stop after j / early or final Write x {0,1,2} / panic / cancel) x generator panic x context {none, live, already done}, GOMAXPROCS rotated 1/2/4/16; legal outcome set derived from the recorded events (first cancel by stamps, any raised panic, DeadlineExceeded if the context was cancelled, reducer's first value unless a cancel/context event completed before that Write started, ErrReduceNoOutput/nil only without any terminating event)"

func TestVerifC07Random(t *testing.T) {
	m := vk.New(t, "C07", c07RandomRule)
	defer m.Done()
	c07RunRandom(t, m, 10000000, c07N(16000, 400000, 30000), "random")
}

// TestVerifC07CtxAlreadyDone: the context is done before the call is made; the statement
// leaves exactly one outcome (context.DeadlineExceeded). Large fixed count of small calls
// because the interesting schedule (pipeline shuts down before the caller reaches its select)
// is rare.
func TestVerifC07CtxAlreadyDone(t *testing.T) {
	m := vk.New(t, "C07", "context already done before the call: MapReduce / MapReduceVoid / MapReduceChan x n in {0,1,3} x workers {1,2,16}, fixed call count; outcome must be context.DeadlineExceeded; afterwards no goroutine in lib/mr frames")
	defer m.Done()
	old := runtime.GOMAXPROCS(0)
	defer runtime.GOMAXPROCS(old)
	base := map[string]bool{}
	for id := range c07Goroutines(nil) {
		base[id] = true
	}
	ctx, cancel := context.WithCancel(context.Background())
	cancel()
	n := c07N(150000, 3000000, 60000)
	entries := []string{"MapReduce", "MapReduceVoid", "MapReduceChan"}
	sizes := []int{0, 1, 3}
	workers := []int{1, 2, 16}
	procs := []int{4, 16, 2, 8}
	closed := make(chan any)
	close(closed)
	bad := map[string]bool{}
	for i := 1; i <= n; i++ {
		if !m.Only(20000000 + i) {
			continue
		}
		if i%2000 == 1 {
			runtime.GOMAXPROCS(procs[(i/2000)%len(procs)])
		}
		entry := entries[i%3]
		size := sizes[(i/3)%3]
		w := workers[(i/9)%3]
		if bad[entry] {
			continue
		}
		gen := func(source chan<- any) {
			for k := 0; k < size; k++ {
				source <- k
			}
		}
		mapper := func(item any, wr mr.Writer, c func(error)) { wr.Write(item) }
		var val any
		var err error
		pv, panicked := vk.Recover(func() {
			switch entry {
			case "MapReduce":
				val, err = mr.MapReduce(gen, mapper, func(pipe <-chan any, wr mr.Writer, c func(error)) {
					for range pipe {
					}
					wr.Write(7)
				}, mr.WithContext(ctx), mr.WithWorkers(w))
			case "MapReduceVoid":
				err = mr.MapReduceVoid(gen, mapper, func(pipe <-chan any, c func(error)) {
					for range pipe {
					}
				}, mr.WithContext(ctx), mr.WithWorkers(w))
			case "MapReduceChan":
				val, err = mr.MapReduceChan(closed, mapper, func(pipe <-chan any, wr mr.Writer, c func(error)) {
					for range pipe {
					}
					wr.Write(7)
				}, mr.WithContext(ctx), mr.WithWorkers(w))
			}
		})
		got := "deadline"
		switch {
		case panicked:
			got = "panic:foreign"
			_ = pv
		case err == context.DeadlineExceeded:
		case err == mr.ErrReduceNoOutput:
			got = "noout"
		case err == nil && entry == "MapReduceVoid":
			got = "nil"
		case err == nil:
			got = "value"
		default:
			got = "err:foreign"
		}
		m.Count("outcome_"+got, 1)
		m.Count("calls_"+entry, 1)
		m.Case(vk.Digest(entry, size, w, got), true)
		if got != "deadline" {
			bad[entry] = true
			m.Violate("C07:outcome:ctx-done-before-call:got-"+got, fmt.Sprintf("case=%d;%s", 20000000+i, vk.JSON(map[string]any{"entry": entry, "n": size, "workers": w})),
				"call #%d: %s with a context that was already cancelled returned %q (value %v, error %v) instead of context.DeadlineExceeded; GOMAXPROCS=%d", i, entry, got, val, err, runtime.GOMAXPROCS(0))
		}
		if i%20000 == 0 {
			m.Progress()
		}
	}
	var gs map[string]string
	if !vk.WaitUntil(c07LeakWatch, func() bool { gs = c07Goroutines(base); return len(gs) == 0 }) {
		m.Violate("C07:leak:ctx-done-before-call", "after the loop", "%d goroutines still in library frames %v after the last call returned\n%s", len(gs), c07LeakWatch, c07Excerpt(gs, 3000))
	}
	m.Sample(map[string]any{"loop": "context cancelled before every call", "calls": n, "entries": entries, "n": sizes, "workers": workers})
}

// ---- -race variants (separate run: the race detector costs 3-10x)

func TestVerifC07RaceRandom(t *testing.T) {
	m := vk.New(t, "C07", "under the race detector: "+c07RandomRule)
	defer m.Done()
	c07RunRandom(t, m, 30000000, vk.N(4000, 80000), "race-random")
}

func TestVerifC07RaceGated(t *testing.T) {
	m := vk.New(t, "C07", "under the race detector (reduced size grid): "+c07GatedRule)
	defer m.Done()
	names := append([]string{}, c07CoreClasses...)
	c07RunClasses(t, m, 40000000, true, vk.N(1, 5), names...)
}

// TestVerifC07ForEachPanicNotLost: ForEach has no error result, so a panic of the generator or of a
// mapper is its only abnormal outcome and the statement leaves exactly one legal result: the panic is
// re-raised in the caller. The schedule that matters (the whole pipeline shuts down before the caller
// reaches its select, so "collector closed" and "panic pending" are both ready) is rare: large fixed
// count of tiny calls, as in TestVerifC07CtxAlreadyDone.
func TestVerifC07ForEachPanicNotLost(t *testing.T) {
	m := vk.New(t, "C07", "ForEach / FinishVoid whose single mapper (or the generator) panics at once, workers {1,2,16}, fixed call count, GOMAXPROCS rotated 4/16/2/8; the panic value must be re-raised in the caller; afterwards no goroutine in lib/mr frames")
	defer m.Done()
	old := runtime.GOMAXPROCS(0)
	defer runtime.GOMAXPROCS(old)
	base := map[string]bool{}
	for id := range c07Goroutines(nil) {
		base[id] = true
	}
	n := c07N(200000, 3000000, 60000)
	kinds := []string{"ForEach:mapper-panic", "ForEach:generator-panic", "FinishVoid:panic", "ForEach:generator-panic-no-items"}
	workers := []int{1, 2, 16}
	procs := []int{4, 16, 2, 8}
	bad := map[string]bool{}
	for i := 1; i <= n; i++ {
		if !m.Only(50000000 + i) {
			continue
		}
		if i%2000 == 1 {
			runtime.GOMAXPROCS(procs[(i/2000)%len(procs)])
		}
		kind := kinds[i%len(kinds)]
		w := workers[(i/4)%3]
		if bad[kind] {
			continue
		}
		want := c07Panic{who: kind}
		pv, panicked := vk.Recover(func() {
			switch kind {
			case "ForEach:mapper-panic":
				mr.ForEach(func(source chan<- any) { source <- 1 }, func(item any) { panic(want) }, mr.WithWorkers(w))
			case "ForEach:generator-panic":
				mr.ForEach(func(source chan<- any) { source <- 1; panic(want) }, func(item any) {}, mr.WithWorkers(w))
			case "ForEach:generator-panic-no-items":
				mr.ForEach(func(source chan<- any) { panic(want) }, func(item any) {}, mr.WithWorkers(w))
			case "FinishVoid:panic":
				mr.FinishVoid(func() { panic(want) })
			}
		})
		got := "panic-reraised"
		switch {
		case !panicked:
			got = "return"
		case pv != any(want):
			got = "panic:foreign"
		}
		m.Count("outcome_"+got, 1)
		m.Count("calls_"+kind, 1)
		m.Case(vk.Digest(kind, w, got), true)
		if got != "panic-reraised" {
			bad[kind] = true
			m.Violate("C07:outcome:foreach-panic:got-"+got, fmt.Sprintf("case=%d;%s", 50000000+i, vk.JSON(map[string]any{"kind": kind, "workers": w})),
				"call #%d: %s (workers %d): the callback panicked but the call ended with %q (recovered value %v); GOMAXPROCS=%d", i, kind, w, got, pv, runtime.GOMAXPROCS(0))
		}
		if i%20000 == 0 {
			m.Progress()
		}
	}
	var gs map[string]string
	if !vk.WaitUntil(c07LeakWatch, func() bool { gs = c07Goroutines(base); return len(gs) == 0 }) {
		m.Violate("C07:leak:foreach-panic", "after the loop", "%d goroutines still in library frames %v after the last call returned\n%s", len(gs), c07LeakWatch, c07Excerpt(gs, 3000))
	}
	m.Sample(map[string]any{"loop": "single callback panics at once", "calls": n, "kinds": kinds, "workers": workers})
}
