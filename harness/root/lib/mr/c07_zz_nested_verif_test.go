//go:build verif

package mr_test

// (File name sorts last on purpose: a non-returning nested call may exhaust state shared between calls, so
// nothing else of this test process should run after it.)
//
// C07 — nested calls: every in-flight mapper of an outer call makes an inner call of its own.
// The inner call's callbacks are trivial and terminate, so by "in every case the call returns"
// the inner call returns whatever other calls are in progress; hence the outer mappers terminate
// and the outer call returns too. (No lower bound on concurrency is used: the outer mappers meet
// at a rendezvous with a 2 s escape, so an implementation that runs fewer mappers at once is only
// slower.) A call that does not return within the watchdog, with the library's dispatcher
// goroutines parked on each other in the dump, is the violation.

import (
	"fmt"
	"runtime"
	"sync"
	"sync/atomic"
	"testing"
	"time"

	"github.com/gotid/god/lib/mr"
	"verif.local/vk"
)

func c07WorkerOpts(w int) []mr.Option {
	if w == 0 {
		return nil // default (16)
	}
	return []mr.Option{mr.WithWorkers(w)}
}

// c07Inner runs one small inner call and reports what it produced ("" = as expected).
func c07Inner(entry string, w int) string {
	gen := func(s chan<- any) {
		for i := 1; i <= 3; i++ {
			s <- i
		}
	}
	switch entry {
	case "MapReduce":
		v, err := mr.MapReduce(gen, func(item any, wr mr.Writer, c func(error)) { wr.Write(item) },
			func(p <-chan any, wr mr.Writer, c func(error)) {
				sum := 0
				for v := range p {
					sum += v.(int)
				}
				wr.Write(sum)
			}, c07WorkerOpts(w)...)
		if err != nil || v != any(6) {
			return fmt.Sprintf("inner MapReduce returned (%v, %v), want (6, nil)", v, err)
		}
	case "MapReduceVoid":
		var sum int32
		err := mr.MapReduceVoid(gen, func(item any, wr mr.Writer, c func(error)) { wr.Write(item) },
			func(p <-chan any, c func(error)) {
				for v := range p {
					atomic.AddInt32(&sum, int32(v.(int)))
				}
			}, c07WorkerOpts(w)...)
		if err != nil || atomic.LoadInt32(&sum) != 6 {
			return fmt.Sprintf("inner MapReduceVoid returned %v with sum %d, want nil and 6", err, sum)
		}
	case "ForEach":
		var sum int32
		mr.ForEach(gen, func(item any) { atomic.AddInt32(&sum, int32(item.(int))) }, c07WorkerOpts(w)...)
		if atomic.LoadInt32(&sum) != 6 {
			return fmt.Sprintf("inner ForEach mapped sum %d, want 6", sum)
		}
	case "Finish":
		// the worker count of Finish is its number of functions: use the outer setting (16 for the default)
		n := w
		if n == 0 {
			n = 16
		}
		var cnt int32
		fns := make([]func() error, n)
		for i := range fns {
			fns[i] = func() error { atomic.AddInt32(&cnt, 1); return nil }
		}
		if err := mr.Finish(fns...); err != nil || int(atomic.LoadInt32(&cnt)) != n {
			return fmt.Sprintf("inner Finish returned %v after %d of %d functions", err, cnt, n)
		}
	}
	return ""
}

func TestVerifC07NestedCalls(t *testing.T) {
	m := vk.New(t, "C07", "nested calls: outer entry {MapReduce, MapReduceVoid, ForEach, Finish, FinishVoid} x worker setting {default, WithWorkers(16), 4, 1} x n {w, w+1, 2w+3}; the outer mappers meet (2 s soft escape) and then each runs an inner {MapReduce, MapReduceVoid, ForEach, Finish} call with the same worker setting; asserted: every inner and outer call returns (25 s watchdog) with its normal result, each outer item mapped once, no goroutine left")
	defer m.Done()
	old := runtime.GOMAXPROCS(0)
	defer runtime.GOMAXPROCS(old)
	base := map[string]bool{}
	for id := range c07Goroutines(nil) {
		base[id] = true
	}
	idx := 70000000
	rounds := c07N(1, 10, 2)
	for round := 0; round < rounds; round++ {
		for _, w := range []int{0, 16, 4, 1} {
			ew := w
			if ew == 0 {
				ew = 16
			}
			for _, n := range []int{ew, ew + 1, 2*ew + 3} {
				for _, outer := range []string{"MapReduce", "MapReduceVoid", "ForEach", "Finish", "FinishVoid"} {
					if (outer == "Finish" || outer == "FinishVoid") && n != ew {
						continue // their worker count is the number of functions
					}
					for _, inner := range []string{"MapReduce", "MapReduceVoid", "ForEach", "Finish"} {
						idx++
						if !m.Only(idx) {
							continue
						}
						runtime.GOMAXPROCS([]int{16, 4, 2, 1}[idx%4])
						desc := fmt.Sprintf("case=%d;%s", idx, vk.JSON(map[string]any{"outer": outer, "inner": inner, "workers": w, "n": n}))
						m.Current(desc)
						meet := ew
						if n < meet {
							meet = n
						}
						var arrived, escaped, innerDone int32
						ran := make([]int32, n)
						all := make(chan struct{})
						giveUp := make(chan struct{})
						var giveUpOnce sync.Once
						var innerBad atomic.Value
						body := func(i int) {
							atomic.AddInt32(&ran[i], 1)
							if int(atomic.AddInt32(&arrived, 1)) == meet {
								close(all)
							}
							tm := time.NewTimer(2 * time.Second)
							select {
							case <-all:
							case <-giveUp:
								atomic.AddInt32(&escaped, 1)
							case <-tm.C:
								atomic.AddInt32(&escaped, 1)
								giveUpOnce.Do(func() { close(giveUp) })
							}
							tm.Stop()
							if bad := c07Inner(inner, w); bad != "" {
								innerBad.Store(bad)
							}
							atomic.AddInt32(&innerDone, 1)
						}
						gen := func(s chan<- any) {
							for i := 0; i < n; i++ {
								s <- i
							}
						}
						type res struct {
							err      error
							pv       any
							panicked bool
						}
						done := make(chan res, 1)
						go func() {
							var r res
							r.pv, r.panicked = vk.Recover(func() {
								switch outer {
								case "MapReduce":
									_, r.err = mr.MapReduce(gen, func(item any, wr mr.Writer, c func(error)) { body(item.(int)) },
										func(p <-chan any, wr mr.Writer, c func(error)) {
											for range p {
											}
											wr.Write(1)
										}, c07WorkerOpts(w)...)
								case "MapReduceVoid":
									r.err = mr.MapReduceVoid(gen, func(item any, wr mr.Writer, c func(error)) { body(item.(int)) },
										func(p <-chan any, c func(error)) {
											for range p {
											}
										}, c07WorkerOpts(w)...)
								case "ForEach":
									mr.ForEach(gen, func(item any) { body(item.(int)) }, c07WorkerOpts(w)...)
								case "Finish":
									fns := make([]func() error, n)
									for i := range fns {
										i := i
										fns[i] = func() error { body(i); return nil }
									}
									r.err = mr.Finish(fns...)
								case "FinishVoid":
									fns := make([]func(), n)
									for i := range fns {
										i := i
										fns[i] = func() { body(i) }
									}
									mr.FinishVoid(fns...)
								}
							})
							done <- r
						}()
						var r res
						tm := time.NewTimer(c07CallWatch)
						select {
						case r = <-done:
							tm.Stop()
						case <-tm.C:
							gs := c07Goroutines(base)
							m.Count("hangs", 1)
							m.Violate("C07:hang:nested-calls", desc,
								"outer %s (workers %d, n=%d) whose mappers each run an inner %s call did not return within %v: %d outer mappers started, %d inner calls returned (every inner callback terminates at once); goroutines parked in library frames (%d):\n%s",
								outer, ew, n, inner, c07CallWatch, atomic.LoadInt32(&arrived), atomic.LoadInt32(&innerDone), len(gs), c07Excerpt(gs, 3000))
							return
						}
						m.Count("outer_calls_"+outer, 1)
						m.Count("inner_calls_"+inner, int64(atomic.LoadInt32(&innerDone)))
						if atomic.LoadInt32(&escaped) > 0 {
							m.Count("rendezvous_not_reached_(observed_only)", 1)
						} else {
							m.Count("rendezvous_of_outer_mappers_reached", 1)
						}
						m.Case(vk.Digest(outer, inner, w, n), true)
						switch {
						case r.panicked:
							m.Violate("C07:outcome:nested-calls:got-panic:foreign", desc, "outer %s / inner %s: nothing panics, but the outer call re-raised %v", outer, inner, r.pv)
							continue
						case r.err != nil:
							m.Violate("C07:outcome:nested-calls:got-err:foreign", desc, "outer %s / inner %s: nothing cancels or fails, but the outer call returned %v", outer, inner, r.err)
							continue
						}
						if bad, _ := innerBad.Load().(string); bad != "" {
							m.Violate("C07:outcome:nested-calls:inner-result", desc, "outer %s: %s", outer, bad)
							continue
						}
						for i := range ran {
							if c := atomic.LoadInt32(&ran[i]); c != 1 {
								m.Violate(map[bool]string{true: "C07:mapper:item-twice", false: "C07:mapper:item-missing"}[c > 1], desc, "outer %s (n=%d): item %d was mapped %d times", outer, n, i, c)
								break
							}
						}
						var gs map[string]string
						if !vk.WaitUntil(c07LeakWatch, func() bool { gs = c07Goroutines(base); return len(gs) == 0 }) {
							m.Violate("C07:leak:nested-calls", desc, "%d goroutines still in library frames %v after the outer call returned\n%s", len(gs), c07LeakWatch, c07Excerpt(gs, 2500))
							return
						}
						if m.WantSample() && n > ew && w == 0 && inner != outer {
							m.Sample(map[string]any{"outer": outer, "inner": inner, "workers": "default", "n": n, "inner_calls_returned": atomic.LoadInt32(&innerDone)})
						}
					}
				}
			}
		}
	}
}
