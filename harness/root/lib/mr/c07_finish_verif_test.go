//go:build verif

package mr_test

// C07 — Finish / FinishVoid with functions that meet at a rendezvous of all n.
//
// What is asserted: every function runs at most once (exactly once when nothing fails), the
// outcome (nil / the failing function's error / its panic re-raised), the call returns, no
// goroutine stays. What is only OBSERVED (counter + note, never a verdict): whether all n
// functions were in flight together. The statement bounds concurrency from above ("no more
// than the configured number of mappers run at the same time") and never from below, and its
// quantifier lists independent mapper behaviours (write / cancel / panic / delay); so a
// rendezvous is given a 2 s soft escape and an implementation that runs the functions in
// batches is not flagged.

import (
	"errors"
	"fmt"
	"runtime"
	"sync"
	"sync/atomic"
	"testing"
	"time"

	"github.com/gotid/god/lib/mr"
	"verif.local/vk"
)

func TestVerifC07FinishRendezvous(t *testing.T) {
	m := vk.New(t, "C07", "Finish / FinishVoid with n in {1,2,15,16,17,63,64,65,200,1000} functions that wait (2 s soft escape) until all n have arrived; variants: none fails / one returns an error after the rendezvous (Finish) / one panics after it; asserted: outcome, each function <=1 (==1 when nothing fails), return, no goroutine left; observed only: rendezvous reached")
	defer m.Done()
	old := runtime.GOMAXPROCS(0)
	defer runtime.GOMAXPROCS(old)
	base := map[string]bool{}
	for id := range c07Goroutines(nil) {
		base[id] = true
	}
	idx := 60000000
	for _, entry := range []string{"Finish", "FinishVoid"} {
		for _, n := range []int{1, 2, 15, 16, 17, 63, 64, 65, 200, 1000} {
			for _, variant := range []string{"none", "error", "panic"} {
				if variant == "error" && entry == "FinishVoid" {
					continue
				}
				idx++
				if !m.Only(idx) {
					continue
				}
				runtime.GOMAXPROCS([]int{16, 1, 4, 2}[idx%4])
				desc := fmt.Sprintf("case=%d;%s", idx, vk.JSON(map[string]any{"entry": entry, "n": n, "variant": variant}))
				m.Current(desc)
				ran := make([]int32, n)
				var arrived, escaped int32
				all := make(chan struct{})
				giveUp := make(chan struct{})
				var giveUpOnce sync.Once
				failer := n / 2
				wantErr := &c07Err{who: fmt.Sprint(failer)}
				wantPanic := c07Panic{who: fmt.Sprint(failer)}
				body := func(i int) error {
					atomic.AddInt32(&ran[i], 1)
					if int(atomic.AddInt32(&arrived, 1)) == n {
						close(all)
					}
					// soft escape: the first function that has waited 2 s releases everybody, now and later
					tm := time.NewTimer(2 * time.Second)
					select {
					case <-all:
					case <-giveUp:
						atomic.AddInt32(&escaped, 1)
					case <-tm.C:
						atomic.AddInt32(&escaped, 1)
						giveUpOnce.Do(func() { close(giveUp) })
					}
					tm.Stop()
					if i == failer {
						switch variant {
						case "error":
							return wantErr
						case "panic":
							panic(wantPanic)
						}
					}
					return nil
				}
				type res struct {
					err      error
					pv       any
					panicked bool
				}
				done := make(chan res, 1)
				go func() {
					var r res
					r.pv, r.panicked = vk.Recover(func() {
						if entry == "Finish" {
							fns := make([]func() error, n)
							for i := range fns {
								i := i
								fns[i] = func() error { return body(i) }
							}
							r.err = mr.Finish(fns...)
						} else {
							fns := make([]func(), n)
							for i := range fns {
								i := i
								fns[i] = func() { _ = body(i) }
							}
							mr.FinishVoid(fns...)
						}
					})
					done <- r
				}()
				var r res
				tm := time.NewTimer(c07CallWatch)
				select {
				case r = <-done:
					tm.Stop()
				case <-tm.C:
					gs := c07Goroutines(base)
					m.Violate("C07:hang:finish-rendezvous:"+entry, desc, "%s with %d functions (the rendezvous is abandoned by all 2 s after the first function arrived at the latest) did not return within %v; arrived=%d\n%s", entry, n, c07CallWatch, atomic.LoadInt32(&arrived), c07Excerpt(gs, 2500))
					return
				}
				got := "nil"
				switch {
				case r.panicked && r.pv == any(wantPanic):
					got = "panic:" + wantPanic.who
				case r.panicked:
					got = "panic:foreign"
				case r.err != nil && errors.Is(r.err, error(wantErr)):
					got = "err:" + wantErr.who
				case r.err != nil:
					got = "err:foreign"
				}
				want := map[string]string{"none": "nil", "error": "err:" + wantErr.who, "panic": "panic:" + wantPanic.who}[variant]
				m.Count("calls_"+entry, 1)
				m.Count("functions_run", int64(atomic.LoadInt32(&arrived)))
				if atomic.LoadInt32(&escaped) == 0 {
					m.Count("rendezvous_of_all_functions_reached", 1)
				} else {
					m.Count("rendezvous_not_reached_(observed_only)", 1)
					m.Note("%s n=%d %s: %d functions left the rendezvous through the 2 s escape, i.e. not all %d functions were in flight together (not asserted: the statement gives no lower bound on concurrency)", entry, n, variant, atomic.LoadInt32(&escaped), n)
				}
				m.Case(vk.Digest(entry, n, variant, got), true)
				if got != want {
					m.Violate("C07:outcome:finish-rendezvous-"+variant+":got-"+c07CountKey(got), desc, "%s with %d functions, variant %s: ended with %q, expected %q (error %v, panic %v)", entry, n, variant, got, want, r.err, r.pv)
					continue
				}
				for i := range ran {
					c := atomic.LoadInt32(&ran[i])
					if c > 1 || (c == 0 && variant == "none") {
						m.Violate(map[bool]string{true: "C07:mapper:item-twice", false: "C07:mapper:item-missing"}[c > 1], desc, "%s with %d functions (%s): function %d ran %d times", entry, n, variant, i, c)
						break
					}
				}
				var gs map[string]string
				if !vk.WaitUntil(c07LeakWatch, func() bool { gs = c07Goroutines(base); return len(gs) == 0 }) {
					m.Violate("C07:leak:finish-rendezvous", desc, "%d goroutines still in library frames %v after %s returned\n%s", len(gs), c07LeakWatch, entry, c07Excerpt(gs, 2500))
					return
				}
				if m.WantSample() && (n == 65 || n == 1000) && variant != "none" {
					m.Sample(map[string]any{"entry": entry, "n": n, "variant": variant, "observed_outcome": got, "functions_run": atomic.LoadInt32(&arrived), "left_by_escape": atomic.LoadInt32(&escaped)})
				}
			}
		}
	}
}
