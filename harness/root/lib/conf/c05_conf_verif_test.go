//go:build verif

package conf

// C05 — config loading part (DESIGN.md §3 C05, oracle 4): LoadFromJsonBytes / LoadFromYamlBytes
// on generated shapes: valid documents are accepted exactly, faults rejected, adversarial
// documents error-or-exact and never panic, JSON == YAML, and the same document with its struct
// keys rewritten to snake_case / flipped initial case loads into the same struct.

import (
	"encoding/json"
	"fmt"
	"net/http"
	"os"
	"reflect"
	"runtime/debug"
	"strings"
	"testing"

	"github.com/gotid/god/api/httpx"
	"github.com/gotid/god/lib/mapping"
	g "github.com/gotid/god/lib/mapping/c05gen"
	"verif.local/vk"
)

type c05cOut struct {
	err   error
	pv    any
	stack string
	res   reflect.Value
}

func (o c05cOut) String() string {
	switch {
	case o.pv != nil:
		return fmt.Sprintf("panic: %v", o.pv)
	case o.err != nil:
		return "error: " + o.err.Error()
	}
	return "ok: " + g.Show(o.res)
}

func c05cLoad(yaml bool, s *g.Shape, payload []byte) (out c05cOut) {
	out.res = s.New()
	v := out.res.Interface()
	defer func() {
		if r := recover(); r != nil {
			out.pv = r
			out.stack = string(debug.Stack())
		}
	}()
	if yaml {
		out.err = LoadFromYamlBytes(payload, v)
	} else {
		out.err = LoadFromJsonBytes(payload, v)
	}
	return out
}

// Attribution of a fatal process death: vk's Current file once per scenario, the call about
// to run with one pwrite into a permanently open second *.current file (see lib/mapping harness).
var (
	c05cCurFile *os.File
	c05cCurIdx  = -1 << 62
	c05cCurBuf  [4096]byte
)

func c05cCurrent(m *vk.M, idx int, d string) {
	if idx != c05cCurIdx {
		c05cCurIdx = idx
		m.Current(d)
	}
	dir := os.Getenv("VK_OUT")
	if dir == "" {
		return
	}
	if c05cCurFile == nil {
		f, err := os.OpenFile(fmt.Sprintf("%s/C05.lastcall.%d.current", dir, os.Getpid()), os.O_CREATE|os.O_RDWR|os.O_TRUNC, 0o644)
		if err != nil {
			return
		}
		c05cCurFile = f
	}
	n := copy(c05cCurBuf[:], "\nlast call: ")
	n += copy(c05cCurBuf[n:len(c05cCurBuf)-1], d)
	for i := n; i < len(c05cCurBuf); i++ {
		c05cCurBuf[i] = ' '
	}
	c05cCurBuf[len(c05cCurBuf)-1] = '\n'
	c05cCurFile.WriteAt(c05cCurBuf[:], 0)
}

func c05cPanicSig(o c05cOut) string {
	frame := "unknown"
	if i := strings.Index(o.stack, "\npanic("); i >= 0 {
		for _, line := range strings.Split(o.stack[i:], "\n") {
			if !strings.HasPrefix(line, "github.com/gotid/god/") || strings.Contains(line, ".c05c") {
				continue
			}
			fn := line
			if j := strings.Index(fn, "(0x"); j >= 0 {
				fn = fn[:j]
			} else if j := strings.LastIndex(fn, "("); j >= 0 {
				fn = fn[:j]
			}
			fn = fn[strings.LastIndex(fn, ".")+1:]
			if fn != "" {
				frame = fn
			}
			break
		}
	}
	msg := fmt.Sprint(o.pv)
	class := "other"
	switch {
	case strings.HasPrefix(msg, "reflect: call of reflect.Value."):
		class = strings.Fields(strings.TrimPrefix(msg, "reflect: call of "))[0]
	case strings.HasPrefix(msg, "interface conversion"):
		class = "interface-conversion"
	case strings.Contains(msg, "not assignable") || strings.Contains(msg, "value of type"):
		class = "not-assignable"
	case strings.HasPrefix(msg, "reflect: "):
		class = "reflect." + strings.Trim(strings.Fields(strings.TrimPrefix(msg, "reflect: "))[0], ":")
	}
	return "C05:panic:" + frame + ":" + class
}

type c05cRun struct {
	m     *vk.M
	idx   int
	shape *g.Shape
	acc   int
	rej   int
}

func (cr *c05cRun) call(yaml bool, doc map[string]any, note string) (c05cOut, string) {
	var payload []byte
	api := "conf.LoadFromJsonBytes"
	if yaml {
		payload, api = g.YAML(doc), "conf.LoadFromYamlBytes"
	} else {
		payload = g.JSON(doc)
	}
	p := payload
	if len(p) > 3000 {
		p = append(append([]byte{}, p[:3000]...), "…"...)
	}
	d := fmt.Sprintf("case=%d;api=%s;%s;shape=%s;doc=%s", cr.idx, api, note, cr.shape.String(), p)
	c05cCurrent(cr.m, cr.idx, d)
	out := c05cLoad(yaml, cr.shape, payload)
	cr.m.Count("calls."+api, 1)
	switch {
	case out.pv != nil:
		cr.m.Count("outcome.panic", 1)
	case out.err != nil:
		cr.m.Count("outcome.error", 1)
		cr.rej++
	default:
		cr.m.Count("outcome.ok", 1)
		cr.acc++
	}
	return out, d
}

func c05cHasOptEmbedded(f *g.Field) bool {
	if f.Anonymous && f.O.Optional {
		return true
	}
	var walk func(t *g.Type) bool
	walk = func(t *g.Type) bool {
		switch t.K {
		case g.Ptr, g.Slice, g.Map:
			return walk(t.Elem)
		case g.Struct:
			for _, sf := range t.Fields {
				if c05cHasOptEmbedded(sf) {
					return true
				}
			}
		}
		return false
	}
	return walk(f.T)
}

const c05cEmbSig = "C05:conf:optional-embedded-field-not-fed"

// c05cBlame re-loads a rejected valid document field by field to name the field class.
func c05cBlame(c *g.Case, doc map[string]any) string {
	for _, f := range c.Shape.Root.Fields {
		if f.Foreign || f.O.Dep != "" {
			continue
		}
		sub := &g.Shape{Root: g.StructOf(f), TagKey: c.Shape.TagKey}
		d := map[string]any{}
		if f.Anonymous {
			for k, v := range doc {
				d[k] = v
			}
		} else if v, ok := doc[f.DocKey()]; ok {
			d[f.DocKey()] = v
		}
		if out := c05cLoad(false, sub, g.JSON(d)); out.err != nil || out.pv != nil {
			if c05cHasOptEmbedded(f) {
				return "embedded+optional"
			}
			return f.FieldSig()
		}
	}
	return "combination"
}

func c05cTrim(s string, n int) string {
	if len(s) > n {
		return s[:n]
	}
	return s
}

// judge: class valid | fault | free; the audit runs on the document with the original keys.
func (cr *c05cRun) judge(c *g.Case, doc map[string]any, out c05cOut, d, class string, ft *g.Fault) bool {
	m := cr.m
	if out.pv != nil {
		m.Violate(c05cPanicSig(out), d, "panic: %v\n%s", out.pv, c05cTrim(out.stack, 2500))
		return true
	}
	ao := g.AuditOpt{Env: c.Env, Canon: toCamelCase}
	if out.err != nil {
		if class == "valid" {
			sig := "C05:conf:valid-rejected:" + c05cBlame(c, doc)
			if strings.Contains(sig, "embedded+optional") {
				sig = c05cEmbSig
			}
			m.Violate(sig, d, "a document that satisfies every declared constraint was rejected: %v", out.err)
			return true
		}
		if ft != nil {
			m.Count("rejected."+ft.Kind, 1)
		}
		return false
	}
	if fd := g.Audit(c.Shape, out.res, doc, ao); fd != nil {
		desc := ""
		if ft != nil {
			desc = ft.Desc + "\n"
		}
		m.Violate(fd.Sig, d, "%s%s\nresult: %s", desc, fd.Detail, g.Show(out.res))
		return true
	}
	switch class {
	case "valid":
		if !g.Equal(out.res.Elem(), c.Expect.Elem()) {
			sig := "C05:mismatch:valid-doc"
			for i, f := range c.Shape.Root.Fields {
				if !g.Equal(out.res.Elem().Field(i), c.Expect.Elem().Field(i)) {
					if c05cHasOptEmbedded(f) {
						sig = c05cEmbSig
					}
					break
				}
			}
			m.Violate(sig, d, "result differs from the struct the generator built the document from\n got: %s\nwant: %s", g.Show(out.res), g.Show(c.Expect))
			return true
		}
		m.Count("valid.accepted-exact", 1)
	case "fault":
		if ft.MustErr {
			m.Violate("C05:fault-accepted:"+ft.Kind, d, "fault: %s — no error; result: %s", ft.Desc, g.Show(out.res))
			return true
		}
		m.Count("accepted-exact."+ft.Kind, 1)
	default:
		m.Count("free.accepted-exact", 1)
	}
	return false
}

// same compares the outcome for a rewritten spelling of the document with the reference outcome.
func (cr *c05cRun) same(ref, alt c05cOut, d, sig, what string, suffix ...string) bool {
	sfx := strings.Join(suffix, "")
	if alt.pv != nil {
		cr.m.Violate(c05cPanicSig(alt), d, "%s: panic: %v", what, alt.pv)
		return true
	}
	if ref.pv != nil {
		return false
	}
	if (ref.err == nil) != (alt.err == nil) {
		cr.m.Violate(sig+":errorness"+sfx, d, "%s: reference spelling -> %s ; this spelling -> %s", what, ref, alt)
		return true
	}
	if ref.err == nil && !g.Equal(ref.res.Elem(), alt.res.Elem()) {
		cr.m.Violate(sig+":value"+sfx, d, "%s: reference spelling -> %s ; this spelling -> %s", what, g.Show(ref.res), g.Show(alt.res))
		return true
	}
	cr.m.Count("same."+strings.TrimPrefix(sig, "C05:"), 1)
	return false
}

func c05cScenario(m *vk.M, idx int) {
	r := m.Rand("conf", idx)
	shape := g.RandShape(r, g.Cfg{TagKey: "json", MaxDepth: 2, Conf: true, NoEnv: true})
	cr := &c05cRun{m: m, idx: idx, shape: shape}
	defer func() { m.Case(shape.String(), cr.acc > 0 && cr.rej > 0) }()
	modes := []string{"snake", "flip", "mix"}
	for dno := 0; dno < 2; dno++ {
		c := g.ValidCase(r, shape, true, false)
		// the document as the struct tags spell it, JSON and YAML
		ref, d := cr.call(false, c.Doc, "class=valid")
		if cr.judge(c, c.Doc, ref, d, "valid", nil) {
			return
		}
		// results are independent: the first result is overwritten in place, the document loaded again
		g.Scramble(ref.res.Elem())
		ref, d = cr.call(false, c.Doc, "class=valid;second-use-after-scrambling-first-result")
		if ref.pv == nil && (ref.err != nil || !g.Equal(ref.res.Elem(), c.Expect.Elem())) {
			m.Violate("C05:results-share-state", d, "second load of the same document after the first result was modified in place: %s\nwant: %s", ref, g.Show(c.Expect))
			return
		}
		if cr.judge(c, c.Doc, ref, d, "valid", nil) {
			return
		}
		y, dy := cr.call(true, c.Doc, "class=valid")
		if cr.judge(c, c.Doc, y, dy, "valid", nil) || cr.same(ref, y, dy, "C05:json-yaml-diverge", "valid document as YAML") {
			return
		}
		// key spellings
		for _, mode := range modes {
			alt := g.KeyVariant(r, shape.Root, c.Doc, mode)
			useYAML := r.Intn(3) == 0
			o, da := cr.call(useYAML, alt, "class=valid;keys="+mode)
			if cr.same(ref, o, da, "C05:conf-key-variant:"+mode, "valid document, struct keys rewritten ("+mode+")") {
				return
			}
		}
		if m.WantSample() && idx%199 == 1 && dno == 0 {
			m.Sample(map[string]any{"class": "valid+key-variants", "shape": shape.String(), "doc": string(g.JSON(c.Doc)), "snake": string(g.JSON(g.KeyVariant(r, shape.Root, c.Doc, "snake"))), "observed": ref.String()})
		}
		// single faults: rejected in every spelling
		for k := 0; k < 3; k++ {
			ft := c.InjectFault(r)
			if ft == nil {
				break
			}
			m.Count("fault.injected."+ft.Kind, 1)
			fo, fd := cr.call(false, c.Doc, "class=fault:"+ft.Kind)
			bad := cr.judge(c, c.Doc, fo, fd, "fault", ft)
			if !bad {
				mode := modes[r.Intn(len(modes))]
				alt := g.KeyVariant(r, shape.Root, c.Doc, mode)
				useYAML := r.Intn(2) == 0 && !g.HasNull(alt)
				o, da := cr.call(useYAML, alt, "class=fault:"+ft.Kind+";keys="+mode)
				bad = cr.same(fo, o, da, "C05:conf-key-variant:"+mode, "fault "+ft.Kind+", struct keys rewritten ("+mode+")")
			}
			if !bad && g.HasNull(c.Doc) {
				yo, dyy := cr.call(true, c.Doc, "class=fault:"+ft.Kind)
				bad = cr.same(fo, yo, dyy, "C05:json-yaml-diverge", "fault "+ft.Kind+" as YAML", ":null") // null: same signature family as in lib/mapping
			}
			if m.WantSample() && idx%199 == 2 && k == 0 {
				m.Sample(map[string]any{"class": "fault", "fault": ft.Desc, "shape": shape.String(), "doc": string(g.JSON(c.Doc)), "observed": fo.String()})
			}
			ft.Undo()
			if bad {
				return
			}
		}
		// adversarial: error or exact, never a panic
		for k := 0; k < 3; k++ {
			ft := c.Mutate(r)
			fo, fd := cr.call(false, c.Doc, "class=adversarial")
			bad := cr.judge(c, c.Doc, fo, fd, "free", ft)
			if !bad && k == 0 && g.YAMLExact(c.Doc) && !g.HasNull(c.Doc) {
				yo, dyy := cr.call(true, c.Doc, "class=adversarial")
				bad = cr.judge(c, c.Doc, yo, dyy, "free", ft)
				if !bad && g.YAMLCanonical(c.Doc) {
					bad = cr.same(fo, yo, dyy, "C05:json-yaml-diverge", "adversarial document as YAML")
				}
			}
			ft.Undo()
			if bad {
				return
			}
		}
	}
}

// TestVerifC05Conf: conf.LoadFromJsonBytes / LoadFromYamlBytes.
func TestVerifC05Conf(t *testing.T) {
	m := vk.New(t, "C05", "conf.LoadFromJsonBytes/LoadFromYamlBytes on seeded shapes with camelCase keys: valid documents accepted exactly (JSON == YAML), the same document with struct keys in snake_case / flipped initial case / a per-key mix loads into the same struct, single faults rejected in every spelling, adversarial documents error-or-exact without panics; non-trivial = shape saw both an acceptance and a rejection")
	defer m.Done()
	n := vk.N(1200, 40000)
	for idx := 1; idx <= n; idx++ {
		if !m.Only(idx) {
			continue
		}
		c05cScenario(m, idx)
		if idx%200 == 0 {
			m.Progress()
		}
	}
}

// c05cCanon is the statement's key equivalence for plain identifiers (letters, digits, '_'):
// snake_case == camelCase, initial letter case-insensitive. Independent of toCamelCase.
func c05cCanon(k string) string {
	var b strings.Builder
	up := false
	for i, c := range k {
		switch {
		case c == '_':
			up = true
			continue
		case up && c >= 'a' && c <= 'z':
			c -= 32
		case i == 0 && c >= 'A' && c <= 'Z':
			c += 32
		}
		up = false
		b.WriteRune(c)
	}
	return b.String()
}

func c05cWhere(where string) string {
	if strings.HasPrefix(where, "embedded-optional") {
		return ":in-optional-embedded"
	}
	return ""
}

// TestVerifC05ConfKeys: deterministic, seed-independent key-spelling family. The tag key (or the
// bare field name) K is loaded from documents that spell it as K, snake_case(K) and K with the initial
// letter's case flipped. K ranges over every initial letter A..Z / a..z, single letters, every letter
// as the initial of a later word (maxZone <- max_zone), digits inside names and acronyms.
func TestVerifC05ConfKeys(t *testing.T) {
	m := vk.New(t, "C05", "fixed family: struct key K (tag key or bare field name) x document key spelled K / snake_case(K) / K with flipped initial; K = every letter A..Z and a..z as initial (Zone, zone), single letters, every letter as initial of a later word (maxZone <- max_zone, zkZhosts), digits inside names (http2Port, a0Z9z), acronyms (HTTPPort, ID: same + flipped initial only - their snake_case is ambiguous); required and optional fields; at top level, nested, in slices/maps of structs, embedded and optional-embedded structs, and under every container nesting of length 1..3 over {struct field, slice, map} ([][]T, map[string][]T, []map[string]T ...) with required/optional/default leaves; JSON and YAML")
	defer m.Done()
	type keyCase struct {
		k       string
		full    bool // all placements (else: top + nested + untagged)
		noSnake bool
	}
	var keys []keyCase
	for _, k := range []string{"a", "A", "port", "Port", "userName", "UserName", "maxConnIdle", "dbUrl", "x1", "httpPort2", "Id", "Zone", "zkHosts", "aZ"} {
		keys = append(keys, keyCase{k: k, full: true})
	}
	for c := 'A'; c <= 'Z'; c++ {
		U, L := string(c), string(c+32)
		for _, k := range []string{U, L, U + "one", L + "one", "max" + U + "one", L + "k" + U + "osts", U + "k" + U + "osts", "x" + L + U + L + "q", "p" + U + "a" + U + "z"} {
			keys = append(keys, keyCase{k: k})
		}
	}
	for _, k := range []string{"http2Port", "x1y", "port8080", "a1B2", "a0Z9z", "z9A0a", "v2", "Z2", "a9"} {
		keys = append(keys, keyCase{k: k})
	}
	for _, k := range []string{"HTTPPort", "ID", "userID", "dbURL", "ZK", "AZ", "ZKHosts", "aZZ", "AAa", "zZZz"} {
		keys = append(keys, keyCase{k: k, noSnake: true})
	}
	val := func() any { return g.LeafDoc(g.Int16, "-7", false) }
	type place struct {
		name string
		full bool
		mk   func(k, dk string) (*g.Type, map[string]any)
	}
	leaf := func(k string, o g.Opts) *g.Type { return g.StructOf(g.F("V", k, g.L(g.Int16), o)) }
	places := []place{
		{"top", false, func(k, dk string) (*g.Type, map[string]any) { return leaf(k, g.Opts{}), map[string]any{dk: val()} }},
		{"top-optional", false, func(k, dk string) (*g.Type, map[string]any) {
			return leaf(k, g.Opts{Optional: true}), map[string]any{dk: val()}
		}},
		{"top-default", false, func(k, dk string) (*g.Type, map[string]any) {
			return leaf(k, g.Opts{HasDefault: true, Default: "3"}), map[string]any{dk: val()}
		}},
		{"untagged", false, func(k, dk string) (*g.Type, map[string]any) {
			if k[0] < 'A' || k[0] > 'Z' {
				return nil, nil // a bare field name must be exported
			}
			return g.StructOf(&g.Field{Name: k, T: g.L(g.Int16), Untagged: true}), map[string]any{dk: val()}
		}},
		{"nested", false, func(k, dk string) (*g.Type, map[string]any) {
			return g.StructOf(g.F("N", k, leaf(k, g.Opts{}), g.Opts{})), map[string]any{dk: map[string]any{dk: val()}}
		}},
		{"slice", true, func(k, dk string) (*g.Type, map[string]any) {
			return g.StructOf(g.F("N", "items", g.SliceOf(leaf(k, g.Opts{})), g.Opts{})), map[string]any{"items": []any{map[string]any{dk: val()}}}
		}},
		{"embedded", true, func(k, dk string) (*g.Type, map[string]any) {
			return g.StructOf(&g.Field{Name: "E", T: leaf(k, g.Opts{}), Anonymous: true, Untagged: true}), map[string]any{dk: val()}
		}},
		{"embedded-optional", true, func(k, dk string) (*g.Type, map[string]any) {
			return g.StructOf(&g.Field{Name: "E", T: leaf(k, g.Opts{}), Anonymous: true, O: g.Opts{Optional: true}}), map[string]any{dk: val()}
		}},
		{"embedded-optional-pointer", true, func(k, dk string) (*g.Type, map[string]any) {
			return g.StructOf(&g.Field{Name: "E", T: g.PtrTo(leaf(k, g.Opts{})), Anonymous: true, O: g.Opts{Optional: true}}), map[string]any{dk: val()}
		}},
		{"map", true, func(k, dk string) (*g.Type, map[string]any) {
			return g.StructOf(g.F("N", "byname", g.MapOf(leaf(k, g.Opts{})), g.Opts{})), map[string]any{"byname": map[string]any{"k": map[string]any{dk: val()}}}
		}},
	}
	snake := func(k string) string {
		var sn strings.Builder
		for i, c := range k {
			if c >= 'A' && c <= 'Z' {
				if i > 0 {
					sn.WriteByte('_')
				}
				sn.WriteRune(c + 32)
			} else {
				sn.WriteRune(c)
			}
		}
		return sn.String()
	}
	flip := func(k string) string {
		switch {
		case k[0] >= 'a' && k[0] <= 'z':
			return string(k[0]-32) + k[1:]
		case k[0] >= 'A' && k[0] <= 'Z':
			return string(k[0]+32) + k[1:]
		}
		return k
	}
	idx := 0
	for _, kc := range keys {
		k := kc.k
		type variant struct{ mode, dk string }
		vs := []variant{{"same", k}, {"flip", flip(k)}}
		if !kc.noSnake {
			vs = append(vs, variant{"snake", snake(k)})
		}
		for _, pl := range places {
			if pl.full && !kc.full {
				continue
			}
			for _, v := range vs {
				for _, yaml := range []bool{false, true} {
					idx++
					if !m.Only(idx) {
						continue
					}
					root, doc := pl.mk(k, v.dk)
					if root == nil {
						continue
					}
					s := &g.Shape{Root: root, TagKey: "json"}
					cr := &c05cRun{m: m, idx: idx >> 9, shape: s}
					out, d := cr.call(yaml, doc, fmt.Sprintf("class=valid;struct-key=%s;doc-key=%s;where=%s", k, v.dk, pl.name))
					m.Case(d, true)
					switch {
					case out.pv != nil:
						m.Violate(c05cPanicSig(out), d, "panic: %v", out.pv)
					case out.err != nil:
						m.Violate("C05:conf-key-variant:"+v.mode+":errorness"+c05cWhere(pl.name), d, "struct key %q, document key %q (%s, %s): %v", k, v.dk, v.mode, pl.name, out.err)
					default:
						if fd := g.Audit(s, out.res, doc, g.AuditOpt{Canon: c05cCanon}); fd != nil {
							m.Violate("C05:conf-key-variant:"+v.mode+":value"+c05cWhere(pl.name), d, "struct key %q, document key %q (%s): %s", k, v.dk, pl.name, fd.Detail)
						}
					}
					m.Count("key-table."+v.mode, 1)
					m.Count("key-table.place."+pl.name, 1)
				}
			}
		}
	}
	// container nesting, systematically: the struct that carries the key sits under every sequence
	// of length 1..3 over {struct field, slice, map} ([][]T, map[string][]T, []map[string]T, ...)
	var seqs []string
	for _, a := range "SLM" {
		seqs = append(seqs, string(a))
		for _, b := range "SLM" {
			seqs = append(seqs, string(a)+string(b))
			for _, c := range "SLM" {
				seqs = append(seqs, string(a)+string(b)+string(c))
			}
		}
	}
	nestKeys := []string{"Zone", "userName", "maxZone", "A", "z", "dbUrl2"}
	leafOpts := []struct {
		name string
		o    g.Opts
	}{{"required", g.Opts{}}, {"optional", g.Opts{Optional: true}}, {"default", g.Opts{HasDefault: true, Default: "3"}}}
	for _, seq := range seqs {
		for _, k := range nestKeys {
			for _, lo := range leafOpts {
				for _, v := range [][2]string{{"same", k}, {"flip", flip(k)}, {"snake", snake(k)}} {
					for _, yaml := range []bool{false, true} {
						idx++
						if !m.Only(idx) {
							continue
						}
						t := leaf(k, lo.o)
						var doc any = map[string]any{v[1]: val()}
						for i := len(seq) - 1; i >= 0; i-- {
							switch seq[i] {
							case 'S':
								t = g.StructOf(g.F(fmt.Sprintf("W%d", i), "inner", t, g.Opts{}))
								doc = map[string]any{"inner": doc}
							case 'L':
								t = g.SliceOf(t)
								doc = []any{doc, g.Clone(doc)}
							case 'M':
								t = g.MapOf(t)
								doc = map[string]any{"k1": doc, "k2": g.Clone(doc)}
							}
						}
						root := g.StructOf(g.F("R", "root", t, g.Opts{}))
						rdoc := map[string]any{"root": doc}
						sh := &g.Shape{Root: root, TagKey: "json"}
						cr := &c05cRun{m: m, idx: idx >> 9, shape: sh}
						out, d := cr.call(yaml, rdoc, fmt.Sprintf("class=valid;struct-key=%s;doc-key=%s;nesting=%s;leaf=%s", k, v[1], seq, lo.name))
						m.Case(d, true)
						switch {
						case out.pv != nil:
							m.Violate(c05cPanicSig(out), d, "panic: %v", out.pv)
						case out.err != nil:
							m.Violate("C05:conf-key-variant:"+v[0]+":errorness:nested-containers", d, "struct key %q, document key %q under nesting %s (%s leaf): %v", k, v[1], seq, lo.name, out.err)
						default:
							if fd := g.Audit(sh, out.res, rdoc, g.AuditOpt{Canon: c05cCanon}); fd != nil {
								m.Violate("C05:conf-key-variant:"+v[0]+":value:nested-containers", d, "struct key %q, document key %q under nesting %s (%s leaf): %s", k, v[1], seq, lo.name, fd.Detail)
							}
						}
						m.Count("key-table.nesting."+seq, 1)
					}
				}
			}
		}
	}
	m.Count("key-table.keys", int64(len(keys)))
	m.Sample(map[string]any{"keys": len(keys), "probes": idx, "examples": []string{"Zone<-zone", "maxZone<-max_zone", "zkZosts<-zk_zosts", "HTTPPort<-hTTPPort", "a0Z9z<-a0_z9z"}})
}

// ---------------------------------------------------------------------------
// conf.Load / conf.MustLoad from files (by extension) and the UseEnv option

func c05cLoadFile(s *g.Shape, file string, must bool, opts ...Option) (out c05cOut) {
	out.res = s.New()
	v := out.res.Interface()
	defer func() {
		if r := recover(); r != nil {
			out.pv = r
			out.stack = string(debug.Stack())
		}
	}()
	if must {
		MustLoad(file, v, opts...) // only ever called on files whose Load succeeded: it exits the process on error
		return out
	}
	out.err = Load(file, v, opts...)
	return out
}

// TestVerifC05ConfLoad: a document written to a .json / .yaml / .yml file (any letter case of the
// extension) loads into the same struct as the same bytes given to LoadFromJsonBytes / LoadFromYamlBytes;
// with UseEnv, ${VAR} / $VAR in the file are replaced by the environment before parsing.
func TestVerifC05ConfLoad(t *testing.T) {
	m := vk.New(t, "C05", "conf.Load(file) == LoadFrom{Json,Yaml}Bytes(content) for seeded shapes/documents (valid, key variants, single faults) over extensions .json .yaml .yml in mixed case; MustLoad on loadable files; UseEnv: fixed templates with ${VAR}/$VAR in string, number, bool, list and nested positions x value sets (normal, extremes, out of range, overflow, undefined) == LoadFrom*Bytes of the expanded text, and without UseEnv == LoadFrom*Bytes of the raw text; unknown extension / missing file / directory: error")
	defer m.Done()
	dir := os.Getenv("VK_SCRATCH")
	if dir == "" {
		dir = t.TempDir()
	}
	exts := []struct {
		ext  string
		yaml bool
	}{{".json", false}, {".yaml", true}, {".yml", true}, {".JSON", false}, {".Yaml", true}, {".YML", true}}
	write := func(name string, content []byte) string {
		p := dir + "/" + name
		if err := os.WriteFile(p, content, 0o644); err != nil {
			m.Inconclusive("cannot write %s: %v", p, err)
		}
		return p
	}
	n := vk.N(250, 8000)
	for idx := 1; idx <= n; idx++ {
		if !m.Only(idx) {
			continue
		}
		r := m.Rand("confload", idx)
		shape := g.RandShape(r, g.Cfg{TagKey: "json", MaxDepth: 2, Conf: true, NoEnv: true})
		cr := &c05cRun{m: m, idx: idx, shape: shape}
		c := g.ValidCase(r, shape, true, false)
		docs := []struct {
			what string
			doc  map[string]any
		}{{"valid", c.Doc}, {"valid;keys=mix", g.KeyVariant(r, shape.Root, c.Doc, "mix")}}
		ft := c.InjectFault(r)
		if ft != nil {
			docs = append(docs, struct {
				what string
				doc  map[string]any
			}{"fault:" + ft.Kind, g.Clone(c.Doc).(map[string]any)})
			ft.Undo()
		}
		acc, rej := 0, 0
		for di, dc := range docs {
			e := exts[(idx+di)%len(exts)]
			if e.yaml && g.HasNull(dc.doc) {
				e = exts[0]
			}
			var content []byte
			if e.yaml {
				content = g.YAML(dc.doc)
			} else {
				content = g.JSON(dc.doc)
			}
			file := write(fmt.Sprintf("c05-%d-%d%s", idx, di, e.ext), content)
			d := fmt.Sprintf("case=%d;api=conf.Load;file=*%s;class=%s;shape=%s;content=%s", idx, e.ext, dc.what, shape.String(), c05cTrim(string(content), 2500))
			c05cCurrent(m, idx, d)
			ref := c05cLoad(e.yaml, shape, content)
			out := c05cLoadFile(shape, file, false)
			m.Count("load.files"+strings.ToLower(e.ext), 1)
			if cr.same(ref, out, d, "C05:conf-load-file", "file with extension "+e.ext+" vs the same bytes") {
				break
			}
			if out.err == nil {
				acc++
				mo := c05cLoadFile(shape, file, true)
				if cr.same(ref, mo, d, "C05:conf-mustload-file", "MustLoad vs the same bytes") {
					break
				}
			} else {
				rej++
			}
			os.Remove(file)
		}
		m.Case(shape.String(), acc > 0)
	}

	// ---- deterministic part: UseEnv templates, error arms
	base := n
	root := g.StructOf(
		g.F("Name", "name", g.L(g.String), g.Opts{}),
		g.F("Port", "port", g.L(g.Uint16), g.Opts{Range: &g.Range{L: "1", R: "65535", LI: true, RI: true}}),
		g.F("Ratio", "ratio", g.L(g.Float64), g.Opts{Optional: true}),
		g.F("Tags", "tags", g.SliceOf(g.L(g.String)), g.Opts{}),
		g.F("Db", "db", g.StructOf(g.F("Url", "url", g.L(g.String), g.Opts{}), g.F("Pool", "poolSize", g.L(g.Int8), g.Opts{HasDefault: true, Default: "4"})), g.Opts{}),
		g.F("Flag", "flag", g.L(g.Bool), g.Opts{Optional: true}),
		g.F("Wait", "wait", g.L(g.Duration), g.Opts{HasDefault: true, Default: "1s"}),
	)
	shape := &g.Shape{Root: root, TagKey: "json"}
	pfx := fmt.Sprintf("C05L%d_", os.Getpid())
	jsonT := `{"name":"${` + pfx + `NAME}","port":${` + pfx + `PORT},"ratio":$` + pfx + `RATIO,"tags":["a","${` + pfx + `TAG}","$` + pfx + `TAG-x"],"db":{"url":"pg://${` + pfx + `HOST}:${` + pfx + `PORT}/x","pool_size":${` + pfx + `POOL}},"flag":${` + pfx + `FLAG},"wait":"${` + pfx + `WAIT}"}`
	yamlT := "name: \"${" + pfx + "NAME}\"\nport: ${" + pfx + "PORT}\nratio: $" + pfx + "RATIO\ntags:\n  - \"a\"\n  - \"${" + pfx + "TAG}\"\n  - \"$" + pfx + "TAG-x\"\ndb:\n  url: \"pg://${" + pfx + "HOST}:${" + pfx + "PORT}/x\"\n  pool_size: ${" + pfx + "POOL}\nflag: ${" + pfx + "FLAG}\nwait: \"${" + pfx + "WAIT}\"\n"
	sets := []struct {
		name string
		env  map[string]string
	}{
		{"normal", map[string]string{"NAME": "svc", "PORT": "8080", "RATIO": "0.5", "TAG": "blue", "HOST": "db.local", "POOL": "16", "FLAG": "true", "WAIT": "2m30s"}},
		{"extremes", map[string]string{"NAME": "Z", "PORT": "65535", "RATIO": "1.7976931348623157e+308", "TAG": "z", "HOST": "::1", "POOL": "-128", "FLAG": "false", "WAIT": "1ns"}},
		{"low-extremes", map[string]string{"NAME": "a b", "PORT": "1", "RATIO": "-0.25", "TAG": "0", "HOST": "h", "POOL": "127", "FLAG": "false", "WAIT": "0"}},
		{"port-out-of-range", map[string]string{"NAME": "svc", "PORT": "0", "RATIO": "1", "TAG": "t", "HOST": "h", "POOL": "1", "FLAG": "true", "WAIT": "1s"}},
		{"port-overflow", map[string]string{"NAME": "svc", "PORT": "70000", "RATIO": "1", "TAG": "t", "HOST": "h", "POOL": "1", "FLAG": "true", "WAIT": "1s"}},
		{"pool-overflow", map[string]string{"NAME": "svc", "PORT": "80", "RATIO": "1", "TAG": "t", "HOST": "h", "POOL": "300", "FLAG": "true", "WAIT": "1s"}},
		{"pool-undefined", map[string]string{"NAME": "svc", "PORT": "80", "RATIO": "1", "TAG": "t", "HOST": "h", "FLAG": "true", "WAIT": "1s"}},
		{"bad-duration", map[string]string{"NAME": "svc", "PORT": "80", "RATIO": "1", "TAG": "t", "HOST": "h", "POOL": "1", "FLAG": "true", "WAIT": "soon"}},
	}
	all := []string{"NAME", "PORT", "RATIO", "TAG", "HOST", "POOL", "FLAG", "WAIT"}
	idx := base
	for _, st := range sets {
		for _, k := range all {
			if v, ok := st.env[k]; ok {
				os.Setenv(pfx+k, v)
			} else {
				os.Unsetenv(pfx + k)
			}
		}
		for _, e := range exts {
			for _, useEnv := range []bool{true, false} {
				idx++
				if !m.Only(idx) {
					continue
				}
				tmpl := jsonT
				if e.yaml {
					tmpl = yamlT
				}
				file := write(fmt.Sprintf("c05-env-%d%s", idx, e.ext), []byte(tmpl))
				content := tmpl
				var opts []Option
				if useEnv {
					content = os.Expand(tmpl, func(k string) string { return st.env[strings.TrimPrefix(k, pfx)] })
					opts = []Option{UseEnv()}
				}
				cr := &c05cRun{m: m, idx: idx, shape: shape}
				d := fmt.Sprintf("case=%d;api=conf.Load;file=*%s;UseEnv=%v;set=%s;template=%s", idx, e.ext, useEnv, st.name, tmpl)
				c05cCurrent(m, idx>>9, d)
				ref := c05cLoad(e.yaml, shape, []byte(content))
				out := c05cLoadFile(shape, file, false, opts...)
				m.Case(d, true)
				m.Count(fmt.Sprintf("load.useenv=%v", useEnv), 1)
				bad := cr.same(ref, out, d, fmt.Sprintf("C05:conf-load-useenv=%v", useEnv), "set "+st.name+": Load vs LoadFrom*Bytes of the "+map[bool]string{true: "expanded", false: "raw"}[useEnv]+" text")
				if !bad && useEnv {
					wantOK := st.name == "normal" || st.name == "extremes" || st.name == "low-extremes"
					switch {
					case wantOK && out.err != nil:
						m.Violate("C05:conf-load-useenv:valid-rejected", d, "set %s: %v", st.name, out.err)
					case !wantOK && out.err == nil:
						m.Violate("C05:conf-load-useenv:fault-accepted", d, "set %s accepted: %s", st.name, g.Show(out.res))
					case wantOK:
						doc := map[string]any{"name": st.env["NAME"], "port": json.Number(st.env["PORT"]), "ratio": json.Number(st.env["RATIO"]),
							"tags": []any{"a", st.env["TAG"], st.env["TAG"] + "-x"}, "db": map[string]any{"url": "pg://" + st.env["HOST"] + ":" + st.env["PORT"] + "/x", "pool_size": json.Number(st.env["POOL"])},
							"flag": st.env["FLAG"] == "true", "wait": st.env["WAIT"]}
						if fd := g.Audit(shape, out.res, doc, g.AuditOpt{Canon: c05cCanon}); fd != nil {
							m.Violate("C05:conf-load-useenv:inexact", d, "set %s: %s\nresult: %s", st.name, fd.Detail, g.Show(out.res))
						}
					}
				}
				os.Remove(file)
			}
		}
	}
	// error arms
	good := []byte(`{"name":"n","port":1,"tags":["t"],"db":{"url":"u"}}`)
	goodFile := write("c05-good.json", good)
	os.Mkdir(dir+"/c05-dir.json", 0o755)
	for _, tc := range []struct {
		file    string
		content []byte
		wantErr bool
	}{
		{goodFile, nil, false}, {dir + "/c05-missing.json", nil, true}, {dir + "/c05-dir.json", nil, true},
		{write("c05-x.toml", good), nil, true}, {write("c05-x.txt", good), nil, true}, {write("c05-noext", good), nil, true}, {write("c05-x.json.bak", good), nil, true},
		{write("c05-empty.json", nil), nil, true}, {write("c05-empty.yaml", nil), nil, true}, {write("c05-yaml-in.json", []byte("name: n\n")), nil, true},
		{write("c05-bad.yaml", []byte("name: [")), nil, true}, {write("c05-bad.yml", []byte("a: *nope\n")), nil, true}, {write("c05-list.yaml", []byte("- 1\n")), nil, true},
		{write("c05-json-in.yaml", good), nil, false}, {write("c05.v2.yml", []byte("name: \"n\"\nport: 1\ntags: [\"t\"]\ndb: {url: \"u\"}\n")), nil, false},
	} {
		idx++
		if !m.Only(idx) {
			continue
		}
		d := fmt.Sprintf("case=%d;api=conf.Load;file=%s", idx, tc.file[strings.LastIndex(tc.file, "/")+1:])
		out := c05cLoadFile(shape, tc.file, false)
		m.Case(d, true)
		m.Count("load.error-arm-probes", 1)
		switch {
		case out.pv != nil:
			m.Violate(c05cPanicSig(out), d, "panic: %v", out.pv)
		case tc.wantErr && out.err == nil:
			m.Violate("C05:conf-load-file:accepted", d, "Load succeeded: %s", g.Show(out.res))
		case !tc.wantErr && out.err != nil:
			m.Violate("C05:conf-load-file:rejected", d, "Load failed: %v", out.err)
		}
	}
	m.Sample(map[string]any{"random_files": n, "deterministic_probes": idx - base, "json_template": jsonT})
}

// ---------------------------------------------------------------------------
// one process, many entry points: no call may change what a later call does

// TestVerifC05Interleaved: config loads (which pass the key-canonicalising option), plain
// mapping.Unmarshal* calls, calls with explicit options (WithStringValues, a custom
// WithCanonicalKeyFunc), UnmarshalKey and httpx.Parse / ParseJsonBody are executed in seeded random
// orders inside this one process; every call must give exactly what the generator's model says for
// that call alone, whatever ran before it.
func TestVerifC05Interleaved(t *testing.T) {
	m := vk.New(t, "C05", "per scenario three generated shapes (plain json-tagged with keys containing '_', '-', digits and upper-case initials; config shape; all-strings shape) and their valid documents; 23 kinds of calls - conf.LoadFromJsonBytes/LoadFromYamlBytes/Load(file) incl. key variants, mapping.UnmarshalJsonBytes/YamlBytes/JsonMap/JsonReader/YamlReader without options, every option-taking entry point (JsonBytes, JsonMap, JsonReader, YamlBytes, YamlReader) also with WithStringValues and with a custom WithCanonicalKeyFunc (upper-casing; document keys upper-cased) - JSON and YAML must honour a caller's options alike, UnmarshalKey, httpx.ParseJsonBody, httpx.Parse - run twice in two seeded orders; each result must equal the generator's struct (options of one call must not leak into another)")
	defer m.Done()
	dir := os.Getenv("VK_SCRATCH")
	if dir == "" {
		dir = t.TempDir()
	}
	n := vk.N(300, 10000)
	for idx := 1; idx <= n; idx++ {
		if !m.Only(idx) {
			continue
		}
		r := m.Rand("interleaved", idx)
		plain := g.RandShape(r, g.Cfg{TagKey: "json", MaxDepth: 2, NoEnv: true, NoDep: true, NoUntagged: true})
		keyed := g.RandShape(r, g.Cfg{TagKey: "key", MaxDepth: 2, NoEnv: true})
		cshape := g.RandShape(r, g.Cfg{TagKey: "json", MaxDepth: 2, Conf: true, NoEnv: true})
		sshape := g.RandShape(r, g.Cfg{TagKey: "json", MaxDepth: 1, NoEnv: true, NoDep: true, AllStrings: true})
		pc := g.ValidCase(r, plain, false, false)
		kc := g.ValidCase(r, keyed, false, false)
		cc := g.ValidCase(r, cshape, true, false)
		sc := g.ValidCase(r, sshape, false, true)
		upperDoc := g.KeyVariant(r, plain.Root, pc.Doc, "upper")
		confVariant := g.KeyVariant(r, cshape.Root, cc.Doc, "mix")
		file := fmt.Sprintf("%s/c05-il-%d.yaml", dir, idx)
		os.WriteFile(file, g.YAML(cc.Doc), 0o644)
		decode := func(doc map[string]any) map[string]any {
			var mm map[string]any
			dec := json.NewDecoder(strings.NewReader(string(g.JSON(doc))))
			dec.UseNumber()
			dec.Decode(&mm)
			return mm
		}
		req := func(doc map[string]any) *http.Request {
			rq, _ := http.NewRequest(http.MethodPost, "http://c05.local/x", strings.NewReader(string(g.JSON(doc))))
			rq.Header.Set("Content-Type", "application/json")
			return rq
		}
		yamlOK := !g.HasNull(pc.Doc)
		type op struct {
			name string
			c    *g.Case
			run  func(v any) error
		}
		ops := []op{
			{"conf.LoadFromJsonBytes", cc, func(v any) error { return LoadFromJsonBytes(g.JSON(cc.Doc), v) }},
			{"conf.LoadFromJsonBytes(key variants)", cc, func(v any) error { return LoadFromJsonBytes(g.JSON(confVariant), v) }},
			{"conf.LoadFromYamlBytes", cc, func(v any) error {
				if g.HasNull(cc.Doc) {
					return LoadFromJsonBytes(g.JSON(cc.Doc), v)
				}
				return LoadFromYamlBytes(g.YAML(cc.Doc), v)
			}},
			{"conf.Load(file)", cc, func(v any) error {
				if g.HasNull(cc.Doc) {
					return LoadFromJsonBytes(g.JSON(cc.Doc), v)
				}
				return Load(file, v)
			}},
			{"mapping.UnmarshalJsonBytes", pc, func(v any) error { return mapping.UnmarshalJsonBytes(g.JSON(pc.Doc), v) }},
			{"mapping.UnmarshalYamlBytes", pc, func(v any) error {
				if !yamlOK {
					return mapping.UnmarshalJsonBytes(g.JSON(pc.Doc), v)
				}
				return mapping.UnmarshalYamlBytes(g.YAML(pc.Doc), v)
			}},
			{"mapping.UnmarshalJsonMap", pc, func(v any) error { return mapping.UnmarshalJsonMap(decode(pc.Doc), v) }},
			{"mapping.UnmarshalJsonReader", pc, func(v any) error { return mapping.UnmarshalJsonReader(strings.NewReader(string(g.JSON(pc.Doc))), v) }},
			{"mapping.UnmarshalYamlReader", pc, func(v any) error {
				if !yamlOK {
					return mapping.UnmarshalJsonBytes(g.JSON(pc.Doc), v)
				}
				return mapping.UnmarshalYamlReader(strings.NewReader(string(g.YAML(pc.Doc))), v)
			}},
			{"mapping.UnmarshalJsonBytes(WithCanonicalKeyFunc(upper)), upper-cased keys", pc, func(v any) error {
				return mapping.UnmarshalJsonBytes(g.JSON(upperDoc), v, mapping.WithCanonicalKeyFunc(strings.ToUpper))
			}},
			{"mapping.UnmarshalJsonMap(WithStringValues)", sc, func(v any) error { return mapping.UnmarshalJsonMap(decode(sc.Doc), v, mapping.WithStringValues()) }},
			{"mapping.UnmarshalJsonReader(WithCanonicalKeyFunc(upper)), upper-cased keys", pc, func(v any) error {
				return mapping.UnmarshalJsonReader(strings.NewReader(string(g.JSON(upperDoc))), v, mapping.WithCanonicalKeyFunc(strings.ToUpper))
			}},
			{"mapping.UnmarshalJsonMap(WithCanonicalKeyFunc(upper)), upper-cased keys", pc, func(v any) error {
				return mapping.UnmarshalJsonMap(decode(upperDoc), v, mapping.WithCanonicalKeyFunc(strings.ToUpper))
			}},
			{"mapping.UnmarshalYamlBytes(WithCanonicalKeyFunc(upper)), upper-cased keys", pc, func(v any) error {
				if !yamlOK {
					return mapping.UnmarshalJsonBytes(g.JSON(upperDoc), v, mapping.WithCanonicalKeyFunc(strings.ToUpper))
				}
				return mapping.UnmarshalYamlBytes(g.YAML(upperDoc), v, mapping.WithCanonicalKeyFunc(strings.ToUpper))
			}},
			{"mapping.UnmarshalYamlReader(WithCanonicalKeyFunc(upper)), upper-cased keys", pc, func(v any) error {
				if !yamlOK {
					return mapping.UnmarshalJsonBytes(g.JSON(upperDoc), v, mapping.WithCanonicalKeyFunc(strings.ToUpper))
				}
				return mapping.UnmarshalYamlReader(strings.NewReader(string(g.YAML(upperDoc))), v, mapping.WithCanonicalKeyFunc(strings.ToUpper))
			}},
			{"mapping.UnmarshalJsonBytes(WithStringValues)", sc, func(v any) error { return mapping.UnmarshalJsonBytes(g.JSON(sc.Doc), v, mapping.WithStringValues()) }},
			{"mapping.UnmarshalJsonReader(WithStringValues)", sc, func(v any) error {
				return mapping.UnmarshalJsonReader(strings.NewReader(string(g.JSON(sc.Doc))), v, mapping.WithStringValues())
			}},
			{"mapping.UnmarshalYamlBytes(WithStringValues)", sc, func(v any) error { return mapping.UnmarshalYamlBytes(g.YAML(sc.Doc), v, mapping.WithStringValues()) }},
			{"mapping.UnmarshalYamlReader(WithStringValues)", sc, func(v any) error {
				return mapping.UnmarshalYamlReader(strings.NewReader(string(g.YAML(sc.Doc))), v, mapping.WithStringValues())
			}},
			{"mapping.UnmarshalYamlBytes(WithStringValues, WithCanonicalKeyFunc(identity))", sc, func(v any) error {
				return mapping.UnmarshalYamlBytes(g.YAML(sc.Doc), v, mapping.WithStringValues(), mapping.WithCanonicalKeyFunc(func(k string) string { return k }))
			}},
			{"mapping.UnmarshalKey", kc, func(v any) error { return mapping.UnmarshalKey(decode(kc.Doc), v) }},
			{"httpx.ParseJsonBody", pc, func(v any) error { return httpx.ParseJsonBody(req(pc.Doc), v) }},
			{"httpx.Parse", pc, func(v any) error { return httpx.Parse(req(pc.Doc), v) }},
		}
		var history []string
		bad := false
		for round := 0; round < 2 && !bad; round++ {
			order := r.Perm(len(ops))
			for _, oi := range order {
				o := ops[oi]
				res := o.c.Shape.New()
				d := fmt.Sprintf("case=%d;call=%s;after=%s;shape=%s;doc=%s", idx, o.name, strings.Join(history, " > "), o.c.Shape.String(), c05cTrim(string(g.JSON(o.c.Doc)), 2000))
				c05cCurrent(m, idx, d)
				var err error
				var pv any
				func() {
					defer func() { pv = recover() }()
					err = o.run(res.Interface())
				}()
				m.Count("interleaved.calls."+strings.SplitN(o.name, "(", 2)[0], 1)
				switch {
				case pv != nil:
					m.Violate("C05:panic:interleaved", d, "panic: %v", pv)
					bad = true
				case err != nil:
					m.Violate("C05:cross-call-state:valid-rejected", d, "%s rejects a document that is valid for it; calls before it in this process: %s\nerror: %v", o.name, strings.Join(history, " > "), err)
					bad = true
				case !g.Equal(res.Elem(), o.c.Expect.Elem()):
					m.Violate("C05:cross-call-state:value", d, "%s, calls before it in this process: %s\n got: %s\nwant: %s", o.name, strings.Join(history, " > "), g.Show(res), g.Show(o.c.Expect))
					bad = true
				}
				if bad {
					break
				}
				history = append(history, o.name)
				if len(history) > 6 {
					history = history[len(history)-6:]
				}
			}
		}
		os.Remove(file)
		m.Case(plain.String()+cshape.String(), !bad)
		if m.WantSample() && idx%61 == 1 {
			m.Sample(map[string]any{"plain_shape": plain.String(), "config_shape": cshape.String(), "last_calls": history})
		}
	}
}
