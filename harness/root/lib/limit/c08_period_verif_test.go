//go:build verif

package limit

// C08 — period limiter monitor (DESIGN.md §3 C08).
//
// Observe: the code returned by every PeriodLimit.Take, per key. The window is a
// Redis key TTL, so time is the miniredis clock, advanced only by FastForward.
// Oracle (sequential): a per-key counter with a remaining TTL; the i-th take of a
// window must report Allowed (i<q), HitQuota (i==q), OverQuota (i>q); the counter
// restarts exactly when the TTL set by the first take of the window has run out.
// Oracle (concurrent, -race): with no time advance inside a window the multiset of
// codes per key is exactly {Allowed x min(q-1,n), HitQuota x [n>=q], OverQuota x
// max(0,n-q)}, and a take that started after a non-Allowed take had returned is
// not Allowed (sequence stamps from one atomic counter).

import (
	"fmt"
	"sort"
	"strings"
	"sync"
	"sync/atomic"
	"testing"
	"time"

	"github.com/gotid/god/lib/logx"
	"github.com/gotid/god/lib/store/redis"
	"verif.local/vk"
)

func init() { logx.Disable() }

func c08CodeName(c int) string {
	switch c {
	case Unknown:
		return "Unknown"
	case Allowed:
		return "Allowed"
	case HitQuota:
		return "HitQuota"
	case OverQuota:
		return "OverQuota"
	}
	return fmt.Sprintf("code%d", c)
}

func c08WantCode(i, q int) int {
	switch {
	case i < q:
		return Allowed
	case i == q:
		return HitQuota
	}
	return OverQuota
}

type c08PStep struct {
	Op  string `json:"op"` // take | ff
	Key int    `json:"k,omitempty"`
	Ms  int64  `json:"ms,omitempty"`
}

type c08PScenario struct {
	Period int        `json:"period"`
	Quota  int        `json:"quota"`
	Align  bool       `json:"align,omitempty"`
	Keys   int        `json:"keys"`
	Steps  []c08PStep `json:"steps"`
}

type c08PKey struct {
	count int
	ttl   time.Duration // remaining; meaningful when count > 0
	fresh string        // provenance of the current window: first | after-expiry
}

// c08AlignTTL is the documented Align() rule: seconds until the next multiple of
// period in local time.
func c08AlignTTL(now time.Time, period int) int {
	_, off := now.Zone()
	u := now.Unix() + int64(off)
	return period - int(u%int64(period))
}

func c08GenPeriod(r interface {
	Intn(int) int
	Float64() float64
}, steps int) c08PScenario {
	periods := []int{1, 1, 2, 3, 5, 10, 60, 3600}
	quotas := []int{1, 2, 2, 3, 5, 8, 13}
	sc := c08PScenario{
		Period: periods[r.Intn(len(periods))],
		Quota:  quotas[r.Intn(len(quotas))],
		Align:  r.Intn(5) == 0,
		Keys:   1 + r.Intn(4),
	}
	pms := int64(sc.Period) * 1000
	for i := 0; i < steps; i++ {
		if r.Float64() < 0.78 {
			sc.Steps = append(sc.Steps, c08PStep{Op: "take", Key: r.Intn(sc.Keys)})
			continue
		}
		var ms int64
		switch r.Intn(9) {
		case 0:
			ms = 1
		case 1:
			ms = pms - 1
		case 2:
			ms = pms
		case 3:
			ms = pms + 1
		case 4:
			ms = pms / 2
		case 5:
			ms = 1000
		case 6:
			ms = pms*int64(2+r.Intn(3)) + int64(r.Intn(1000))
		case 7:
			ms = int64(r.Intn(int(pms) + 1))
		default:
			ms = pms - 1000
		}
		if ms <= 0 {
			ms = 1
		}
		sc.Steps = append(sc.Steps, c08PStep{Op: "ff", Ms: ms})
	}
	return sc
}

// runC08Period runs one scenario against the real limiter and the counter model.
func runC08Period(m *vk.M, idx int, sc c08PScenario, srv *c08Srv, store *redis.Redis) {
	mr := srv.mr
	desc := func() string { return fmt.Sprintf("case=%d;%s", idx, vk.JSON(sc)) }
	prefix := fmt.Sprintf("c08p%d:", idx)
	var opts []PeriodOption
	if sc.Align {
		opts = append(opts, Align())
	}
	pl := NewPeriodLimit(sc.Period, sc.Quota, store, prefix, opts...)
	keys := make([]c08PKey, sc.Keys)
	var obs strings.Builder
	over, restarts, takes := 0, 0, 0
	kind := "plain"
	if sc.Align {
		kind = "align"
	}
	for si, st := range sc.Steps {
		if st.Op == "ff" {
			d := time.Duration(st.Ms) * time.Millisecond
			mr.FastForward(d)
			for k := range keys {
				if keys[k].count > 0 {
					keys[k].ttl -= d
					if keys[k].ttl <= 0 {
						keys[k] = c08PKey{fresh: "after-expiry"}
						restarts++
					}
				}
			}
			m.Count("period.fastforward", 1)
			continue
		}
		mk := &keys[st.Key]
		before := time.Now()
		e0 := srv.evals.Load()
		code, err := pl.Take(fmt.Sprintf("k%d", st.Key))
		e := srv.evals.Load() - e0
		after := time.Now()
		takes++
		m.Count("period.take", 1)
		if e != 1 {
			// the client repeated the script (read timeout on a stalled machine) or
			// never reached the server: the number of takes the server counted is not
			// the number of Take calls, nothing to compare
			m.Count(fmt.Sprintf("period.abandoned-evals=%d", e), 1)
			m.Note("case %d step %d: Take caused %d EVALs (err=%v); scenario abandoned", idx, si, e, err)
			return
		}
		if err != nil {
			// an error is not an admission: outside the statement, nothing to compare
			m.Count("period.take-error(scenario abandoned)", 1)
			m.Note("case %d step %d: Take(k%d) on a healthy server returned error %v (code %s)", idx, si, st.Key, err, c08CodeName(code))
			c08TakeErrors.Add(1)
			return
		}
		phase := "in-window"
		if mk.count == 0 {
			phase = "window-start:" + mk.fresh
			if mk.fresh == "" {
				phase = "window-start:first"
			}
			ttl := sc.Period
			if sc.Align {
				t1, t2 := c08AlignTTL(before, sc.Period), c08AlignTTL(after, sc.Period)
				if t1 != t2 {
					// a wall-clock second boundary passed during the call: the TTL the
					// limiter chose is one of two values; do not guess
					m.Count("period.align-ambiguous", 1)
					return
				}
				ttl = t1
			}
			mk.ttl = time.Duration(ttl) * time.Second
		}
		mk.count++
		want := c08WantCode(mk.count, sc.Quota)
		m.Count("period.code."+c08CodeName(code), 1)
		obs.WriteByte(byte('0' + code))
		if code == OverQuota {
			over++
		}
		if code != want {
			m.Violate(fmt.Sprintf("C08:period:%s:%s:want-%s:got-%s", kind, phase, c08CodeName(want), c08CodeName(code)), desc(),
				"step %d: take #%d of the current window of key k%d (quota %d, period %ds, remaining ttl %v) reported %s, expected %s",
				si, mk.count, st.Key, sc.Quota, sc.Period, mk.ttl, c08CodeName(code), c08CodeName(want))
			return
		}
	}
	m.Case(vk.Digest(sc.Period, sc.Quota, sc.Align, obs.String()), over > 0 && restarts > 0)
	if m.WantSample() && over > 0 && restarts > 0 {
		m.Sample(map[string]any{"case": idx, "period": sc.Period, "quota": sc.Quota, "align": sc.Align, "keys": sc.Keys,
			"takes": takes, "overquota": over, "window_restarts": restarts, "codes(1=Allowed,2=Hit,3=Over)": c08Trunc(obs.String(), 80)})
	}
}

func c08Wall(m *vk.M, t0 time.Time) {
	m.Extra("wall_s", time.Since(t0).Round(10*time.Millisecond).Seconds())
}

// c08TakeErrors counts Take calls that returned an error on a healthy server.
// They are not judged; too many of them make the run inconclusive.
var c08TakeErrors atomic.Int64

func c08TooManyErrors(m *vk.M, cases int) {
	if e := c08TakeErrors.Load(); e > 2 && e > int64(cases/20) {
		m.Inconclusive("%d Take calls returned an error on a healthy server (of %d scenarios): nothing to judge", e, cases)
	}
}

func c08Trunc(s string, n int) string {
	if len(s) > n {
		return s[:n] + "…"
	}
	return s
}

func TestVerifC08PeriodSeq(t *testing.T) {
	m := vk.New(t, "C08", "period limiter: every Take code compared with a per-key counter+TTL model; time = miniredis FastForward")
	defer m.Done()
	defer c08Wall(m, time.Now())
	const workers = 4
	n := vk.N(120, 2500)
	var wg sync.WaitGroup
	var next atomic.Int64
	for w := 0; w < workers; w++ {
		wg.Add(1)
		go func() {
			defer wg.Done()
			srv, err := newC08Srv("c08p")
			if err != nil {
				m.Inconclusive("miniredis: %v", err)
				return
			}
			mr := srv.mr
			defer mr.Close()
			store := redis.New(mr.Addr())
			for {
				i := int(next.Add(1)) - 1
				if i >= n {
					return
				}
				if !m.Only(i) {
					continue
				}
				r := m.Rand("pseq", i)
				sc := c08GenPeriod(r, 60+r.Intn(vk.N(80, 240)))
				runC08Period(m, i, sc, srv, store)
				mr.FlushAll()
				if i%200 == 0 {
					m.Progress()
				}
			}
		}()
	}
	wg.Wait()
	c08TooManyErrors(m, n)
}

// ---------------------------------------------------------------------------
// concurrent callers (-race)

type c08PObs struct {
	key        int
	start, end int64
	code       int
	err        error
}

func TestVerifC08PeriodRace(t *testing.T) {
	m := vk.New(t, "C08", "period limiter under 32 concurrent callers: exact multiset of codes per key and window; real-time order via sequence stamps; race detector")
	defer m.Done()
	defer c08Wall(m, time.Now())
	srv, err := newC08Srv("c08r")
	if err != nil {
		m.Inconclusive("miniredis: %v", err)
		return
	}
	mr := srv.mr
	defer mr.Close()
	store := redis.New(mr.Addr())
	const G = 32
	rounds := vk.N(10, 150)
	for i := 0; i < rounds; i++ {
		if !m.Only(i) {
			continue
		}
		r := m.Rand("prace", i)
		period := []int{1, 2, 5, 60}[r.Intn(4)]
		quota := 1 + r.Intn(40)
		nkeys := 1 + r.Intn(3)
		per := 1 + r.Intn(3)
		desc := fmt.Sprintf("case=%d;{\"period\":%d,\"quota\":%d,\"keys\":%d,\"goroutines\":%d,\"takes_each\":%d,\"waves\":\"w1, ff(period-1ms), w2, ff(1ms), w3\"}", i, period, quota, nkeys, G, per)
		m.Current(desc)
		pl := NewPeriodLimit(period, quota, store, fmt.Sprintf("c08r%d:", i))
		// plan: three waves; waves 1 and 2 share a window, wave 3 starts a new one
		plan := make([][][]int, 3)
		for w := range plan {
			plan[w] = make([][]int, G)
			for g := 0; g < G; g++ {
				for k := 0; k < per; k++ {
					plan[w][g] = append(plan[w][g], r.Intn(nkeys))
				}
			}
		}
		dup := false
		wave := func(w int) []c08PObs {
			e0 := srv.evals.Load()
			defer func() {
				if e := srv.evals.Load() - e0; e != int64(G*per) {
					// a script was repeated by the client or never arrived: the server
					// counted a different number of takes than were issued
					dup = true
					m.Count("race.abandoned-evals!=takes", 1)
					m.Note("case %d wave %d: %d takes caused %d EVALs; round abandoned", i, w, G*per, e)
				}
			}()
			var mu sync.Mutex
			var all []c08PObs
			var wg sync.WaitGroup
			gate := make(chan struct{})
			for g := 0; g < G; g++ {
				wg.Add(1)
				go func(keys []int) {
					defer wg.Done()
					<-gate
					local := make([]c08PObs, 0, len(keys))
					for _, k := range keys {
						o := c08PObs{key: k, start: vk.Seq()}
						o.code, o.err = pl.Take(fmt.Sprintf("k%d", k))
						o.end = vk.Seq()
						local = append(local, o)
					}
					mu.Lock()
					all = append(all, local...)
					mu.Unlock()
				}(plan[w][g])
			}
			close(gate)
			wg.Wait()
			return all
		}
		check := func(win string, obs []c08PObs) bool {
			byKey := map[int][]c08PObs{}
			for _, o := range obs {
				byKey[o.key] = append(byKey[o.key], o)
			}
			for k, os := range byKey {
				var a, h, ov, other int
				minEndNA, minEndOver := int64(1<<62), int64(1<<62)
				for _, o := range os {
					if o.err != nil {
						m.Count("race.take-error(round abandoned)", 1)
						m.Note("case %d window %s key k%d: Take returned error %v on a healthy server", i, win, k, o.err)
						c08TakeErrors.Add(1)
						return false
					}
					switch o.code {
					case Allowed:
						a++
					case HitQuota:
						h++
					case OverQuota:
						ov++
					default:
						other++
					}
					if o.code != Allowed && o.end < minEndNA {
						minEndNA = o.end
					}
					if o.code == OverQuota && o.end < minEndOver {
						minEndOver = o.end
					}
				}
				n := len(os)
				wa, wh, wo := quota-1, 0, 0
				if n < wa {
					wa = n
				}
				if n >= quota {
					wh = 1
					wo = n - quota
				}
				m.Count("race.take", int64(n))
				m.Count("race.code.Allowed", int64(a))
				m.Count("race.code.HitQuota", int64(h))
				m.Count("race.code.OverQuota", int64(ov))
				if a != wa || h != wh || ov != wo || other != 0 {
					cls := "other"
					switch {
					case a > wa:
						cls = "too-many-Allowed"
					case h > wh:
						cls = "too-many-HitQuota"
					case h < wh:
						cls = "missing-HitQuota"
					case a < wa:
						cls = "too-few-Allowed"
					}
					m.Violate("C08:period-race:multiset:"+cls, desc,
						"window %s key k%d quota %d: %d takes reported Allowed=%d HitQuota=%d OverQuota=%d other=%d, expected Allowed=%d HitQuota=%d OverQuota=%d",
						win, k, quota, n, a, h, ov, other, wa, wh, wo)
					return false
				}
				for _, o := range os {
					if o.code == Allowed && o.start > minEndNA {
						m.Violate("C08:period-race:order:Allowed-after-quota-reported", desc,
							"window %s key k%d: a take that started (seq %d) after a HitQuota/OverQuota take had returned (seq %d) reported Allowed", win, k, o.start, minEndNA)
						return false
					}
					if o.code == HitQuota && o.start > minEndOver {
						m.Violate("C08:period-race:order:HitQuota-after-OverQuota", desc,
							"window %s key k%d: HitQuota take started (seq %d) after an OverQuota take had returned (seq %d)", win, k, o.start, minEndOver)
						return false
					}
				}
			}
			return true
		}
		w1 := wave(0)
		mr.FastForward(time.Duration(period)*time.Second - time.Millisecond)
		w2 := wave(1)
		ok := !dup && check("1(w1+w2)", append(append([]c08PObs{}, w1...), w2...))
		overs := 0
		if ok {
			mr.FastForward(time.Millisecond)
			w3 := wave(2)
			ok = !dup && check("2(w3)", w3)
			for _, o := range append(w1, append(w2, w3...)...) {
				if o.code == OverQuota {
					overs++
				}
			}
		}
		if ok {
			// digest: the observed completion order of codes in wave 1 (interleaving class)
			sort.Slice(w1, func(a, b int) bool { return w1[a].end < w1[b].end })
			var sb strings.Builder
			for _, o := range w1 {
				fmt.Fprintf(&sb, "%d%d", o.key, o.code)
			}
			m.Case(vk.Digest(period, quota, nkeys, per, sb.String()), overs > 0)
			if m.WantSample() && overs > 0 {
				m.Sample(map[string]any{"case": i, "period": period, "quota": quota, "keys": nkeys, "goroutines": G, "takes": 3 * G * per, "overquota": overs,
					"wave1 completion order (key,code)": c08Trunc(sb.String(), 96)})
			}
		}
		mr.FlushAll()
	}
	c08TooManyErrors(m, rounds)
}
