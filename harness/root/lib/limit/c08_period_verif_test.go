//go:build verif

package limit

// C08 — period limiter monitor (DESIGN.md §3 C08).
//
// Observe: the code returned by every PeriodLimit.Take, per key. The window is a
// Redis key TTL, so time is the miniredis clock, advanced only by FastForward.
// Oracle (sequential): a per-key counter with a remaining TTL; the i-th take of a
// window must report Allowed (i<q), HitQuota (i==q), OverQuota (i>q); the counter
// restarts exactly when the TTL set by the first take of the window has run out.
// Oracle (concurrent, -race): with no time advance inside a window the multiset of
// codes per key is exactly {Allowed x min(q-1,n), HitQuota x [n>=q], OverQuota x
// max(0,n-q)}, and a take that started after a non-Allowed take had returned is
// not Allowed (sequence stamps from one atomic counter).

import (
	"context"
	"fmt"
	"os"
	"sort"
	"strings"
	"sync"
	"sync/atomic"
	"testing"
	"time"

	"github.com/gotid/god/lib/logx"
	"github.com/gotid/god/lib/store/redis"
	"verif.local/vk"
)

func init() { logx.Disable() }

func c08CodeName(c int) string {
	switch c {
	case Unknown:
		return "Unknown"
	case Allowed:
		return "Allowed"
	case HitQuota:
		return "HitQuota"
	case OverQuota:
		return "OverQuota"
	}
	return fmt.Sprintf("code%d", c)
}

func c08WantCode(i, q int) int {
	switch {
	case i < q:
		return Allowed
	case i == q:
		return HitQuota
	}
	return OverQuota
}

type c08PStep struct {
	// take | take-cancelled (context already cancelled) | take-err (server answers
	// this one command with an error) | take-int7 / take-bulk (server answers with a
	// value the script never returns) | ff
	Op  string `json:"op"`
	L   int    `json:"l,omitempty"`
	Key int    `json:"k,omitempty"`
	Ms  int64  `json:"ms,omitempty"`
}

type c08PLim struct {
	Period int  `json:"period"`
	Quota  int  `json:"quota"`
	Align  bool `json:"align,omitempty"`
}

// c08PScenario: one or two PeriodLimit instances with different key prefixes on
// one store, taking from the same key names.
type c08PScenario struct {
	Lims  []c08PLim  `json:"limiters"`
	Keys  int        `json:"keys"`
	Steps []c08PStep `json:"steps"`
}

type c08PKey struct {
	count int
	ttl   time.Duration // remaining; meaningful when count > 0
	fresh string        // provenance of the current window: first | after-expiry
}

// c08AlignTTL is the documented Align() rule: seconds until the next multiple of
// period in local time.
func c08AlignTTL(now time.Time, period int) int {
	_, off := now.Zone()
	u := now.Unix() + int64(off)
	return period - int(u%int64(period))
}

func c08GenPeriod(r interface {
	Intn(int) int
	Float64() float64
}, steps int) c08PScenario {
	periods := []int{1, 1, 2, 3, 5, 10, 60, 3600}
	quotas := []int{1, 2, 2, 3, 5, 8, 13}
	sc := c08PScenario{Keys: 1 + r.Intn(4)}
	for l, nl := 0, 1+r.Intn(2); l < nl; l++ {
		sc.Lims = append(sc.Lims, c08PLim{Period: periods[r.Intn(len(periods))], Quota: quotas[r.Intn(len(quotas))], Align: r.Intn(5) == 0})
	}
	for i := 0; i < steps; i++ {
		if x := r.Float64(); x < 0.78 {
			op := "take"
			switch {
			case x < 0.025:
				op = "take-cancelled"
			case x < 0.045:
				op = "take-err"
			case x < 0.06:
				op = "take-int7"
			case x < 0.075:
				op = "take-bulk"
			}
			sc.Steps = append(sc.Steps, c08PStep{Op: op, L: r.Intn(len(sc.Lims)), Key: r.Intn(sc.Keys)})
			continue
		}
		pms := int64(sc.Lims[r.Intn(len(sc.Lims))].Period) * 1000
		var ms int64
		switch r.Intn(9) {
		case 0:
			ms = 1
		case 1:
			ms = pms - 1
		case 2:
			ms = pms
		case 3:
			ms = pms + 1
		case 4:
			ms = pms / 2
		case 5:
			ms = 1000
		case 6:
			ms = pms*int64(2+r.Intn(3)) + int64(r.Intn(1000))
		case 7:
			ms = int64(r.Intn(int(pms) + 1))
		default:
			ms = pms - 1000
		}
		if ms <= 0 {
			ms = 1
		}
		sc.Steps = append(sc.Steps, c08PStep{Op: "ff", Ms: ms})
	}
	return sc
}

// runC08Period runs one scenario against the real limiters and the counter model.
// The model counts a take iff the server executed its script (pre-hook count):
// a Take that ended in an error without reaching the script is not a take of the
// window, and no Take may report Allowed/HitQuota unless the server counted it.
func runC08Period(m *vk.M, idx int, sc c08PScenario, srv *c08Srv, store *redis.Redis) {
	mr := srv.mr
	desc := func() string { return fmt.Sprintf("case=%d;%s", idx, vk.JSON(sc)) }
	pls := make([]*PeriodLimit, len(sc.Lims))
	keys := make([][]c08PKey, len(sc.Lims))
	for l, lc := range sc.Lims {
		var opts []PeriodOption
		if lc.Align {
			opts = append(opts, Align())
		}
		pls[l] = NewPeriodLimit(lc.Period, lc.Quota, store, fmt.Sprintf("c08p%d-%d:", idx, l), opts...)
		keys[l] = make([]c08PKey, sc.Keys)
	}
	cancelled, cancel := context.WithCancel(context.Background())
	cancel()
	var obs strings.Builder
	over, restarts, takes := 0, 0, 0
	for si, st := range sc.Steps {
		if st.Op == "ff" {
			d := time.Duration(st.Ms) * time.Millisecond
			mr.FastForward(d)
			for l := range keys {
				for k := range keys[l] {
					if keys[l][k].count > 0 {
						keys[l][k].ttl -= d
						if keys[l][k].ttl <= 0 {
							keys[l][k] = c08PKey{fresh: "after-expiry"}
							restarts++
						}
					}
				}
			}
			m.Count("period.fastforward", 1)
			continue
		}
		lc := sc.Lims[st.L]
		kind := "plain"
		if lc.Align {
			kind = "align"
		}
		mk := &keys[st.L][st.Key]
		ctx := context.Background()
		switch st.Op {
		case "take-cancelled":
			ctx = cancelled
		case "take-err":
			srv.errMode.Store(true)
		case "take-int7":
			srv.garbage.Store(c08GarbageInt)
		case "take-bulk":
			srv.garbage.Store(c08GarbageBulk)
		}
		before := time.Now()
		e0 := srv.evals.Load()
		code, err := pls[st.L].TakeCtx(ctx, fmt.Sprintf("k%d", st.Key))
		e := srv.evals.Load() - e0
		after := time.Now()
		srv.errMode.Store(false)
		srv.garbage.Store(0)
		takes++
		m.Count("period."+st.Op, 1)
		if e == 0 {
			// the server did not count this take
			if err == nil && (code == Allowed || code == HitQuota) {
				m.Violate("C08:period:admitted-without-counting:"+st.Op, desc(),
					"step %d (%s): Take(k%d) reported %s with a nil error although the server executed no script for it: the take is admitted but not counted against the quota (%d of %d used in the window)",
					si, st.Op, st.Key, c08CodeName(code), mk.count, lc.Quota)
				return
			}
			if st.Op == "take" {
				// never reached the server (stalled machine, client gave up): nothing to compare
				m.Count("period.abandoned-evals=0", 1)
				m.Note("case %d step %d: Take executed no script (err=%v); scenario abandoned", idx, si, err)
				c08TakeErrors.Add(1)
				return
			}
			m.Count("period.not-counted."+st.Op+"."+c08CodeName(code), 1)
			continue
		}
		if e > 1 {
			// the client repeated the script (read timeout on a stalled machine)
			m.Count(fmt.Sprintf("period.abandoned-evals=%d", e), 1)
			m.Note("case %d step %d: Take caused %d EVALs (err=%v); scenario abandoned", idx, si, e, err)
			return
		}
		// exactly one script execution: the take counts in the window
		phase := "in-window"
		if mk.count == 0 {
			phase = "window-start:" + mk.fresh
			if mk.fresh == "" {
				phase = "window-start:first"
			}
			ttl := lc.Period
			if lc.Align {
				t1, t2 := c08AlignTTL(before, lc.Period), c08AlignTTL(after, lc.Period)
				if t1 != t2 {
					// a wall-clock second boundary passed during the call: the TTL the
					// limiter chose is one of two values; do not guess
					m.Count("period.align-ambiguous", 1)
					return
				}
				ttl = t1
			}
			mk.ttl = time.Duration(ttl) * time.Second
		}
		mk.count++
		if err != nil {
			// counted by the server but reported as an error (not an admission): keep the count
			m.Count("period.counted-but-error."+st.Op, 1)
			if st.Op == "take" {
				m.Note("case %d step %d: Take(k%d) on a healthy server returned error %v after its script ran", idx, si, st.Key, err)
				c08TakeErrors.Add(1)
			}
			continue
		}
		want := c08WantCode(mk.count, lc.Quota)
		m.Count("period.code."+c08CodeName(code), 1)
		obs.WriteByte(byte('0' + code))
		if code == OverQuota {
			over++
		}
		if code != want {
			m.Violate(fmt.Sprintf("C08:period:%s:%s:want-%s:got-%s", kind, phase, c08CodeName(want), c08CodeName(code)), desc(),
				"step %d: take #%d of the current window of key k%d of limiter %d (quota %d, period %ds, remaining ttl %v, %d limiters with distinct prefixes on the store) reported %s, expected %s",
				si, mk.count, st.Key, st.L, lc.Quota, lc.Period, mk.ttl, len(sc.Lims), c08CodeName(code), c08CodeName(want))
			return
		}
	}
	m.Case(vk.Digest(vk.JSON(sc.Lims), obs.String()), over > 0 && restarts > 0)
	if m.WantSample() && over > 0 && restarts > 0 {
		m.Sample(map[string]any{"case": idx, "limiters": sc.Lims, "keys": sc.Keys,
			"takes": takes, "overquota": over, "window_restarts": restarts, "codes(1=Allowed,2=Hit,3=Over)": c08Trunc(obs.String(), 80)})
	}
}

// TestVerifC08PeriodAlignZone observes the TTL that Align() puts on the counter
// key under several local time zones: the window must end at the next multiple
// of period in LOCAL time (for periods dividing a day: counted from local
// midnight). The zone is set through time.Local; tests of this package run one
// after the other.
func TestVerifC08PeriodAlignZone(t *testing.T) {
	m := vk.New(t, "C08", "period limiter Align(): TTL of the counter key after the first take of a window, observed in miniredis, equals the seconds to the next local-time multiple of period, for local zones with whole-hour, half-hour and 45-minute offsets")
	defer m.Done()
	defer c08Wall(m, time.Now())
	srv, err := newC08Srv("c08z")
	if err != nil {
		m.Inconclusive("miniredis: %v", err)
		return
	}
	defer srv.mr.Close()
	store := redis.New(srv.mr.Addr())
	saved := time.Local
	defer func() { time.Local = saved }()
	zones := []int{0, 5*3600 + 1800, -8 * 3600, 14 * 3600, 5*3600 + 2700, -(3*3600 + 1800), 3600, -11 * 3600}
	periods := []int{60, 900, 1800, 3600, 21600, 86400}
	// limiters constructed now and first used more than a second later: the window
	// is aligned at the time of the take, not at the time of construction
	type early struct {
		period int
		prefix string
		pl     *PeriodLimit
	}
	var earlies []early
	time.Local = time.FixedZone("c08early", 5*3600+1800)
	for k, period := range []int{2, 7, 60, 3600, 21600, 86400} {
		prefix := fmt.Sprintf("c08zE%d:", k)
		earlies = append(earlies, early{period, prefix, NewPeriodLimit(period, 3, store, prefix, Align())})
	}
	constructed := time.Now()
	defer func() {
		time.Local = time.FixedZone("c08early", 5*3600+1800)
		if d := 1200*time.Millisecond - time.Since(constructed); d > 0 {
			time.Sleep(d) // not a verdict: only makes sure wall time has moved on since construction
		}
		for k, e := range earlies {
			idx := 1000 + k
			if !m.Only(idx) {
				continue
			}
			desc := fmt.Sprintf("case=%d;{\"zone_offset_s\":19800,\"period\":%d,\"constructed_before_take_ms\":%d}", idx, e.period, time.Since(constructed).Milliseconds())
			before := time.Now()
			e0 := srv.evals.Load()
			_, err := e.pl.Take("u")
			ev := srv.evals.Load() - e0
			after := time.Now()
			if ev != 1 || err != nil {
				m.Count("alignzone.abandoned", 1)
				continue
			}
			w1, w2 := c08AlignTTL(before, e.period), c08AlignTTL(after, e.period)
			got := int(srv.mr.TTL(e.prefix+"u") / time.Second)
			m.Count("alignzone.take-long-after-construction", 1)
			if w1 != w2 {
				m.Count("alignzone.ambiguous", 1)
				continue
			}
			m.Case(vk.Digest("early", e.period, got), true)
			if got != w1 {
				m.Violate("C08:period:align-ttl:stale-since-construction", desc,
					"limiter constructed %v before its first take (period %ds, local zone UTC+5:30): counter key got TTL %ds, the next local multiple of the period is %ds away at the time of the take",
					after.Sub(constructed).Round(time.Millisecond), e.period, got, w1)
			}
		}
		// the local offset is a function of time (daylight saving): one hour later
		// than at construction. The window must be aligned in the zone in effect at
		// the time of the take. (Periods dividing an hour are unaffected by a one-hour
		// shift and pass trivially.)
		time.Local = time.FixedZone("c08early-dst", 6*3600+1800)
		for k, e := range earlies {
			idx := 2000 + k
			if !m.Only(idx) {
				continue
			}
			desc := fmt.Sprintf("case=%d;{\"zone_offset_s_at_construction\":19800,\"zone_offset_s_at_take\":23400,\"period\":%d}", idx, e.period)
			before := time.Now()
			e0 := srv.evals.Load()
			_, err := e.pl.Take("dst")
			ev := srv.evals.Load() - e0
			after := time.Now()
			if ev != 1 || err != nil {
				m.Count("alignzone.abandoned", 1)
				continue
			}
			w1, w2 := c08AlignTTL(before, e.period), c08AlignTTL(after, e.period)
			got := int(srv.mr.TTL(e.prefix+"dst") / time.Second)
			m.Count("alignzone.take-after-local-offset-change", 1)
			if w1 != w2 {
				m.Count("alignzone.ambiguous", 1)
				continue
			}
			m.Case(vk.Digest("dst", e.period, got), 3600%e.period != 0)
			if got != w1 {
				m.Violate("C08:period:align-ttl:offset-of-construction-time", desc,
					"limiter constructed while the local offset was UTC+5:30, take while it is UTC+6:30 (period %ds): counter key got TTL %ds, the next local multiple of the period is %ds away", e.period, got, w1)
			}
		}
		time.Local = saved
	}()
	idx := 0
	for zi, off := range zones {
		time.Local = time.FixedZone(fmt.Sprintf("c08z%d", zi), off)
		for _, period := range periods {
			idx++
			if !m.Only(idx) {
				continue
			}
			desc := fmt.Sprintf("case=%d;{\"zone_offset_s\":%d,\"period\":%d}", idx, off, period)
			prefix := fmt.Sprintf("c08z%d:", idx)
			pl := NewPeriodLimit(period, 3, store, prefix, Align())
			want := func(now time.Time) int {
				h, mi, s := now.In(time.Local).Clock()
				return period - (h*3600+mi*60+s)%period
			}
			before := time.Now()
			e0 := srv.evals.Load()
			code, err := pl.Take("u")
			e := srv.evals.Load() - e0
			after := time.Now()
			if e != 1 || err != nil {
				m.Count("alignzone.abandoned", 1)
				continue
			}
			w1, w2 := want(before), want(after)
			got := int(srv.mr.TTL(prefix+"u") / time.Second)
			m.Count("alignzone.take", 1)
			if w1 != w2 {
				m.Count("alignzone.ambiguous", 1)
				continue
			}
			m.Case(vk.Digest(off, period, got), off != 0)
			if m.WantSample() && off%3600 != 0 {
				m.Sample(map[string]any{"case": idx, "zone_offset_s": off, "period": period, "local_time": before.In(time.Local).Format("15:04:05"), "ttl_observed": got, "ttl_expected": w1, "code": c08CodeName(code)})
			}
			if got != w1 {
				m.Violate("C08:period:align-ttl", desc, "local zone UTC%+ds, period %ds, local time %s: counter key got TTL %ds, the next local multiple of the period is %ds away", off, period, before.In(time.Local).Format("15:04:05"), got, w1)
				break
			}
		}
	}
}

func c08Wall(m *vk.M, t0 time.Time) {
	m.Extra("wall_s", time.Since(t0).Round(10*time.Millisecond).Seconds())
	// descriptors held by the test process (go-redis clients cannot be closed from here)
	if d, err := os.ReadDir("/proc/self/fd"); err == nil {
		m.Extra("open_fds_at_end", len(d))
	}
}

// c08TakeErrors counts Take calls that returned an error on a healthy server.
// They are not judged; too many of them make the run inconclusive.
var c08TakeErrors atomic.Int64

func c08TooManyErrors(m *vk.M, cases int) {
	if e := c08TakeErrors.Load(); e > 2 && e > int64(cases/20) {
		m.Inconclusive("%d Take calls returned an error on a healthy server (of %d scenarios): nothing to judge", e, cases)
	}
}

func c08Trunc(s string, n int) string {
	if len(s) > n {
		return s[:n] + "…"
	}
	return s
}

func TestVerifC08PeriodSeq(t *testing.T) {
	m := vk.New(t, "C08", "period limiter: every Take code compared with a per-key counter+TTL model; time = miniredis FastForward")
	defer m.Done()
	defer c08Wall(m, time.Now())
	const workers = 4
	n := vk.N(120, 2500)
	var wg sync.WaitGroup
	var next atomic.Int64
	for w := 0; w < workers; w++ {
		wg.Add(1)
		go func() {
			defer wg.Done()
			srv, err := newC08Srv("c08p")
			if err != nil {
				m.Inconclusive("miniredis: %v", err)
				return
			}
			mr := srv.mr
			defer mr.Close()
			store := redis.New(mr.Addr())
			for {
				i := int(next.Add(1)) - 1
				if i >= n {
					return
				}
				if !m.Only(i) {
					continue
				}
				r := m.Rand("pseq", i)
				sc := c08GenPeriod(r, 60+r.Intn(vk.N(80, 240)))
				runC08Period(m, i, sc, srv, store)
				mr.FlushAll()
				if i%200 == 0 {
					m.Progress()
				}
			}
		}()
	}
	wg.Wait()
	c08TooManyErrors(m, n)
}

// ---------------------------------------------------------------------------
// concurrent callers (-race)

type c08PObs struct {
	key        int
	start, end int64
	code       int
	err        error
}

func TestVerifC08PeriodRace(t *testing.T) {
	m := vk.New(t, "C08", "period limiter under 32 concurrent callers: exact multiset of codes per key and window; real-time order via sequence stamps; race detector")
	defer m.Done()
	defer c08Wall(m, time.Now())
	srv, err := newC08Srv("c08r")
	if err != nil {
		m.Inconclusive("miniredis: %v", err)
		return
	}
	mr := srv.mr
	defer mr.Close()
	store := redis.New(mr.Addr())
	const G = 32
	rounds := vk.N(10, 150)
	abandoned := 0
	for i := 0; i < rounds; i++ {
		if !m.Only(i) {
			continue
		}
		r := m.Rand("prace", i)
		period := []int{1, 2, 5, 60}[r.Intn(4)]
		quota := 1 + r.Intn(40)
		nkeys := 1 + r.Intn(3)
		per := 1 + r.Intn(3)
		desc := fmt.Sprintf("case=%d;{\"period\":%d,\"quota\":%d,\"keys\":%d,\"goroutines\":%d,\"takes_each\":%d,\"waves\":\"w1, ff(period-1ms), w2, ff(1ms), w3\"}", i, period, quota, nkeys, G, per)
		m.Current(desc)
		pl := NewPeriodLimit(period, quota, store, fmt.Sprintf("c08r%d:", i))
		// plan: three waves; waves 1 and 2 share a window, wave 3 starts a new one
		plan := make([][][]int, 3)
		for w := range plan {
			plan[w] = make([][]int, G)
			for g := 0; g < G; g++ {
				for k := 0; k < per; k++ {
					plan[w][g] = append(plan[w][g], r.Intn(nkeys))
				}
			}
		}
		dup := false
		wave := func(w int) []c08PObs {
			e0 := srv.evals.Load()
			var all []c08PObs
			defer func() {
				e := srv.evals.Load() - e0
				answered := int64(0)
				for _, o := range all {
					if o.err == nil {
						answered++
					}
				}
				switch {
				case e == int64(G*per):
				case e < answered:
					// every Take that reports a code without an error must have had its own
					// increment executed (the period limiter has no other source of answers)
					dup = true
					m.Violate("C08:period-race:answers-exceed-increments", desc,
						"wave %d: %d concurrent Take calls returned a code with a nil error, but the server executed only %d scripts: %d takes were answered without being counted (quota %d)",
						w, answered, e, answered-e, quota)
				default:
					// a script was repeated by the client (e > takes) or some takes failed
					// before reaching the server: the server's count is not the number of
					// answered takes in a way the multiset oracle could use
					dup = true
					abandoned++
					m.Count("race.abandoned-evals!=takes", 1)
					m.Note("case %d wave %d: %d takes (%d answered) caused %d EVALs; round abandoned", i, w, G*per, answered, e)
				}
			}()
			var mu sync.Mutex
			var wg sync.WaitGroup
			gate := make(chan struct{})
			for g := 0; g < G; g++ {
				wg.Add(1)
				go func(keys []int) {
					defer wg.Done()
					<-gate
					local := make([]c08PObs, 0, len(keys))
					for _, k := range keys {
						o := c08PObs{key: k, start: vk.Seq()}
						o.code, o.err = pl.Take(fmt.Sprintf("k%d", k))
						o.end = vk.Seq()
						local = append(local, o)
					}
					mu.Lock()
					all = append(all, local...)
					mu.Unlock()
				}(plan[w][g])
			}
			close(gate)
			wg.Wait()
			return all
		}
		check := func(win string, obs []c08PObs) bool {
			byKey := map[int][]c08PObs{}
			for _, o := range obs {
				byKey[o.key] = append(byKey[o.key], o)
			}
			for k, os := range byKey {
				var a, h, ov, other int
				minEndNA, minEndOver := int64(1<<62), int64(1<<62)
				for _, o := range os {
					if o.err != nil {
						m.Count("race.take-error(round abandoned)", 1)
						m.Note("case %d window %s key k%d: Take returned error %v on a healthy server", i, win, k, o.err)
						c08TakeErrors.Add(1)
						return false
					}
					switch o.code {
					case Allowed:
						a++
					case HitQuota:
						h++
					case OverQuota:
						ov++
					default:
						other++
					}
					if o.code != Allowed && o.end < minEndNA {
						minEndNA = o.end
					}
					if o.code == OverQuota && o.end < minEndOver {
						minEndOver = o.end
					}
				}
				n := len(os)
				wa, wh, wo := quota-1, 0, 0
				if n < wa {
					wa = n
				}
				if n >= quota {
					wh = 1
					wo = n - quota
				}
				m.Count("race.take", int64(n))
				m.Count("race.code.Allowed", int64(a))
				m.Count("race.code.HitQuota", int64(h))
				m.Count("race.code.OverQuota", int64(ov))
				if a != wa || h != wh || ov != wo || other != 0 {
					cls := "other"
					switch {
					case a > wa:
						cls = "too-many-Allowed"
					case h > wh:
						cls = "too-many-HitQuota"
					case h < wh:
						cls = "missing-HitQuota"
					case a < wa:
						cls = "too-few-Allowed"
					}
					m.Violate("C08:period-race:multiset:"+cls, desc,
						"window %s key k%d quota %d: %d takes reported Allowed=%d HitQuota=%d OverQuota=%d other=%d, expected Allowed=%d HitQuota=%d OverQuota=%d",
						win, k, quota, n, a, h, ov, other, wa, wh, wo)
					return false
				}
				for _, o := range os {
					if o.code == Allowed && o.start > minEndNA {
						m.Violate("C08:period-race:order:Allowed-after-quota-reported", desc,
							"window %s key k%d: a take that started (seq %d) after a HitQuota/OverQuota take had returned (seq %d) reported Allowed", win, k, o.start, minEndNA)
						return false
					}
					if o.code == HitQuota && o.start > minEndOver {
						m.Violate("C08:period-race:order:HitQuota-after-OverQuota", desc,
							"window %s key k%d: HitQuota take started (seq %d) after an OverQuota take had returned (seq %d)", win, k, o.start, minEndOver)
						return false
					}
				}
			}
			return true
		}
		w1 := wave(0)
		mr.FastForward(time.Duration(period)*time.Second - time.Millisecond)
		w2 := wave(1)
		// counter: with every take counted once, the key holds the number of takes of the window
		counter := func(win string, obs []c08PObs) bool {
			n := map[int]int{}
			for _, o := range obs {
				n[o.key]++
			}
			for k, want := range n {
				got, err := mr.Get(fmt.Sprintf("c08r%d:k%d", i, k))
				if err != nil || got != fmt.Sprint(want) {
					m.Violate("C08:period-race:counter!=takes", desc, "window %s key k%d: %d takes were answered, the counter key holds %q (err %v)", win, k, want, got, err)
					return false
				}
			}
			return true
		}
		w12 := append(append([]c08PObs{}, w1...), w2...)
		ok := !dup && check("1(w1+w2)", w12) && counter("1(w1+w2)", w12)
		overs := 0
		if ok {
			mr.FastForward(time.Millisecond)
			w3 := wave(2)
			ok = !dup && check("2(w3)", w3) && counter("2(w3)", w3)
			for _, o := range append(w1, append(w2, w3...)...) {
				if o.code == OverQuota {
					overs++
				}
			}
		}
		if ok {
			// digest: the observed completion order of codes in wave 1 (interleaving class)
			sort.Slice(w1, func(a, b int) bool { return w1[a].end < w1[b].end })
			var sb strings.Builder
			for _, o := range w1 {
				fmt.Fprintf(&sb, "%d%d", o.key, o.code)
			}
			m.Case(vk.Digest(period, quota, nkeys, per, sb.String()), overs > 0)
			if m.WantSample() && overs > 0 {
				m.Sample(map[string]any{"case": i, "period": period, "quota": quota, "keys": nkeys, "goroutines": G, "takes": 3 * G * per, "overquota": overs,
					"wave1 completion order (key,code)": c08Trunc(sb.String(), 96)})
			}
		}
		mr.FlushAll()
	}
	c08TooManyErrors(m, rounds)
	if abandoned*2 > rounds {
		m.Inconclusive("%d of %d concurrent rounds could not be judged (script executions != takes)", abandoned, rounds)
	}
}
